package main

// C20 — Universal constructors build what the class constructors and the parser build (structural clauses).

import (
	"fmt"
	"go/ast"
	"go/token"
	"go/types"
	"sort"
	"strings"
)

func init() {
	register(&propInfo{
		ID:      "C20",
		Engines: "typed syntax (type-parameter cases), PATH (definite-zero ordinals), table comparison (element operation per kind vs. the parser), sibling cross-check of the seven dispatch skeletons, SYM (self-fill, see C05)",
		Decided: "D1 where a type switch has a case for one type parameter followed by a case for another that no constraint separates, the first arm itself tests for the second parameter (otherwise, for identical instantiations, every argument lands in the first arm: Association[string,string](k, v) loses v); " +
			"D2 no universal constructor passes a definitely-zero ordinal to the ordinal API; " +
			"D3 the CDCN-source branch of each constructor either hands the converted elements, collected in order, to the class's MakeFromSequence (what the parser does), or applies per element the operation that is order-equivalent to it for that kind (List: AppendValue; Set, Queue: AddValue; Catalog, Map: SetValue; Array: SetValue(i); a Stack's AddValue reverses and is not); " +
			"D4 no constructor fills a queue it created with a capacity independent of the number of values (C05 D2 instance); " +
			"D5 in each constructor every argument-kind variable set by the type switch is tested by exactly one arm of the final switch, that arm passes that very variable to the class constructor, the notation reaches the class accessor, and an arm may exclude the empty value of its kind (len(x) > 0) only where the default arm builds the same empty collection." +
			" Also: an ordered kind is not rebuilt from a Go map in its source branch; queues and stacks are not filled past their capacity.",
		NotDecided: "equality of contents between facade and class constructors for generated data; element conversion failures (.(V) on parsed values); behaviour for several arguments of the same kind.",
		Run:        runC20,
	})
}

func runC20(c *Ctx, r *Rec) {
	info := c.info("module")
	qr := bindQueue(c, r)
	// the universal constructors: exported generic functions with a variadic ...any parameter
	var ctors []*ast.FuncDecl
	for _, fd := range c.allFuncDecls("module") {
		fn := c.funcOf(fd)
		sig := fn.Type().(*types.Signature)
		if fd.Recv == nil && ast.IsExported(fd.Name.Name) && sig.Variadic() && sig.TypeParams().Len() > 0 {
			ctors = append(ctors, fd)
		}
	}
	r.count("universal constructors", len(ctors))

	// ---- D1 coinciding type-parameter cases
	nTS := 0
	for _, fd := range ctors {
		fn := c.funcOf(fd)
		tps := fn.Type().(*types.Signature).TypeParams()
		ast.Inspect(fd.Body, func(x ast.Node) bool {
			ts, ok := x.(*ast.TypeSwitchStmt)
			if !ok {
				return true
			}
			nTS++
			// the switched expression
			var switched ast.Expr
			switch a := ts.Assign.(type) {
			case *ast.AssignStmt:
				if ta, ok := ast.Unparen(a.Rhs[0]).(*ast.TypeAssertExpr); ok {
					switched = ta.X
				}
			case *ast.ExprStmt:
				if ta, ok := ast.Unparen(a.X).(*ast.TypeAssertExpr); ok {
					switched = ta.X
				}
			}
			type tpCase struct {
				tp *types.TypeParam
				cc *ast.CaseClause
			}
			var tpCases []tpCase
			for _, cl := range ts.Body.List {
				cc := cl.(*ast.CaseClause)
				for _, e := range cc.List {
					if t, ok := info.Types[e].Type.(*types.TypeParam); ok {
						tpCases = append(tpCases, tpCase{t, cc})
					}
				}
			}
			for i := 0; i < len(tpCases); i++ {
				for j := i + 1; j < len(tpCases); j++ {
					a, b := tpCases[i], tpCases[j]
					// can the two coincide?  yes unless their constraints have disjoint type sets;
					// for `comparable` and `any` (and any pair of non-union constraints) they can.
					_ = tps
					construct := fmt.Sprintf("%s/case %s,%s", c.fdName(fd), a.tp.Obj().Name(), b.tp.Obj().Name())
					tests := false
					ast.Inspect(a.cc, func(y ast.Node) bool {
						if ta, ok := y.(*ast.TypeAssertExpr); ok && ta.Type != nil {
							if t, ok := info.Types[ta.Type].Type.(*types.TypeParam); ok && t == b.tp {
								if switched == nil || exprStr(ta.X) == exprStr(switched) {
									tests = true
								}
							}
						}
						return true
					})
					// the decision between key and value must not depend on the VALUE of what was seen so far
					valueDep := ""
					ast.Inspect(a.cc, func(y ast.Node) bool {
						is, ok := y.(*ast.IfStmt)
						if !ok {
							return true
						}
						ast.Inspect(is.Cond, func(z ast.Node) bool {
							if id, ok := z.(*ast.Ident); ok {
								if v, ok := info.Uses[id].(*types.Var); ok {
									if tp, ok := v.Type().(*types.TypeParam); ok && (tp == a.tp || tp == b.tp) {
										valueDep = fmt.Sprintf("the %s arm decides between key and value by looking at the value of %s (at %s): an argument equal to the zero value is then mistaken for 'not seen yet' (Association[int,int](0, 7) gets key 7)", a.tp.Obj().Name(), v.Name(), c.pos(is.Cond.Pos()))
									}
								}
							}
							return true
						})
						return true
					})
					if valueDep != "" {
						r.fail("D1-coinciding-type-parameters", construct+"/value-dependence", c.pos(a.cc.Pos()), valueDep)
					}
					r.check(tests, "D1-coinciding-type-parameters", construct, c.pos(a.cc.Pos()),
						fmt.Sprintf("the %s arm itself tests the argument against %s, so identical instantiations still route the second argument", a.tp.Obj().Name(), b.tp.Obj().Name()),
						fmt.Sprintf("case %s precedes case %s and nothing separates the two type parameters: when both are instantiated with the same type every argument matches case %s and case %s is dead (Association[string,string](\"k\", \"v\") gets key \"v\" and an empty value); the first arm must itself test for %s", a.tp.Obj().Name(), b.tp.Obj().Name(), a.tp.Obj().Name(), b.tp.Obj().Name(), b.tp.Obj().Name()))
				}
			}
			return true
		})
	}
	r.count("type switches", nTS)
	r.floor("D1-coinciding-type-parameters", 1)

	// ---- D2 ordinal arguments
	n := 0
	for _, fd := range c.allFuncDecls("module") {
		n += checkOrdinalArgs(c, r, "D2-ordinal-args", info, fd)
	}
	r.count("ordinal call sites", n)
	r.floor("D2-ordinal-args", 1)

	// ---- D4 self fill
	if qr != nil {
		for _, fd := range c.allFuncDecls("module") {
			checkSelfFill(c, r, info, fd, qr)
		}
	}

	// ---- D3 / D5 per constructor
	direct := map[string]map[string]bool{
		"List": {"AppendValue": true}, "Set": {"AddValue": true}, "Queue": {"AddValue": true},
		"Catalog": {"SetValue": true}, "Map": {"SetValue": true}, "Array": {"SetValue": true}, "Stack": {},
	}
	for _, fd := range ctors {
		kind := fd.Name.Name
		if _, ok := direct[kind]; !ok {
			continue
		}
		checkCtorSkeleton(c, r, info, fd, kind, direct[kind])
	}
	r.floor("D3-source-branch", 7)
	r.floor("D5-dispatch-skeleton", 7)
}

func checkCtorSkeleton(c *Ctx, r *Rec, info *types.Info, fd *ast.FuncDecl, kind string, direct map[string]bool) {
	// kind variables: locals assigned in the argument type switch
	kindVars := map[types.Object]bool{}
	var notation types.Object
	ast.Inspect(fd.Body, func(x ast.Node) bool {
		if ts, ok := x.(*ast.TypeSwitchStmt); ok {
			ast.Inspect(ts, func(y ast.Node) bool {
				if as, ok := y.(*ast.AssignStmt); ok && as.Tok == token.ASSIGN && len(as.Lhs) == 1 {
					if o := identObj(info, as.Lhs[0]); o != nil {
						if n := derefNamed(o.Type()); n != nil && n.Obj().Name() == "NotationLike" {
							notation = o
						} else {
							kindVars[o] = true
						}
					}
				}
				return true
			})
		}
		return true
	})
	// the final tagless switch at the top level of the function
	var final *ast.SwitchStmt
	for _, s := range fd.Body.List {
		if sw, ok := s.(*ast.SwitchStmt); ok && sw.Tag == nil {
			final = sw
		}
	}
	construct := c.fdName(fd)
	if final == nil || len(kindVars) == 0 {
		r.skip("D5-dispatch-skeleton", construct, c.pos(fd.Pos()), "the constructor is not `type switch over the arguments; tagless switch over the kinds found`: the skeleton rules are bound to that design")
		r.skip("D3-source-branch", construct, c.pos(fd.Pos()), "no dispatch skeleton to find the source arm in")
		return
	}
	// the class variable:  class := col.X[...](notation)
	var classObj types.Object
	okNotation := false
	ast.Inspect(fd.Body, func(x ast.Node) bool {
		if lhs, rhs, ok := multiDef(x); ok && len(lhs) == 1 {
			if call, ok := ast.Unparen(rhs).(*ast.CallExpr); ok {
				if cf := calleeOf(info, call); cf != nil && c.roleOf(cf.Pkg()) == "collection" && cf.Name() == kind {
					classObj = identObj(info, lhs[0])
					if len(call.Args) == 1 && notation != nil && isObj(info, call.Args[0], notation) {
						okNotation = true
					}
				}
			}
		}
		return true
	})
	var viol []string
	if classObj == nil {
		viol = append(viol, "the class is not obtained through collection."+kind)
	} else if !okNotation {
		viol = append(viol, "the notation argument does not reach the class accessor")
	}
	// result variable
	var resultObj types.Object
	inspectNoLit(fd.Body, func(x ast.Node) bool {
		if rs, ok := x.(*ast.ReturnStmt); ok && len(rs.Results) == 1 {
			resultObj = identObj(info, rs.Results[0])
		}
		return true
	})
	tested := map[types.Object]int{}
	var defaultArm *ast.CaseClause
	var sourceArm *ast.CaseClause
	for _, cl := range final.Body.List {
		cc := cl.(*ast.CaseClause)
		if cc.List == nil {
			defaultArm = cc
			continue
		}
		var guardVars []types.Object
		ast.Inspect(cc.List[0], func(y ast.Node) bool {
			if id, ok := y.(*ast.Ident); ok && kindVars[info.Uses[id]] {
				guardVars = append(guardVars, info.Uses[id])
			}
			return true
		})
		for _, gv := range guardVars {
			tested[gv]++
		}
		if len(guardVars) == 1 && isStringType(guardVars[0].Type()) {
			sourceArm = cc
			continue
		}
		// the arm passes the guard variable to the class constructor
		passes := false
		for _, s := range cc.Body {
			ast.Inspect(s, func(y ast.Node) bool {
				if rx, _, call, ok := methodCall(y); ok && classObj != nil && isObj(info, rx, classObj) {
					got := map[types.Object]bool{}
					for _, a := range call.Args {
						ast.Inspect(a, func(z ast.Node) bool {
							if id, ok := z.(*ast.Ident); ok && kindVars[info.Uses[id]] {
								got[info.Uses[id]] = true
							}
							return true
						})
					}
					if len(got) == len(guardVars) {
						passes = true
						for _, gv := range guardVars {
							if !got[gv] {
								passes = false
							}
						}
					}
				}
				return true
			})
		}
		if !passes {
			viol = append(viol, fmt.Sprintf("the arm guarded by `%s` does not pass the variable it tests to a class constructor", exprStr(cc.List[0])))
		}
	}
	var kvs []string
	for kv := range kindVars {
		if tested[kv] != 1 {
			kvs = append(kvs, fmt.Sprintf("%s (tested by %d arms)", kv.Name(), tested[kv]))
		}
	}
	sort.Strings(kvs)
	if len(kvs) > 0 {
		viol = append(viol, "argument kinds not tested by exactly one arm of the final switch: "+strings.Join(kvs, ", "))
	}
	// emptiness guards vs. the default arm
	defaultMakesEmpty := false
	if defaultArm != nil {
		for _, s := range defaultArm.Body {
			ast.Inspect(s, func(y ast.Node) bool {
				if rx, mname, call, ok := methodCall(y); ok && classObj != nil && isObj(info, rx, classObj) && mname == "Make" && len(call.Args) == 0 {
					defaultMakesEmpty = true
				}
				return true
			})
		}
	}
	for _, cl := range final.Body.List {
		cc := cl.(*ast.CaseClause)
		if cc.List == nil {
			continue
		}
		be, ok := ast.Unparen(cc.List[0]).(*ast.BinaryExpr)
		if !ok {
			continue
		}
		if call, ok := ast.Unparen(be.X).(*ast.CallExpr); ok && isBuiltinCall(info, call, "len") {
			cst := ""
			if tv := info.Types[be.Y]; tv.Value != nil {
				cst = tv.Value.String()
			}
			nonEmpty := (be.Op == token.GTR && cst == "0") || (be.Op == token.GEQ && cst == "1") || (be.Op == token.NEQ && cst == "0")
			if o := identObj(info, call.Args[0]); o != nil && kindVars[o] && !nonEmpty {
				viol = append(viol, fmt.Sprintf("the arm for %s is guarded by `%s`, which is not the test for a non-empty value: some non-empty arguments fall through to another arm", o.Name(), exprStr(be)))
			}
		}
		if call, ok := ast.Unparen(be.X).(*ast.CallExpr); ok && isBuiltinCall(info, call, "len") && be.Op == token.GTR {
			if o := identObj(info, call.Args[0]); o != nil && kindVars[o] && !isStringType(o.Type()) && !defaultMakesEmpty {
				viol = append(viol, fmt.Sprintf("the arm for %s excludes the empty value (len(%s) > 0) but the default arm does not build the empty collection: %s[...](empty Go value) fails although the class constructor accepts it; the guard must be %s != nil", o.Name(), o.Name(), kind, o.Name()))
			}
		}
	}
	r.check(len(viol) == 0, "D5-dispatch-skeleton", construct, c.pos(fd.Pos()), fmt.Sprintf("%d argument kinds, each tested by one arm that passes it on; notation reaches the class", len(kindVars)), strings.Join(dedup(viol), " | "))

	// ---- D3 source branch
	if sourceArm == nil {
		r.skip("D3-source-branch", construct, c.pos(fd.Pos()), "no arm guarded by the CDCN source string")
		return
	}
	bad := ""
	// an ordered kind must not be rebuilt from a Go map: the order of the source is lost
	if kind != "Map" && kind != "Set" {
		viaMap := ""
		for _, st := range sourceArm.Body {
			ast.Inspect(st, func(y ast.Node) bool {
				call, ok := y.(*ast.CallExpr)
				if !ok {
					return true
				}
				if _, mname, _, ok := methodCall(call); ok && mname == "MakeFromMap" {
					viaMap = "the parsed associations are handed to MakeFromMap"
				}
				if t := info.TypeOf(call); t != nil {
					if _, isMap := t.Underlying().(*types.Map); isMap {
						if cf := calleeOf(info, call); cf != nil && c.declOf(cf) != nil {
							viaMap = "the parsed items are converted into a Go map by " + cf.Name()
						}
					}
				}
				return true
			})
		}
		if viaMap != "" {
			r.fail("D3-source-branch", construct, c.pos(sourceArm.Pos()), viaMap+": a Go map has no order, so "+kind+"(\"...source...\") lists its items in a random order instead of the order of the source (the parser keeps that order)")
			return
		}
	}
	var loop *ast.ForStmt
	for _, s := range sourceArm.Body {
		inspectNoLit(s, func(y ast.Node) bool {
			if fs, ok := y.(*ast.ForStmt); ok && loop == nil {
				loop = fs
			}
			return true
		})
	}
	parses := false
	for _, s := range sourceArm.Body {
		ast.Inspect(s, func(y ast.Node) bool {
			if _, mname, _, ok := methodCall(y); ok && mname == "ParseSource" {
				parses = true
			}
			return true
		})
	}
	switch {
	case !parses:
		bad = "skip: the source branch does not call ParseSource itself"
	case loop == nil:
		// the conversion may live in a helper: it must fold the parsed items, in order, into a list
		bad = "skip: the source branch has no loop over the parsed items and no helper that is recognised as an in-order conversion"
		for _, s := range sourceArm.Body {
			ast.Inspect(s, func(y ast.Node) bool {
				call, ok := y.(*ast.CallExpr)
				if !ok {
					return true
				}
				cf := calleeOf(info, call)
				if cf == nil || cf.Exported() {
					return true
				}
				hd := c.declOf(cf.Origin())
				if hd == nil || hd.Body == nil {
					return true
				}
				seq, why := segmentsOf(c, c.infoFor(hd), hd)
				if why != "" {
					return true
				}
				if len(seq) == 1 && strings.HasPrefix(seq[0], "p") && !strings.HasSuffix(seq[0], "?") {
					bad = ""
				} else {
					bad = fmt.Sprintf("the helper %s that converts the parsed items builds its result from the segments %v: not every parsed item exactly once, in order", cf.Name(), seq)
				}
				return true
			})
		}
	default:
		// the element operation in the loop
		var opRecv types.Object
		var opName string
		inspectNoLit(loop.Body, func(y ast.Node) bool {
			if rx, mname, _, ok := methodCall(y); ok && (strings.HasSuffix(mname, "Value") || strings.HasSuffix(mname, "Values")) && (strings.HasPrefix(mname, "Add") || strings.HasPrefix(mname, "Append") || strings.HasPrefix(mname, "Set") || strings.HasPrefix(mname, "Insert")) {
				if o := identObj(info, rx); o != nil {
					opRecv, opName = o, mname
				}
			}
			return true
		})
		switch {
		case opRecv == nil:
			bad = "skip: no element operation in the loop over the parsed items"
		case opRecv == resultObj:
			if !direct[opName] {
				bad = fmt.Sprintf("the parsed items are applied one by one with %s, which for a %s does not yield the order the parser builds (the parser hands the sequence to MakeFromSequence; %s(\"[1, 2, 3](%s)\") comes out as [3 2 1])", opName, kind, kind, kind)
			}
		default:
			// collected into a local list and handed to MakeFromSequence
			handed := false
			for _, s := range sourceArm.Body {
				ast.Inspect(s, func(y ast.Node) bool {
					if rx, mname, call, ok := methodCall(y); ok && classObj != nil && isObj(info, rx, classObj) && mname == "MakeFromSequence" && len(call.Args) == 1 && isObj(info, call.Args[0], opRecv) {
						handed = true
					}
					return true
				})
			}
			if opName != "AppendValue" {
				bad = "the converted items are not collected in order (AppendValue) before they are handed to the class's MakeFromSequence"
			} else if !handed {
				bad = "skip: the list of converted items is not visibly handed to the class's MakeFromSequence"
			}
		}
	}
	r.verdict("D3-source-branch", construct, c.pos(sourceArm.Pos()), "order-equivalent to what the parser builds for this kind", bad)
}
