package main

// C20 — Universal constructors build what the class constructors and the parser build (structural clauses).

import (
	"fmt"
	"go/ast"
	"go/token"
	"go/types"
	"golang.org/x/tools/go/cfg"
	"sort"
	"strings"
)

func init() {
	register(&propInfo{
		ID:      "C20",
		Engines: "typed syntax (type-parameter cases), PATH (definite-zero ordinals), table comparison (element operation per kind vs. the parser), sibling cross-check of the seven dispatch skeletons, SYM (self-fill, see C05)",
		Decided: "D1 where a type switch has a case for one type parameter followed by a case for another that no constraint separates, the first arm itself tests for the second parameter (otherwise, for identical instantiations, every argument lands in the first arm: Association[string,string](k, v) loses v); " +
			"D2 no universal constructor passes a definitely-zero ordinal to the ordinal API; " +
			"D3 the CDCN-source branch of each constructor either hands the converted elements, collected in order, to the class's MakeFromSequence (what the parser does), or applies per element the operation that is order-equivalent to it for that kind (List: AppendValue; Set, Queue: AddValue; Catalog, Map: SetValue; Array: SetValue(i); a Stack's AddValue reverses and is not); " +
			"D4 no constructor fills a queue it created with a capacity independent of the number of values (C05 D2 instance); " +
			"D5 in each constructor every argument-kind variable set by the type switch is tested by exactly one arm of the final switch, that arm passes that very variable to the class constructor, the notation reaches the class accessor, and an arm may exclude the empty value of its kind (len(x) > 0) only where the default arm builds the same empty collection." +
			" Also: D5 is stated on positive evidence (an arm uses the kind it tests; an excluded empty value does not meet a failing default; no recognised kind is ignored; nothing is computed from an argument seen earlier; a collection built from one argument is not replaced by one built without it); an element operation applied by a helper in the source branch yields the parser's order; an ordered kind is not rebuilt from a Go map in its source branch; queues and stacks are not filled past their capacity." +
			" Round 7: a comma-ok assertion does not assign straight into a variable that collects one kind of argument over the rounds of the loop; class constructors the universal constructor delegates to start list and token channel in agreement." +
			" Rounds 8-9: a ranged Go map is not read back by key; value-receiver methods of private structs write no field.",
		NotDecided: "equality of contents between facade and class constructors for generated data; element conversion failures (.(V) on parsed values); behaviour for several arguments of the same kind.",
		Run:        runC20,
	})
}

func runC20(c *Ctx, r *Rec) {
	info := c.info("module")
	qr := bindQueue(c, r)
	// the universal constructors: exported generic functions with a variadic ...any parameter
	var ctors []*ast.FuncDecl
	for _, fd := range c.allFuncDecls("module") {
		fn := c.funcOf(fd)
		sig := fn.Type().(*types.Signature)
		if fd.Recv == nil && ast.IsExported(fd.Name.Name) && sig.Variadic() && sig.TypeParams().Len() > 0 {
			ctors = append(ctors, fd)
		}
	}
	r.count("universal constructors", len(ctors))

	// ---- D1 coinciding type-parameter cases
	nTS := 0
	for _, fd := range ctors {
		fn := c.funcOf(fd)
		tps := fn.Type().(*types.Signature).TypeParams()
		ast.Inspect(fd.Body, func(x ast.Node) bool {
			ts, ok := x.(*ast.TypeSwitchStmt)
			if !ok {
				return true
			}
			nTS++
			// the switched expression
			var switched ast.Expr
			switch a := ts.Assign.(type) {
			case *ast.AssignStmt:
				if ta, ok := ast.Unparen(a.Rhs[0]).(*ast.TypeAssertExpr); ok {
					switched = ta.X
				}
			case *ast.ExprStmt:
				if ta, ok := ast.Unparen(a.X).(*ast.TypeAssertExpr); ok {
					switched = ta.X
				}
			}
			type tpCase struct {
				tp *types.TypeParam
				cc *ast.CaseClause
			}
			var tpCases []tpCase
			for _, cl := range ts.Body.List {
				cc := cl.(*ast.CaseClause)
				for _, e := range cc.List {
					if t, ok := info.Types[e].Type.(*types.TypeParam); ok {
						tpCases = append(tpCases, tpCase{t, cc})
					}
				}
			}
			for i := 0; i < len(tpCases); i++ {
				for j := i + 1; j < len(tpCases); j++ {
					a, b := tpCases[i], tpCases[j]
					// can the two coincide?  yes unless their constraints have disjoint type sets;
					// for `comparable` and `any` (and any pair of non-union constraints) they can.
					_ = tps
					construct := fmt.Sprintf("%s/case %s,%s", c.fdName(fd), a.tp.Obj().Name(), b.tp.Obj().Name())
					tests := false
					ast.Inspect(a.cc, func(y ast.Node) bool {
						if ta, ok := y.(*ast.TypeAssertExpr); ok && ta.Type != nil {
							if t, ok := info.Types[ta.Type].Type.(*types.TypeParam); ok && t == b.tp {
								if switched == nil || exprStr(ta.X) == exprStr(switched) {
									tests = true
								}
							}
						}
						return true
					})
					// the decision between key and value must not depend on the VALUE of what was seen so far
					valueDep := ""
					ast.Inspect(a.cc, func(y ast.Node) bool {
						is, ok := y.(*ast.IfStmt)
						if !ok {
							return true
						}
						ast.Inspect(is.Cond, func(z ast.Node) bool {
							if id, ok := z.(*ast.Ident); ok {
								if v, ok := info.Uses[id].(*types.Var); ok {
									if tp, ok := v.Type().(*types.TypeParam); ok && (tp == a.tp || tp == b.tp) {
										valueDep = fmt.Sprintf("the %s arm decides between key and value by looking at the value of %s (at %s): an argument equal to the zero value is then mistaken for 'not seen yet' (Association[int,int](0, 7) gets key 7)", a.tp.Obj().Name(), v.Name(), c.pos(is.Cond.Pos()))
									}
								}
							}
							return true
						})
						return true
					})
					if valueDep != "" {
						r.fail("D1-coinciding-type-parameters", construct+"/value-dependence", c.pos(a.cc.Pos()), valueDep)
					}
					r.check(tests, "D1-coinciding-type-parameters", construct, c.pos(a.cc.Pos()),
						fmt.Sprintf("the %s arm itself tests the argument against %s, so identical instantiations still route the second argument", a.tp.Obj().Name(), b.tp.Obj().Name()),
						fmt.Sprintf("case %s precedes case %s and nothing separates the two type parameters: when both are instantiated with the same type every argument matches case %s and case %s is dead (Association[string,string](\"k\", \"v\") gets key \"v\" and an empty value); the first arm must itself test for %s", a.tp.Obj().Name(), b.tp.Obj().Name(), a.tp.Obj().Name(), b.tp.Obj().Name(), b.tp.Obj().Name()))
				}
			}
			return true
		})
	}
	r.count("type switches", nTS)
	r.floor("D1-coinciding-type-parameters", 1)

	// ---- D2 ordinal arguments
	n := 0
	for _, fd := range c.allFuncDecls("module") {
		n += checkOrdinalArgs(c, r, "D2-ordinal-args", info, fd)
	}
	r.count("ordinal call sites", n)
	r.floorSoft("D2-ordinal-args", "module/ordinal-call-sites", "no call of an ordinal-indexed method with a computed index in the module package")

	// ---- D4 self fill
	if qr != nil {
		for _, fd := range c.allFuncDecls("module") {
			checkSelfFill(c, r, info, fd, qr)
		}
		// the class constructors the universal constructor delegates to
		checkBornWithValues(c, r, "D2-born-with-values", qr)
	}

	checkMakeLenThenAppend(c, r, "D3-made-length-not-appended-to", c.allFuncDecls("module"))
	shapeLints(c, r, c.allFuncDecls("module"))
	checkCommaOkIntoCollected(c, r, "D5-assertion-keeps-collected", c.allFuncDecls("module"))
	checkNoReadBackOfRangedMap(c, r, "D3-values-from-the-ranged-pairs", c.allFuncDecls("module"))
	for _, sn := range c.allNamed("module") {
		if structOf(sn) != nil {
			checkReceiverWrites(c, r, "D5-receiver-writes-persist", sn)
		}
	}
	// ---- D3 / D5 per constructor
	direct := map[string]map[string]bool{
		"List": {"AppendValue": true}, "Set": {"AddValue": true}, "Queue": {"AddValue": true},
		"Catalog": {"SetValue": true}, "Map": {"SetValue": true}, "Array": {"SetValue": true}, "Stack": {},
	}
	for _, fd := range ctors {
		kind := fd.Name.Name
		if _, ok := direct[kind]; !ok {
			continue
		}
		checkCtorSkeleton(c, r, info, fd, kind, direct[kind])
	}
	r.floor("D3-source-branch", 7)
	r.floor("D5-dispatch-skeleton", 7)
}

func checkCtorSkeleton(c *Ctx, r *Rec, info *types.Info, fd *ast.FuncDecl, kind string, direct map[string]bool) {
	// kind variables: function-level locals that receive an argument inside the loop over the
	// variadic parameter: assigned there, or handed by address to a helper that classifies
	construct := c.fdName(fd)
	kindVars := map[types.Object]bool{}
	var notation types.Object
	var variadic types.Object
	if ps := paramObjs(info, fd); len(ps) > 0 {
		variadic = ps[len(ps)-1]
	}
	var argLoop ast.Stmt
	for _, st := range fd.Body.List {
		switch l := st.(type) {
		case *ast.RangeStmt:
			if variadic != nil && nodeHas(l.X, func(x ast.Node) bool { id, ok := x.(*ast.Ident); return ok && info.Uses[id] == variadic }) {
				argLoop = l
			}
		case *ast.ForStmt:
			if variadic != nil && l.Cond != nil && nodeHas(l.Cond, func(x ast.Node) bool { id, ok := x.(*ast.Ident); return ok && info.Uses[id] == variadic }) {
				argLoop = l
			}
		}
	}
	if argLoop != nil {
		note := func(o types.Object) {
			if o == nil || (o.Pos() >= argLoop.Pos() && o.Pos() <= argLoop.End()) {
				return // declared inside the loop
			}
			if _, isVar := o.(*types.Var); !isVar {
				return
			}
			if n := derefNamed(o.Type()); n != nil && n.Obj().Name() == "NotationLike" {
				notation = o
			} else {
				kindVars[o] = true
			}
		}
		ast.Inspect(argLoop, func(y ast.Node) bool {
			switch z := y.(type) {
			case *ast.AssignStmt:
				if z.Tok == token.ASSIGN {
					for _, l := range z.Lhs {
						if id, ok := ast.Unparen(l).(*ast.Ident); ok {
							note(info.Uses[id])
						}
					}
				}
			case *ast.CallExpr:
				for _, a := range z.Args {
					if u, ok := ast.Unparen(a).(*ast.UnaryExpr); ok && u.Op == token.AND {
						if id, ok := ast.Unparen(u.X).(*ast.Ident); ok {
							note(info.Uses[id])
						}
					}
				}
			}
			return true
		})
		// counters and flags of the loop itself are not argument kinds
		for o := range kindVars {
			if bt, ok := o.Type().Underlying().(*types.Basic); ok && bt.Info()&(types.IsInteger|types.IsBoolean) != 0 && bt.Info()&types.IsUnsigned == 0 {
				delete(kindVars, o)
			}
		}
	}
	// the tagless switches after the argument loop whose guards test the kinds found
	var finals []*ast.SwitchStmt
	if argLoop != nil {
		inspectNoLit(fd.Body, func(x ast.Node) bool {
			if sw, ok := x.(*ast.SwitchStmt); ok && sw.Tag == nil && sw.Pos() > argLoop.End() {
				tests := false
				for _, cl := range sw.Body.List {
					for _, g := range cl.(*ast.CaseClause).List {
						if nodeHas(g, func(y ast.Node) bool { id, ok := y.(*ast.Ident); return ok && kindVars[info.Uses[id]] }) {
							tests = true
						}
					}
				}
				if tests {
					finals = append(finals, sw)
				}
			}
			return true
		})
	}
	var viol []string
	loopRules := func() {
		// the kinds are sorted out independently of one another: what one argument is turned into
		// must not depend on which other arguments have been seen so far (their order is free)
		ast.Inspect(argLoop, func(y ast.Node) bool {
			as, ok := y.(*ast.AssignStmt)
			if !ok || as.Tok != token.ASSIGN {
				return true
			}
			for _, l := range as.Lhs {
				lo := identObj(info, l)
				if lo == nil || !(kindVars[lo] || lo == notation) {
					continue
				}
				for _, rh := range as.Rhs {
					ast.Inspect(rh, func(z ast.Node) bool {
						if id, ok := z.(*ast.Ident); ok {
							if o := info.Uses[id]; o != nil && o != lo && (kindVars[o] || (notation != nil && o == notation)) {
								viol = append(viol, fmt.Sprintf("inside the loop over the arguments %s is computed from %s, which holds whatever argument happened to come earlier: %s(a, b) and %s(b, a) build different collections", lo.Name(), o.Name(), kind, kind))
							}
						}
						return true
					})
				}
			}
			return true
		})
		// a comma-ok assertion straight into the variable that collects a kind assigns the zero
		// value when the argument is of another kind: every later argument that walks past this
		// arm wipes what an earlier argument stored
		{
			var lbody *ast.BlockStmt
			switch l := argLoop.(type) {
			case *ast.RangeStmt:
				lbody = l.Body
			case *ast.ForStmt:
				lbody = l.Body
			}
			if lbody != nil {
				var lg *FG
				ast.Inspect(lbody, func(y ast.Node) bool {
					as, ok := y.(*ast.AssignStmt)
					if !ok || as.Tok != token.ASSIGN || len(as.Lhs) != 2 || len(as.Rhs) != 1 {
						return true
					}
					if _, isTA := ast.Unparen(as.Rhs[0]).(*ast.TypeAssertExpr); !isTA {
						return true
					}
					lo := identObj(info, as.Lhs[0])
					okObj := identObj(info, as.Lhs[1])
					if lo == nil || okObj == nil || !(kindVars[lo] || lo == notation) || (lo.Pos() >= lbody.Pos() && lo.Pos() < lbody.End()) {
						return true
					}
					if lg == nil {
						lg = newFG(info, lbody)
					}
					pt, ok := lg.after(as)
					if !ok {
						return true
					}
					// does the round go on without a failure when the assertion did not hold?
					goesOn, _ := lg.exists(pathQuery{from: pt,
						edgeOK: func(cond ast.Expr, polarity bool) bool {
							if id, ok := ast.Unparen(cond).(*ast.Ident); ok && info.Uses[id] == okObj {
								return !polarity
							}
							return true
						},
						goalExit: func(kind int, b *cfg.Block) bool { return kind != exitPanic }})
					if goesOn {
						viol = append(viol, fmt.Sprintf("the comma-ok assertion at %s assigns straight into %s, which collects one kind of argument over all rounds of the loop: for an argument of another kind it stores the zero value, so what an earlier argument put there is wiped by every later argument that walks past this arm", c.pos(as.Pos()), lo.Name()))
					}
					return true
				})
			}
		}
		// an argument that was recognised and stored does not go on to the failure for unknown
		// argument types in the same round of the loop (an arm of an if-chain that lost its continue)
		{
			var lbody *ast.BlockStmt
			switch l := argLoop.(type) {
			case *ast.RangeStmt:
				lbody = l.Body
			case *ast.ForStmt:
				lbody = l.Body
			}
			if lbody != nil {
				lg := newFG(info, lbody)
				ast.Inspect(lbody, func(y ast.Node) bool {
					as, ok := y.(*ast.AssignStmt)
					if !ok || as.Tok != token.ASSIGN || len(as.Lhs) != 1 {
						return true
					}
					lo := identObj(info, as.Lhs[0])
					if lo == nil || !(kindVars[lo] || lo == notation) {
						return true
					}
					pt, ok := lg.after(as)
					if !ok {
						return true
					}
					reach, w := lg.exists(pathQuery{from: pt,
						goalNode: func(nd ast.Node) bool {
							found := false
							inspectNoLit(nd, func(z ast.Node) bool {
								if call, ok := z.(*ast.CallExpr); ok && noReturnCall(info, call) {
									found = true
								}
								return true
							})
							return found
						}})
					if reach {
						viol = append(viol, fmt.Sprintf("after the argument was recognised and stored in %s at %s the same round of the loop can still reach the failure at %s: %s[...] rejects an argument form it documents", lo.Name(), c.pos(as.Pos()), c.pos(w.Pos()), kind))
					}
					return true
				})
			}
		}
	}
	if len(finals) == 0 && argLoop != nil && len(kindVars) > 0 {
		// no switch over the kinds (an if-chain, early returns): the rules about the argument loop still apply
		loopRules()
		if len(viol) > 0 {
			r.fail("D5-dispatch-skeleton", construct, c.pos(fd.Pos()), strings.Join(dedup(viol), " | "))
		} else {
			r.skip("D5-dispatch-skeleton", construct, c.pos(fd.Pos()), "the kinds found are not dispatched by a tagless switch: only the rules about the argument loop were evaluated (nothing found)")
		}
		r.skip("D3-source-branch", construct, c.pos(fd.Pos()), "no dispatch skeleton to find the source arm in")
		return
	}
	if len(finals) == 0 || len(kindVars) == 0 {
		r.skip("D5-dispatch-skeleton", construct, c.pos(fd.Pos()), "the constructor is not `loop over the arguments that sorts them into kinds; tagless switch over the kinds found`: the skeleton rules are bound to that design")
		r.skip("D3-source-branch", construct, c.pos(fd.Pos()), "no dispatch skeleton to find the source arm in")
		return
	}
	// the class variable:  class := col.X[...](notation)
	var classObj types.Object
	var classCall *ast.CallExpr
	ast.Inspect(fd.Body, func(x ast.Node) bool {
		if lhs, rhs, ok := multiDef(x); ok && len(lhs) == 1 {
			if call, ok := ast.Unparen(rhs).(*ast.CallExpr); ok {
				if cf := calleeOf(info, call); cf != nil && c.roleOf(cf.Pkg()) == "collection" && cf.Name() == kind {
					classObj, classCall = identObj(info, lhs[0]), call
				}
			}
		}
		return true
	})
	switch {
	case classObj == nil:
		r.skip("D5-dispatch-skeleton", construct, c.pos(fd.Pos()), "the class is not bound to a local through collection."+kind)
		r.skip("D3-source-branch", construct, c.pos(fd.Pos()), "no class variable")
		return
	case notation != nil && !(len(classCall.Args) == 1 && isObj(info, classCall.Args[0], notation)):
		viol = append(viol, "the notation argument does not reach the class accessor")
	}
	mentionsKinds := func(nodes []ast.Stmt) map[types.Object]bool {
		got := map[types.Object]bool{}
		for _, s := range nodes {
			ast.Inspect(s, func(z ast.Node) bool {
				if id, ok := z.(*ast.Ident); ok && kindVars[info.Uses[id]] {
					got[info.Uses[id]] = true
				}
				return true
			})
		}
		return got
	}
	var sourceArm *ast.CaseClause
	for _, final := range finals {
		var defaultArm *ast.CaseClause
		for _, cl := range final.Body.List {
			cc := cl.(*ast.CaseClause)
			if cc.List == nil {
				defaultArm = cc
				continue
			}
			var guardVars []types.Object
			ast.Inspect(cc.List[0], func(y ast.Node) bool {
				if id, ok := y.(*ast.Ident); ok && kindVars[info.Uses[id]] {
					guardVars = append(guardVars, info.Uses[id])
				}
				return true
			})
			if len(guardVars) == 1 && isStringType(guardVars[0].Type()) {
				if sourceArm == nil {
					sourceArm = cc
				}
				continue
			}
			if len(guardVars) == 0 {
				continue
			}
			// the arm works with the kind it tests, not with another one
			got := mentionsKinds(cc.Body)
			uses := false
			for _, gv := range guardVars {
				if got[gv] {
					uses = true
				}
			}
			if !uses && len(got) > 0 {
				var others []string
				for o := range got {
					others = append(others, o.Name())
				}
				sort.Strings(others)
				viol = append(viol, fmt.Sprintf("the arm guarded by `%s` does not use the variable it tests but %s: the argument tested is dropped and another one is built from", exprStr(cc.List[0]), strings.Join(others, ", ")))
			}
		}
		// emptiness guards: when an arm excludes the empty value, what remains must not be a failure
		defaultFails := false
		if defaultArm != nil {
			for _, s := range defaultArm.Body {
				ast.Inspect(s, func(y ast.Node) bool {
					if call, ok := y.(*ast.CallExpr); ok && noReturnCall(info, call) {
						defaultFails = true
					}
					return true
				})
			}
		}
		for _, cl := range final.Body.List {
			cc := cl.(*ast.CaseClause)
			if cc.List == nil {
				continue
			}
			be, ok := ast.Unparen(cc.List[0]).(*ast.BinaryExpr)
			if !ok {
				continue
			}
			call, ok := ast.Unparen(be.X).(*ast.CallExpr)
			if !ok || !isBuiltinCall(info, call, "len") || len(call.Args) != 1 {
				continue
			}
			o := identObj(info, call.Args[0])
			if o == nil || !kindVars[o] {
				continue
			}
			cst := ""
			if tv := info.Types[be.Y]; tv.Value != nil {
				cst = tv.Value.String()
			}
			nonEmpty := (be.Op == token.GTR && cst == "0") || (be.Op == token.GEQ && cst == "1") || (be.Op == token.NEQ && cst == "0")
			isEmpty := (be.Op == token.EQL && cst == "0") || (be.Op == token.LSS && cst == "1") || (be.Op == token.LEQ && cst == "0")
			if !nonEmpty && !isEmpty {
				viol = append(viol, fmt.Sprintf("the arm for %s is guarded by `%s`, which is not the test for a non-empty value: some non-empty arguments fall through to another arm", o.Name(), exprStr(be)))
			}
			if nonEmpty && !isStringType(o.Type()) && defaultFails {
				viol = append(viol, fmt.Sprintf("the arm for %s excludes the empty value (%s) and the default arm fails: %s[...](empty Go value) fails although the class constructor accepts it; the guard must be %s != nil", o.Name(), exprStr(be), kind, o.Name()))
			}
		}
	}
	loopRules()
	// a collection built from one argument is not thrown away for one built without it
	{
		g := newFG(info, fd.Body)
		type asg struct {
			st   *ast.AssignStmt
			obj  types.Object
			uses map[types.Object]bool
			ctor bool
		}
		var asgs []asg
		inspectNoLit(fd.Body, func(y ast.Node) bool {
			as, ok := y.(*ast.AssignStmt)
			if !ok || len(as.Lhs) != 1 || len(as.Rhs) != 1 || as.Pos() < argLoop.End() {
				return true
			}
			o := identObj(info, as.Lhs[0])
			if o == nil || kindVars[o] || !isCollectionLike(o.Type()) {
				return true
			}
			rx, _, _, isM := methodCall(ast.Unparen(as.Rhs[0]))
			asgs = append(asgs, asg{as, o, mentionsKinds([]ast.Stmt{&ast.ExprStmt{X: as.Rhs[0]}}), isM && isObj(info, rx, classObj)})
			return true
		})
		for _, a := range asgs {
			for _, b := range asgs {
				if a.st == b.st || a.obj != b.obj || !a.ctor || !b.ctor || len(a.uses) == 0 {
					continue
				}
				dropped := ""
				for k := range a.uses {
					if !b.uses[k] {
						dropped = k.Name()
					}
				}
				if dropped == "" {
					continue
				}
				pt, ok := g.after(a.st)
				if !ok {
					continue
				}
				reach, _ := g.exists(pathQuery{from: pt,
					goalNode: func(n ast.Node) bool { return n == ast.Node(b.st) },
					stop: func(n ast.Node) bool {
						return n != ast.Node(b.st) && nodeHas(n, func(z ast.Node) bool { id, ok := z.(*ast.Ident); return ok && info.Uses[id] == a.obj })
					}})
				if reach {
					viol = append(viol, fmt.Sprintf("the collection built from %s at %s is replaced, unused, by one built without it at %s: the %s argument is dropped", dropped, c.pos(a.st.Pos()), c.pos(b.st.Pos()), dropped))
				}
			}
		}
	}
	// a kind that the dispatch recognises by `K != nil` must hold the argument itself: the clone
	// idiom append([]T(nil), x...) turns an empty non-nil Go array into nil
	for _, final := range finals {
		for _, cl := range final.Body.List {
			cc := cl.(*ast.CaseClause)
			for _, g := range cc.List {
				be, ok := ast.Unparen(g).(*ast.BinaryExpr)
				if !ok || be.Op != token.NEQ {
					continue
				}
				ko := identObj(info, be.X)
				if tv, isNil := info.Types[be.Y]; !(isNil && tv.IsNil()) || ko == nil || !kindVars[ko] {
					continue
				}
				if _, isSlice := ko.Type().Underlying().(*types.Slice); !isSlice {
					continue
				}
				ast.Inspect(argLoop, func(y ast.Node) bool {
					as, ok := y.(*ast.AssignStmt)
					if !ok || len(as.Lhs) != 1 || len(as.Rhs) != 1 || identObj(info, as.Lhs[0]) != ko {
						return true
					}
					call, ok := ast.Unparen(as.Rhs[0]).(*ast.CallExpr)
					if !ok || !isBuiltinCall(info, call, "append") || len(call.Args) == 0 {
						return true
					}
					first := ast.Unparen(call.Args[0])
					if conv, ok := first.(*ast.CallExpr); ok && len(conv.Args) == 1 {
						if tv, isT := info.Types[conv.Fun]; isT && tv.IsType() {
							first = ast.Unparen(conv.Args[0])
						}
					}
					if tv, ok := info.Types[first]; ok && tv.IsNil() {
						viol = append(viol, fmt.Sprintf("%s is recognised by `%s` but is assigned a copy made with %s, which is nil for an empty Go array: %s[...](empty Go array) is no longer taken for an array argument", ko.Name(), exprStr(be), exprStr(call), kind))
					}
					return true
				})
			}
		}
	}
	// an argument kind that is sorted out of the arguments but never looked at afterwards is ignored
	after := map[types.Object]bool{}
	for _, st := range fd.Body.List {
		if st.Pos() > argLoop.End() {
			for o := range mentionsKinds([]ast.Stmt{st}) {
				after[o] = true
			}
		}
	}
	var ignored []string
	for kv := range kindVars {
		if !after[kv] {
			ignored = append(ignored, kv.Name())
		}
	}
	sort.Strings(ignored)
	if len(ignored) > 0 {
		viol = append(viol, "argument kinds that are recognised but never used to build the collection: "+strings.Join(ignored, ", "))
	}
	r.check(len(viol) == 0, "D5-dispatch-skeleton", construct, c.pos(fd.Pos()), fmt.Sprintf("%d argument kinds, each used by the arm that tests it; an empty Go value does not fall into a failing default; notation reaches the class", len(kindVars)), strings.Join(dedup(viol), " | "))

	// ---- D3 source branch
	var resultObj types.Object
	inspectNoLit(fd.Body, func(x ast.Node) bool {
		if rs, ok := x.(*ast.ReturnStmt); ok && len(rs.Results) == 1 {
			resultObj = identObj(info, rs.Results[0])
		}
		return true
	})
	if sourceArm == nil {
		r.skip("D3-source-branch", construct, c.pos(fd.Pos()), "no arm guarded by the CDCN source string")
		return
	}
	bad := ""
	// an ordered kind must not be rebuilt from a Go map: the order of the source is lost
	if kind != "Map" && kind != "Set" {
		viaMap := ""
		for _, st := range sourceArm.Body {
			ast.Inspect(st, func(y ast.Node) bool {
				call, ok := y.(*ast.CallExpr)
				if !ok {
					return true
				}
				if _, mname, _, ok := methodCall(call); ok && mname == "MakeFromMap" {
					viaMap = "the parsed associations are handed to MakeFromMap"
				}
				if t := info.TypeOf(call); t != nil {
					if _, isMap := t.Underlying().(*types.Map); isMap {
						if cf := calleeOf(info, call); cf != nil && c.declOf(cf) != nil {
							viaMap = "the parsed items are converted into a Go map by " + cf.Name()
						}
					}
				}
				return true
			})
		}
		if viaMap != "" {
			r.fail("D3-source-branch", construct, c.pos(sourceArm.Pos()), viaMap+": a Go map has no order, so "+kind+"(\"...source...\") lists its items in a random order instead of the order of the source (the parser keeps that order)")
			return
		}
	}
	var loop *ast.ForStmt
	for _, s := range sourceArm.Body {
		inspectNoLit(s, func(y ast.Node) bool {
			if fs, ok := y.(*ast.ForStmt); ok && loop == nil {
				loop = fs
			}
			return true
		})
	}
	parses := false
	for _, s := range sourceArm.Body {
		ast.Inspect(s, func(y ast.Node) bool {
			if _, mname, _, ok := methodCall(y); ok && mname == "ParseSource" {
				parses = true
			}
			return true
		})
	}
	// a helper that is handed the collection being built and applies the parsed items to it
	helperOp, helperName := "", ""
	for _, st := range sourceArm.Body {
		ast.Inspect(st, func(y ast.Node) bool {
			call, ok := y.(*ast.CallExpr)
			if !ok || resultObj == nil {
				return true
			}
			cf := calleeOf(info, call)
			if cf == nil || cf.Exported() {
				return true
			}
			hd := c.declOf(cf.Origin())
			if hd == nil || hd.Body == nil {
				return true
			}
			hinfo := c.infoFor(hd)
			hp := paramObjs(hinfo, hd)
			for ai, a := range call.Args {
				if ai >= len(hp) || !isObj(info, a, resultObj) {
					continue
				}
				for _, l := range loopsIn(hd.Body) {
					inspectNoLit(l, func(z ast.Node) bool {
						if rx, mname, _, ok := methodCall(z); ok && isObj(hinfo, rx, hp[ai]) && (strings.HasSuffix(mname, "Value") || strings.HasSuffix(mname, "Values")) && (strings.HasPrefix(mname, "Add") || strings.HasPrefix(mname, "Append") || strings.HasPrefix(mname, "Set") || strings.HasPrefix(mname, "Insert")) {
							helperOp, helperName = mname, cf.Name()
						}
						return true
					})
				}
			}
			return true
		})
	}
	switch {
	case helperOp != "":
		if !direct[helperOp] {
			bad = fmt.Sprintf("the parsed items are applied one by one with %s (in the helper %s), which for a %s does not yield the order the parser builds (the parser hands the sequence to MakeFromSequence; %s(\"[1, 2, 3](%s)\") comes out as [3 2 1])", helperOp, helperName, kind, kind, kind)
		}
	case !parses:
		bad = "skip: the source branch does not call ParseSource itself"
	case loop == nil:
		// the conversion may live in a helper: it must fold the parsed items, in order, into a list
		bad = "skip: the source branch has no loop over the parsed items and no helper that is recognised as an in-order conversion"
		for _, s := range sourceArm.Body {
			ast.Inspect(s, func(y ast.Node) bool {
				call, ok := y.(*ast.CallExpr)
				if !ok {
					return true
				}
				cf := calleeOf(info, call)
				if cf == nil || cf.Exported() {
					return true
				}
				hd := c.declOf(cf.Origin())
				if hd == nil || hd.Body == nil {
					return true
				}
				seq, why := segmentsOf(c, c.infoFor(hd), hd)
				if why != "" {
					return true
				}
				if len(seq) == 1 && strings.HasPrefix(seq[0], "p") && !strings.HasSuffix(seq[0], "?") {
					bad = ""
				} else {
					bad = fmt.Sprintf("the helper %s that converts the parsed items builds its result from the segments %v: not every parsed item exactly once, in order", cf.Name(), seq)
				}
				return true
			})
		}
	default:
		// the element operation in the loop
		var opRecv types.Object
		var opName string
		inspectNoLit(loop.Body, func(y ast.Node) bool {
			if rx, mname, _, ok := methodCall(y); ok && (strings.HasSuffix(mname, "Value") || strings.HasSuffix(mname, "Values")) && (strings.HasPrefix(mname, "Add") || strings.HasPrefix(mname, "Append") || strings.HasPrefix(mname, "Set") || strings.HasPrefix(mname, "Insert")) {
				if o := identObj(info, rx); o != nil {
					opRecv, opName = o, mname
				}
			}
			return true
		})
		switch {
		case opRecv == nil:
			bad = "skip: no element operation in the loop over the parsed items"
		case opRecv == resultObj:
			if !direct[opName] {
				bad = fmt.Sprintf("the parsed items are applied one by one with %s, which for a %s does not yield the order the parser builds (the parser hands the sequence to MakeFromSequence; %s(\"[1, 2, 3](%s)\") comes out as [3 2 1])", opName, kind, kind, kind)
			}
		default:
			// collected into a local list and handed to MakeFromSequence
			handed := false
			for _, s := range sourceArm.Body {
				ast.Inspect(s, func(y ast.Node) bool {
					if rx, mname, call, ok := methodCall(y); ok && classObj != nil && isObj(info, rx, classObj) && mname == "MakeFromSequence" && len(call.Args) == 1 && isObj(info, call.Args[0], opRecv) {
						handed = true
					}
					return true
				})
			}
			if opName != "AppendValue" {
				bad = "the converted items are not collected in order (AppendValue) before they are handed to the class's MakeFromSequence"
			} else if !handed {
				bad = "skip: the list of converted items is not visibly handed to the class's MakeFromSequence"
			}
		}
	}
	r.verdict("D3-source-branch", construct, c.pos(sourceArm.Pos()), "order-equivalent to what the parser builds for this kind", bad)
}
