package main

// Segment interpreter for the class functions that build a collection out of whole
// operands (List.Concatenate, Catalog.Merge).  A collection variable is abstracted as the
// ordered list of the operands that have been folded into it ("p0", "p1", ...; "p1?" when
// only part of the operand may have been visited).  Private helpers of the repository are
// interpreted in place.  Whatever is outside this vocabulary makes the interpretation give
// up ("skip"): nothing is reported about code the interpreter does not understand.

import (
	"fmt"
	"go/ast"
	"go/constant"
	"go/token"
	"go/types"
	"strings"
)

func constantInt(tv types.TypeAndValue) (int64, bool) {
	if tv.Value == nil || tv.Value.Kind() != constant.Int {
		return 0, false
	}
	return constant.Int64Val(tv.Value)
}

type segInterp struct {
	c       *Ctx
	why     string // reason for giving up
	depth   int
	element map[string]bool // single-element stores: AppendValue, AddValue, SetValue(k,v)
	bulk    map[string]bool // whole-operand stores: AppendValues, AddValues
	makers  map[string]bool // empty constructors
	copiers map[string]bool // constructors that fold their argument
}

// segBuf: a Go slice made in the function, with the operands copied into it at given offsets.
type segBuf struct {
	total  *Lin
	placed []segPlaced
}
type segPlaced struct {
	off *Lin
	op  string
}

type segFrame struct {
	bufs  map[types.Object]*segBuf
	info  *types.Info
	fd    *ast.FuncDecl
	vals  map[types.Object]*[]string // collection variables under construction
	alias map[types.Object]string    // variables that denote a whole operand
	iters map[types.Object]string    // iterator variables -> operand they enumerate
	lists map[types.Object][]string  // slices of operands (literal)
}

func newSegInterp(c *Ctx) *segInterp {
	return &segInterp{c: c,
		element: map[string]bool{"AppendValue": true, "AddValue": true, "SetValue": true},
		bulk:    map[string]bool{"AppendValues": true, "AddValues": true},
		makers:  map[string]bool{"Make": true, "MakeWithCollator": true},
		copiers: map[string]bool{"MakeFromSequence": true, "MakeFromArray": true},
	}
}

func (si *segInterp) giveUp(format string, args ...any) bool {
	if si.why == "" {
		si.why = fmt.Sprintf(format, args...)
	}
	return false
}

// run interprets fd with its parameters bound as given; returns the segments of the returned
// collection (nil, true when the function returns nothing).
func (si *segInterp) run(fr *segFrame) ([]string, bool) {
	var ret []string
	returned := false
	for _, s := range fr.fd.Body.List {
		if returned {
			break
		}
		if rs, ok := s.(*ast.ReturnStmt); ok {
			returned = true
			if len(rs.Results) == 0 {
				// a bare return of a named result
				if res := fr.fd.Type.Results; res != nil && len(res.List) == 1 && len(res.List[0].Names) == 1 {
					v, ok := si.value(fr, res.List[0].Names[0])
					if !ok {
						return nil, false
					}
					ret = v
				}
				continue
			}
			if len(rs.Results) != 1 {
				return nil, si.giveUp("return of several values at %s", si.c.pos(rs.Pos()))
			}
			v, ok := si.value(fr, rs.Results[0])
			if !ok {
				return nil, false
			}
			ret = v
			continue
		}
		if !si.stmt(fr, s) {
			return nil, false
		}
	}
	return ret, true
}

// lenForm: a sum of lengths of operands (len(a)+len(b), a.GetSize()+...) and constants as a linear form.
func (si *segInterp) lenForm(fr *segFrame, e ast.Expr) *Lin {
	e = ast.Unparen(e)
	if tv, ok := fr.info.Types[e]; ok && tv.Value != nil {
		if v, ok := constantInt(tv); ok {
			return linConst(v)
		}
	}
	switch x := e.(type) {
	case *ast.BinaryExpr:
		a, b := si.lenForm(fr, x.X), si.lenForm(fr, x.Y)
		if a == nil || b == nil {
			return nil
		}
		switch x.Op {
		case token.ADD:
			return a.add(b)
		case token.SUB:
			return a.sub(b)
		}
	case *ast.CallExpr:
		if isBuiltinCall(fr.info, x, "len") && len(x.Args) == 1 {
			if a, ok := si.operand(fr, x.Args[0]); ok {
				return linSym("|" + a + "|")
			}
		}
		if rx, mname, _, ok := methodCall(x); ok && mname == "GetSize" {
			if a, ok := si.operand(fr, rx); ok {
				return linSym("|" + a + "|")
			}
		}
		if tv, ok := fr.info.Types[x.Fun]; ok && tv.IsType() && len(x.Args) == 1 {
			return si.lenForm(fr, x.Args[0]) // a conversion
		}
	case *ast.Ident:
		if init := initOfIn(fr.info, fr.fd.Body, x); init != nil {
			return si.lenForm(fr, init)
		}
	}
	return nil
}

// bufSegments: the operands of a buffer in the order of their offsets, when they tile it exactly.
func (si *segInterp) bufSegments(b *segBuf) []string {
	placed := append([]segPlaced{}, b.placed...)
	var out []string
	next := linConst(0)
	for len(placed) > 0 {
		found := -1
		for i, p := range placed {
			if p.off.equal(next) {
				found = i
			}
		}
		if found < 0 {
			// a gap or an overlap: name the offending placement
			for _, p := range placed {
				out = append(out, fmt.Sprintf("%s@offset %v (expected offset %v)", p.op, p.off, next))
			}
			return out
		}
		out = append(out, placed[found].op)
		next = next.add(linSym("|" + placed[found].op + "|"))
		placed = append(placed[:found], placed[found+1:]...)
	}
	if !next.equal(b.total) {
		out = append(out, fmt.Sprintf("length %v (the operands fill %v)", b.total, next))
	}
	return out
}

func (si *segInterp) operand(fr *segFrame, e ast.Expr) (string, bool) {
	// a snapshot of an operand stands for the operand
	if rx, mname, call, ok := methodCall(ast.Unparen(e)); ok && mname == "AsArray" && len(call.Args) == 0 {
		return si.operand(fr, rx)
	}
	if o := identObj(fr.info, ast.Unparen(e)); o != nil {
		if a, ok := fr.alias[o]; ok {
			return a, true
		}
	}
	return "", false
}

// value: segments of a collection-valued expression.
func (si *segInterp) value(fr *segFrame, e ast.Expr) ([]string, bool) {
	e = ast.Unparen(e)
	if u, ok := e.(*ast.UnaryExpr); ok && u.Op == token.AND {
		e = ast.Unparen(u.X)
	}
	if cl, ok := e.(*ast.CompositeLit); ok {
		// a collection literal: the field that holds a built collection or buffer is its content
		for _, el := range cl.Elts {
			v := el
			if kv, ok := el.(*ast.KeyValueExpr); ok {
				v = kv.Value
			}
			if t := fr.info.TypeOf(v); t != nil && (isCollectionLike(t) || isGoContainer(t)) {
				saved := si.why
				if segs, ok := si.value(fr, v); ok {
					return segs, true
				}
				si.why = saved
			}
		}
		return nil, si.giveUp("unsupported literal %s", exprStr(cl))
	}
	if call, ok := e.(*ast.CallExpr); ok && len(call.Args) == 1 {
		if tv, ok := fr.info.Types[call.Fun]; ok && tv.IsType() {
			return si.value(fr, call.Args[0]) // a conversion wraps the same elements
		}
	}
	if o := identObj(fr.info, e); o != nil {
		if b, ok := fr.bufs[o]; ok {
			return si.bufSegments(b), true
		}
		if v, ok := fr.vals[o]; ok {
			return append([]string{}, (*v)...), true
		}
		if a, ok := fr.alias[o]; ok {
			return []string{"alias:" + a}, true
		}
		return nil, si.giveUp("unknown collection variable %s", o.Name())
	}
	if _, mname, call, ok := methodCall(e); ok {
		switch {
		case si.makers[mname]:
			return []string{}, true
		case si.copiers[mname] && len(call.Args) == 1:
			if a, ok := si.operand(fr, call.Args[0]); ok {
				return []string{a}, true
			}
			if v, ok := si.value(fr, call.Args[0]); ok {
				return v, true
			}
			return nil, false
		}
		if v, ok, handled := si.helper(fr, call); handled {
			return v, ok
		}
	}
	return nil, si.giveUp("unsupported expression %s", exprStr(e))
}

// helper interprets a call of a function declared in the repository (not one of the public
// single/bulk operations) with the operand and collection arguments bound to its parameters.
func (si *segInterp) helper(fr *segFrame, call *ast.CallExpr) ([]string, bool, bool) {
	cf := calleeOf(fr.info, call)
	if cf == nil || cf.Exported() {
		return nil, false, false
	}
	hd := si.c.declOf(cf.Origin())
	if hd == nil || hd.Body == nil {
		return nil, false, false
	}
	if si.depth >= 3 {
		return nil, si.giveUp("helper nesting too deep at %s", si.c.pos(call.Pos())), true
	}
	hinfo := si.c.infoFor(hd)
	sub := &segFrame{bufs: map[types.Object]*segBuf{}, info: hinfo, fd: hd, vals: map[types.Object]*[]string{}, alias: map[types.Object]string{}, iters: map[types.Object]string{}, lists: map[types.Object][]string{}}
	hp := paramObjs(hinfo, hd)
	for i, a := range call.Args {
		if i >= len(hp) {
			break
		}
		ao := identObj(fr.info, ast.Unparen(a))
		if ao != nil {
			if al, ok := fr.alias[ao]; ok {
				sub.alias[hp[i]] = al
				continue
			}
			if v, ok := fr.vals[ao]; ok {
				sub.vals[hp[i]] = v
				continue
			}
			if it, ok := fr.iters[ao]; ok {
				sub.iters[hp[i]] = it
				continue
			}
		}
		// X.GetIterator() passed directly
		if rx, mname, _, ok := methodCall(ast.Unparen(a)); ok && mname == "GetIterator" {
			if al, ok := si.operand(fr, rx); ok {
				sub.iters[hp[i]] = al
				continue
			}
		}
	}
	// receiver of a method helper called on a collection under construction
	if rx, _, _, ok := methodCall(call); ok {
		if ro := identObj(fr.info, rx); ro != nil {
			if v, ok := fr.vals[ro]; ok {
				if r := recvObj(hinfo, hd); r != nil {
					sub.vals[r] = v
				}
			}
		}
	}
	si.depth++
	v, ok := si.run(sub)
	si.depth--
	return v, ok, true
}

func (si *segInterp) stmt(fr *segFrame, s ast.Stmt) bool {
	info := fr.info
	switch st := s.(type) {
	case *ast.DeclStmt, *ast.AssignStmt:
		lhs, rhs, ok := multiDefStmt(st)
		if !ok || len(lhs) != 1 {
			// declarations without a value and multi-assignments of non-collections are irrelevant
			if ds, isDecl := st.(*ast.DeclStmt); isDecl {
				_ = ds
				return true
			}
			return si.giveUp("unsupported assignment at %s", si.c.pos(s.Pos()))
		}
		obj := identObj(info, lhs[0])
		if obj == nil {
			return si.giveUp("unsupported assignment target at %s", si.c.pos(s.Pos()))
		}
		r := ast.Unparen(rhs)
		if rx, mname, _, ok := methodCall(r); ok && mname == "GetIterator" {
			if a, ok := si.operand(fr, rx); ok {
				fr.iters[obj] = a
				return true
			}
			return si.giveUp("iterator over something that is not an operand at %s", si.c.pos(s.Pos()))
		}
		if cl, ok := r.(*ast.CompositeLit); ok {
			var items []string
			for _, el := range cl.Elts {
				a, ok := si.operand(fr, el)
				if !ok {
					return si.giveUp("unsupported literal at %s", si.c.pos(s.Pos()))
				}
				items = append(items, a)
			}
			fr.lists[obj] = items
			return true
		}
		if a, ok := si.operand(fr, r); ok {
			fr.alias[obj] = a
			return true
		}
		if call, ok := r.(*ast.CallExpr); ok && isBuiltinCall(info, call, "make") && len(call.Args) >= 2 {
			if total := si.lenForm(fr, call.Args[1]); total != nil {
				fr.bufs[obj] = &segBuf{total: total}
				return true
			}
			return si.giveUp("the length of the slice made at %s is not a sum of operand lengths", si.c.pos(s.Pos()))
		}
		if !isCollectionLike(obj.Type()) {
			// scalars, notations, sizes: irrelevant, unless the initialiser touches a collection under construction
			touches := false
			ast.Inspect(r, func(x ast.Node) bool {
				if id, ok := x.(*ast.Ident); ok {
					if _, ok := fr.vals[info.Uses[id]]; ok {
						touches = true
					}
				}
				return true
			})
			if !touches {
				return true
			}
		}
		v, ok := si.value(fr, r)
		if !ok {
			return false
		}
		if len(v) == 1 && strings.HasPrefix(v[0], "alias:") {
			fr.alias[obj] = strings.TrimPrefix(v[0], "alias:")
			return true
		}
		fr.vals[obj] = &v
		return true
	case *ast.ExprStmt:
		call, ok := ast.Unparen(st.X).(*ast.CallExpr)
		if !ok {
			return si.giveUp("unsupported statement at %s", si.c.pos(s.Pos()))
		}
		if isBuiltinCall(info, call, "copy") && len(call.Args) == 2 {
			dst := ast.Unparen(call.Args[0])
			off := linConst(0)
			if se, ok := dst.(*ast.SliceExpr); ok {
				if se.High != nil {
					return si.giveUp("copy into a bounded window at %s", si.c.pos(s.Pos()))
				}
				if se.Low != nil {
					if off = si.lenForm(fr, se.Low); off == nil {
						return si.giveUp("the offset of the copy at %s is not a sum of operand lengths", si.c.pos(s.Pos()))
					}
				}
				dst = ast.Unparen(se.X)
			}
			b, isBuf := fr.bufs[identObj(info, dst)]
			src, isOp := si.operand(fr, call.Args[1])
			if !isBuf || !isOp {
				return si.giveUp("unsupported copy at %s", si.c.pos(s.Pos()))
			}
			b.placed = append(b.placed, segPlaced{off, src})
			return true
		}
		if rx, mname, _, ok := methodCall(call); ok {
			if ro := identObj(info, rx); ro != nil {
				if v, isVal := fr.vals[ro]; isVal {
					if si.bulk[mname] && len(call.Args) == 1 {
						if a, ok := si.operand(fr, call.Args[0]); ok {
							*v = append(*v, a)
							return true
						}
						if w, ok := si.value(fr, call.Args[0]); ok {
							*v = append(*v, w...)
							return true
						}
						return false
					}
					if _, _, handled := si.helper(fr, call); handled {
						return si.why == ""
					}
					return si.giveUp("unsupported operation %s on the collection under construction at %s", mname, si.c.pos(s.Pos()))
				}
			}
		}
		if _, ok, handled := si.helper(fr, call); handled {
			return ok
		}
		// a call that does not involve a collection under construction or an operand
		involved := false
		ast.Inspect(call, func(x ast.Node) bool {
			if id, ok := x.(*ast.Ident); ok {
				o := info.Uses[id]
				if _, ok := fr.vals[o]; ok {
					involved = true
				}
				if _, ok := fr.alias[o]; ok {
					involved = true
				}
			}
			return true
		})
		if involved {
			return si.giveUp("unsupported call at %s", si.c.pos(s.Pos()))
		}
		return true
	case *ast.ForStmt:
		if st.Init != nil && !si.stmt(fr, st.Init) {
			return false
		}
		if st.Cond == nil {
			return si.giveUp("loop without condition at %s", si.c.pos(s.Pos()))
		}
		it := findIterCond(info, st.Cond, "HasNext")
		src, known := fr.iters[it]
		if it == nil || !known {
			return si.giveUp("loop at %s is not over an operand's iterator", si.c.pos(s.Pos()))
		}
		_, complaint := coveringLoop(si.c, info, st)
		return si.foldBody(fr, st.Body, it, nil, src, complaint != "")
	case *ast.RangeStmt:
		// over a literal list of operands: unrolled
		x := ast.Unparen(st.X)
		var items []string
		unroll := false
		if cl, ok := x.(*ast.CompositeLit); ok {
			unroll = true
			for _, el := range cl.Elts {
				a, ok := si.operand(fr, el)
				if !ok {
					return si.giveUp("unsupported literal at %s", si.c.pos(s.Pos()))
				}
				items = append(items, a)
			}
		} else if o := identObj(info, x); o != nil {
			if l, ok := fr.lists[o]; ok {
				unroll, items = true, l
			}
		}
		if unroll {
			vo := identObj(info, st.Value)
			for _, item := range items {
				if vo != nil {
					fr.alias[vo] = item
				}
				for _, bs := range st.Body.List {
					if !si.stmt(fr, bs) {
						return false
					}
				}
			}
			return true
		}
		// over an operand's elements
		src := ""
		if a, ok := si.operand(fr, x); ok {
			src = a
		} else if rx, mname, _, ok := methodCall(x); ok && mname == "AsArray" {
			if a, ok := si.operand(fr, rx); ok {
				src = a
			}
		}
		if src == "" {
			return si.giveUp("range at %s is not over an operand", si.c.pos(s.Pos()))
		}
		_, complaint := coveringLoop(si.c, info, st)
		return si.foldBody(fr, st.Body, nil, st, src, complaint != "")
	}
	return si.giveUp("unsupported statement %T at %s", s, si.c.pos(s.Pos()))
}

// foldBody: the loop body stores the visited element into exactly one collection under
// construction, unconditionally.
func (si *segInterp) foldBody(fr *segFrame, body *ast.BlockStmt, it types.Object, rs *ast.RangeStmt, src string, partial bool) bool {
	info := fr.info
	var elem, keyV, valV types.Object
	if rs != nil {
		keyV, valV = identObj(info, rs.Key), identObj(info, rs.Value)
		elem = valV
	}
	derived := func(e ast.Expr) bool {
		found := false
		var walk func(e ast.Expr, depth int)
		walk = func(e ast.Expr, depth int) {
			ast.Inspect(e, func(x ast.Node) bool {
				if it != nil && methodCallOn(info, x, it, "GetNext") {
					found = true
				}
				if id, ok := x.(*ast.Ident); ok {
					o := info.Uses[id]
					if o != nil && (o == elem || (keyV != nil && o == keyV) || (valV != nil && o == valV)) {
						found = true
					} else if depth < 3 {
						if init := initOfIn(info, body, id); init != nil {
							walk(init, depth+1)
						}
					}
				}
				return true
			})
		}
		walk(e, 0)
		return found
	}
	stored := 0
	for _, bs := range body.List {
		if lhs, rhs, ok := multiDefStmt(bs); ok && len(lhs) >= 1 {
			if it != nil && methodCallOn(info, ast.Unparen(rhs), it, "GetNext") {
				elem = identObj(info, lhs[0])
			}
			// locals derived from the element
			touches := false
			ast.Inspect(rhs, func(x ast.Node) bool {
				if id, ok := x.(*ast.Ident); ok {
					if _, ok := fr.vals[info.Uses[id]]; ok {
						touches = true
					}
				}
				return true
			})
			if touches {
				return si.giveUp("the loop body reads the collection under construction at %s", si.c.pos(bs.Pos()))
			}
			continue
		}
		es, ok := bs.(*ast.ExprStmt)
		if !ok {
			return si.giveUp("unsupported loop statement at %s", si.c.pos(bs.Pos()))
		}
		rx, mname, call, ok := methodCall(es.X)
		if !ok {
			return si.giveUp("unsupported loop statement at %s", si.c.pos(bs.Pos()))
		}
		ro := identObj(info, rx)
		v, isVal := fr.vals[ro]
		if !isVal || !si.element[mname] {
			return si.giveUp("unsupported loop statement at %s", si.c.pos(bs.Pos()))
		}
		for _, a := range call.Args {
			if !derived(a) {
				return si.giveUp("the element stored at %s is not the visited one", si.c.pos(bs.Pos()))
			}
		}
		if mname == "SetValue" && len(call.Args) == 2 {
			// key and value of the same visited association (or the ranged map entry)
			kSrc, vSrc := resolveInitIn(info, body, call.Args[0]), resolveInitIn(info, body, call.Args[1])
			_, kn, _, ok1 := methodCall(kSrc)
			_, vn, _, ok2 := methodCall(vSrc)
			assoc := ok1 && ok2 && kn == "GetKey" && vn == "GetValue"
			ranged := keyV != nil && valV != nil && isObj(info, kSrc, keyV) && isObj(info, vSrc, valV)
			if !assoc && !ranged {
				return si.giveUp("the entry stored at %s is not (key, value) of the visited entry", si.c.pos(bs.Pos()))
			}
		}
		seg := src
		if partial {
			seg += "?"
		}
		*v = append(*v, seg)
		stored++
	}
	if stored != 1 {
		return si.giveUp("the loop body stores %d times", stored)
	}
	return true
}

// segmentsOf interprets a class function of operand parameters and returns the segments of its result.
func segmentsOf(c *Ctx, info *types.Info, fd *ast.FuncDecl) ([]string, string) {
	si := newSegInterp(c)
	fr := &segFrame{bufs: map[types.Object]*segBuf{}, info: info, fd: fd, vals: map[types.Object]*[]string{}, alias: map[types.Object]string{}, iters: map[types.Object]string{}, lists: map[types.Object][]string{}}
	for i, p := range paramObjs(info, fd) {
		fr.alias[p] = fmt.Sprintf("p%d", i)
	}
	v, ok := si.run(fr)
	if !ok {
		return nil, si.why
	}
	return v, ""
}
