package main

// A normal form for state that was moved into embedded private structs.  When the fields of a
// type are split over two private structs that the type embeds ("one for the data, one for the
// synchronisation"), every step of a public method becomes a call of a tiny promoted helper:
//
//	v.enter(); v.store(value); v.leave(); v.announce()
//	func (g *gate_) enter() { g.mutex_.Lock() }
//
// To Go this is the same program as the one with the helper bodies written out, and the rules
// read it as that: calls of such helpers (unexported methods of an unexported struct type that
// another struct type of the package embeds, whose body is at most three simple statements, or
// one return of one expression) are replaced by their bodies, with the receiver and the
// parameters replaced by the caller's expressions.  The copies keep the type information of the
// originals and carry the position of the call.  The helpers themselves stay what they are.

import (
	"go/ast"
	"go/token"
	"go/types"

	"golang.org/x/tools/go/ast/astutil"
)

type inliner struct {
	info  *types.Info
	subst map[types.Object]ast.Expr
	pos   token.Pos
	end   token.Pos
	ok    bool
}

func (in *inliner) expr(e ast.Expr) ast.Expr {
	if e == nil {
		return nil
	}
	var out ast.Expr
	switch x := e.(type) {
	case *ast.Ident:
		if o := in.info.Uses[x]; o != nil {
			if rep, ok := in.subst[o]; ok {
				saved := in.subst
				in.subst = nil // the caller's expression is copied as it is
				out = in.expr(rep)
				in.subst = saved
				return out
			}
		}
		n := &ast.Ident{NamePos: in.pos, Name: x.Name, Obj: x.Obj}
		if o := in.info.Uses[x]; o != nil {
			in.info.Uses[n] = o
		}
		if o := in.info.Defs[x]; o != nil {
			in.ok = false // a definition inside a helper: not copied
		}
		out = n
	case *ast.BasicLit:
		out = &ast.BasicLit{ValuePos: in.pos, Kind: x.Kind, Value: x.Value}
	case *ast.ParenExpr:
		out = &ast.ParenExpr{Lparen: in.pos, X: in.expr(x.X), Rparen: in.end}
	case *ast.SelectorExpr:
		sel := &ast.Ident{NamePos: in.pos, Name: x.Sel.Name}
		if o := in.info.Uses[x.Sel]; o != nil {
			in.info.Uses[sel] = o
		}
		n := &ast.SelectorExpr{X: in.expr(x.X), Sel: sel}
		if s, ok := in.info.Selections[x]; ok {
			in.info.Selections[n] = s
		}
		out = n
	case *ast.StarExpr:
		out = &ast.StarExpr{Star: in.pos, X: in.expr(x.X)}
	case *ast.UnaryExpr:
		out = &ast.UnaryExpr{OpPos: in.pos, Op: x.Op, X: in.expr(x.X)}
	case *ast.BinaryExpr:
		out = &ast.BinaryExpr{X: in.expr(x.X), OpPos: in.pos, Op: x.Op, Y: in.expr(x.Y)}
	case *ast.IndexExpr:
		out = &ast.IndexExpr{X: in.expr(x.X), Lbrack: in.pos, Index: in.expr(x.Index), Rbrack: in.end}
	case *ast.IndexListExpr:
		n := &ast.IndexListExpr{X: in.expr(x.X), Lbrack: in.pos, Rbrack: in.end}
		for _, i := range x.Indices {
			n.Indices = append(n.Indices, in.expr(i))
		}
		out = n
	case *ast.SliceExpr:
		out = &ast.SliceExpr{X: in.expr(x.X), Lbrack: in.pos, Low: in.expr(x.Low), High: in.expr(x.High), Max: in.expr(x.Max), Slice3: x.Slice3, Rbrack: in.end}
	case *ast.TypeAssertExpr:
		out = &ast.TypeAssertExpr{X: in.expr(x.X), Lparen: in.pos, Type: in.expr(x.Type), Rparen: in.end}
	case *ast.CallExpr:
		n := &ast.CallExpr{Fun: in.expr(x.Fun), Lparen: in.pos, Ellipsis: x.Ellipsis, Rparen: in.end}
		for _, a := range x.Args {
			n.Args = append(n.Args, in.expr(a))
		}
		out = n
	case *ast.KeyValueExpr:
		out = &ast.KeyValueExpr{Key: in.expr(x.Key), Colon: in.pos, Value: in.expr(x.Value)}
	case *ast.CompositeLit:
		n := &ast.CompositeLit{Type: in.expr(x.Type), Lbrace: in.pos, Rbrace: in.end, Incomplete: x.Incomplete}
		for _, el := range x.Elts {
			n.Elts = append(n.Elts, in.expr(el))
		}
		out = n
	case *ast.ArrayType:
		out = &ast.ArrayType{Lbrack: in.pos, Len: in.expr(x.Len), Elt: in.expr(x.Elt)}
	case *ast.MapType:
		out = &ast.MapType{Map: in.pos, Key: in.expr(x.Key), Value: in.expr(x.Value)}
	case *ast.ChanType:
		out = &ast.ChanType{Begin: in.pos, Arrow: x.Arrow, Dir: x.Dir, Value: in.expr(x.Value)}
	default:
		in.ok = false // function literals, interface and struct types, ...
		return e
	}
	if tv, ok := in.info.Types[e]; ok {
		in.info.Types[out] = tv
	}
	return out
}

func (in *inliner) stmt(s ast.Stmt) ast.Stmt {
	switch x := s.(type) {
	case *ast.ExprStmt:
		return &ast.ExprStmt{X: in.expr(x.X)}
	case *ast.IncDecStmt:
		return &ast.IncDecStmt{X: in.expr(x.X), TokPos: in.pos, Tok: x.Tok}
	case *ast.SendStmt:
		return &ast.SendStmt{Chan: in.expr(x.Chan), Arrow: in.pos, Value: in.expr(x.Value)}
	case *ast.AssignStmt:
		if x.Tok == token.DEFINE {
			in.ok = false
			return s
		}
		n := &ast.AssignStmt{TokPos: in.pos, Tok: x.Tok}
		for _, l := range x.Lhs {
			n.Lhs = append(n.Lhs, in.expr(l))
		}
		for _, r := range x.Rhs {
			n.Rhs = append(n.Rhs, in.expr(r))
		}
		return n
	}
	in.ok = false
	return s
}

// simpleOperand: an expression that can be written again anywhere without changing what is
// evaluated: an identifier, a chain of field selections on one, a constant.
func simpleOperand(info *types.Info, e ast.Expr) bool {
	e = ast.Unparen(e)
	if tv, ok := info.Types[e]; ok && tv.Value != nil {
		return true
	}
	switch x := e.(type) {
	case *ast.Ident:
		return true
	case *ast.SelectorExpr:
		if s, ok := info.Selections[x]; ok && s.Kind() == types.FieldVal {
			return simpleOperand(info, x.X)
		}
	case *ast.UnaryExpr:
		return x.Op == token.AND && simpleOperand(info, x.X)
	}
	return false
}

// inlineEmbeddedHelpers rewrites the bodies of all functions of the loaded packages; it returns
// the number of calls that were replaced.
func inlineEmbeddedHelpers(c *Ctx) int {
	total := 0
	for _, p := range c.All {
		info := p.TypesInfo
		// the private struct types that another struct type of the package embeds
		parts := map[*types.TypeName]bool{}
		scope := p.Types.Scope()
		for _, nm := range scope.Names() {
			tn, ok := scope.Lookup(nm).(*types.TypeName)
			if !ok {
				continue
			}
			st, ok := tn.Type().Underlying().(*types.Struct)
			if !ok {
				continue
			}
			for i := 0; i < st.NumFields(); i++ {
				f := st.Field(i)
				if !f.Embedded() {
					continue
				}
				if en := derefNamed(f.Type()); en != nil && en.Obj().Pkg() == p.Types && !en.Obj().Exported() {
					if _, isStruct := en.Underlying().(*types.Struct); isStruct {
						parts[en.Origin().Obj()] = true
					}
				}
			}
		}
		if len(parts) == 0 {
			continue
		}
		// the helpers
		type helper struct {
			fd       *ast.FuncDecl
			recv     types.Object
			params   []*types.Var
			isResult bool // one return of one expression; otherwise at most three simple statements
		}
		simpleBody := func(fd *ast.FuncDecl) bool {
			if len(fd.Body.List) == 0 || len(fd.Body.List) > 4 {
				return false
			}
			for _, s := range fd.Body.List {
				switch s.(type) {
				case *ast.ExprStmt, *ast.IncDecStmt, *ast.SendStmt, *ast.AssignStmt:
				default:
					return false
				}
			}
			return true
		}
		resultOf := func(fd *ast.FuncDecl) ast.Expr {
			if len(fd.Body.List) == 1 {
				if rs, ok := fd.Body.List[0].(*ast.ReturnStmt); ok && len(rs.Results) == 1 {
					return rs.Results[0]
				}
			}
			return nil
		}
		helpers := map[*types.Func]*helper{}
		for _, f := range p.Syntax {
			for _, d := range f.Decls {
				fd, ok := d.(*ast.FuncDecl)
				if !ok || fd.Recv == nil || fd.Body == nil || ast.IsExported(fd.Name.Name) || len(fd.Recv.List) != 1 || len(fd.Recv.List[0].Names) != 1 {
					continue
				}
				fn, _ := info.Defs[fd.Name].(*types.Func)
				if fn == nil {
					continue
				}
				rn := recvNamed(fn)
				if rn == nil || !parts[rn.Origin().Obj()] {
					continue
				}
				if fn.Type().(*types.Signature).Variadic() || len(fd.Body.List) == 0 || len(fd.Body.List) > 3 {
					continue
				}
				h := &helper{fd: fd, recv: info.Defs[fd.Recv.List[0].Names[0]], params: paramObjs(info, fd)}
				if h.recv == nil {
					continue
				}
				good := true
				if resultOf(fd) != nil {
					h.isResult = true
				} else if !simpleBody(fd) || fn.Type().(*types.Signature).Results().Len() != 0 {
					good = false
				}
				// no function literal, no call of itself
				ast.Inspect(fd.Body, func(x ast.Node) bool {
					switch y := x.(type) {
					case *ast.FuncLit:
						good = false
					case *ast.CallExpr:
						if cf := calleeOf(info, y); cf != nil && cf.Origin() == fn.Origin() {
							good = false
						}
					}
					return good
				})
				if good {
					helpers[fn.Origin()] = h
				}
			}
		}
		if len(helpers) == 0 {
			continue
		}
		// how often a helper's body mentions each of its parameters
		mentions := func(h *helper, o types.Object) int {
			n := 0
			ast.Inspect(h.fd.Body, func(x ast.Node) bool {
				if id, ok := x.(*ast.Ident); ok && info.Uses[id] == o {
					n++
				}
				return true
			})
			return n
		}
		// instantiate: the helper's body for one call, or nil
		prepare := func(call *ast.CallExpr) (*helper, *inliner) {
			fn := calleeOf(info, call)
			if fn == nil {
				return nil, nil
			}
			h := helpers[fn.Origin()]
			if h == nil || len(call.Args) != len(h.params) {
				return nil, nil
			}
			se, ok := ast.Unparen(call.Fun).(*ast.SelectorExpr)
			if !ok || !simpleOperand(info, se.X) {
				return nil, nil
			}
			in := &inliner{info: info, subst: map[types.Object]ast.Expr{h.recv: se.X}, pos: call.Pos(), end: call.End() - 1, ok: true}
			for i, a := range call.Args {
				if !simpleOperand(info, a) && mentions(h, h.params[i]) != 1 {
					return nil, nil
				}
				in.subst[h.params[i]] = a
			}
			// a parameter that the helper assigns to cannot be replaced by the argument
			bad := false
			ast.Inspect(h.fd.Body, func(x ast.Node) bool {
				switch s := x.(type) {
				case *ast.AssignStmt:
					for _, l := range s.Lhs {
						if o := identObj(info, l); o != nil {
							if _, isP := in.subst[o]; isP {
								bad = true
							}
						}
					}
				case *ast.IncDecStmt:
					if o := identObj(info, s.X); o != nil {
						if _, isP := in.subst[o]; isP {
							bad = true
						}
					}
				}
				return true
			})
			if bad {
				return nil, nil
			}
			return h, in
		}
		for round := 0; round < 3; round++ {
			n := 0
			for _, f := range p.Syntax {
				for _, d := range f.Decls {
					fd, ok := d.(*ast.FuncDecl)
					if !ok || fd.Body == nil {
						continue
					}
					astutil.Apply(fd.Body, func(cur *astutil.Cursor) bool {
						switch x := cur.Node().(type) {
						case *ast.ExprStmt:
							call, ok := ast.Unparen(x.X).(*ast.CallExpr)
							if !ok || cur.Index() < 0 {
								return true
							}
							h, in := prepare(call)
							if h == nil {
								return true
							}
							if h.isResult || !simpleBody(h.fd) {
								return false
							}
							var copies []ast.Stmt
							for _, s := range h.fd.Body.List {
								copies = append(copies, in.stmt(s))
							}
							if !in.ok {
								return true
							}
							for _, s := range copies[:len(copies)-1] {
								cur.InsertBefore(s)
							}
							cur.Replace(copies[len(copies)-1])
							n++
							return false
						case *ast.DeferStmt:
							h, in := prepare(x.Call)
							if h == nil {
								return true
							}
							if h.isResult || len(h.fd.Body.List) != 1 {
								return false
							}
							es, ok := h.fd.Body.List[0].(*ast.ExprStmt)
							if !ok {
								return false
							}
							inner, ok := ast.Unparen(es.X).(*ast.CallExpr)
							if !ok {
								return false
							}
							// the operands of a deferred call are evaluated when it is registered: the same holds
							// for the copy only if they are simple
							for _, a := range inner.Args {
								if !simpleOperand(info, a) {
									return false
								}
							}
							cp, _ := in.expr(inner).(*ast.CallExpr)
							if !in.ok || cp == nil {
								return false
							}
							x.Call = cp
							n++
							return false
						case *ast.GoStmt:
							if h, _ := prepare(x.Call); h != nil {
								return false
							}
						case *ast.CallExpr:
							switch cur.Parent().(type) {
							case *ast.GoStmt, *ast.DeferStmt:
								return true
							}
							h, in := prepare(x)
							if h == nil || !h.isResult || resultOf(h.fd) == nil {
								return true
							}
							cp := in.expr(resultOf(h.fd))
							if !in.ok {
								return true
							}
							if tv, ok := info.Types[x]; ok {
								if _, has := info.Types[cp]; !has {
									info.Types[cp] = tv
								}
							}
							cur.Replace(&ast.ParenExpr{Lparen: x.Pos(), X: cp, Rparen: x.End() - 1})
							info.Types[cur.Node().(ast.Expr)] = info.Types[cp]
							n++
							return false
						}
						return true
					}, nil)
				}
			}
			total += n
			if n == 0 {
				break
			}
		}
		// helpers that nothing refers to any more are no part of the program the rules read
		used := map[*types.Func]bool{}
		for _, q := range c.All {
			for _, f := range q.Syntax {
				ast.Inspect(f, func(x ast.Node) bool {
					if id, ok := x.(*ast.Ident); ok {
						if fn, ok := q.TypesInfo.Uses[id].(*types.Func); ok {
							used[fn.Origin()] = true
						}
					}
					return true
				})
			}
		}
		if c.InlinedAway == nil {
			c.InlinedAway = map[*ast.FuncDecl]bool{}
		}
		for fn, h := range helpers {
			if !used[fn] {
				c.InlinedAway[h.fd] = true
			}
		}
	}
	return total
}

// inlineFieldCopies: `var x = v.f` where x is never assigned again, its address is not taken, and
// nothing in the function assigns to the field f: the local is another name for the field ("the
// field is read only once").  Its uses are replaced by the selection, so that the rules that
// look for the field find it.  (A callee that replaces the field between the copy and a use
// would make the two differ; the local copies this normal form is for are taken of fields that
// the function does not change.)
func inlineFieldCopies(c *Ctx) int {
	total := 0
	for _, p := range c.All {
		info := p.TypesInfo
		// fields that are assigned somewhere in the package after construction: a copy of such a
		// field is a snapshot (taken under a lock, say), not another name for it
		mutable := map[*types.Var]bool{}
		for _, f := range p.Syntax {
			ast.Inspect(f, func(x ast.Node) bool {
				mark := func(e ast.Expr) {
					if fl := selectorField(info, e); fl != nil {
						mutable[fl] = true
					}
				}
				switch s := x.(type) {
				case *ast.AssignStmt:
					for _, l := range s.Lhs {
						mark(l)
					}
				case *ast.IncDecStmt:
					mark(s.X)
				case *ast.UnaryExpr:
					if s.Op == token.AND {
						mark(s.X)
					}
				}
				return true
			})
		}
		for _, f := range p.Syntax {
			for _, d := range f.Decls {
				fd, ok := d.(*ast.FuncDecl)
				if !ok || fd.Body == nil || fd.Recv == nil {
					continue
				}
				params := map[types.Object]bool{}
				if o := recvObj(info, fd); o != nil {
					params[o] = true
				}
				for _, po := range paramObjs(info, fd) {
					params[po] = true
				}
				// candidates
				type cand struct {
					obj types.Object
					sel *ast.SelectorExpr
					fld *types.Var
				}
				var cands []cand
				ast.Inspect(fd.Body, func(x ast.Node) bool {
					if _, isLit := x.(*ast.FuncLit); isLit {
						return false
					}
					lhs, rhs, ok := multiDef(x)
					if !ok || len(lhs) != 1 {
						return true
					}
					if as, isAs := x.(*ast.AssignStmt); isAs && as.Tok != token.DEFINE {
						return true
					}
					se, ok := ast.Unparen(rhs).(*ast.SelectorExpr)
					if !ok {
						return true
					}
					fld := selectorField(info, se)
					base := identObj(info, se.X)
					id, isId := lhs[0].(*ast.Ident)
					if fld == nil || base == nil || !params[base] || !isId || info.Defs[id] == nil {
						return true
					}
					cands = append(cands, cand{info.Defs[id], se, fld})
					return true
				})
				if len(cands) == 0 {
					continue
				}
				// disqualify: the local is assigned again or has its address taken; the field (or the
				// parameter it is selected from) is written in the function
				bad := map[types.Object]bool{}
				fieldWritten := map[*types.Var]bool{}
				ast.Inspect(fd.Body, func(x ast.Node) bool {
					mark := func(e ast.Expr) {
						if o := identObj(info, e); o != nil {
							bad[o] = true
						}
						if fl := selectorField(info, e); fl != nil {
							fieldWritten[fl] = true
						}
					}
					switch s := x.(type) {
					case *ast.AssignStmt:
						if s.Tok != token.DEFINE {
							for _, l := range s.Lhs {
								mark(l)
							}
						}
					case *ast.IncDecStmt:
						mark(s.X)
					case *ast.UnaryExpr:
						if s.Op == token.AND {
							mark(s.X)
						}
					case *ast.RangeStmt:
						if s.Tok == token.ASSIGN {
							if s.Key != nil {
								mark(s.Key)
							}
							if s.Value != nil {
								mark(s.Value)
							}
						}
					}
					return true
				})
				// a function with lock regions takes its copies on purpose (inside the region, for use
				// behind it)
				locks := false
				ast.Inspect(fd.Body, func(x ast.Node) bool {
					if _, mname, call, ok := methodCall(x); ok && len(call.Args) == 0 {
						switch mname {
						case "Lock", "Unlock", "RLock", "RUnlock":
							locks = true
						}
					}
					return true
				})
				repl := map[types.Object]*ast.SelectorExpr{}
				for _, cd := range cands {
					if bad[cd.obj] || fieldWritten[cd.fld] || (mutable[cd.fld] && locks) || bad[identObj(info, cd.sel.X)] {
						continue
					}
					repl[cd.obj] = cd.sel
				}
				if len(repl) == 0 {
					continue
				}
				astutil.Apply(fd.Body, func(cur *astutil.Cursor) bool {
					id, ok := cur.Node().(*ast.Ident)
					if !ok {
						return true
					}
					se := repl[info.Uses[id]]
					if se == nil {
						return true
					}
					// not the selector part of x.y, not a key of a composite literal
					switch par := cur.Parent().(type) {
					case *ast.SelectorExpr:
						if par.Sel == id {
							return true
						}
					case *ast.KeyValueExpr:
						if par.Key == ast.Expr(id) {
							if _, inLit := info.Types[par.Key]; !inLit {
								return true
							}
						}
					}
					in := &inliner{info: info, pos: id.Pos(), end: id.End() - 1, ok: true}
					cp := in.expr(se)
					if !in.ok {
						return true
					}
					cur.Replace(cp)
					total++
					return false
				}, nil)
			}
		}
	}
	return total
}
