package main

// A normal form for state that was moved into embedded private structs.  When the fields of a
// type are split over two private structs that the type embeds ("one for the data, one for the
// synchronisation"), every step of a public method becomes a call of a tiny promoted helper:
//
//	v.enter(); v.store(value); v.leave(); v.announce()
//	func (g *gate_) enter() { g.mutex_.Lock() }
//
// To Go this is the same program as the one with the helper bodies written out, and the rules
// read it as that: calls of such helpers (unexported methods of an unexported struct type that
// another struct type of the package embeds, whose body is at most three simple statements, or
// one return of one expression) are replaced by their bodies, with the receiver and the
// parameters replaced by the caller's expressions.  The copies keep the type information of the
// originals and carry the position of the call.  The helpers themselves stay what they are.

import (
	"go/ast"
	"go/token"
	"go/types"

	"golang.org/x/tools/go/ast/astutil"
)

type inliner struct {
	info  *types.Info
	subst map[types.Object]ast.Expr
	pos   token.Pos
	end   token.Pos
	ok    bool
	// moveLits: while an argument of the call is being placed, a function literal is taken as it is
	moveLits bool
}

func (in *inliner) expr(e ast.Expr) ast.Expr {
	if e == nil {
		return nil
	}
	var out ast.Expr
	switch x := e.(type) {
	case *ast.Ident:
		if o := in.info.Uses[x]; o != nil {
			if rep, ok := in.subst[o]; ok {
				saved := in.subst
				in.subst = nil // the caller's expression is copied as it is
				in.moveLits = true
				out = in.expr(rep)
				in.moveLits = false
				in.subst = saved
				return out
			}
		}
		n := &ast.Ident{NamePos: in.pos, Name: x.Name, Obj: x.Obj}
		if o := in.info.Uses[x]; o != nil {
			in.info.Uses[n] = o
		}
		if o := in.info.Defs[x]; o != nil {
			in.ok = false // a definition inside a helper: not copied
		}
		out = n
	case *ast.BasicLit:
		out = &ast.BasicLit{ValuePos: in.pos, Kind: x.Kind, Value: x.Value}
	case *ast.ParenExpr:
		out = &ast.ParenExpr{Lparen: in.pos, X: in.expr(x.X), Rparen: in.end}
	case *ast.SelectorExpr:
		sel := &ast.Ident{NamePos: in.pos, Name: x.Sel.Name}
		if o := in.info.Uses[x.Sel]; o != nil {
			in.info.Uses[sel] = o
		}
		n := &ast.SelectorExpr{X: in.expr(x.X), Sel: sel}
		if s, ok := in.info.Selections[x]; ok {
			in.info.Selections[n] = s
		}
		out = n
	case *ast.StarExpr:
		out = &ast.StarExpr{Star: in.pos, X: in.expr(x.X)}
	case *ast.UnaryExpr:
		out = &ast.UnaryExpr{OpPos: in.pos, Op: x.Op, X: in.expr(x.X)}
	case *ast.BinaryExpr:
		out = &ast.BinaryExpr{X: in.expr(x.X), OpPos: in.pos, Op: x.Op, Y: in.expr(x.Y)}
	case *ast.IndexExpr:
		out = &ast.IndexExpr{X: in.expr(x.X), Lbrack: in.pos, Index: in.expr(x.Index), Rbrack: in.end}
	case *ast.IndexListExpr:
		n := &ast.IndexListExpr{X: in.expr(x.X), Lbrack: in.pos, Rbrack: in.end}
		for _, i := range x.Indices {
			n.Indices = append(n.Indices, in.expr(i))
		}
		out = n
	case *ast.SliceExpr:
		out = &ast.SliceExpr{X: in.expr(x.X), Lbrack: in.pos, Low: in.expr(x.Low), High: in.expr(x.High), Max: in.expr(x.Max), Slice3: x.Slice3, Rbrack: in.end}
	case *ast.TypeAssertExpr:
		out = &ast.TypeAssertExpr{X: in.expr(x.X), Lparen: in.pos, Type: in.expr(x.Type), Rparen: in.end}
	case *ast.CallExpr:
		n := &ast.CallExpr{Fun: in.expr(x.Fun), Lparen: in.pos, Ellipsis: x.Ellipsis, Rparen: in.end}
		for _, a := range x.Args {
			n.Args = append(n.Args, in.expr(a))
		}
		out = n
	case *ast.KeyValueExpr:
		out = &ast.KeyValueExpr{Key: in.expr(x.Key), Colon: in.pos, Value: in.expr(x.Value)}
	case *ast.CompositeLit:
		n := &ast.CompositeLit{Type: in.expr(x.Type), Lbrace: in.pos, Rbrace: in.end, Incomplete: x.Incomplete}
		for _, el := range x.Elts {
			n.Elts = append(n.Elts, in.expr(el))
		}
		out = n
	case *ast.ArrayType:
		out = &ast.ArrayType{Lbrack: in.pos, Len: in.expr(x.Len), Elt: in.expr(x.Elt)}
	case *ast.MapType:
		out = &ast.MapType{Map: in.pos, Key: in.expr(x.Key), Value: in.expr(x.Value)}
	case *ast.ChanType:
		out = &ast.ChanType{Begin: in.pos, Arrow: x.Arrow, Dir: x.Dir, Value: in.expr(x.Value)}
	default:
		if _, isLit := e.(*ast.FuncLit); isLit && in.subst == nil && in.moveLits {
			return e // an argument that the helper mentions once: the literal moves to that place
		}
		in.ok = false // function literals, interface and struct types, ...
		return e
	}
	if tv, ok := in.info.Types[e]; ok {
		in.info.Types[out] = tv
	}
	return out
}

func (in *inliner) stmt(s ast.Stmt) ast.Stmt {
	switch x := s.(type) {
	case *ast.ExprStmt:
		return &ast.ExprStmt{X: in.expr(x.X)}
	case *ast.IncDecStmt:
		return &ast.IncDecStmt{X: in.expr(x.X), TokPos: in.pos, Tok: x.Tok}
	case *ast.SendStmt:
		return &ast.SendStmt{Chan: in.expr(x.Chan), Arrow: in.pos, Value: in.expr(x.Value)}
	case *ast.AssignStmt:
		if x.Tok == token.DEFINE {
			in.ok = false
			return s
		}
		n := &ast.AssignStmt{TokPos: in.pos, Tok: x.Tok}
		for _, l := range x.Lhs {
			n.Lhs = append(n.Lhs, in.expr(l))
		}
		for _, r := range x.Rhs {
			n.Rhs = append(n.Rhs, in.expr(r))
		}
		return n
	}
	in.ok = false
	return s
}

// simpleOperand: an expression that can be written again anywhere without changing what is
// evaluated: an identifier, a chain of field selections on one, a constant.
func simpleOperand(info *types.Info, e ast.Expr) bool {
	e = ast.Unparen(e)
	if tv, ok := info.Types[e]; ok && tv.Value != nil {
		return true
	}
	switch x := e.(type) {
	case *ast.Ident:
		return true
	case *ast.SelectorExpr:
		if s, ok := info.Selections[x]; ok && s.Kind() == types.FieldVal {
			return simpleOperand(info, x.X)
		}
	case *ast.UnaryExpr:
		return x.Op == token.AND && simpleOperand(info, x.X)
	}
	return false
}

// inlineEmbeddedHelpers rewrites the bodies of all functions of the loaded packages; it returns
// the number of calls that were replaced.
func inlineEmbeddedHelpers(c *Ctx) int {
	total := 0
	for _, p := range c.All {
		info := p.TypesInfo
		// the private struct types that another struct type of the package embeds
		parts := map[*types.TypeName]bool{}
		scope := p.Types.Scope()
		for _, nm := range scope.Names() {
			tn, ok := scope.Lookup(nm).(*types.TypeName)
			if !ok {
				continue
			}
			st, ok := tn.Type().Underlying().(*types.Struct)
			if !ok {
				continue
			}
			for i := 0; i < st.NumFields(); i++ {
				f := st.Field(i)
				if !f.Embedded() {
					continue
				}
				if en := derefNamed(f.Type()); en != nil && en.Obj().Pkg() == p.Types && !en.Obj().Exported() {
					if _, isStruct := en.Underlying().(*types.Struct); isStruct {
						parts[en.Origin().Obj()] = true
					}
				}
			}
		}
		// the helpers
		type helper struct {
			fd       *ast.FuncDecl
			recv     types.Object
			params   []*types.Var
			isResult bool // one return of one expression; otherwise at most three simple statements
		}
		simpleBody := func(fd *ast.FuncDecl) bool {
			if len(fd.Body.List) == 0 || len(fd.Body.List) > 4 {
				return false
			}
			for _, s := range fd.Body.List {
				switch s.(type) {
				case *ast.ExprStmt, *ast.IncDecStmt, *ast.SendStmt, *ast.AssignStmt:
				default:
					return false
				}
			}
			return true
		}
		resultOf := func(fd *ast.FuncDecl) ast.Expr {
			if len(fd.Body.List) == 1 {
				if rs, ok := fd.Body.List[0].(*ast.ReturnStmt); ok && len(rs.Results) == 1 {
					return rs.Results[0]
				}
			}
			return nil
		}
		helpers := map[*types.Func]*helper{}
		for _, f := range p.Syntax {
			for _, d := range f.Decls {
				fd, ok := d.(*ast.FuncDecl)
				if !ok || fd.Recv == nil || fd.Body == nil || ast.IsExported(fd.Name.Name) || len(fd.Recv.List) != 1 || len(fd.Recv.List[0].Names) != 1 {
					continue
				}
				fn, _ := info.Defs[fd.Name].(*types.Func)
				if fn == nil {
					continue
				}
				rn := recvNamed(fn)
				if rn == nil {
					continue
				}
				if !parts[rn.Origin().Obj()] {
					// on any type: a private getter (`return v.f` or `return &v.f`) or setter (`v.f = x`)
					// - the style of a programmer who keeps every field behind an accessor
					recvO := info.Defs[fd.Recv.List[0].Names[0]]
					isField := func(e ast.Expr) bool {
						se, ok := ast.Unparen(e).(*ast.SelectorExpr)
						return ok && selectorField(info, se) != nil && identObj(info, se.X) == recvO && recvO != nil
					}
					accessor := false
					if len(fd.Body.List) == 1 {
						switch st := fd.Body.List[0].(type) {
						case *ast.ReturnStmt:
							if len(st.Results) == 1 && len(paramObjs(info, fd)) == 0 {
								r0 := ast.Unparen(st.Results[0])
								if u, ok := r0.(*ast.UnaryExpr); ok && u.Op == token.AND {
									r0 = u.X
								}
								accessor = isField(r0)
							}
						case *ast.AssignStmt:
							if st.Tok == token.ASSIGN && len(st.Lhs) == 1 && len(st.Rhs) == 1 && isField(st.Lhs[0]) {
								ps := paramObjs(info, fd)
								accessor = len(ps) == 1 && identObj(info, st.Rhs[0]) == types.Object(ps[0])
							}
						}
					}
					if !accessor {
						continue
					}
				}
				if fn.Type().(*types.Signature).Variadic() || len(fd.Body.List) == 0 || len(fd.Body.List) > 3 {
					continue
				}
				h := &helper{fd: fd, recv: info.Defs[fd.Recv.List[0].Names[0]], params: paramObjs(info, fd)}
				if h.recv == nil {
					continue
				}
				good := true
				if resultOf(fd) != nil {
					h.isResult = true
				} else if !simpleBody(fd) || fn.Type().(*types.Signature).Results().Len() != 0 {
					good = false
				}
				// no function literal, no call of itself
				ast.Inspect(fd.Body, func(x ast.Node) bool {
					switch y := x.(type) {
					case *ast.FuncLit:
						good = false
					case *ast.CallExpr:
						if cf := calleeOf(info, y); cf != nil && cf.Origin() == fn.Origin() {
							good = false
						}
					}
					return good
				})
				if good {
					helpers[fn.Origin()] = h
				}
			}
		}
		if len(helpers) == 0 {
			continue
		}
		// how often a helper's body mentions each of its parameters
		mentions := func(h *helper, o types.Object) int {
			n := 0
			ast.Inspect(h.fd.Body, func(x ast.Node) bool {
				if id, ok := x.(*ast.Ident); ok && info.Uses[id] == o {
					n++
				}
				return true
			})
			return n
		}
		// instantiate: the helper's body for one call, or nil
		prepare := func(call *ast.CallExpr) (*helper, *inliner) {
			fn := calleeOf(info, call)
			if fn == nil {
				return nil, nil
			}
			h := helpers[fn.Origin()]
			if h == nil || len(call.Args) != len(h.params) {
				return nil, nil
			}
			se, ok := ast.Unparen(call.Fun).(*ast.SelectorExpr)
			if !ok || !simpleOperand(info, se.X) {
				return nil, nil
			}
			in := &inliner{info: info, subst: map[types.Object]ast.Expr{h.recv: se.X}, pos: call.Pos(), end: call.End() - 1, ok: true}
			for i, a := range call.Args {
				if !simpleOperand(info, a) && mentions(h, h.params[i]) != 1 {
					return nil, nil
				}
				// a function literal moves into a setter (`v.f = p`), not into a helper that calls
				// it: the rules follow such helpers as they stand
				if _, isLit := ast.Unparen(a).(*ast.FuncLit); isLit {
					called := false
					ast.Inspect(h.fd.Body, func(x ast.Node) bool {
						if ce, ok := x.(*ast.CallExpr); ok {
							if id, ok := ast.Unparen(ce.Fun).(*ast.Ident); ok && info.Uses[id] == h.params[i] {
								called = true
							}
						}
						return !called
					})
					if called {
						return nil, nil
					}
				}
				in.subst[h.params[i]] = a
			}
			// a parameter that the helper assigns to cannot be replaced by the argument
			bad := false
			ast.Inspect(h.fd.Body, func(x ast.Node) bool {
				switch s := x.(type) {
				case *ast.AssignStmt:
					for _, l := range s.Lhs {
						if o := identObj(info, l); o != nil {
							if _, isP := in.subst[o]; isP {
								bad = true
							}
						}
					}
				case *ast.IncDecStmt:
					if o := identObj(info, s.X); o != nil {
						if _, isP := in.subst[o]; isP {
							bad = true
						}
					}
				}
				return true
			})
			if bad {
				return nil, nil
			}
			return h, in
		}
		for round := 0; round < 3; round++ {
			n := 0
			for _, f := range p.Syntax {
				for _, d := range f.Decls {
					fd, ok := d.(*ast.FuncDecl)
					if !ok || fd.Body == nil {
						continue
					}
					astutil.Apply(fd.Body, func(cur *astutil.Cursor) bool {
						switch x := cur.Node().(type) {
						case *ast.ExprStmt:
							call, ok := ast.Unparen(x.X).(*ast.CallExpr)
							if !ok || cur.Index() < 0 {
								return true
							}
							h, in := prepare(call)
							if h == nil {
								return true
							}
							if h.isResult || !simpleBody(h.fd) {
								return false
							}
							var copies []ast.Stmt
							for _, s := range h.fd.Body.List {
								copies = append(copies, in.stmt(s))
							}
							if !in.ok {
								return true
							}
							for _, s := range copies[:len(copies)-1] {
								cur.InsertBefore(s)
							}
							cur.Replace(copies[len(copies)-1])
							n++
							return false
						case *ast.DeferStmt:
							h, in := prepare(x.Call)
							if h == nil {
								return true
							}
							if h.isResult || len(h.fd.Body.List) != 1 {
								return false
							}
							es, ok := h.fd.Body.List[0].(*ast.ExprStmt)
							if !ok {
								return false
							}
							inner, ok := ast.Unparen(es.X).(*ast.CallExpr)
							if !ok {
								return false
							}
							// the operands of a deferred call are evaluated when it is registered: the same holds
							// for the copy only if they are simple
							for _, a := range inner.Args {
								if !simpleOperand(info, a) {
									return false
								}
							}
							cp, _ := in.expr(inner).(*ast.CallExpr)
							if !in.ok || cp == nil {
								return false
							}
							x.Call = cp
							n++
							return false
						case *ast.GoStmt:
							if h, _ := prepare(x.Call); h != nil {
								return false
							}
						case *ast.CallExpr:
							switch cur.Parent().(type) {
							case *ast.GoStmt, *ast.DeferStmt:
								return true
							}
							h, in := prepare(x)
							if h == nil || !h.isResult || resultOf(h.fd) == nil {
								return true
							}
							res := resultOf(h.fd)
							if u, isAddr := ast.Unparen(res).(*ast.UnaryExpr); isAddr && u.Op == token.AND {
								if ps, isSel := cur.Parent().(*ast.SelectorExpr); isSel && ps.X == ast.Expr(x) {
									res = u.X // getMutex().Lock(): the selection takes the address itself
								}
							}
							cp := in.expr(res)
							if !in.ok {
								return true
							}
							if tv, ok := info.Types[x]; ok {
								if _, has := info.Types[cp]; !has {
									info.Types[cp] = tv
								}
							}
							switch cp.(type) {
							case *ast.SelectorExpr, *ast.Ident, *ast.CallExpr, *ast.IndexExpr:
								cur.Replace(cp) // a primary expression needs no parentheses
							default:
								cur.Replace(&ast.ParenExpr{Lparen: x.Pos(), X: cp, Rparen: x.End() - 1})
							}
							info.Types[cur.Node().(ast.Expr)] = info.Types[cp]
							n++
							return false
						}
						return true
					}, nil)
				}
			}
			total += n
			if n == 0 {
				break
			}
		}
		// helpers that nothing refers to any more are no part of the program the rules read
		used := map[*types.Func]bool{}
		for _, q := range c.All {
			for _, f := range q.Syntax {
				ast.Inspect(f, func(x ast.Node) bool {
					if id, ok := x.(*ast.Ident); ok {
						if fn, ok := q.TypesInfo.Uses[id].(*types.Func); ok {
							used[fn.Origin()] = true
						}
					}
					return true
				})
			}
		}
		if c.InlinedAway == nil {
			c.InlinedAway = map[*ast.FuncDecl]bool{}
		}
		for fn, h := range helpers {
			if !used[fn] {
				c.InlinedAway[h.fd] = true
			}
		}
	}
	return total
}

// inlineFieldCopies: `var x = v.f` where x is never assigned again, its address is not taken, and
// nothing in the function assigns to the field f: the local is another name for the field ("the
// field is read only once").  Its uses are replaced by the selection, so that the rules that
// look for the field find it.  (A callee that replaces the field between the copy and a use
// would make the two differ; the local copies this normal form is for are taken of fields that
// the function does not change.)
func inlineFieldCopies(c *Ctx) int {
	total := 0
	for _, p := range c.All {
		info := p.TypesInfo
		// fields that are assigned somewhere in the package after construction: a copy of such a
		// field is a snapshot (taken under a lock, say), not another name for it
		mutable := map[*types.Var]bool{}
		for _, f := range p.Syntax {
			ast.Inspect(f, func(x ast.Node) bool {
				mark := func(e ast.Expr) {
					if fl := selectorField(info, e); fl != nil {
						mutable[fl] = true
					}
				}
				switch s := x.(type) {
				case *ast.AssignStmt:
					for _, l := range s.Lhs {
						mark(l)
					}
				case *ast.IncDecStmt:
					mark(s.X)
				case *ast.UnaryExpr:
					if s.Op == token.AND {
						mark(s.X)
					}
				}
				return true
			})
		}
		for _, f := range p.Syntax {
			for _, d := range f.Decls {
				fd, ok := d.(*ast.FuncDecl)
				if !ok || fd.Body == nil || fd.Recv == nil {
					continue
				}
				params := map[types.Object]bool{}
				if o := recvObj(info, fd); o != nil {
					params[o] = true
				}
				for _, po := range paramObjs(info, fd) {
					params[po] = true
				}
				// candidates
				type cand struct {
					obj types.Object
					sel *ast.SelectorExpr
					fld *types.Var
				}
				var cands []cand
				assignedOnce := map[types.Object]int{}
				defining := map[*ast.Ident]bool{}
				ownAddr := map[*ast.UnaryExpr]bool{}
				isAddrCopy := map[types.Object]bool{}
				ast.Inspect(fd.Body, func(x ast.Node) bool {
					if _, isLit := x.(*ast.FuncLit); isLit {
						return false
					}
					lhs, rhs, ok := multiDef(x)
					if !ok || len(lhs) != 1 {
						return true
					}
					plainAssign := false
					if as, isAs := x.(*ast.AssignStmt); isAs && as.Tok != token.DEFINE {
						if as.Tok != token.ASSIGN {
							return true
						}
						plainAssign = true // the one assignment of a local whose zero declaration was dropped
					}
					addr := false
					if u, isAddr := ast.Unparen(rhs).(*ast.UnaryExpr); isAddr && u.Op == token.AND {
						// a pointer to a lock of the receiver: m = &v.mutex_; m.Lock()
						if fl := selectorField(info, u.X); fl != nil && isSyncType(fl.Type()) {
							rhs, addr = u.X, true
							ownAddr[u] = true
						}
					}
					se, ok := ast.Unparen(rhs).(*ast.SelectorExpr)
					if !ok {
						return true
					}
					fld := selectorField(info, se)
					base := identObj(info, se.X)
					id, isId := lhs[0].(*ast.Ident)
					if fld == nil || base == nil || !params[base] || !isId {
						return true
					}
					obj := info.Defs[id]
					if plainAssign {
						obj = info.Uses[id]
						if v, isVar := obj.(*types.Var); !isVar || v.IsField() || v.Pkg() == nil || v.Parent() == v.Pkg().Scope() || params[obj] {
							return true
						}
						// a named result is read by every return of the function
						if fd.Type.Results != nil && obj.Pos() >= fd.Type.Results.Pos() && obj.Pos() < fd.Type.Results.End() {
							return true
						}
						defining[id] = true
						assignedOnce[obj]++
					}
					if obj == nil {
						return true
					}
					if addr {
						isAddrCopy[obj] = true
					}
					cands = append(cands, cand{obj, se, fld})
					return true
				})
				if len(cands) == 0 {
					continue
				}
				// disqualify: the local is assigned again or has its address taken; the field (or the
				// parameter it is selected from) is written in the function
				bad := map[types.Object]bool{}
				writes := map[types.Object]int{}
				fieldWritten := map[*types.Var]bool{}
				ast.Inspect(fd.Body, func(x ast.Node) bool {
					mark := func(e ast.Expr) {
						if o := identObj(info, e); o != nil {
							bad[o] = true
						}
						if fl := selectorField(info, e); fl != nil {
							fieldWritten[fl] = true
						}
					}
					switch s := x.(type) {
					case *ast.AssignStmt:
						if s.Tok != token.DEFINE {
							for _, l := range s.Lhs {
								if o := identObj(info, l); o != nil && assignedOnce[o] > 0 {
									writes[o]++
									if fl := selectorField(info, l); fl != nil {
										fieldWritten[fl] = true
									}
									continue
								}
								mark(l)
							}
						}
					case *ast.IncDecStmt:
						mark(s.X)
					case *ast.UnaryExpr:
						if s.Op == token.AND && !ownAddr[s] {
							mark(s.X)
						}
					case *ast.RangeStmt:
						if s.Tok == token.ASSIGN {
							if s.Key != nil {
								mark(s.Key)
							}
							if s.Value != nil {
								mark(s.Value)
							}
						}
					}
					return true
				})
				// a function with lock regions takes its copies on purpose (inside the region, for use
				// behind it)
				locks := false
				ast.Inspect(fd.Body, func(x ast.Node) bool {
					if _, mname, call, ok := methodCall(x); ok && len(call.Args) == 0 {
						switch mname {
						case "Lock", "Unlock", "RLock", "RUnlock":
							locks = true
						}
					}
					return true
				})
				repl := map[types.Object]*ast.SelectorExpr{}
				// a local every assignment of which takes the same field
				sameField := map[types.Object]bool{}
				{
					texts := map[types.Object]map[string]int{}
					for _, cd := range cands {
						if texts[cd.obj] == nil {
							texts[cd.obj] = map[string]int{}
						}
						texts[cd.obj][exprStr(cd.sel)]++
					}
					for o, t := range texts {
						if len(t) == 1 && writes[o] > 1 && (!declaredWithValue(info, fd, o) || usesFollowAssignments(info, fd, o)) {
							for _, n := range t {
								if n == writes[o] {
									sameField[o] = true
								}
							}
						}
					}
				}
				for _, cd := range cands {
					if !sameField[cd.obj] && (writes[cd.obj] > 1 || declaredWithValue(info, fd, cd.obj) && writes[cd.obj] > 0) {
						continue // more than the one assignment that defines it
					}
					if bad[cd.obj] || fieldWritten[cd.fld] || (mutable[cd.fld] && locks && !isAddrCopy[cd.obj]) || bad[identObj(info, cd.sel.X)] {
						continue
					}
					if isAddrCopy[cd.obj] {
						// every use of the pointer is the operand of a method selection
						onlySelected := true
						astutil.Apply(fd.Body, func(cur *astutil.Cursor) bool {
							if id, ok := cur.Node().(*ast.Ident); ok && info.Uses[id] == cd.obj && !defining[id] {
								if ps, isSel := cur.Parent().(*ast.SelectorExpr); !isSel || ps.X != ast.Expr(id) {
									onlySelected = false
								}
							}
							return onlySelected
						}, nil)
						if !onlySelected {
							continue
						}
					}
					repl[cd.obj] = cd.sel
				}
				if len(repl) == 0 {
					continue
				}
				defStmts := map[types.Object][]*ast.AssignStmt{}
				kept := map[types.Object]bool{}
				astutil.Apply(fd.Body, func(cur *astutil.Cursor) bool {
					id, ok := cur.Node().(*ast.Ident)
					if !ok {
						return true
					}
					se := repl[info.Uses[id]]
					if se == nil {
						return true
					}
					if defining[id] {
						// the assignment that stands for the declaration: it becomes the definition
						if as, isAs := cur.Parent().(*ast.AssignStmt); isAs && len(as.Lhs) == 1 && as.Lhs[0] == ast.Expr(id) {
							o := info.Uses[id]
							defStmts[o] = append(defStmts[o], as)
							if !sameField[o] {
								as.Tok = token.DEFINE
								info.Defs[id] = o
								delete(info.Uses, id)
							}
						}
						return true
					}
					// not the selector part of x.y, not a key of a composite literal
					switch par := cur.Parent().(type) {
					case *ast.SelectorExpr:
						if par.Sel == id {
							return true
						}
					case *ast.KeyValueExpr:
						if par.Key == ast.Expr(id) {
							if _, inLit := info.Types[par.Key]; !inLit {
								return true
							}
						}
					}
					in := &inliner{info: info, pos: id.Pos(), end: id.End() - 1, ok: true}
					cp := in.expr(se)
					if !in.ok {
						kept[info.Uses[id]] = true
						return true
					}
					cur.Replace(cp)
					total++
					return false
				}, nil)
				// an assignment whose local is mentioned nowhere any more says nothing
				dead := map[ast.Stmt]bool{}
				for o, sts := range defStmts {
					if kept[o] {
						continue
					}
					left := 0
					ast.Inspect(fd.Body, func(x ast.Node) bool {
						if id, ok := x.(*ast.Ident); ok && info.Uses[id] == o {
							left++
						}
						return true
					})
					n := 0
					if sameField[o] {
						n = len(sts) // their left sides are still uses
					}
					if left == n {
						for _, st := range sts {
							dead[st] = true
						}
					}
				}
				if len(dead) > 0 {
					ast.Inspect(fd.Body, func(x ast.Node) bool {
						fix := func(list []ast.Stmt) []ast.Stmt {
							var out []ast.Stmt
							for _, st := range list {
								if !dead[st] {
									out = append(out, st)
								}
							}
							return out
						}
						switch b := x.(type) {
						case *ast.BlockStmt:
							b.List = fix(b.List)
						case *ast.CaseClause:
							b.Body = fix(b.Body)
						case *ast.CommClause:
							b.Body = fix(b.Body)
						}
						return true
					})
				}
			}
		}
	}
	return total
}

// usesFollowAssignments: the local is declared once (`var x T`, with or without a value) and every
// read of it lies behind an assignment `x = E` that is a member of the same statement list or of
// an enclosing one: the declared value is never read.
func usesFollowAssignments(info *types.Info, fd *ast.FuncDecl, o types.Object) bool {
	ok := true
	var visitList func(list []ast.Stmt, assigned bool)
	var visitNode func(n ast.Node, assigned bool)
	visitNode = func(n ast.Node, assigned bool) {
		ast.Inspect(n, func(y ast.Node) bool {
			if !ok {
				return false
			}
			switch b := y.(type) {
			case *ast.FuncLit:
				if mentionsObj(info, b, o) {
					ok = false
				}
				return false
			case *ast.BlockStmt:
				visitList(b.List, assigned)
				return false
			case *ast.CaseClause:
				for _, e := range b.List {
					visitNode(e, assigned)
				}
				visitList(b.Body, assigned)
				return false
			case *ast.CommClause:
				if b.Comm != nil {
					visitNode(b.Comm, assigned)
				}
				visitList(b.Body, assigned)
				return false
			case *ast.ValueSpec:
				return false
			case *ast.Ident:
				if info.Uses[b] == o && !assigned {
					ok = false
				}
			}
			return true
		})
	}
	visitList = func(list []ast.Stmt, assigned bool) {
		for _, st := range list {
			if as, isAs := st.(*ast.AssignStmt); isAs && as.Tok == token.ASSIGN && len(as.Lhs) == 1 && identObj(info, as.Lhs[0]) == o {
				for _, r := range as.Rhs {
					visitNode(r, assigned)
				}
				assigned = true
				continue
			}
			visitNode(st, assigned)
		}
	}
	visitList(fd.Body.List, false)
	return ok
}

// dropZeroDeclarations: `var x T = <zero>` (or `var x T`) at the head of a function, where the next
// statement of the same list that mentions x assigns to it (`x = E`, `x, ok = f()`) without reading
// it: the declaration carries no information (the style that declares every local at the top of
// the function).  It is taken out of the list, so that the assignment is what defines x for the
// rules that look for "the" definition of a local.
func dropZeroDeclarations(c *Ctx) int {
	total := 0
	for _, p := range c.All {
		info := p.TypesInfo
		isZero := func(e ast.Expr) bool {
			e = ast.Unparen(e)
			if tv, ok := info.Types[e]; ok {
				if tv.IsNil() {
					return true
				}
				if tv.Value != nil {
					switch tv.Value.ExactString() {
					case "0", "false", `""`:
						return true
					}
					return false
				}
			}
			switch x := e.(type) {
			case *ast.StarExpr: // *new(T)
				if call, ok := ast.Unparen(x.X).(*ast.CallExpr); ok && isBuiltinCall(info, call, "new") {
					return true
				}
			case *ast.CompositeLit:
				return len(x.Elts) == 0
			case *ast.CallExpr: // T(0), T(nil)
				if tv, ok := info.Types[x.Fun]; ok && tv.IsType() && len(x.Args) == 1 {
					if av, ok := info.Types[x.Args[0]]; ok && (av.IsNil() || (av.Value != nil && (av.Value.ExactString() == "0" || av.Value.ExactString() == `""` || av.Value.ExactString() == "false"))) {
						return true
					}
				}
			}
			return false
		}
		fix := func(list []ast.Stmt) []ast.Stmt {
			drop := map[int]bool{}
			for i, s := range list {
				ds, ok := s.(*ast.DeclStmt)
				if !ok {
					continue
				}
				gd, ok := ds.Decl.(*ast.GenDecl)
				if !ok || gd.Tok != token.VAR || len(gd.Specs) != 1 {
					continue
				}
				vs := gd.Specs[0].(*ast.ValueSpec)
				if len(vs.Names) != 1 || len(vs.Values) > 1 || (len(vs.Values) == 1 && !isZero(vs.Values[0])) {
					continue
				}
				x := info.Defs[vs.Names[0]]
				if x == nil {
					continue
				}
				for j := i + 1; j < len(list); j++ {
					if !mentionsObj(info, list[j], x) {
						continue
					}
					as, ok := list[j].(*ast.AssignStmt)
					if !ok || as.Tok != token.ASSIGN {
						if soleNestedDefinition(info, list[i+1:], x) {
							drop[i] = true
						}
						break
					}
					onLeft, elsewhere := false, false
					for _, l := range as.Lhs {
						if identObj(info, l) == x {
							onLeft = true
						} else if mentionsObj(info, l, x) {
							elsewhere = true
						}
					}
					for _, r := range as.Rhs {
						if mentionsObj(info, r, x) {
							elsewhere = true
						}
					}
					if onLeft && !elsewhere {
						drop[i] = true
					}
					break
				}
			}
			if len(drop) == 0 {
				return list
			}
			var out []ast.Stmt
			for i, s := range list {
				if !drop[i] {
					out = append(out, s)
				}
			}
			total += len(drop)
			return out
		}
		for _, f := range p.Syntax {
			ast.Inspect(f, func(x ast.Node) bool {
				switch b := x.(type) {
				case *ast.BlockStmt:
					b.List = fix(b.List)
				case *ast.CaseClause:
					b.Body = fix(b.Body)
				case *ast.CommClause:
					b.Body = fix(b.Body)
				}
				return true
			})
		}
	}
	return total
}

// inlineLocalCopies: a local x whose only definition is `x = y` (a statement of a list), where y is
// a local or a parameter of the same type that is never written after its own definition: x is
// another name for y (the result variable of the single-exit style: `result = output; return
// result`).  The uses of x become y and the assignment is taken out.
func inlineLocalCopies(c *Ctx) int {
	total := 0
	for _, p := range c.All {
		info := p.TypesInfo
		for _, f := range p.Syntax {
			for _, d := range f.Decls {
				fd, ok := d.(*ast.FuncDecl)
				if !ok || fd.Body == nil {
					continue
				}
				writes := map[types.Object]int{}
				addrOrOdd := map[types.Object]bool{}
				ast.Inspect(fd.Body, func(x ast.Node) bool {
					switch s := x.(type) {
					case *ast.AssignStmt:
						for _, l := range s.Lhs {
							if o := identObj(info, l); o != nil {
								writes[o]++
							}
						}
					case *ast.ValueSpec:
						for _, nm := range s.Names {
							if o := info.Defs[nm]; o != nil {
								writes[o]++
							}
						}
					case *ast.IncDecStmt:
						if o := identObj(info, s.X); o != nil {
							addrOrOdd[o] = true
						}
					case *ast.UnaryExpr:
						if s.Op == token.AND {
							if o := identObj(info, s.X); o != nil {
								addrOrOdd[o] = true
							}
						}
					case *ast.RangeStmt:
						for _, e := range []ast.Expr{s.Key, s.Value} {
							if e != nil {
								if o := identObj(info, e); o != nil {
									writes[o] += 2
								}
							}
						}
					case *ast.TypeSwitchStmt:
						return true
					}
					return true
				})
				namedResult := func(o types.Object) bool {
					return fd.Type.Results != nil && o.Pos() >= fd.Type.Results.Pos() && o.Pos() < fd.Type.Results.End()
				}
				isParam := map[types.Object]bool{}
				for _, po := range paramObjs(info, fd) {
					isParam[po] = true
				}
				repl := map[types.Object]*ast.Ident{}
				drop := map[ast.Stmt]bool{}
				var scan func(list []ast.Stmt)
				scan = func(list []ast.Stmt) {
					for _, st := range list {
						as, ok := st.(*ast.AssignStmt)
						if !ok || len(as.Lhs) != 1 || len(as.Rhs) != 1 || (as.Tok != token.ASSIGN && as.Tok != token.DEFINE) {
							continue
						}
						xid, ok1 := as.Lhs[0].(*ast.Ident)
						yid, ok2 := ast.Unparen(as.Rhs[0]).(*ast.Ident)
						if !ok1 || !ok2 {
							continue
						}
						xo, yo := identObj(info, xid), info.Uses[yid]
						xv, okx := xo.(*types.Var)
						yv, oky := yo.(*types.Var)
						if !okx || !oky || xv == yv || xv.IsField() || yv.IsField() || xv.Pkg() == nil || yv.Pkg() == nil {
							continue
						}
						if xv.Parent() == xv.Pkg().Scope() || yv.Parent() == yv.Pkg().Scope() || isParam[xo] || namedResult(xo) || namedResult(yo) {
							continue
						}
						if !types.Identical(xv.Type(), yv.Type()) {
							continue
						}
						if writes[xo] != 1 || addrOrOdd[xo] || addrOrOdd[yo] {
							continue
						}
						if isParam[yo] && writes[yo] != 0 || !isParam[yo] && writes[yo] != 1 {
							continue
						}
						if _, chained := repl[yo]; chained {
							continue
						}
						repl[xo] = yid
						drop[st] = true
					}
				}
				ast.Inspect(fd.Body, func(x ast.Node) bool {
					switch b := x.(type) {
					case *ast.BlockStmt:
						scan(b.List)
					case *ast.CaseClause:
						scan(b.Body)
					case *ast.CommClause:
						scan(b.Body)
					}
					return true
				})
				if len(repl) == 0 {
					continue
				}
				ast.Inspect(fd.Body, func(x ast.Node) bool {
					fix := func(list []ast.Stmt) []ast.Stmt {
						var out []ast.Stmt
						for _, st := range list {
							if !drop[st] {
								out = append(out, st)
							}
						}
						return out
					}
					switch b := x.(type) {
					case *ast.BlockStmt:
						b.List = fix(b.List)
					case *ast.CaseClause:
						b.Body = fix(b.Body)
					case *ast.CommClause:
						b.Body = fix(b.Body)
					}
					return true
				})
				astutil.Apply(fd.Body, func(cur *astutil.Cursor) bool {
					id, ok := cur.Node().(*ast.Ident)
					if !ok {
						return true
					}
					y := repl[info.Uses[id]]
					if y == nil {
						return true
					}
					if par, isSel := cur.Parent().(*ast.SelectorExpr); isSel && par.Sel == id {
						return true
					}
					cp := &ast.Ident{NamePos: id.Pos(), Name: y.Name}
					info.Uses[cp] = info.Uses[y]
					if tv, ok := info.Types[y]; ok {
						info.Types[cp] = tv
					}
					cur.Replace(cp)
					total++
					return false
				}, nil)
			}
		}
	}
	return total
}

// threeStepExchanges: `t = a; a = b; b = t` as three consecutive statements of a list, where t is a
// local that is mentioned nowhere else and a and b are variables or cells with call-free indexes:
// the statements become `a, b = b, a`.
func threeStepExchanges(c *Ctx) int {
	total := 0
	for _, p := range c.All {
		info := p.TypesInfo
		for _, f := range p.Syntax {
			for _, d := range f.Decls {
				fd, ok := d.(*ast.FuncDecl)
				if !ok || fd.Body == nil {
					continue
				}
				mentionsOf := func(o types.Object) int {
					n := 0
					ast.Inspect(fd.Body, func(x ast.Node) bool {
						if vs, ok := x.(*ast.ValueSpec); ok {
							for _, v := range vs.Values {
								if mentionsObj(info, v, o) {
									n += 10
								}
							}
							return false
						}
						if id, ok := x.(*ast.Ident); ok && (info.Uses[id] == o || info.Defs[id] == o) {
							n++
						}
						return true
					})
					return n
				}
				place := func(e ast.Expr) bool {
					e = ast.Unparen(e)
					switch x := e.(type) {
					case *ast.Ident:
						v, ok := info.Uses[x].(*types.Var)
						return ok && !v.IsField() && v.Pkg() != nil && v.Parent() != v.Pkg().Scope()
					case *ast.IndexExpr:
						if _, ok := ast.Unparen(x.X).(*ast.Ident); !ok {
							return false
						}
						if tv, ok := info.Types[x.X]; !ok || tv.Type == nil {
							return false
						} else if _, isSlice := tv.Type.Underlying().(*types.Slice); !isSlice {
							return false
						}
						pure := true
						ast.Inspect(x.Index, func(y ast.Node) bool {
							switch z := y.(type) {
							case *ast.CallExpr:
								if !isBuiltinCall(info, z, "len") {
									if tv, ok := info.Types[z.Fun]; !ok || !tv.IsType() {
										pure = false
									}
								}
							case *ast.UnaryExpr:
								if z.Op == token.ARROW {
									pure = false
								}
							}
							return pure
						})
						return pure
					}
					return false
				}
				single := func(st ast.Stmt) (ast.Expr, ast.Expr, token.Token, bool) {
					as, ok := st.(*ast.AssignStmt)
					if !ok || len(as.Lhs) != 1 || len(as.Rhs) != 1 || (as.Tok != token.ASSIGN && as.Tok != token.DEFINE) {
						return nil, nil, 0, false
					}
					return as.Lhs[0], as.Rhs[0], as.Tok, true
				}
				fix := func(list []ast.Stmt) []ast.Stmt {
					for i := 0; i+2 < len(list); i++ {
						t, a1, _, ok1 := single(list[i])
						a2, b2, tok2, ok2 := single(list[i+1])
						b3, t3, tok3, ok3 := single(list[i+2])
						if !ok1 || !ok2 || !ok3 || tok2 != token.ASSIGN || tok3 != token.ASSIGN {
							continue
						}
						to := identObj(info, t)
						if to == nil || identObj(info, t3) != to {
							continue
						}
						if tv, isVar := to.(*types.Var); !isVar || tv.IsField() || tv.Pkg() == nil || tv.Parent() == tv.Pkg().Scope() {
							continue
						}
						if !place(a1) || !place(b2) || exprStr(a1) != exprStr(a2) || exprStr(b2) != exprStr(b3) || exprStr(a1) == exprStr(b2) {
							continue
						}
						if mentionsObj(info, a1, to) || mentionsObj(info, b2, to) || mentionsOf(to) != 2 {
							continue
						}
						as2 := list[i+1].(*ast.AssignStmt)
						as3 := list[i+2].(*ast.AssignStmt)
						sw := &ast.AssignStmt{Lhs: []ast.Expr{as2.Lhs[0], as3.Lhs[0]}, TokPos: as2.TokPos, Tok: token.ASSIGN, Rhs: []ast.Expr{as2.Rhs[0], list[i].(*ast.AssignStmt).Rhs[0]}}
						out := append([]ast.Stmt{}, list[:i]...)
						out = append(out, sw)
						out = append(out, list[i+3:]...)
						list = out
						total++
					}
					return list
				}
				ast.Inspect(fd.Body, func(x ast.Node) bool {
					switch b := x.(type) {
					case *ast.BlockStmt:
						b.List = fix(b.List)
					case *ast.CaseClause:
						b.Body = fix(b.Body)
					case *ast.CommClause:
						b.Body = fix(b.Body)
					}
					return true
				})
			}
		}
	}
	return total
}

// rangeDefines: `var k K; var v V; ... for k, v = range X {…}` where k and v are mentioned nowhere
// outside the loop: the loop defines them (`for k, v := range X`), the declarations are dropped.
func rangeDefines(c *Ctx) int {
	total := 0
	for _, p := range c.All {
		info := p.TypesInfo
		for _, f := range p.Syntax {
			for _, d := range f.Decls {
				fd, ok := d.(*ast.FuncDecl)
				if !ok || fd.Body == nil {
					continue
				}
				var loops []ast.Stmt
				ast.Inspect(fd.Body, func(x ast.Node) bool {
					if rs, ok := x.(*ast.RangeStmt); ok && rs.Tok == token.ASSIGN {
						loops = append(loops, rs)
					}
					// for i = a; …; … {…}: the same for the variable of a three-clause loop
					if fs, ok := x.(*ast.ForStmt); ok && fs.Init != nil {
						if as, ok := fs.Init.(*ast.AssignStmt); ok && as.Tok == token.ASSIGN && len(as.Lhs) == 1 && len(as.Rhs) == 1 {
							if o := identObj(info, as.Lhs[0]); o != nil && !mentionsObj(info, as.Rhs[0], o) {
								loops = append(loops, fs)
							}
						}
					}
					return true
				})
				for _, rs := range loops {
					var ids []*ast.Ident
					good := true
					var targets []ast.Expr
					switch l := rs.(type) {
					case *ast.RangeStmt:
						targets = []ast.Expr{l.Key, l.Value}
					case *ast.ForStmt:
						targets = []ast.Expr{l.Init.(*ast.AssignStmt).Lhs[0]}
					}
					for _, e := range targets {
						if e == nil {
							continue
						}
						id, ok := e.(*ast.Ident)
						if !ok {
							good = false
							break
						}
						if id.Name == "_" {
							continue
						}
						v, isVar := info.Uses[id].(*types.Var)
						if !isVar || v.IsField() || v.Pkg() == nil || v.Parent() == v.Pkg().Scope() {
							good = false
							break
						}
						ids = append(ids, id)
					}
					if !good || len(ids) == 0 {
						continue
					}
					// every mention outside the loop is the name of a one-name declaration without
					// a value that could have an effect
					decls := map[types.Object]*ast.DeclStmt{}
					for _, id := range ids {
						o := info.Uses[id]
						ast.Inspect(fd.Body, func(x ast.Node) bool {
							if x == ast.Node(rs) {
								return false
							}
							switch y := x.(type) {
							case *ast.DeclStmt:
								if gd, ok := y.Decl.(*ast.GenDecl); ok && gd.Tok == token.VAR && len(gd.Specs) == 1 {
									vs := gd.Specs[0].(*ast.ValueSpec)
									if len(vs.Names) == 1 && info.Defs[vs.Names[0]] == o {
										callFree := true
										for _, val := range vs.Values {
											ast.Inspect(val, func(z ast.Node) bool {
												if ce, ok := z.(*ast.CallExpr); ok && !isBuiltinCall(info, ce, "new") {
													if tv, ok := info.Types[ce.Fun]; !ok || !tv.IsType() {
														callFree = false
													}
												}
												return callFree
											})
											if mentionsObj(info, val, o) {
												callFree = false
											}
										}
										if callFree {
											decls[o] = y
											return false
										}
									}
								}
							case *ast.Ident:
								if info.Uses[y] == o || info.Defs[y] == o {
									good = false
								}
							}
							return good
						})
						if decls[o] == nil {
							good = false
						}
					}
					if !good {
						continue
					}
					drop := map[ast.Stmt]bool{}
					for _, ds := range decls {
						drop[ds] = true
					}
					removed := 0
					ast.Inspect(fd.Body, func(x ast.Node) bool {
						fix := func(list []ast.Stmt) []ast.Stmt {
							var out []ast.Stmt
							for _, st := range list {
								if drop[st] {
									removed++
									continue
								}
								out = append(out, st)
							}
							return out
						}
						switch b := x.(type) {
						case *ast.BlockStmt:
							b.List = fix(b.List)
						case *ast.CaseClause:
							b.Body = fix(b.Body)
						case *ast.CommClause:
							b.Body = fix(b.Body)
						}
						return true
					})
					if removed != len(decls) {
						continue
					}
					switch l := rs.(type) {
					case *ast.RangeStmt:
						l.Tok = token.DEFINE
					case *ast.ForStmt:
						l.Init.(*ast.AssignStmt).Tok = token.DEFINE
					}
					for _, id := range ids {
						info.Defs[id] = info.Uses[id]
						delete(info.Uses, id)
					}
					total++
				}
			}
		}
	}
	return total
}

// soleNestedDefinition: within rest (the scope of x after its zero declaration) x is written by
// exactly one statement `x = E` (or `x, ok = f()`), which is a member of some statement list, and
// every other mention of x lies in the later members of that same list: the assignment is the
// definition that every read sees, wherever the list is nested.  No function literal mentions x,
// its address is not taken.
func soleNestedDefinition(info *types.Info, rest []ast.Stmt, x types.Object) bool {
	var defList []ast.Stmt
	defAt := -1
	writes, bad := 0, false
	var visitList func(list []ast.Stmt)
	visit := func(n ast.Node) {
		ast.Inspect(n, func(y ast.Node) bool {
			switch b := y.(type) {
			case *ast.FuncLit:
				if mentionsObj(info, b, x) {
					bad = true
				}
				return false
			case *ast.BlockStmt:
				visitList(b.List)
				return false
			case *ast.CaseClause:
				for _, e := range b.List {
					if mentionsObj(info, e, x) {
						// read in a case expression: counted by the position test below
						_ = e
					}
				}
				visitList(b.Body)
				return false
			case *ast.CommClause:
				if b.Comm != nil && mentionsObj(info, b.Comm, x) {
					bad = true
				}
				visitList(b.Body)
				return false
			case *ast.IncDecStmt:
				if identObj(info, b.X) == x {
					bad = true
				}
			case *ast.UnaryExpr:
				if b.Op == token.AND && identObj(info, b.X) == x {
					bad = true
				}
			case *ast.RangeStmt:
				if b.Tok == token.ASSIGN && (b.Key != nil && identObj(info, b.Key) == x || b.Value != nil && identObj(info, b.Value) == x) {
					bad = true
				}
			case *ast.AssignStmt:
				for _, l := range b.Lhs {
					if identObj(info, l) == x {
						bad = true // an assignment that is not a member of a list (init or post of a loop)
					}
				}
			}
			return !bad
		})
	}
	visitList = func(list []ast.Stmt) {
		for k, st := range list {
			if as, ok := st.(*ast.AssignStmt); ok && as.Tok == token.ASSIGN {
				onLeft, elsewhere := false, false
				for _, l := range as.Lhs {
					if identObj(info, l) == x {
						onLeft = true
					} else if mentionsObj(info, l, x) {
						elsewhere = true
					}
				}
				for _, r := range as.Rhs {
					if mentionsObj(info, r, x) {
						elsewhere = true
					}
				}
				if onLeft {
					writes++
					if elsewhere {
						bad = true
					}
					defList, defAt = list, k
					continue
				}
			}
			visit(st)
		}
	}
	visitList(rest)
	if bad || writes != 1 || defAt < 0 {
		return false
	}
	// every other mention lies in the later members of the list of the definition
	later := map[*ast.Ident]bool{}
	for _, st := range defList[defAt+1:] {
		ast.Inspect(st, func(y ast.Node) bool {
			if id, ok := y.(*ast.Ident); ok && info.Uses[id] == x {
				later[id] = true
			}
			return true
		})
	}
	ok := true
	for _, st := range rest {
		ast.Inspect(st, func(y ast.Node) bool {
			if y == ast.Node(defList[defAt]) {
				return false
			}
			if id, isId := y.(*ast.Ident); isId && info.Uses[id] == x && !later[id] {
				ok = false
			}
			return ok
		})
	}
	return ok
}

// declaredWithValue: the local still has a declaration in the function (one that was not dropped).
func declaredWithValue(info *types.Info, fd *ast.FuncDecl, o types.Object) bool {
	found := false
	ast.Inspect(fd.Body, func(x ast.Node) bool {
		switch s := x.(type) {
		case *ast.ValueSpec:
			for _, nm := range s.Names {
				if info.Defs[nm] == o {
					found = true
				}
			}
		case *ast.AssignStmt:
			if s.Tok == token.DEFINE {
				for _, l := range s.Lhs {
					if id, ok := l.(*ast.Ident); ok && info.Defs[id] == o {
						found = true
					}
				}
			}
		}
		return true
	})
	return found
}
