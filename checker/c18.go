package main

// C18 — Go arrays and maps crossing the API are copied, never aliased.

import (
	"fmt"
	"go/ast"
	"go/types"
	"strings"
)

func init() {
	register(&propInfo{
		ID:      "C18",
		Engines: "FLOW (go/ssa value-flow summaries: retains / returns-alias / fresh, fixpoint over the call graph with CHA on repository interfaces)",
		Decided: "D1 no exported constructor, method or class function of the collection package lets the storage of a Go slice or map argument flow into a heap object, a closure, a channel or its result; " +
			"D2 every Go slice/map and every collection (anything offering AsArray) returned by an exported method or class function is allocated in that call (or by a callee whose result is), including the storage fields of newly built objects, and does not alias a parameter's or the receiver's storage; " +
			"D3 every bulk method touches its operand sequence only through the snapshot accessors GetSize/IsEmpty/AsArray/GetIterator (directly or through a callee with the same discipline), so passing the receiver itself behaves like passing a copy." +
			" Also: a universal constructor never hands an argument back as the new collection; a result and a value stored into the receiver are never carved out of one allocation; association cells are not shared between catalogs." +
			" Round 7: no nil literal reaches a collection-typed result; the goroutine of Join does not read the caller's sequence after the helper returned." +
			" Rounds 8-9: no exported function writes through a slice parameter.",
		NotDecided:  "sharing of pointers stored as element values (associations returned by a catalog's array view are the catalog's own objects: the property speaks of Go arrays and maps, and so does the rule); that the copies have the right content.",
		Run:         runC18,
		Assumptions: []string{"standard-library callees (fmt, reflect, strconv, sort, copy/append builtins) do not retain their slice arguments"},
	})
}

var snapshotAccessors = map[string]bool{"GetSize": true, "IsEmpty": true, "AsArray": true, "GetIterator": true}

func isGoContainer(t types.Type) bool {
	switch t.Underlying().(type) {
	case *types.Slice, *types.Map:
		return true
	}
	return false
}

func runC18(c *Ctx, r *Rec) {
	fa := c.flow()
	info := c.info("collection")
	shapeLints(c, r, c.allFuncDecls("collection"))
	nD1, nD2, nD3 := 0, 0, 0
	for _, fd := range c.allFuncDecls("collection") {
		if !ast.IsExported(fd.Name.Name) || fd.Recv == nil {
			continue
		}
		fn := c.funcOf(fd)
		sf := fa.byFD[fd]
		if fn == nil || sf == nil {
			continue
		}
		sum := fa.sum[sf]
		sig := fn.Type().(*types.Signature)
		name := c.fdName(fd)
		// ---- D1
		for i := 0; i < sig.Params().Len(); i++ {
			p := sig.Params().At(i)
			if !isGoContainer(p.Type()) {
				continue
			}
			nD1++
			pi := i + 1 // receiver is parameter 0 of the SSA function
			construct := name + "/" + p.Name()
			switch {
			case pi < len(sum.retains) && sum.retains[pi]:
				r.fail("D1-argument-not-retained", construct, c.pos(fd.Pos()), "the caller's "+shortType(p.Type())+" is retained: "+sum.whyKeep[pi]+"; later writes by the caller show through")
			case pi < len(sum.aliasRet) && sum.aliasRet[pi]:
				r.fail("D1-argument-not-retained", construct, c.pos(fd.Pos()), "the result shares storage with the caller's "+shortType(p.Type())+" argument (it is returned, converted or wrapped, not copied)")
			default:
				r.ok("D1-argument-not-retained", construct, c.pos(fd.Pos()), "the argument's storage flows to no heap object, closure, channel or result")
			}
		}
		// ---- D2
		for i := 0; i < sig.Results().Len(); i++ {
			rt := sig.Results().At(i).Type()
			if !isGoContainer(rt) && !isCollectionLike(rt) {
				continue
			}
			nD2++
			construct := fmt.Sprintf("%s/result#%d", name, i)
			bad := ""
			if i < len(sum.freshRet) && !sum.freshRet[i] {
				bad = "the returned " + shortType(rt) + " is not allocated in this call: it is " + sum.whyRet[i]
			}
			// alias of receiver or of a container parameter
			for pi, al := range sum.aliasRet {
				if !al {
					continue
				}
				if pi == 0 {
					// a result may legitimately embed the receiver only for non-container receivers (class_ back-pointers are not storage)
					if recvIsStorage(sf.Params[0].Type()) {
						bad = "the result shares storage with the receiver"
					}
				} else if pi-1 < sig.Params().Len() {
					pt := sig.Params().At(pi - 1).Type()
					if isGoContainer(pt) || isCollectionLike(pt) {
						bad = "the result shares storage with the argument " + sig.Params().At(pi-1).Name()
					}
				}
			}
			if bad == "" {
				bad = resultSharesWithReceiver(fa, sf)
			}
			if _, isIface := rt.Underlying().(*types.Interface); isIface && isCollectionLike(rt) {
				if w := nilResultWitness(c, fd, i, 0, map[*ast.FuncDecl]bool{}); w != "" {
					r.fail("D2-result-is-a-collection", construct, c.pos(fd.Pos()), "the nil at "+w+" is returned in place of a "+shortType(rt)+": the caller's first use of the result (GetSize, GetIterator, ...) dereferences nil; an empty result is an empty collection")
				} else {
					r.ok("D2-result-is-a-collection", construct, c.pos(fd.Pos()), "no nil literal reaches the result")
				}
			}
			r.check(bad == "", "D2-result-fresh", construct, c.pos(fd.Pos()), "allocated in this call (or by a callee's fresh result); no storage of the receiver or of an argument inside", bad)
		}
		// ---- D3
		for i := 0; i < sig.Params().Len(); i++ {
			p := sig.Params().At(i)
			if !isSequentialParam(p.Type()) {
				continue
			}
			// only methods of collection instances (bulk operations), not class functions
			if rn := recvNamed(fn); rn == nil || strings.HasSuffix(rn.Obj().Name(), "Class_") || isClassType(c, rn) {
				continue
			}
			nD3++
			construct := name + "/" + p.Name()
			bad := operandDiscipline(c, info, fd, i, map[string]bool{})
			if bad == "" || strings.HasPrefix(bad, "skip:") {
				if b2 := mutationBeforeOperandRead(c, info, fd, p); b2 != "" {
					bad = b2
				}
			}
			r.verdict("D3-operand-snapshot", construct, c.pos(fd.Pos()), "the operand is read only through GetSize/IsEmpty/AsArray/GetIterator (or handed to a method that does so)", bad)
		}
	}
	// the universal constructors of the module: the collection returned is built in the call,
	// it is never one of the arguments handed in
	for _, fd := range c.allFuncDecls("module") {
		if !ast.IsExported(fd.Name.Name) || fd.Recv != nil || fd.Body == nil {
			continue
		}
		fn := c.funcOf(fd)
		sf := fa.byFD[fd]
		if fn == nil || sf == nil {
			continue
		}
		sig := fn.Type().(*types.Signature)
		if !sig.Variadic() || sig.Results().Len() != 1 || !isCollectionLike(sig.Results().At(0).Type()) {
			continue
		}
		sum := fa.sum[sf]
		nD2++
		construct := c.fdName(fd) + "/result#0"
		bad := ""
		if len(sum.freshRet) > 0 && !sum.freshRet[0] {
			bad = "the collection returned is not built in this call: it is " + sum.whyRet[0]
		}
		for pi, al := range sum.aliasRet {
			if al && pi < sig.Params().Len() {
				bad = "the collection returned can be one of the arguments themselves (" + sig.Params().At(pi).Name() + "): the caller's collection and the 'new' one are the same object"
			}
		}
		r.check(bad == "", "D2-result-fresh", construct, c.pos(fd.Pos()), "built by a class constructor in this call; never an argument handed back", bad)
	}
	// what Fork and Split return is left to the caller (decided by the C06 machinery)
	{
		tmp := newRec(r.Property)
		runC06(c, tmp)
		for _, o := range tmp.Obls {
			if o.Rule == "D2-result-left-to-the-caller" || o.Rule == "D2-operand-read-before-return" {
				r.Obls = append(r.Obls, o)
			}
		}
	}
	checkCellsNotShared(c, r, "D2-cells-not-shared")
	checkArgumentsNotModified(c, r, "D1-argument-not-modified", "collection", "module")
	r.count("slice/map parameters", nD1)
	r.count("container results", nD2)
	r.count("bulk operands", nD3)
	r.floor("D1-argument-not-retained", 6)
	r.floor("D2-result-fresh", 30)
	r.floor("D3-operand-snapshot", 8)
}

func isClassType(c *Ctx, n *types.Named) bool {
	for _, ct := range c.classTypes() {
		if ct.Origin() == n.Origin() {
			return true
		}
	}
	return false
}

// recvIsStorage: the receiver value itself is Go storage (named slice or map type).
func recvIsStorage(t types.Type) bool { return isGoContainer(t) }

// isSequentialParam: an interface offering the snapshot accessors (Sequential and its extensions).
func isSequentialParam(t types.Type) bool {
	if _, ok := t.Underlying().(*types.Interface); !ok {
		return false
	}
	ms := ifaceMethodNames(t)
	return ms["AsArray"] && ms["GetIterator"] && ms["GetSize"]
}

// operandDiscipline checks every use of parameter #pi of fd.  Returns "" or a complaint.
func operandDiscipline(c *Ctx, info *types.Info, fd *ast.FuncDecl, pi int, visiting map[string]bool) string {
	key := fmt.Sprintf("%s#%d", c.fdName(fd), pi)
	if visiting[key] {
		return ""
	}
	visiting[key] = true
	params := paramObjs(info, fd)
	if pi >= len(params) {
		return ""
	}
	p := params[pi]
	bad := ""
	ast.Inspect(fd.Body, func(x ast.Node) bool {
		id, ok := x.(*ast.Ident)
		if !ok || info.Uses[id] != p || (bad != "" && !strings.HasPrefix(bad, "skip:")) {
			return true
		}
		chain := pathTo(fd.Body, id)
		if len(chain) < 2 {
			return true
		}
		parent := chain[len(chain)-2]
		// receiver of a method call
		if se, ok := parent.(*ast.SelectorExpr); ok && se.X == ast.Expr(id) {
			if snapshotAccessors[se.Sel.Name] {
				return true
			}
			bad = fmt.Sprintf("the operand %s is read live through %s at %s: when the receiver itself is passed, the operation observes its own partial update", p.Name(), se.Sel.Name, c.pos(se.Pos()))
			return true
		}
		// argument of a call to a repository method
		if call, ok := parent.(*ast.CallExpr); ok {
			for ai, a := range call.Args {
				if a != ast.Expr(id) {
					continue
				}
				cf := calleeOf(info, call)
				if cf == nil {
					bad = fmt.Sprintf("the operand %s is passed to an unresolved call at %s", p.Name(), c.pos(call.Pos()))
					return true
				}
				// resolve to declarations by method name over the repository (CHA)
				var targets []*ast.FuncDecl
				if d := c.declOf(cf); d != nil {
					targets = append(targets, d)
				} else {
					for _, other := range c.allFuncDecls("collection") {
						if other.Name.Name == cf.Name() && other.Recv != nil {
							targets = append(targets, other)
						}
					}
				}
				if len(targets) == 0 {
					if c.roleOf(cf.Pkg()) == "" {
						return true // foreign callee: cannot mutate the receiver
					}
					bad = fmt.Sprintf("the operand %s is passed to %s, which has no analysable declaration", p.Name(), cf.Name())
					return true
				}
				for _, t := range targets {
					tinfo := c.infoFor(t)
					if len(paramObjs(tinfo, t)) <= ai || !isSequentialParam(paramObjs(tinfo, t)[ai].Type()) {
						continue
					}
					if b := operandDiscipline(c, tinfo, t, ai, visiting); b != "" && (bad == "" || strings.HasPrefix(bad, "skip:")) {
						bad = b
					}
				}
				return true
			}
		}
		// assignment to another variable, comparison, etc.
		switch parent.(type) {
		case *ast.BinaryExpr:
			return true
		}
		// a type assertion or type switch on the operand looks behind the interface: what is done
		// with the concrete value is a design of its own (a bulk copy from the live backing
		// array, say, is overlap-safe) that this rule does not follow
		if ta, ok := parent.(*ast.TypeAssertExpr); ok && ta.X == ast.Expr(id) {
			bad = fmt.Sprintf("skip: the operand %s is looked at through a type assertion at %s: the use of the concrete value is not followed", p.Name(), c.pos(id.Pos()))
			return true
		}
		bad = fmt.Sprintf("the operand %s escapes the snapshot discipline at %s (%T)", p.Name(), c.pos(id.Pos()), parent)
		return true
	})
	return bad
}

// mutationBeforeOperandRead: in a bulk method no change of the receiver may
// precede a read of the operand (when the receiver itself is the operand, the
// operand would already be changed when it is read).
func mutationBeforeOperandRead(c *Ctx, info *types.Info, fd *ast.FuncDecl, sigParam *types.Var) string {
	recv := recvObj(info, fd)
	var p types.Object
	for _, po := range paramObjs(info, fd) {
		if po.Name() == sigParam.Name() {
			p = po
		}
	}
	if recv == nil || p == nil {
		return ""
	}
	g := newFG(info, fd.Body)
	isUse := func(n ast.Node) bool {
		return nodeHas(n, func(x ast.Node) bool { id, ok := x.(*ast.Ident); return ok && info.Uses[id] == p })
	}
	isMutation := func(n ast.Node) (bool, string) {
		what := ""
		inspectNoLit(n, func(x ast.Node) bool {
			switch s := x.(type) {
			case *ast.CallExpr:
				if rx, mname, _, ok := methodCall(s); ok && recvRooted(info, rx, recv) && (listMutators[mname] || mname == "AddValue" || mname == "AddValues" || mname == "RemoveTop" || mname == "RemoveHead") {
					what = mname
				}
				if isBuiltinCall(info, s, "delete") && len(s.Args) == 2 && recvRooted(info, s.Args[0], recv) {
					what = "delete"
				}
			case *ast.AssignStmt:
				for _, l := range s.Lhs {
					l = ast.Unparen(l)
					if ix, ok := l.(*ast.IndexExpr); ok && recvRooted(info, ix.X, recv) {
						what = "element store"
					}
					if se, ok := l.(*ast.SelectorExpr); ok && selectorField(info, se) != nil && isObj(info, se.X, recv) {
						what = "field store"
					}
				}
			}
			return true
		})
		return what != "", what
	}
	for _, b := range g.order {
		for i, n := range b.Nodes {
			mut, what := isMutation(n)
			if !mut {
				continue
			}
			found, w := g.exists(pathQuery{from: point{b, i + 1}, goalNode: func(m ast.Node) bool { return m != n && isUse(m) }})
			if found {
				return fmt.Sprintf("the receiver is changed (%s at %s) before the operand %s is read at %s: when a collection is passed as the operand of its own bulk operation the operand has already been modified (InsertValues(1, self) on [1 2 3] loses elements)", what, c.pos(n.Pos()), p.Name(), c.pos(w.Pos()))
			}
		}
	}
	return ""
}

// ---------------------------------------------------------------- mutable cells

// isCellType: an interface whose values are mutable (key, value) cells: GetKey, GetValue, SetValue.
func isCellType(t types.Type) bool {
	if t == nil {
		return false
	}
	ms := ifaceMethodNames(t)
	return ms["GetKey"] && ms["GetValue"] && ms["SetValue"]
}

// holdsCells: a container type instantiated with a cell element type (ListLike[AssociationLike[K,V]], ...).
func holdsCells(t types.Type) bool {
	if p, ok := t.(*types.Pointer); ok {
		t = p.Elem()
	}
	switch x := t.(type) {
	case *types.Named:
		if ta := x.TypeArgs(); ta != nil {
			for i := 0; i < ta.Len(); i++ {
				if isCellType(ta.At(i)) {
					return true
				}
			}
		}
	case *types.Slice:
		return isCellType(x.Elem())
	case *types.Map:
		return isCellType(x.Elem())
	}
	return false
}

// checkCellsNotShared: inside the methods of the catalog type and its class, an association
// (a mutable cell: SetValue changes it in place) stored into an association container must
// be created in that function; associations taken from an operand, and whole operand
// sequences of associations, are never stored.  Otherwise two catalogs share cells and an
// update through one shows in the other.
func checkCellsNotShared(c *Ctx, r *Rec, rule string) {
	cat, _ := c.impl("collection", "CatalogLike")
	cls, _ := c.impl("collection", "CatalogClassLike")
	info := c.info("collection")
	n := 0
	for _, tn := range []*types.Named{cat, cls} {
		if tn == nil {
			continue
		}
		ms := c.methodsOf(tn)
		for _, name := range sortedKeys(ms) {
			fd := ms[name]
			params := paramObjs(info, fd)
			var fromOperandIn func(fd *ast.FuncDecl, params []*types.Var, e ast.Expr) string
			fromOperand := func(e ast.Expr) string { return fromOperandIn(fd, params, e) }
			fromOperandIn = func(fd *ast.FuncDecl, params []*types.Var, e ast.Expr) string {
				src := resolveInit(info, fd, e)
				why := ""
				ast.Inspect(src, func(x ast.Node) bool {
					if id, ok := x.(*ast.Ident); ok {
						for _, p := range params {
							if info.Uses[id] == p && (isSequentialParam(p.Type()) || isGoContainer(p.Type()) || isCellType(p.Type())) {
								why = "it comes from the operand " + p.Name()
							}
						}
					}
					// an element fetched from an iterator over an operand
					if rx, mname, _, ok := methodCall(x); ok && mname == "GetNext" {
						if it := identObj(info, rx); it != nil {
							ast.Inspect(fd.Body, func(y ast.Node) bool {
								var rhs ast.Expr
								switch s := y.(type) {
								case *ast.AssignStmt:
									for i, l := range s.Lhs {
										if identObj(info, l) == it && i < len(s.Rhs) {
											rhs = s.Rhs[i]
										}
									}
								case *ast.ValueSpec:
									for i, nm := range s.Names {
										if info.Defs[nm] == it && i < len(s.Values) {
											rhs = s.Values[i]
										}
									}
								}
								if rhs != nil {
									if irx, iname, _, ok := methodCall(ast.Unparen(rhs)); ok && iname == "GetIterator" {
										for _, p := range params {
											if isObj(info, irx, p) {
												why = "it is fetched from an iterator over the operand " + p.Name()
											}
										}
										if io := identObj(info, irx); io != nil {
											if init := initOf(info, fd, ast.Unparen(irx).(*ast.Ident)); init != nil {
												ast.Inspect(init, func(z ast.Node) bool {
													if id, ok := z.(*ast.Ident); ok {
														for _, p := range params {
															if info.Uses[id] == p {
																why = "it is fetched from a shallow copy of the operand " + p.Name()
															}
														}
													}
													return true
												})
											}
										}
									}
								}
								return true
							})
						}
					}
					return true
				})
				return why
			}
			var g *FG
			isFreshAt := func(e ast.Expr, at ast.Node) bool {
				src := resolveInit(info, fd, e)
				if id, ok := src.(*ast.Ident); ok {
					if g == nil {
						g = newFG(info, fd.Body)
					}
					if d := reachingDef(g, info, fd, id, at); d != nil {
						src = ast.Unparen(d)
					}
				}
				_, mname, _, ok := methodCall(src)
				return ok && mname == "Make"
			}
			// persistent: the container written is a field, or a local that ends up in a field or a composite literal
			persistent := func(e ast.Expr) bool {
				e = ast.Unparen(e)
				if selectorField(info, e) != nil {
					return true
				}
				o := identObj(info, e)
				if o == nil {
					return false
				}
				found := false
				ast.Inspect(fd.Body, func(x ast.Node) bool {
					switch s := x.(type) {
					case *ast.CompositeLit:
						for _, el := range s.Elts {
							v := el
							if kv, ok := el.(*ast.KeyValueExpr); ok {
								v = kv.Value
							}
							if isObj(info, v, o) {
								found = true
							}
						}
					case *ast.AssignStmt:
						for i, l := range s.Lhs {
							if selectorField(info, l) != nil && i < len(s.Rhs) && isObj(info, s.Rhs[i], o) {
								found = true
							}
						}
					}
					return true
				})
				return found
			}
			inspectNoLit(fd.Body, func(x ast.Node) bool {
				var stored ast.Expr
				bulk := false
				var at ast.Node
				switch s := x.(type) {
				case *ast.AssignStmt:
					if len(s.Lhs) == 1 && len(s.Rhs) == 1 {
						if ix, ok := ast.Unparen(s.Lhs[0]).(*ast.IndexExpr); ok {
							if t := info.TypeOf(ix.X); t != nil && holdsCells(t.Underlying()) || (t != nil && holdsCells(t)) {
								stored, at = s.Rhs[0], s
							}
						}
					}
				case *ast.CallExpr:
					rx, mname, call, ok := methodCall(s)
					if !ok {
						return true
					}
					rt := info.TypeOf(rx)
					if rt == nil || !holdsCells(rt) {
						return true
					}
					switch {
					case (mname == "AppendValue" && len(call.Args) == 1) || ((mname == "InsertValue" || mname == "SetValue") && len(call.Args) == 2):
						a := call.Args[len(call.Args)-1]
						if isCellType(info.TypeOf(a)) {
							stored, at = a, s
						}
					case (mname == "AppendValues" || mname == "InsertValues" || mname == "SetValues") && len(call.Args) >= 1:
						if persistent(rx) {
							stored, at, bulk = call.Args[len(call.Args)-1], s, true
						}
					case (mname == "MakeFromSequence" || mname == "MakeFromArray") && len(call.Args) == 1:
						// the new container is persistent when the variable it is assigned to is
						ast.Inspect(fd.Body, func(y ast.Node) bool {
							if lhs, rhs, ok := multiDef(y); ok && len(lhs) == 1 && ast.Unparen(rhs) == ast.Expr(s) && persistent(lhs[0]) {
								stored, at, bulk = call.Args[0], s, true
							}
							return true
						})
					}
				}
				if stored == nil {
					return true
				}
				n++
				construct := c.fdName(fd) + "/" + exprStr(stored)
				why := fromOperand(stored)
				// an unexported helper that stores the association it is handed: judged where it is called
				if !bulk && !ast.IsExported(fd.Name.Name) {
					if po := identObj(info, ast.Unparen(resolveInit(info, fd, stored))); po != nil {
						pidx := -1
						for i, p := range params {
							if types.Object(p) == po && isCellType(p.Type()) {
								pidx = i
							}
						}
						if pidx >= 0 {
							hfn := c.funcOf(fd)
							sites, fresh, foreign := 0, 0, ""
							for _, tn2 := range []*types.Named{cat, cls} {
								if tn2 == nil {
									continue
								}
								for _, cname := range sortedKeys(c.methodsOf(tn2)) {
									cfd := c.methodsOf(tn2)[cname]
									ast.Inspect(cfd.Body, func(y ast.Node) bool {
										call, ok := y.(*ast.CallExpr)
										if !ok || hfn == nil {
											return true
										}
										if cf := calleeOf(info, call); cf == nil || cf.Origin() != hfn.Origin() || pidx >= len(call.Args) {
											return true
										}
										sites++
										arg := ast.Unparen(resolveInit(info, cfd, call.Args[pidx]))
										if _, mname, _, ok := methodCall(arg); ok && mname == "Make" {
											fresh++
										} else if fromOperandIn(cfd, paramObjs(info, cfd), call.Args[pidx]) != "" {
											foreign = cname
										}
										return true
									})
								}
							}
							switch {
							case sites > 0 && fresh == sites:
								r.ok(rule, construct, c.pos(at.Pos()), fmt.Sprintf("the association handed to this helper is created at each of its %d call sites", sites))
								return true
							case foreign != "":
								why = "it is handed in by " + foreign + ", which takes it from an operand"
							default:
								r.skip(rule, construct, c.pos(at.Pos()), "where the association handed to this helper comes from is not recognised at every call site")
								return true
							}
						}
					}
				}
				switch {
				case !bulk && isFreshAt(stored, at):
					r.ok(rule, construct, c.pos(at.Pos()), "the association stored is created in this function")
				case why != "":
					r.fail(rule, construct, c.pos(at.Pos()), fmt.Sprintf("the association%s stored here is not created in this function (%s): the new container shares mutable cells with it, and SetValue on an existing key changes both", map[bool]string{true: "s", false: ""}[bulk], why))
				default:
					r.skip(rule, construct, c.pos(at.Pos()), "the origin of the stored association is not recognised")
				}
				return true
			})
		}
	}
	r.count("association stores", n)
}

// reachingDef: the value assigned to id's variable by the assignment that dominates `at`
// and is closest to it, provided no other assignment to the variable lies between the two
// in the source (otherwise nil: not decided).
func reachingDef(g *FG, info *types.Info, fd *ast.FuncDecl, id *ast.Ident, at ast.Node) ast.Expr {
	obj := info.Uses[id]
	if obj == nil {
		return nil
	}
	type def struct {
		n   ast.Node
		rhs ast.Expr
	}
	var defs []def
	inspectNoLit(fd.Body, func(x ast.Node) bool {
		switch s := x.(type) {
		case *ast.AssignStmt:
			for i, l := range s.Lhs {
				if identObj(info, l) == obj {
					var rhs ast.Expr
					if len(s.Rhs) == len(s.Lhs) {
						rhs = s.Rhs[i]
					}
					defs = append(defs, def{s, rhs})
				}
			}
		case *ast.ValueSpec:
			for i, nm := range s.Names {
				if info.Defs[nm] == obj {
					var rhs ast.Expr
					if len(s.Values) == len(s.Names) {
						rhs = s.Values[i]
					}
					defs = append(defs, def{s, rhs})
				}
			}
		}
		return true
	})
	var best *def
	for i := range defs {
		d := &defs[i]
		if d.n.Pos() < at.Pos() && g.nodeDominates(d.n, at) && (best == nil || d.n.Pos() > best.n.Pos()) {
			best = d
		}
	}
	if best == nil {
		return nil
	}
	for _, d := range defs {
		if d.n.Pos() > best.n.Pos() && d.n.Pos() < at.Pos() {
			return nil
		}
	}
	return best.rhs
}
