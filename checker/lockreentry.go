package main

// No re-entry under a lock, for any class that carries a mutex.  Go's mutexes are not
// re-entrant: a method that holds the mutex of its object and calls another method that takes
// the same mutex waits for itself (Mutex, RWMutex write lock), or deadlocks as soon as a writer
// queues up between the two read locks (RWMutex.RLock twice).  The rule knows three shapes of a
// lock region - the nodes between Lock and Unlock in a method, a function literal handed to a
// private method that calls it with the mutex held, and a function literal handed to a package
// function that takes a locker built from the mutex - and two shapes of re-entry: calling a
// locking method of the receiver, and calling a method of an operand that may be the receiver
// itself (a bulk operation applied to its own collection) whose implementation in this class
// takes the lock.

import (
	"fmt"
	"go/ast"
	"go/types"
	"strings"
)

type bracketFn struct {
	fn      *types.Func
	funcArg int  // index of the function parameter that is called with the lock held
	lockArg int  // index of the locker parameter, -1 when the mutex is the receiver's own field
	defers  bool // the helper releases the lock with a deferred Unlock
}

// lockRegion: a piece of code that runs with the mutex of its method's receiver held.
type lockRegion struct {
	node   ast.Node
	defers bool // a panic inside still releases the mutex
}

// regionHook, when set, is called for every method with its lock regions (used by rules that
// look at other things than re-entry inside the same regions).
type regionHook func(fd *ast.FuncDecl, f *types.Var, regions []lockRegion)

func checkTypeNoReentry(c *Ctx, r *Rec, rule string, n *types.Named) {
	walkLockRegions(c, r, rule, n, nil)
}

func walkLockRegions(c *Ctx, r *Rec, rule string, n *types.Named, hook regionHook) {
	if n == nil {
		return
	}
	st := structOf(n)
	if st == nil {
		return
	}
	role := c.roleOf(n.Obj().Pkg())
	info := c.info(role)
	ms := c.methodsOf(n)
	for i := 0; i < st.NumFields(); i++ {
		f := st.Field(i)
		if !isSyncType(f.Type()) || !strings.HasSuffix(types.TypeString(f.Type(), nil), "Mutex") {
			continue
		}
		mkey := objKey(f)
		env := &symEnv{info: info}
		mentionsMutex := func(e ast.Expr) bool {
			hit := false
			ast.Inspect(e, func(x ast.Node) bool {
				if se, ok := x.(ast.Expr); ok {
					if v := selectorField(info, se); v != nil && v == f.Origin() {
						hit = true
					}
				}
				return true
			})
			return hit
		}
		// ---- bracket helpers
		var brackets []bracketFn
		for _, fd := range c.allFuncDecls(role) {
			fn := c.funcOf(fd)
			if fn == nil || fn.Exported() {
				continue
			}
			ps := paramObjs(info, fd)
			var li *lockInfo
			isMethodOfN := false
			if rn := recvNamedOfDecl(c, fd); rn != nil && rn.Origin() == n.Origin() {
				isMethodOfN = true
			}
			// locker parameters whose Lock/RLock the body calls
			lockerParam := -1
			for pi, p := range ps {
				ts := types.TypeString(p.Type(), nil)
				if !(strings.HasSuffix(ts, "sync.Locker") || strings.HasSuffix(ts, "sync.Mutex") || strings.HasSuffix(ts, "sync.RWMutex")) {
					continue
				}
				inspectNoLit(fd.Body, func(x ast.Node) bool {
					if rx, mname, _, ok := methodCall(x); ok && isObj(info, rx, p) && (mname == "Lock" || mname == "RLock") {
						lockerParam = pi
					}
					return true
				})
			}
			defers := false
			inspectNoLit(fd.Body, func(x ast.Node) bool {
				if ds, ok := x.(*ast.DeferStmt); ok {
					if _, mname, _, ok := methodCall(ds.Call); ok && (mname == "Unlock" || mname == "RUnlock") {
						defers = true
					}
				}
				return true
			})
			inspectNoLit(fd.Body, func(x ast.Node) bool {
				call, ok := x.(*ast.CallExpr)
				if !ok {
					return true
				}
				id, ok := ast.Unparen(call.Fun).(*ast.Ident)
				if !ok {
					return true
				}
				for pi, p := range ps {
					if info.Uses[id] != types.Object(p) {
						continue
					}
					if _, isSig := p.Type().Underlying().(*types.Signature); !isSig {
						continue
					}
					switch {
					case lockerParam >= 0:
						brackets = append(brackets, bracketFn{fn, pi, lockerParam, defers})
					case isMethodOfN:
						if li == nil {
							li = computeLock(newFG(info, fd.Body), info, mkey)
						}
						if held, ok := li.heldAt(call); ok && held {
							brackets = append(brackets, bracketFn{fn, pi, -1, defers})
						}
					}
				}
				return true
			})
		}
		// the function literals that a call runs under the mutex of the receiver
		underLock := func(call *ast.CallExpr, recv types.Object) (*ast.FuncLit, bool) {
			fn := calleeOf(info, call)
			if fn == nil {
				return nil, false
			}
			for _, b := range brackets {
				if b.fn != fn.Origin() && b.fn != fn {
					continue
				}
				if b.funcArg >= len(call.Args) {
					continue
				}
				if b.lockArg >= 0 {
					if b.lockArg >= len(call.Args) || !mentionsMutex(call.Args[b.lockArg]) {
						continue
					}
				} else if rx, _, _, ok := methodCall(call); !ok || !isObj(info, rx, recv) {
					continue
				}
				if lit, ok := ast.Unparen(call.Args[b.funcArg]).(*ast.FuncLit); ok {
					return lit, b.defers
				}
			}
			return nil, false
		}
		takesLockByBracket := func(call *ast.CallExpr, recv types.Object) bool {
			fn := calleeOf(info, call)
			if fn == nil {
				return false
			}
			for _, b := range brackets {
				if b.fn != fn.Origin() && b.fn != fn {
					continue
				}
				if b.lockArg >= 0 {
					if b.lockArg < len(call.Args) && mentionsMutex(call.Args[b.lockArg]) {
						return true
					}
				} else if rx, _, _, ok := methodCall(call); ok && isObj(info, rx, recv) {
					return true
				}
			}
			return false
		}
		// ---- methods that take the mutex (directly, through a bracket, or through one another)
		locking := map[string]bool{}
		for name, fd := range ms {
			if fd.Body == nil {
				continue
			}
			recv := recvObj(info, fd)
			ast.Inspect(fd.Body, func(x ast.Node) bool {
				if mutexOp(info, env, x, mkey) == "lock" {
					locking[name] = true
				}
				if call, ok := x.(*ast.CallExpr); ok && takesLockByBracket(call, recv) {
					locking[name] = true
				}
				return true
			})
		}
		for changed := true; changed; {
			changed = false
			for name, fd := range ms {
				if locking[name] || fd.Body == nil {
					continue
				}
				recv := recvObj(info, fd)
				ast.Inspect(fd.Body, func(x ast.Node) bool {
					if rx, mname, _, ok := methodCall(x); ok && isObj(info, rx, recv) && locking[mname] {
						if !locking[name] {
							locking[name] = true
							changed = true
						}
					}
					return true
				})
			}
		}
		if len(locking) == 0 && hook == nil {
			continue
		}
		// ---- regions and what is called inside them
		for _, name := range sortedKeys(ms) {
			fd := ms[name]
			if fd.Body == nil {
				continue
			}
			recv := recvObj(info, fd)
			if recv == nil {
				continue
			}
			g := newFG(info, fd.Body)
			li := computeLock(g, info, mkey)
			var regions []ast.Node
			var lregions []lockRegion
			ownDefer := false
			for _, b := range g.order {
				for _, nd := range b.Nodes {
					if mutexOp(info, env, nd, mkey) == "defer-unlock" {
						ownDefer = true
					}
				}
			}
			for _, b := range g.order {
				for _, nd := range b.Nodes {
					if li.held[nd] && mutexOp(info, env, nd, mkey) == "" {
						regions = append(regions, nd)
						lregions = append(lregions, lockRegion{nd, ownDefer})
					}
				}
			}
			ast.Inspect(fd.Body, func(x ast.Node) bool {
				if call, ok := x.(*ast.CallExpr); ok {
					if lit, defers := underLock(call, recv); lit != nil {
						regions = append(regions, lit.Body)
						lregions = append(lregions, lockRegion{lit.Body, defers})
					}
				}
				return true
			})
			if len(regions) == 0 {
				continue
			}
			if hook != nil {
				hook(fd, f, lregions)
				continue
			}
			params := map[types.Object]bool{}
			for _, p := range paramObjs(info, fd) {
				params[p] = true
			}
			bad := ""
			for _, reg := range regions {
				ast.Inspect(reg, func(x ast.Node) bool {
					call, ok := x.(*ast.CallExpr)
					if !ok || bad != "" {
						return true
					}
					rx, mname, _, ok := methodCall(call)
					if !ok {
						return true
					}
					if isObj(info, rx, recv) && locking[mname] {
						bad = fmt.Sprintf("%s, which takes the mutex %s, is called at %s while %s already holds it: the mutex is not re-entrant (a second Lock waits for the first; a second RLock deadlocks as soon as a writer waits in between)", mname, f.Name(), c.pos(call.Pos()), name)
						return true
					}
					// an operand that may be the receiver itself
					if id, ok := ast.Unparen(rx).(*ast.Ident); ok && params[info.Uses[id]] && locking[mname] {
						if it, ok := info.Uses[id].Type().Underlying().(*types.Interface); ok && it.NumMethods() > 0 {
							all := true
							for k := 0; k < it.NumMethods(); k++ {
								if ms[it.Method(k).Name()] == nil {
									all = false
								}
							}
							if all {
								bad = fmt.Sprintf("%s.%s is called at %s while %s holds the mutex %s: the operand may be the collection itself (a bulk operation applied to its own collection), and this class's %s takes the same mutex - the call waits for itself", id.Name, mname, c.pos(call.Pos()), name, f.Name(), mname)
							}
						}
					}
					return true
				})
			}
			// a count taken in one critical section bounds an index or a slice in another: between
			// the two the collection may have changed (check-then-act across two lock regions)
			if bad == "" {
				stale := map[types.Object]string{}
				ast.Inspect(fd.Body, func(x ast.Node) bool {
					lhs, rhs, ok := multiDef(x)
					if !ok || len(lhs) != 1 {
						return true
					}
					if rx, mname, call, ok := methodCall(ast.Unparen(rhs)); ok && isObj(info, rx, recv) && locking[mname] && len(call.Args) == 0 {
						if bt, ok := info.TypeOf(call).Underlying().(*types.Basic); ok && bt.Info()&types.IsInteger != 0 {
							inRegion := false
							for _, reg := range regions {
								if containsNode(reg, call) {
									inRegion = true
								}
							}
							if o := identObj(info, lhs[0]); o != nil && !inRegion {
								stale[o] = mname
							}
						}
					}
					return true
				})
				if len(stale) > 0 {
					for _, reg := range regions {
						ast.Inspect(reg, func(x ast.Node) bool {
							var idx []ast.Expr
							switch e := x.(type) {
							case *ast.IndexExpr:
								idx = []ast.Expr{e.Index}
							case *ast.SliceExpr:
								idx = []ast.Expr{e.Low, e.High, e.Max}
							default:
								return true
							}
							for _, ie := range idx {
								if ie == nil {
									continue
								}
								ast.Inspect(ie, func(y ast.Node) bool {
									if id, ok := y.(*ast.Ident); ok && bad == "" {
										if m, ok := stale[info.Uses[id]]; ok {
											bad = fmt.Sprintf("%s is read with %s() in a critical section of its own and then bounds %s at %s inside another one: between the two the collection can change, so the bound does not fit what is sliced (a value too few, or a slice bounds panic while the mutex is held)", id.Name, m, exprStr(x.(ast.Expr)), c.pos(x.Pos()))
										}
									}
									return true
								})
							}
							return true
						})
					}
				}
			}
			r.check(bad == "", rule, c.fdName(fd)+"/regions", c.pos(fd.Pos()), "inside the lock regions no locking method of the receiver, or of an operand that may be the receiver, is called", bad)
		}
	}
}

// checkNoReentryAnywhere applies the rule to every struct type of a package that carries a mutex
// and has the named method.
func checkNoReentryAnywhere(c *Ctx, r *Rec, rule, role, method string) {
	p := c.Pkgs[role]
	if p == nil {
		return
	}
	scope := p.Types.Scope()
	for _, nm := range scope.Names() {
		tn, ok := scope.Lookup(nm).(*types.TypeName)
		if !ok {
			continue
		}
		n, ok := tn.Type().(*types.Named)
		if !ok || structOf(n) == nil {
			continue
		}
		if method != "" && c.methodsOf(n)[method] == nil {
			continue
		}
		checkTypeNoReentry(c, r, rule, n)
	}
}

// checkNoSendUnderPlainLock: a send on a channel that the class closes somewhere panics when the
// channel has been closed.  Outside a lock region that is the documented end of a misuse; inside
// a region whose Unlock is not deferred the panic also leaves the mutex locked for ever, and
// every later call on the object - by a caller that recovered, or by another go-routine - hangs.
// A select with a default arm makes the send non-blocking, not safe.
func checkNoSendUnderPlainLock(c *Ctx, r *Rec, rule string, qr *queueRoles) {
	if qr == nil || qr.q == nil || qr.chanF == nil {
		return
	}
	info := c.info("collection")
	closes := false
	for _, fd := range c.methodsOf(qr.q) {
		if fd.Body == nil {
			continue
		}
		ast.Inspect(fd.Body, func(x ast.Node) bool {
			if call, ok := x.(*ast.CallExpr); ok && isBuiltinCall(info, call, "close") && len(call.Args) == 1 && selectorField(info, call.Args[0]) == qr.chanF.Origin() {
				closes = true
			}
			return true
		})
	}
	if !closes {
		return
	}
	n := 0
	walkLockRegions(c, r, rule, qr.q, func(fd *ast.FuncDecl, f *types.Var, regions []lockRegion) {
		bad := ""
		for _, reg := range regions {
			if reg.defers {
				continue
			}
			ast.Inspect(reg.node, func(x ast.Node) bool {
				if ss, ok := x.(*ast.SendStmt); ok && bad == "" && selectorField(info, ss.Chan) == qr.chanF.Origin() {
					bad = fmt.Sprintf("the send on %s at %s happens while the mutex %s is held and its Unlock is not deferred: on a queue that has been closed the send panics (send on closed channel) and the mutex stays locked for ever - every later call on the queue hangs, also for a caller that recovered from the panic", qr.chanF.Name(), c.pos(ss.Pos()), f.Name())
				}
				return true
			})
		}
		n++
		r.check(bad == "", rule, c.fdName(fd)+"/sends", c.pos(fd.Pos()), "no send on the closable channel inside a lock region that a panic would leave locked", bad)
	})
	_ = n
}

// checkChannelReplacedOnlyByReset: the token channel is what parked producers and consumers wait
// on and what CloseQueue closes.  The only operation that may install a new one is the reset
// (RemoveAll), called by the user.  Any other public method that reaches an assignment of the
// channel field - by calling RemoveAll on itself, say, to "release the resources" of a drained
// queue - silently reopens a closed queue or strands whoever waits on the old channel.
func checkChannelReplacedOnlyByReset(c *Ctx, r *Rec, rule string, qr *queueRoles) {
	if qr == nil || qr.q == nil || qr.chanF == nil {
		return
	}
	ms := c.methodsOf(qr.q)
	cg := c.sameTypeCallGraph(qr.q)
	assigns := map[string]fieldWrite{}
	for _, w := range c.fieldWrites()[qr.chanF.Origin()] {
		if w.In == nil || !strings.HasPrefix(w.How, "assigned") {
			continue
		}
		for name, fd := range ms {
			if fd == w.In {
				assigns[name] = w
			}
		}
	}
	for _, name := range sortedKeys(ms) {
		if !ast.IsExported(name) || name == "RemoveAll" || ms[name].Body == nil {
			continue
		}
		reach := map[string]bool{name: true}
		path := map[string]string{name: name}
		for work := []string{name}; len(work) > 0; {
			cur := work[0]
			work = work[1:]
			for _, callee := range sortedKeys(cg[cur]) {
				if !reach[callee] {
					reach[callee] = true
					path[callee] = path[cur] + " -> " + callee
					work = append(work, callee)
				}
			}
		}
		bad := ""
		for _, m := range sortedKeys(reach) {
			if w, ok := assigns[m]; ok && bad == "" {
				bad = fmt.Sprintf("%s reaches the assignment of the channel field %s at %s (%s): a method other than the user's own RemoveAll installs a new channel - a queue that was closed is open again without anybody having asked, and whoever waits on the old channel is never served", name, qr.chanF.Name(), c.pos(w.Pos), path[m])
			}
		}
		r.check(bad == "", rule, c.fdName(ms[name])+"/channel", c.pos(ms[name].Pos()), "does not reach an assignment of the channel field", bad)
	}
}
