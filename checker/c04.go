package main

// C04 — Queue is a linearizable FIFO with bounded back-pressure (structural clauses)
// C05 — Queue never loses a wake-up (structural clauses)

import (
	"fmt"
	"go/ast"
	"go/token"
	"go/types"
	"sort"
	"strings"
)

func init() {
	register(&propInfo{
		ID:      "C04",
		Engines: "EFFECT (write sets, lock regions on go/cfg), PATH (pairing, dominance)",
		Decided: "D1 every field of the queue is either never written after construction or accessed only while the queue's mutex is held (a field through which the value list is mutated counts as written); " +
			"D2 every Lock is followed by Unlock on all normal paths; D3 no channel operation or blocking queue call happens inside a lock region; " +
			"D4 AddValue appends under the lock before it publishes the token, RemoveHead takes the token before it pops and pops only when the receive reported ok; " +
			"D5 the channel's buffer size and the stored capacity are the same value, GetSize/IsEmpty read the channel's length." +
			" Also: in RemoveHead every change of the value list lies on the ok edge of the token receive and the value delivered is the removal's own result (not a separate read, not the channel's payload); a constructor that preloads tokens in a counting loop sends exactly one per initial value; a close guarded by a state field is matched by a reset wherever a new channel is installed." +
			" Round 7: RemoveAll replaces the closable channel on every path (emptiness does not excuse a closed channel); no send on the closable channel inside a lock region whose Unlock is not deferred; a queue literal whose list is built from the constructor's argument is accompanied by token sends; re-entry through package-level bracket helpers and read locks." +
			" Rounds 8-9: no public method but RemoveAll reaches an assignment of the token channel; a count read in one critical section does not bound a slice taken in another.",
		NotDecided:  "linearizability, FIFO order across producers, exactly-once delivery, the blocking bound: all quantify over interleavings; D1-D4 are the race-freedom and ordering preconditions of such an argument, nothing more.",
		Run:         runC04,
		Assumptions: []string{"Go memory model: accesses guarded by one mutex do not race; channel operations are synchronised by the runtime"},
	})
	register(&propInfo{
		ID:      "C05",
		Engines: "EFFECT (frozen channel field), SYM (capacity >= input size at self-filling constructors), PATH",
		Decided: "D1 the channel on which AddValue/RemoveHead block is never replaced after construction (a goroutine parked on the old channel cannot be woken through a new one); " +
			"D2 every function that creates a queue and fills it through the blocking AddValue before returning creates it with a capacity >= the number of values on all integers; " +
			"D3 CloseQueue closes the very channel RemoveHead receives from, RemoveHead uses the two-value receive and returns its ok." +
			" Also: no channel operation inside a lock region; one token per initial value at birth; a guarded close is reset with the channel; the outputs of Fork/Split/Join are closed on every path after the input is drained.",
		NotDecided: "absence of lost wake-ups and termination of producer/consumer programs over all schedules (the runtime's channel semantics are trusted, interleavings are not explored).",
		Run:        runC05,
	})
}

type queueRoles struct {
	q, cls                     *types.Named
	chanF, capF, mutexF, listF *types.Var
}

func bindQueue(c *Ctx, r *Rec) *queueRoles {
	q := c.mustImpl(r, "bind", "collection", "QueueLike")
	cls := c.mustImpl(r, "bind", "collection", "QueueClassLike")
	if q == nil || cls == nil {
		return nil
	}
	qr := &queueRoles{q: q, cls: cls}
	st := structOf(q)
	if st != nil {
		for _, f := range flatFields(q) {
			switch u := f.Type().Underlying().(type) {
			case *types.Chan:
				qr.chanF = f
			case *types.Basic:
				if u.Info()&types.IsInteger != 0 {
					qr.capF = f
				}
			default:
				if isSyncType(f.Type()) {
					qr.mutexF = f
				}
			}
		}
	}
	qr.listF = c.fieldOfIface(q, "collection", "ListLike")
	if qr.chanF == nil || qr.capF == nil || qr.mutexF == nil || qr.listF == nil {
		// the fields are private: a queue whose token channel, capacity, mutex and value list
		// are not fields of these types (wrapped in a type of their own, say) is a different
		// design that the queue rules claim nothing about
		r.skip("bind", "collection.QueueLike/fields", c.pos(q.Obj().Pos()), "cannot bind channel/capacity/mutex/list fields of the queue by type: the queue rules are bound to a queue that holds a token channel, an integer capacity, a mutex and a value list directly")
		return nil
	}
	return qr
}

func runC04(c *Ctx, r *Rec) {
	qr := bindQueue(c, r)
	if qr == nil {
		return
	}
	info := c.info("collection")
	ms := c.methodsOf(qr.q)
	mkey := objKey(qr.mutexF)
	fw := c.fieldWrites()

	checkReceiverWrites(c, r, "D1-receiver-writes-persist", qr.q)
	checkResetCompleteness(c, r, "D1-reset-complete", qr.q)
	// ---- D1 lock discipline
	st := structOf(qr.q)
	for i := 0; i < st.NumFields(); i++ {
		f := st.Field(i)
		if f == qr.mutexF {
			continue
		}
		construct := "collection.QueueLike/" + qr.roleOf(f)
		written := len(fw[f.Origin()]) > 0
		needs := written || isCollectionLike(f.Type())
		if !needs {
			r.ok("D1-lock-discipline", construct, c.pos(f.Pos()), "frozen: never written after construction")
			continue
		}
		var unguarded []string
		nacc := 0
		for _, name := range sortedKeys(ms) {
			fd := ms[name]
			var uses []ast.Node
			inspectNoLit(fd.Body, func(x ast.Node) bool {
				if se, ok := x.(*ast.SelectorExpr); ok && selectorField(info, se) == f {
					uses = append(uses, se)
				}
				return true
			})
			if len(uses) == 0 {
				continue
			}
			li := computeLock(newFG(info, fd.Body), info, mkey)
			for _, u := range uses {
				nacc++
				if h, ok := li.heldAt(u); !ok || !h {
					unguarded = append(unguarded, name)
				}
			}
		}
		// an access inside an unexported helper is judged where the helper is called: guarded when
		// every call site holds the mutex, otherwise an unguarded access of the calling method
		// (reported under the exported methods it is reached from, not under the helper's name)
		for round := 0; round < 3; round++ {
			var next []string
			for _, h := range dedup(unguarded) {
				if ast.IsExported(h) {
					next = append(next, h)
					continue
				}
				hfn := c.funcOf(ms[h])
				callers := 0
				for _, cname := range sortedKeys(ms) {
					cfd := ms[cname]
					if cname == h {
						continue
					}
					var sites []ast.Node
					ast.Inspect(cfd.Body, func(x ast.Node) bool {
						if call, ok := x.(*ast.CallExpr); ok {
							if cf := calleeOf(info, call); cf != nil && hfn != nil && cf.Origin() == hfn.Origin() {
								sites = append(sites, call)
							}
						}
						return true
					})
					if len(sites) == 0 {
						continue
					}
					callers++
					li := computeLock(newFG(info, cfd.Body), info, mkey)
					for _, site := range sites {
						if held, ok := li.heldAt(site); !ok || !held {
							next = append(next, cname)
						}
					}
				}
				if callers == 0 {
					next = append(next, h)
				}
			}
			unguarded = dedup(next)
		}
		unguarded = dedup(unguarded)
		sort.Strings(unguarded)
		if len(unguarded) == 0 {
			r.ok("D1-lock-discipline", construct, c.pos(f.Pos()), fmt.Sprintf("guarded: all %d accesses hold the mutex", nacc))
			continue
		}
		how := "its object is mutated through it"
		if written {
			w := fw[f.Origin()][0]
			how = fmt.Sprintf("it is %s in %s at %s", w.How, w.In.Name.Name, c.pos(w.Pos))
		}
		o := r.fail("D1-lock-discipline", construct, c.pos(f.Pos()), fmt.Sprintf("the field is not frozen (%s) and is accessed without the mutex in: %s - a data race", how, strings.Join(unguarded, ", ")))
		o.Witness = "unguarded in " + strings.Join(unguarded, ",")
	}
	r.floor("D1-lock-discipline", 2)

	// ---- D2 pairing, D3 no blocking under lock
	for _, name := range sortedKeys(ms) {
		checkLockPairing(c, r, "D2-lock-pairing", info, ms[name], ms[name].Body, mkey, qr.mutexF.Name())
	}
	checkNoBlockingUnderLock(c, r, "D3-no-blocking-under-lock", qr)
	checkNoReentryUnderLock(c, r, "D3-no-reentry-under-lock", qr)
	checkNoSendUnderPlainLock(c, r, "D3-no-send-under-plain-lock", qr)
	checkChannelReplacedOnlyByReset(c, r, "D4-channel-replaced-only-by-reset", qr)
	checkGuardedReferenceStaysInside(c, r, "D1-guarded-reference-stays-inside", qr)
	r.floor("D2-lock-pairing", 1)
	r.floor("D3-no-blocking-under-lock", 1)

	// ---- D4 publish order
	if fd := ms["AddValue"]; fd != nil {
		g := newFG(info, fd.Body)
		evs := qr.events(c, info, fd)
		appends, sends := eventsOf(evs, "append"), eventsOf(evs, "send")
		construct := c.fdName(fd)
		switch {
		case len(appends) != 1 || len(sends) != 1:
			r.skip("D4-publish-order", construct, c.pos(fd.Pos()), fmt.Sprintf("AddValue has %d list appends and %d token sends (also counting its private helpers): the publish-order rule is bound to the one-list-one-token-channel design", len(appends), len(sends)))
		case !g.nodeDominates(appends[0].Outer, sends[0].Outer) || appends[0].Outer == sends[0].Outer:
			r.fail("D4-publish-order", construct, c.pos(fd.Pos()), "the token is published before (or without) the value being appended: a consumer woken by the token can find the list empty")
		default:
			// the appended value is the parameter, at the tail (followed through the helper's parameter)
			params := paramObjs(info, fd)
			ap := appends[0]
			call := ap.Inner.(*ast.CallExpr)
			_, mname, _, _ := methodCall(call)
			okArg := mname == "AppendValue" && len(call.Args) == 1 && len(params) == 1
			if okArg {
				arg := call.Args[0]
				where := ap.Where
				for i := len(ap.Path) - 1; i >= 0 && okArg; i-- {
					// arg is a parameter of `where`; map it to the argument of the call that entered it
					hp := paramObjs(info, where)
					idx := -1
					for k, p := range hp {
						if isObj(info, arg, p) {
							idx = k
						}
					}
					if idx < 0 || idx >= len(ap.Path[i].Args) {
						okArg = false
						break
					}
					arg = ap.Path[i].Args[idx]
					where = nil
					for _, cand := range c.methodsOf(qr.q) {
						if containsNode(cand, ap.Path[i]) {
							where = cand
						}
					}
					if where == nil {
						okArg = false
					}
				}
				if okArg && !isObj(info, arg, params[0]) {
					okArg = false
				}
			}
			r.check(okArg, "D4-publish-order", construct, c.pos(fd.Pos()), "AppendValue(value) under the lock dominates the token send",
				"AddValue does not append its own parameter at the tail of the value list")
		}
	}
	if fd := ms["RemoveHead"]; fd != nil {
		g := newFG(info, fd.Body)
		evs := qr.events(c, info, fd)
		recvs, removes := eventsOf(evs, "recv2"), eventsOf(evs, "remove")
		construct := c.fdName(fd)
		switch {
		case len(recvs) == 1 && recvs[0].Ok != nil && len(removes) > 1:
			// several list mutations: each must at least lie on the ok edge of the receive
			bad := ""
			for _, rm := range removes {
				pt, _ := g.locate(rm.Outer)
				if !g.nodeDominates(recvs[0].Outer, rm.Outer) || okEdge(g, info, pt, recvs[0].Ok) != 1 {
					bad = fmt.Sprintf("the value list is changed at %s although no token was received there (closed or not yet received): a value owned by another consumer's token can disappear", c.pos(rm.Inner.Pos()))
				}
			}
			if bad != "" {
				r.fail("D4-publish-order", construct, c.pos(fd.Pos()), bad)
			} else {
				r.skip("D4-publish-order", construct, c.pos(fd.Pos()), "several list mutations on the ok edge: the one-removal rule does not apply")
			}
		case len(recvs) != 1 || len(removes) != 1 || recvs[0].Ok == nil:
			if len(eventsOf(evs, "recv")) > len(recvs) && len(recvs) == 0 {
				r.fail("D4-publish-order", construct, c.pos(fd.Pos()), "RemoveHead receives the token with a one-value receive: it cannot tell a closed queue from a published value")
			} else {
				r.skip("D4-publish-order", construct, c.pos(fd.Pos()), fmt.Sprintf("RemoveHead has %d two-value token receives in its own body and %d list removals: the rule is bound to the one-receive-one-removal design", len(recvs), len(removes)))
			}
		case !g.nodeDominates(recvs[0].Outer, removes[0].Outer):
			r.fail("D4-publish-order", construct, c.pos(fd.Pos()), "the head is removed before a token has been received: a consumer can pop a value that was never published or index an empty list")
		default:
			okObj := recvs[0].Ok
			pt, _ := g.locate(removes[0].Outer)
			guarded := okEdge(g, info, pt, okObj) == 1
			call := removes[0].Inner.(*ast.CallExpr)
			head := false
			_, rmName, _, _ := methodCall(call)
			if rmName == "RemoveValue" && len(call.Args) == 1 {
				tv := info.Types[call.Args[0]]
				head = tv.Value != nil && tv.Value.String() == "1"
			}
			// the delivered value is the removal's own result, not a separate read of the list
			separate := ""
			if len(removes[0].Path) == 0 || true {
				var resObj types.Object
				inspectNoLit(fd.Body, func(x ast.Node) bool {
					if rs, ok := x.(*ast.ReturnStmt); ok && len(rs.Results) == 2 {
						if o := identObj(info, rs.Results[0]); o != nil && okEdgeReturn(g, info, rs, okObj) >= 0 {
							resObj = o
						}
					}
					return true
				})
				if resObj != nil && len(recvs) == 1 {
					if lhs, _, ok := multiDef(recvs[0].Inner); ok && len(lhs) == 2 && identObj(info, lhs[0]) == resObj {
						separate = fmt.Sprintf("the value delivered is the one received from the channel while the value list is shortened separately at %s: with two producers the order of the sends can differ from the order of the appends, so the value removed from the list is not the value delivered and the array view disagrees with the delivery order", c.pos(removes[0].Outer.Pos()))
					}
				}
				if resObj != nil && separate == "" {
					ast.Inspect(fd.Body, func(x ast.Node) bool {
						var rhs ast.Expr
						if lhs, r0, ok := multiDef(x); ok && len(lhs) == 1 && identObj(info, lhs[0]) == resObj {
							rhs = r0
						}
						if rhs == nil || containsNode(rhs, removes[0].Outer) || containsNode(removes[0].Outer, rhs) {
							return true
						}
						if rcall, ok := ast.Unparen(rhs).(*ast.CallExpr); ok {
							reads := false
							if rx, _, _, ok := methodCall(rcall); ok && qField(info, fd, rx) == qr.listF {
								reads = true
							}
							if rx, mname, _, ok := methodCall(rcall); ok && isObj(info, rx, recvObj(info, fd)) && ms[mname] != nil {
								if len(eventsOf(qr.events(c, info, ms[mname]), "listuse")) > 0 {
									reads = true
								}
							}
							if reads {
								separate = fmt.Sprintf("the value delivered is read from the list at %s, separately from its removal at %s: two consumers holding a token each can read the same head before either removes it", c.pos(rhs.Pos()), c.pos(removes[0].Outer.Pos()))
							}
						}
						return true
					})
				}
			}
			if separate != "" {
				r.fail("D4-publish-order", construct, c.pos(fd.Pos()), separate)
				break
			}
			// every return hands back the receive's ok: the variable itself, or the constant the dominating branch implies
			retOK, retKnown := true, true
			inspectNoLit(fd.Body, func(x ast.Node) bool {
				rs, ok := x.(*ast.ReturnStmt)
				if !ok {
					return true
				}
				if len(rs.Results) != 2 {
					retKnown = false
					return true
				}
				if isObj(info, rs.Results[1], okObj) {
					return true
				}
				tv := info.Types[rs.Results[1]]
				rpt, located := g.locate(rs)
				if tv.Value == nil || !located {
					retKnown = false
					return true
				}
				switch okEdge(g, info, rpt, okObj) {
				case 1:
					if tv.Value.String() != "true" {
						retOK = false
					}
				case -1:
					if tv.Value.String() != "false" {
						retOK = false
					}
				default:
					retKnown = false
				}
				return true
			})
			switch {
			case !guarded || !head || !retOK:
				r.fail("D4-publish-order", construct, c.pos(fd.Pos()), fmt.Sprintf("RemoveHead must pop index 1 only on the ok edge of the token receive and return that ok (guarded=%v head=%v returns-ok=%v)", guarded, head, retOK))
			case !retKnown:
				r.skip("D4-publish-order", construct, c.pos(fd.Pos()), "the second result is not recognisably the receive's ok")
			default:
				r.ok("D4-publish-order", construct, c.pos(fd.Pos()), "token receive dominates RemoveValue(1), which runs only when ok, and ok is returned")
			}
		}
	}
	r.floor("D4-publish-order", 2)
	checkCloseGuard(c, r, "D4-close-guard", qr)
	checkTokenBalanceAtBirth(c, r, "D5-token-balance", qr)

	// ---- D5 capacity agreement
	cms := c.methodsOf(qr.cls)
	for _, name := range sortedKeys(cms) {
		fd := cms[name]
		var lit *ast.CompositeLit
		ast.Inspect(fd.Body, func(x ast.Node) bool {
			if cl, ok := x.(*ast.CompositeLit); ok {
				if n := derefNamed(info.Types[cl].Type); n != nil && n.Origin() == qr.q.Origin() {
					lit = cl
				}
			}
			return true
		})
		if lit == nil {
			continue
		}
		construct := c.fdName(fd)
		var capExpr, chanExpr ast.Expr
		for _, el := range lit.Elts {
			if kv, ok := el.(*ast.KeyValueExpr); ok {
				if id, ok := kv.Key.(*ast.Ident); ok {
					if fv, ok := info.Uses[id].(*types.Var); ok {
						switch fv.Origin() {
						case qr.capF:
							capExpr = kv.Value
						case qr.chanF:
							chanExpr = kv.Value
						}
					}
				}
			}
		}
		// fields set by assignment on the object under construction
		ast.Inspect(fd.Body, func(x ast.Node) bool {
			if as, ok := x.(*ast.AssignStmt); ok && len(as.Lhs) == len(as.Rhs) {
				for i, l := range as.Lhs {
					if !underConstruction(info, fd, l) {
						continue
					}
					switch selectorField(info, l) {
					case qr.capF:
						capExpr = as.Rhs[i]
					case qr.chanF:
						chanExpr = as.Rhs[i]
					}
				}
			}
			return true
		})
		chanVar := types.Object(nil)
		if id, ok := ast.Unparen(chanExpr).(*ast.Ident); ok && chanExpr != nil {
			chanVar = info.Uses[id]
			if init := initOf(info, fd, id); init != nil {
				chanExpr = init
			}
		}
		// the capacity read back from the channel itself agrees with it by construction
		if capExpr != nil && chanVar != nil {
			if call, ok := stripConversions(info, capExpr).(*ast.CallExpr); ok && isBuiltinCall(info, call, "cap") && len(call.Args) == 1 && identObj(info, call.Args[0]) == chanVar {
				r.ok("D5-capacity-agreement", construct, c.pos(fd.Pos()), "the capacity field is the cap() of the channel the queue is born with")
				continue
			}
		}
		var sizeArg ast.Expr
		if call, ok := ast.Unparen(chanExpr).(*ast.CallExpr); ok && chanExpr != nil && isBuiltinCall(info, call, "make") && len(call.Args) == 2 {
			sizeArg = call.Args[1]
		}
		if capExpr == nil || sizeArg == nil {
			r.skip("D5-capacity-agreement", construct, c.pos(fd.Pos()), "the constructor does not set both the capacity field and a make(chan, n) channel in a recognised form")
			continue
		}
		same, known := false, false
		a, aok := ast.Unparen(capExpr).(*ast.Ident)
		b, bok := ast.Unparen(sizeArg).(*ast.Ident)
		if aok && bok && info.Uses[a] != nil && info.Uses[b] != nil {
			known = true
			if info.Uses[a] == info.Uses[b] {
				// no assignment to the variable between the two uses
				g := newFG(info, fd.Body)
				first, second := ast.Node(sizeArg), ast.Node(capExpr)
				if second.Pos() < first.Pos() {
					first, second = second, first
				}
				if pt, ok1 := g.after(first); ok1 {
					mod, _ := g.exists(pathQuery{from: pt,
						stop: func(n ast.Node) bool { return containsNode(n, second) },
						goalNode: func(n ast.Node) bool {
							return !containsNode(n, second) && assignedIn(info, n, objKey(info.Uses[a]), &symEnv{info: info})
						}})
					same = !mod
				}
			}
		} else if types.ExprString(ast.Unparen(capExpr)) != types.ExprString(ast.Unparen(sizeArg)) {
			// two different expressions: constants or arithmetic on one side only
			ta, tb := info.Types[capExpr], info.Types[sizeArg]
			if ta.Value != nil || tb.Value != nil || aok || bok {
				known = true
			}
		}
		switch {
		case same:
			r.ok("D5-capacity-agreement", construct, c.pos(fd.Pos()), "the channel buffer and the capacity field are the same variable, unchanged in between")
		case known:
			r.fail("D5-capacity-agreement", construct, c.pos(fd.Pos()), "the token channel's buffer size and the stored capacity are not the same value: GetCapacity and the real back-pressure bound disagree")
		default:
			r.skip("D5-capacity-agreement", construct, c.pos(fd.Pos()), "capacity and buffer size are not plain variables: not compared")
		}
	}
	for _, vname := range []string{"GetSize", "IsEmpty"} {
		fd := ms[vname]
		if fd == nil {
			continue
		}
		evs := qr.events(c, info, fd)
		usesLen, usesList := len(eventsOf(evs, "len")) > 0, len(eventsOf(evs, "listuse")) > 0
		switch {
		case usesList:
			r.fail("D5-capacity-agreement", c.fdName(fd), c.pos(fd.Pos()), "the size is read from the value list, not from the token channel: while a producer is blocked the value list is longer than the capacity, so GetSize can exceed GetCapacity")
		case !usesLen:
			r.skip("D5-capacity-agreement", c.fdName(fd), c.pos(fd.Pos()), "neither len(channel) nor the value list is read here or in a private helper")
		default:
			r.ok("D5-capacity-agreement", c.fdName(fd), c.pos(fd.Pos()), "reads len(channel), which the language bounds by the capacity")
		}
	}
	checkQueueResets(c, r, "D5-list-and-tokens-together", "D5-capacity-agreement", qr)
	checkDefaultOnlyForZero(c, r, "D5-requested-capacity-honoured", fileFuncs(c, "collection", qr.cls))
	shapeLints(c, r, append(fileFuncs(c, "collection", qr.q, qr.cls), moduleFuncsReturning(c, "QueueLike")...))
	r.floorSoft("D5-capacity-agreement", "collection.QueueLike/capacity-sites", "fewer places than on the reference tree create the channel or read its length in the class and instance methods (moved into a private function)")
}

func runC05(c *Ctx, r *Rec) {
	qr := bindQueue(c, r)
	if qr == nil {
		return
	}
	info := c.info("collection")
	ms := c.methodsOf(qr.q)
	fw := c.fieldWrites()
	checkResetCompleteness(c, r, "D1-reset-complete", qr.q)

	// ---- D1 stable rendez-vous
	construct := "collection.QueueLike/" + qr.roleOf(qr.chanF)
	if ws := fw[qr.chanF.Origin()]; len(ws) > 0 {
		// named by the public operations from which the write is reached (private workers and
		// helpers are the refactorer's business)
		cg := c.sameTypeCallGraph(qr.q)
		var where []string
		for _, w := range ws {
			target := w.In.Name.Name
			if ast.IsExported(target) {
				where = append(where, target)
				continue
			}
			found := false
			for _, name := range sortedKeys(ms) {
				if !ast.IsExported(name) {
					continue
				}
				seen := map[string]bool{name: true}
				for work := []string{name}; len(work) > 0 && !seen[target]; {
					cur := work[0]
					work = work[1:]
					for callee := range cg[cur] {
						if !seen[callee] && (!ast.IsExported(callee) || callee == target) {
							seen[callee] = true
							work = append(work, callee)
						}
					}
				}
				if seen[target] {
					where = append(where, name)
					found = true
				}
			}
			if !found {
				where = append(where, target)
			}
		}
		sort.Strings(where)
		where = dedup(where)
		o := r.fail("D1-stable-rendezvous", construct, c.pos(qr.chanF.Pos()),
			fmt.Sprintf("the channel that AddValue/RemoveHead block on is replaced in %s (at %s): a goroutine parked on the old channel is never woken by operations on the new one", strings.Join(where, ", "), c.pos(ws[0].Pos)))
		o.Witness = "replaced in " + strings.Join(where, ",")
	} else {
		r.ok("D1-stable-rendezvous", construct, c.pos(qr.chanF.Pos()), "the channel field is never written after construction")
	}

	// ---- D4 a lock that is not released blocks every later call for ever
	for _, name := range sortedKeys(ms) {
		checkLockPairing(c, r, "D4-lock-released", info, ms[name], ms[name].Body, objKey(qr.mutexF), qr.mutexF.Name())
	}
	r.floor("D4-lock-released", 1)
	checkNoBlockingUnderLock(c, r, "D4-no-wait-under-lock", qr)
	checkNoReentryUnderLock(c, r, "D4-no-reentry-under-lock", qr)
	checkNoSendUnderPlainLock(c, r, "D4-no-send-under-plain-lock", qr)
	checkChannelReplacedOnlyByReset(c, r, "D3-channel-replaced-only-by-reset", qr)
	checkTokenBalanceAtBirth(c, r, "D2-token-balance", qr)
	checkQueueResets(c, r, "D2-list-and-tokens-together", "D2-replacement-capacity", qr)
	// consumers read until the queue reports closed: the loop that does so is entered
	{
		var fds []*ast.FuncDecl
		for _, role := range []string{"collection", "cdcn", "module"} {
			fds = append(fds, c.allFuncDecls(role)...)
		}
		checkLoopsAreEntered(c, r, "D3-consumer-loop-entered", fds, "no value is ever taken from the queue here: a producer that still has more values than the queue holds stays blocked in AddValue for ever", readsQueueHead)
		own := append(fileFuncs(c, "collection", qr.q, qr.cls), moduleFuncsReturning(c, "QueueLike")...)
		if parser, err := c.impl("cdcn", "ParserLike"); err == nil && parser != nil {
			own = append(own, fileFuncs(c, "cdcn", parser)...)
		}
		shapeLints(c, r, own)
	}
	// outputs of the plumbing helpers are closed when the input is (parked consumers are released)
	{
		tmp := newRec(r.Property)
		runC06(c, tmp)
		for _, o := range tmp.Obls {
			if o.Rule == "D2-closure-propagation" {
				o.Rule = "D5-outputs-closed"
				r.Obls = append(r.Obls, o)
			}
		}
	}

	// ---- D2 no self-fill
	nsites := 0
	for _, role := range []string{"collection", "cdcn", "module"} {
		rinfo := c.info(role)
		for _, fd := range c.allFuncDecls(role) {
			nsites += checkSelfFill(c, r, rinfo, fd, qr)
		}
	}
	r.count("queue-creating functions with a fill loop", nsites)

	// ---- D3 close wakes consumers
	closeFD, remFD := ms["CloseQueue"], ms["RemoveHead"]
	if closeFD == nil || remFD == nil {
		r.undecided("D3-close-wakes", "collection."+qr.q.Obj().Name(), "", "CloseQueue/RemoveHead not found")
	} else {
		cevs := qr.events(c, info, closeFD)
		closes := len(eventsOf(cevs, "close")) > 0
		r.check(closes, "D3-close-wakes", c.fdName(closeFD), c.pos(closeFD.Pos()), "closes the queue's own token channel", "CloseQueue does not close the channel field that RemoveHead receives from: parked consumers are never released")
		if closes {
			checkCloseGuard(c, r, "D3-close-wakes", qr)
		}
		revs := qr.events(c, info, remFD)
		switch {
		case len(eventsOf(revs, "recv2")) > 0:
			r.ok("D3-close-wakes", c.fdName(remFD), c.pos(remFD.Pos()), "two-value receive on the queue's own token channel")
		case len(eventsOf(revs, "recv")) > 0:
			r.fail("D3-close-wakes", c.fdName(remFD), c.pos(remFD.Pos()), "RemoveHead does not use the two-value receive on the channel field: it cannot tell a closed queue from a value")
		default:
			r.skip("D3-close-wakes", c.fdName(remFD), c.pos(remFD.Pos()), "RemoveHead does not receive from the channel field in its own body or a private helper")
		}
	}
	r.floor("D3-close-wakes", 2)
}

// checkSelfFill: if fd creates a queue through a class constructor and calls the
// blocking AddValue on it inside a loop, the capacity given at creation must be
// >= the number of values the loop's source holds (tracked sizes; n = size of
// the caller's input).
func checkSelfFill(c *Ctx, r *Rec, info *types.Info, fd *ast.FuncDecl, qr *queueRoles) int {
	return checkBoundedFill(c, r, "D2-no-self-fill", info, fd, "queue")
}

// checkBoundedFill: a function that creates a bounded collection (a queue: AddValue blocks when
// full; a stack: AddValue panics when full) and fills it in a loop must give it a capacity of at
// least the number of values it is filled with.  kind: "queue", "stack" or "" for both.
func checkBoundedFill(c *Ctx, r *Rec, rule string, info *types.Info, fd *ast.FuncDecl, kind string) int {
	kindOf := func(t types.Type) string {
		n := derefNamed(t)
		if n == nil {
			return ""
		}
		ms := ifaceMethodNames(n)
		if _, isIface := n.Underlying().(*types.Interface); !isIface {
			// the implementation types of the collection package
			ms = map[string]bool{}
			for nm := range c.methodsOf(n) {
				ms[nm] = true
			}
		}
		switch {
		case ms["AddValue"] && ms["GetCapacity"] && ms["RemoveHead"]:
			return "queue"
		case ms["AddValue"] && ms["GetCapacity"] && ms["RemoveTop"]:
			return "stack"
		}
		return ""
	}
	isQueueT := func(t types.Type) bool {
		k := kindOf(t)
		return k != "" && (kind == "" || k == kind)
	}
	// is there a fill loop at all?
	type fill struct {
		obj  types.Object
		loop ast.Stmt
	}
	var fills []fill
	for _, loop := range loopsIn(fd.Body) {
		inspectNoLit(loop, func(x ast.Node) bool {
			if rx, mname, _, ok := methodCall(x); ok && mname == "AddValue" {
				if id, ok := ast.Unparen(rx).(*ast.Ident); ok {
					if t := info.Types[id].Type; t != nil && isQueueT(t) {
						o := info.Uses[id]
						isParam := false
						for _, p := range paramObjs(info, fd) {
							if p == o {
								isParam = true
							}
						}
						if v, ok := o.(*types.Var); ok && !isParam && !v.IsField() {
							fills = append(fills, fill{o, loop})
						}
					}
				}
			}
			return true
		})
	}
	// ... or a visitor: a declared function of the package that runs the function literal it is
	// handed once for every element of a sequence or iterator it is handed (a covering loop)
	visitSrc := map[ast.Stmt]ast.Expr{}
	inspectNoLit(fd.Body, func(x ast.Node) bool {
		es, ok := x.(*ast.ExprStmt)
		if !ok {
			return true
		}
		call, ok := es.X.(*ast.CallExpr)
		if !ok {
			return true
		}
		d := c.declOf(calleeOf(info, call))
		if d == nil || d.Body == nil || c.infoFor(d) == nil {
			return true
		}
		dinfo := c.infoFor(d)
		dps := paramObjs(dinfo, d)
		for ai, a := range call.Args {
			lit, isLit := ast.Unparen(a).(*ast.FuncLit)
			if !isLit || ai >= len(dps) {
				continue
			}
			// the visitor calls that parameter inside a loop of its own
			inLoop := false
			for _, l := range loopsIn(d.Body) {
				inspectNoLit(l, func(y ast.Node) bool {
					if cc, ok := y.(*ast.CallExpr); ok && isObj(dinfo, cc.Fun, dps[ai]) {
						inLoop = true
					}
					return true
				})
			}
			if !inLoop {
				continue
			}
			// what is visited: the other argument (X.GetIterator(), X.AsArray() or X itself)
			var src ast.Expr
			for bi, b := range call.Args {
				if bi == ai {
					continue
				}
				b = ast.Unparen(b)
				if rx, mname, _, ok := methodCall(b); ok && (mname == "GetIterator" || mname == "AsArray") {
					src = rx
				} else if t := info.TypeOf(b); t != nil && (isCollectionLike(t) || isGoContainer(t)) {
					src = b
				}
			}
			if src == nil {
				continue
			}
			inspectNoLit(lit.Body, func(y ast.Node) bool {
				if rx, mname, _, ok := methodCall(y); ok && mname == "AddValue" {
					if id, ok := ast.Unparen(rx).(*ast.Ident); ok {
						if t := info.Types[id].Type; t != nil && isQueueT(t) {
							o := info.Uses[id]
							isParam := false
							for _, p := range paramObjs(info, fd) {
								if p == o {
									isParam = true
								}
							}
							if v, ok := o.(*types.Var); ok && !isParam && !v.IsField() {
								fills = append(fills, fill{o, es})
								visitSrc[es] = src
							}
						}
					}
				}
				return true
			})
		}
		return true
	})
	if len(fills) == 0 {
		return 0
	}
	env := &symEnv{info: info}
	var tracker *sizeTracker
	capKey := func(o types.Object) string { return "cap:" + objKey(o) }
	tracker = newSizeTracker(info, fd, env, nil)
	// only helpers that compute a number (the capacity) are interpreted in place; stepping into
	// everything a large function calls multiplies the paths for nothing
	enableInlining(c, env, fd, nil)
	allInl := env.inlinable
	env.inlinable = func(call *ast.CallExpr) *ast.FuncDecl {
		d := allInl(call)
		if d == nil {
			return nil
		}
		if fn := c.funcOf(d); fn != nil {
			if sig, ok := fn.Type().(*types.Signature); ok && sig.Results().Len() == 1 && isIntegerType(sig.Results().At(0).Type()) {
				return d
			}
		}
		return nil
	}
	prevAssign := env.onAssign
	env.onAssign = func(st *symState, lhs ast.Expr, rhs ast.Expr) {
		prevAssign(st, lhs, rhs)
		o := identObj(info, lhs)
		if o == nil || !isQueueT(o.Type()) {
			return
		}
		_, mname, call, ok := methodCall(ast.Unparen(rhs))
		if !ok {
			return
		}
		switch {
		case mname == "MakeWithCapacity" && len(call.Args) == 1:
			st.vars[capKey(o)] = env.eval(st, call.Args[0])
		case mname == "Make":
			st.vars[capKey(o)] = Val{Lin: linSym("default-capacity")}
		default:
			delete(st.vars, capKey(o)) // built by a constructor that sizes it itself
		}
	}
	type finding struct {
		obj  types.Object
		text string
	}
	var findings []finding
	checked := map[types.Object]int{}
	prevLoop := env.onLoop
	env.onLoop = func(st *symState, loop ast.Stmt) {
		for _, fl := range fills {
			if fl.loop != loop {
				continue
			}
			capV, ok := st.vars[capKey(fl.obj)]
			if !ok {
				continue
			}
			checked[fl.obj]++
			// the source of the loop
			var src *Lin
			if fs, ok := loop.(*ast.ForStmt); ok && fs.Cond != nil {
				if it := findIterCond(info, fs.Cond, "HasNext"); it != nil {
					ast.Inspect(fd.Body, func(x ast.Node) bool {
						if lhs, rhs, ok := multiDef(x); ok && len(lhs) == 1 && identObj(info, lhs[0]) == it {
							if rx, mname, _, ok := methodCall(ast.Unparen(rhs)); ok && mname == "GetIterator" {
								src = tracker.sizeAt(st, rx)
							}
						}
						return true
					})
				}
			}
			if rs, ok := loop.(*ast.RangeStmt); ok {
				src = tracker.sizeAt(st, rs.X)
			}
			if vs, ok := visitSrc[loop]; ok {
				src = tracker.sizeAt(st, vs)
			}
			if src == nil {
				src = tracker.n
			}
			full := append(append(Cube{}, env.base...), st.cube...)
			switch {
			case capV.Lin == nil || hasOpaque(capV.Lin):
				findings = append(findings, finding{fl.obj, "skip: the capacity given to the new queue is not an integer form of the inputs"})
			default:
				if sat, dec := satF(full, lt(capV.Lin, src)); sat || !dec {
					what := "the queue is created with capacity %s and then filled in this same function, through the blocking AddValue, with %s values: for some inputs (on {%s}) that is more than the capacity and the call blocks on itself forever"
					if kindOf(fl.obj.Type()) == "stack" {
						what = "the stack is created with capacity %s and then filled in this same function with %s values: for some inputs (on {%s}) that is more than the capacity and AddValue panics (\"reached its capacity\")"
					}
					findings = append(findings, finding{fl.obj, fmt.Sprintf(what, capV.Lin, src, full)})
				}
			}
		}
		prevLoop(st, loop)
	}
	env.onCallStmt = func(st *symState, s *ast.ExprStmt) {
		if _, ok := visitSrc[s]; ok {
			env.onLoop(st, s)
		}
	}
	symRun(env, fd.Body)
	sites := 0
	seen := map[types.Object]bool{}
	for _, fl := range fills {
		if seen[fl.obj] {
			continue
		}
		seen[fl.obj] = true
		construct := c.fdName(fd) + "/" + fl.obj.Name()
		if len(env.problems) > 0 {
			r.skip(rule, construct, c.pos(fd.Pos()), strings.Join(dedup(env.problems), "; "))
			continue
		}
		if checked[fl.obj] == 0 {
			continue // the queue filled here was not created with an explicit or default capacity in this function
		}
		sites++
		bad := ""
		for _, f := range findings {
			if f.obj == fl.obj {
				bad = f.text
			}
		}
		r.verdict(rule, construct, c.pos(fd.Pos()), "the capacity given to the new queue is >= the number of values it is then filled with, on all integers", bad)
	}
	return sites
}

// stmtsBeforeLoops returns the statements of list up to (excluding) the first loop.
func stmtsBeforeLoops(list []ast.Stmt) []ast.Stmt {
	var out []ast.Stmt
	for _, s := range list {
		switch s.(type) {
		case *ast.ForStmt, *ast.RangeStmt:
			return out
		}
		out = append(out, s)
	}
	return out
}

// ---------------------------------------------------------------- queue events (alias- and helper-aware)

// roleOf names a field of the queue by what it is for (private field names may change).
func (qr *queueRoles) roleOf(f *types.Var) string {
	switch f {
	case qr.chanF:
		return "token-channel"
	case qr.capF:
		return "capacity"
	case qr.listF:
		return "value-list"
	case qr.mutexF:
		return "mutex"
	}
	if isClassField(f) {
		return "class"
	}
	return "field:" + f.Name()
}

func isClassField(f *types.Var) bool {
	ms := ifaceMethodNames(f.Type())
	return ms["Notation"] || ms["Make"]
}

// qField: the queue field an expression denotes: X.f directly, or a local variable whose single
// definition is X.f (var channel = v.available_).
func qField(info *types.Info, fd *ast.FuncDecl, e ast.Expr) *types.Var {
	e = ast.Unparen(e)
	if f := selectorField(info, e); f != nil {
		return f
	}
	if id, ok := e.(*ast.Ident); ok {
		if init := initOf(info, fd, id); init != nil {
			if f := selectorField(info, ast.Unparen(init)); f != nil {
				return f
			}
		}
	}
	return nil
}

// qEvent: one occurrence of a queue event.  Outer is the node in the analysed method (the
// event itself or the call of the private helper that contains it); Inner is the event node in
// the function Where that contains it.
type qEvent struct {
	Kind  string
	Outer ast.Node
	Inner ast.Node
	Where *ast.FuncDecl
	Ok    types.Object // recv2: the ok variable (only when Inner is in the analysed method)
	Path  []*ast.CallExpr
}

// directEvents lists the queue events written in fd itself.
func (qr *queueRoles) directEvents(info *types.Info, fd *ast.FuncDecl) []qEvent {
	out := qr.eventsIn(info, fd, fd.Body, nil)
	// function literals that are arguments of an ordinary call (v.exclusively(func() {...})) run
	// before the call returns: their events count as events of that call
	inspectNoLit(fd.Body, func(x ast.Node) bool {
		call, ok := x.(*ast.CallExpr)
		if !ok {
			return true
		}
		for _, a := range call.Args {
			if fl, ok := ast.Unparen(a).(*ast.FuncLit); ok {
				out = append(out, qr.eventsIn(info, fd, fl.Body, call)...)
			}
		}
		return true
	})
	return out
}

// eventsIn lists the events written in body; outer, when given, replaces the event's own node
// as the node of fd's control-flow graph.
func (qr *queueRoles) eventsIn(info *types.Info, fd *ast.FuncDecl, body ast.Node, outer ast.Node) []qEvent {
	var out []qEvent
	defer func() {
		if outer != nil {
			for i := range out {
				out[i].Outer = outer
				out[i].Ok = nil
			}
		}
	}()
	inspectNoLit(body, func(x ast.Node) bool {
		switch s := x.(type) {
		case *ast.SendStmt:
			if qField(info, fd, s.Chan) == qr.chanF {
				out = append(out, qEvent{Kind: "send", Outer: s, Inner: s, Where: fd})
			}
		case *ast.CallExpr:
			if rx, mname, _, ok := methodCall(s); ok && qField(info, fd, rx) == qr.listF {
				switch mname {
				case "AppendValue", "InsertValue":
					out = append(out, qEvent{Kind: "append", Outer: s, Inner: s, Where: fd})
				default:
					if listMutators[mname] {
						out = append(out, qEvent{Kind: "remove", Outer: s, Inner: s, Where: fd})
					}
				}
			}
			if isBuiltinCall(info, s, "close") && len(s.Args) == 1 && qField(info, fd, s.Args[0]) == qr.chanF {
				out = append(out, qEvent{Kind: "close", Outer: s, Inner: s, Where: fd})
			}
			if isBuiltinCall(info, s, "len") && len(s.Args) == 1 && qField(info, fd, s.Args[0]) == qr.chanF {
				out = append(out, qEvent{Kind: "len", Outer: s, Inner: s, Where: fd})
			}
		case *ast.UnaryExpr:
			if s.Op == token.ARROW && qField(info, fd, s.X) == qr.chanF {
				out = append(out, qEvent{Kind: "recv", Outer: s, Inner: s, Where: fd})
			}
		case *ast.SelectorExpr:
			if selectorField(info, s) == qr.listF {
				out = append(out, qEvent{Kind: "listuse", Outer: s, Inner: s, Where: fd})
			}
		}
		if lhs, rhs, ok := multiDef(x); ok && len(lhs) == 2 {
			if u, ok := ast.Unparen(rhs).(*ast.UnaryExpr); ok && u.Op == token.ARROW && qField(info, fd, u.X) == qr.chanF {
				out = append(out, qEvent{Kind: "recv2", Outer: x, Inner: x, Where: fd, Ok: identObj(info, lhs[1])})
			}
		}
		return true
	})
	return out
}

// events lists the queue events of fd including those inside the unexported methods of the
// queue that fd calls on its receiver (up to three levels); for those Outer is the call in fd.
func (qr *queueRoles) events(c *Ctx, info *types.Info, fd *ast.FuncDecl) []qEvent {
	ms := c.methodsOf(qr.q)
	var out []qEvent
	var walk func(cur *ast.FuncDecl, outer ast.Node, path []*ast.CallExpr, depth int)
	walk = func(cur *ast.FuncDecl, outer ast.Node, path []*ast.CallExpr, depth int) {
		for _, e := range qr.directEvents(info, cur) {
			if outer != nil {
				e.Outer = outer
				e.Ok = nil
				e.Path = path
			}
			out = append(out, e)
		}
		if depth >= 3 {
			return
		}
		recv := recvObj(info, cur)
		inspectNoLit(cur.Body, func(x ast.Node) bool {
			if rx, mname, call, ok := methodCall(x); ok && isObj(info, rx, recv) && !ast.IsExported(mname) && ms[mname] != nil && ms[mname] != cur {
				o := outer
				if o == nil {
					o = call
				}
				walk(ms[mname], o, append(append([]*ast.CallExpr{}, path...), call), depth+1)
			}
			return true
		})
	}
	walk(fd, nil, nil, 0)
	return out
}

func eventsOf(evs []qEvent, kind string) []qEvent {
	var out []qEvent
	for _, e := range evs {
		if e.Kind == kind {
			out = append(out, e)
		}
	}
	return out
}

// okEdge: the polarity of the ok variable implied at point pt by the branches that dominate
// it: +1 ok is true, -1 ok is false, 0 unknown.
func okEdge(g *FG, info *types.Info, pt point, okObj types.Object) int {
	for _, ec := range g.edgeConds(pt) {
		cond, pol := ast.Unparen(ec.cond), ec.polarity
		for {
			u, ok := cond.(*ast.UnaryExpr)
			if !ok || u.Op != token.NOT {
				break
			}
			cond, pol = ast.Unparen(u.X), !pol
		}
		if id, ok := cond.(*ast.Ident); ok && info.Uses[id] == okObj {
			if pol {
				return 1
			}
			return -1
		}
	}
	return 0
}

// checkNoBlockingUnderLock: no channel operation, blocking queue call or Wait lies inside a
// region in which the queue's mutex is definitely held.
func checkNoBlockingUnderLock(c *Ctx, r *Rec, rule string, qr *queueRoles) {
	info := c.info("collection")
	ms := c.methodsOf(qr.q)
	mkey := objKey(qr.mutexF)
	for _, name := range sortedKeys(ms) {
		fd := ms[name]
		g := newFG(info, fd.Body)
		li := computeLock(g, info, mkey)
		bad := ""
		locks := 0
		for _, b := range g.order {
			for _, n := range b.Nodes {
				if mutexOp(info, &symEnv{info: info}, n, mkey) == "lock" {
					locks++
				}
				if !li.held[n] {
					continue
				}
				inspectNoLit(n, func(x ast.Node) bool {
					switch s := x.(type) {
					case *ast.SendStmt:
						bad = "channel send at " + c.pos(s.Pos())
					case *ast.UnaryExpr:
						if s.Op == token.ARROW {
							bad = "channel receive at " + c.pos(s.Pos())
						}
					case *ast.SelectStmt:
						bad = "select at " + c.pos(s.Pos())
					case *ast.CallExpr:
						if rx, mname, _, ok := methodCall(s); ok {
							t := info.Types[rx].Type
							isQ := false
							if n := derefNamed(t); n != nil && (n.Origin() == qr.q.Origin() || n.Obj().Name() == "QueueLike") {
								isQ = true
							}
							if isQ && (mname == "AddValue" || mname == "RemoveHead") {
								bad = "blocking queue call " + mname + " at " + c.pos(s.Pos())
							}
							if mname == "Wait" {
								bad = "Wait at " + c.pos(s.Pos())
							}
							// a private helper of the queue that sends or receives
							if isObj(info, rx, recvObj(info, fd)) && !ast.IsExported(mname) && ms[mname] != nil {
								for _, e := range qr.events(c, info, ms[mname]) {
									if e.Kind == "send" || e.Kind == "recv" {
										bad = "the helper " + mname + " called at " + c.pos(s.Pos()) + " blocks on the channel"
									}
								}
							}
						}
					}
					return true
				})
			}
		}
		if locks > 0 {
			r.check(bad == "", rule, c.fdName(fd), c.pos(fd.Pos()), "nothing inside the lock region can block on a channel",
				"a blocking operation lies inside the mutex region ("+bad+"): a full or empty queue then blocks every other caller, including the one that could unblock it")
		}
	}
}

// okEdgeReturn: okEdge at a return statement (0 when the return is not located).
func okEdgeReturn(g *FG, info *types.Info, rs *ast.ReturnStmt, okObj types.Object) int {
	pt, ok := g.locate(rs)
	if !ok {
		return 0
	}
	return okEdge(g, info, pt, okObj)
}

// hasOpaque: the linear form mentions the result of a call the interpreter did not look into.
func hasOpaque(l *Lin) bool {
	for s := range l.C {
		if strings.HasPrefix(s, "val:") && strings.Contains(s, "(") {
			return true
		}
	}
	return false
}

// checkCloseGuard: a close of the token channel that is guarded by a state field needs every
// method that installs a new (open) channel to reset that field.
func checkCloseGuard(c *Ctx, r *Rec, rule string, qr *queueRoles) {
	info := c.info("collection")
	ms := c.methodsOf(qr.q)
	closeFD := ms["CloseQueue"]
	if closeFD == nil {
		return
	}
	fw := c.fieldWrites()
	cg := newFG(info, closeFD.Body)
	for _, ce := range eventsOf(qr.directEvents(info, closeFD), "close") {
		pt, ok := cg.locate(ce.Outer)
		if !ok {
			continue
		}
		for _, ec := range cg.edgeConds(pt) {
			var guard *types.Var
			ast.Inspect(ec.cond, func(x ast.Node) bool {
				if se, ok := x.(*ast.SelectorExpr); ok && isObj(info, se.X, recvObj(info, closeFD)) {
					if f := selectorField(info, se); f != nil {
						guard = f
					}
				}
				return true
			})
			if guard == nil {
				continue
			}
			for _, w := range fw[qr.chanF.Origin()] {
				resets := false
				for _, gw := range fw[guard.Origin()] {
					if gw.In == w.In {
						resets = true
					}
				}
				r.check(resets, rule, c.fdName(closeFD)+"/guard:"+guard.Name()+"/"+w.In.Name.Name, c.pos(w.Pos),
					"the method that installs a new channel also resets the field that guards the close",
					fmt.Sprintf("CloseQueue closes the channel only under a condition on %s, and %s installs a new open channel without resetting %s: a later CloseQueue is skipped and consumers parked on the new channel are never released", guard.Name(), w.In.Name.Name, guard.Name()))
			}
		}
	}
}

// checkTokenBalanceAtBirth: a constructor that fills the value list itself and preloads the
// tokens with a counting loop must send exactly as many tokens as the list holds.
func checkTokenBalanceAtBirth(c *Ctx, r *Rec, rule string, qr *queueRoles) {
	info := c.info("collection")
	cms := c.methodsOf(qr.cls)
	checkBornWithValues(c, r, rule, qr)
	for _, name := range sortedKeys(cms) {
		fd := cms[name]
		// counting loops whose body sends on a channel (the token channel of the queue under construction)
		for li, loop := range loopsIn(fd.Body) {
			fs, ok := loop.(*ast.ForStmt)
			if !ok || fs.Cond == nil || fs.Init == nil || fs.Post == nil {
				continue
			}
			sends := false
			inspectNoLit(fs.Body, func(x ast.Node) bool {
				if ss, ok := x.(*ast.SendStmt); ok {
					if t, ok := info.TypeOf(ss.Chan).Underlying().(*types.Chan); ok && types.Identical(t.Elem(), qr.chanF.Type().Underlying().(*types.Chan).Elem()) {
						sends = true
					}
				}
				return true
			})
			if !sends {
				continue
			}
			construct := fmt.Sprintf("%s/token-preload#%d", c.fdName(fd), li+1)
			be, ok := ast.Unparen(fs.Cond).(*ast.BinaryExpr)
			as, ok2 := fs.Init.(*ast.AssignStmt)
			inc, ok3 := fs.Post.(*ast.IncDecStmt)
			if !ok || !ok2 || !ok3 || inc.Tok != token.INC || len(as.Lhs) != 1 || len(as.Rhs) != 1 || (be.Op != token.LSS && be.Op != token.LEQ) || identObj(info, be.X) == nil || identObj(info, be.X) != identObj(info, as.Lhs[0]) {
				r.skip(rule, construct, c.pos(fs.Pos()), "not a plain counting loop")
				continue
			}
			env := &symEnv{info: info}
			tracker := newSizeTracker(info, fd, env, nil)
			var verdict string
			done := false
			prev := env.onLoop
			env.onLoop = func(st *symState, l ast.Stmt) {
				if l == ast.Stmt(fs) && !done {
					done = true
					start := env.eval(st, as.Rhs[0])
					bound := env.eval(st, be.Y)
					if start.Lin == nil || bound.Lin == nil {
						verdict = "skip: the loop bounds are not integer forms"
					} else {
						trips := bound.Lin.sub(start.Lin)
						if be.Op == token.LEQ {
							trips = trips.plus(1)
						}
						full := append(append(Cube{}, env.base...), st.cube...)
						// the number of values the new queue holds: n (the size of the caller's input)
						if !entailsCube(full, or(eq(trips, tracker.n), and(le(tracker.n, k(0)), le(trips, k(0))))) {
							verdict = fmt.Sprintf("the loop sends %v tokens for the %v initial values: RemoveHead finds a different number of tokens than the list has values (the last value is never delivered, or a token without a value is delivered)", trips, tracker.n)
						}
					}
				}
				if prev != nil {
					prev(st, l)
				}
			}
			symRun(env, fd.Body)
			switch {
			case !done:
				r.skip(rule, construct, c.pos(fs.Pos()), "the loop was not reached by the interpreter")
			default:
				r.verdict(rule, construct, c.pos(fs.Pos()), "one token per initial value", verdict)
			}
		}
	}
}

// checkNoReentryUnderLock: while the queue's mutex is held - in a lock region of a method, or in
// a function literal handed to an unexported method that calls it with the mutex held - the
// queue is not handed to other code and none of its own locking methods is called.  Go's mutexes
// are not re-entrant: the second Lock waits for the first, and with a read-write mutex a second
// RLock deadlocks as soon as a writer queues up between the two.
func checkNoReentryUnderLock(c *Ctx, r *Rec, rule string, qr *queueRoles) {
	info := c.info("collection")
	ms := c.methodsOf(qr.q)
	mkey := objKey(qr.mutexF)
	env := &symEnv{info: info}
	// methods that take the mutex themselves
	locking := map[string]bool{}
	for name, fd := range ms {
		g := newFG(info, fd.Body)
		for _, b := range g.order {
			for _, n := range b.Nodes {
				if mutexOp(info, env, n, mkey) == "lock" {
					locking[name] = true
				}
			}
		}
	}
	// bracket helpers: unexported methods that call a function parameter with the mutex held
	bracket := map[string]int{}
	for name, fd := range ms {
		if ast.IsExported(name) {
			continue
		}
		ps := paramObjs(info, fd)
		g := newFG(info, fd.Body)
		li := computeLock(g, info, mkey)
		inspectNoLit(fd.Body, func(x ast.Node) bool {
			call, ok := x.(*ast.CallExpr)
			if !ok {
				return true
			}
			id, ok := ast.Unparen(call.Fun).(*ast.Ident)
			if !ok {
				return true
			}
			for pi, p := range ps {
				if info.Uses[id] == types.Object(p) {
					if held, ok := li.heldAt(call); ok && held {
						bracket[name] = pi
					}
				}
			}
			return true
		})
	}
	n := 0
	for _, name := range sortedKeys(ms) {
		fd := ms[name]
		recv := recvObj(info, fd)
		if recv == nil {
			continue
		}
		g := newFG(info, fd.Body)
		li := computeLock(g, info, mkey)
		var regions []ast.Node
		for _, b := range g.order {
			for _, nd := range b.Nodes {
				if li.held[nd] {
					regions = append(regions, nd)
				}
			}
		}
		ast.Inspect(fd.Body, func(x ast.Node) bool {
			call, ok := x.(*ast.CallExpr)
			if !ok {
				return true
			}
			if rx, mname, _, ok := methodCall(call); ok && isObj(info, rx, recv) {
				if pi, ok := bracket[mname]; ok && pi < len(call.Args) {
					if lit, ok := ast.Unparen(call.Args[pi]).(*ast.FuncLit); ok {
						regions = append(regions, lit.Body)
					}
				}
			}
			return true
		})
		if len(regions) == 0 {
			continue
		}
		n++
		bad := ""
		for _, reg := range regions {
			inspectNoLit(reg, func(x ast.Node) bool {
				call, ok := x.(*ast.CallExpr)
				if !ok || bad != "" {
					return true
				}
				if mutexOp(info, env, call, mkey) != "" {
					return true
				}
				for _, a := range call.Args {
					if isObj(info, a, recv) {
						bad = fmt.Sprintf("the queue itself is handed to %s at %s while its mutex is held: code that looks at the queue locks the mutex again (a formatter reads it back through GetIterator and GetSize)", exprStr(call.Fun), c.pos(call.Pos()))
					}
				}
				if rx, mname, _, ok := methodCall(call); ok && isObj(info, rx, recv) && locking[mname] {
					if _, isBracket := bracket[mname]; !isBracket || true {
						bad = fmt.Sprintf("%s, which takes the mutex, is called at %s while the mutex is already held", mname, c.pos(call.Pos()))
					}
				}
				return true
			})
		}
		r.check(bad == "", rule, c.fdName(fd), c.pos(fd.Pos()), "inside the lock regions the queue is not handed out and none of its locking methods is called", bad)
	}
	if n == 0 {
		r.skip(rule, "collection.QueueLike/lock-regions", "", "no lock region found in the methods of the queue")
	}
	checkTypeNoReentry(c, r, rule, qr.q)
}

// checkGuardedReferenceStaysInside: a local that is given the value of a guarded reference field
// (the value list) inside a lock region is an alias of the shared object; calling a method on it
// where the mutex is no longer held reads or changes the shared object outside the lock.
func checkGuardedReferenceStaysInside(c *Ctx, r *Rec, rule string, qr *queueRoles) {
	info := c.info("collection")
	ms := c.methodsOf(qr.q)
	mkey := objKey(qr.mutexF)
	n := 0
	for _, name := range sortedKeys(ms) {
		fd := ms[name]
		g := newFG(info, fd.Body)
		li := computeLock(g, info, mkey)
		bad := ""
		inspectNoLit(fd.Body, func(x ast.Node) bool {
			lhs, rhs, ok := multiDef(x)
			if !ok || len(lhs) != 1 || selectorField(info, rhs) != qr.listF {
				return true
			}
			lo := identObj(info, lhs[0])
			if lo == nil {
				return true
			}
			if held, ok := li.heldAt(x); !ok || !held {
				return true
			}
			n++
			inspectNoLit(fd.Body, func(y ast.Node) bool {
				rx, mname, call, ok := methodCall(y)
				if !ok || !isObj(info, rx, lo) || bad != "" {
					return true
				}
				if held, ok := li.heldAt(call); ok && !held {
					bad = fmt.Sprintf("%s is given the value list inside the lock region and %s.%s is called at %s after the mutex was released: the list is read while AddValue or RemoveHead changes it", lo.Name(), lo.Name(), mname, c.pos(call.Pos()))
				}
				return true
			})
			return true
		})
		if bad != "" {
			r.fail(rule, c.fdName(fd), c.pos(fd.Pos()), bad)
		}
	}
	if n == 0 {
		r.ok(rule, "collection.QueueLike/value-list", "", "no local is given the value list itself inside a lock region")
	} else {
		r.ok(rule, "collection.QueueLike/value-list-aliases", "", fmt.Sprintf("%d locals hold the value list; those not reported are used only while the mutex is held", n))
	}
}

// checkBornWithValues: a class constructor that puts a queue together from a literal starts the
// list of values and the channel of tokens in agreement.  A list that is built from the
// constructor's argument in the literal itself holds values from birth; the function then has to
// send the tokens for them too (the counting loop judged above), or hand the values to AddValue.
func checkBornWithValues(c *Ctx, r *Rec, rule string, qr *queueRoles) {
	if qr.listF == nil || qr.chanF == nil {
		return
	}
	info := c.info("collection")
	cms := c.methodsOf(qr.cls)
	for _, name := range sortedKeys(cms) {
		fd := cms[name]
		if fd.Body == nil {
			continue
		}
		params := map[types.Object]bool{}
		for _, p := range paramObjs(info, fd) {
			params[p] = true
		}
		var fromParam func(e ast.Expr, depth int) bool
		fromParam = func(e ast.Expr, depth int) bool {
			if depth > 4 || e == nil {
				return false
			}
			hit := false
			ast.Inspect(e, func(x ast.Node) bool {
				id, ok := x.(*ast.Ident)
				if !ok || hit {
					return !hit
				}
				o := info.Uses[id]
				if o == nil {
					return true
				}
				if params[o] {
					if isGoContainer(o.Type()) || isCollectionLike(o.Type()) {
						hit = true
					}
					return true
				}
				if _, isVar := o.(*types.Var); isVar && o.Pos() >= fd.Body.Pos() && o.Pos() < fd.Body.End() {
					if init := initOfDeep(info, fd, id); init != nil && fromParam(init, depth+1) {
						hit = true
					}
				}
				return true
			})
			return hit
		}
		inspectNoLit(fd.Body, func(x ast.Node) bool {
			lit, ok := x.(*ast.CompositeLit)
			if !ok {
				return true
			}
			if n := derefNamed(info.TypeOf(lit)); n == nil || n.Origin() != qr.q.Origin() {
				return true
			}
			var listInit ast.Expr
			for _, el := range lit.Elts {
				if kv, ok := el.(*ast.KeyValueExpr); ok {
					if id, ok := kv.Key.(*ast.Ident); ok && info.Uses[id] == types.Object(qr.listF.Origin()) || ok && id.Name == qr.listF.Name() {
						listInit = kv.Value
					}
				}
			}
			if listInit == nil {
				return true
			}
			construct := c.fdName(fd) + "/born-with-values"
			if !fromParam(listInit, 0) {
				r.ok(rule, construct, c.pos(lit.Pos()), "the list of the new queue is not built from the constructor's argument: it starts empty, like the channel")
				return true
			}
			// tokens for the initial values: a send on a channel of the token type, or AddValue on the new queue
			supplies := false
			ast.Inspect(fd.Body, func(y ast.Node) bool {
				switch z := y.(type) {
				case *ast.SendStmt:
					if t, ok := info.TypeOf(z.Chan).Underlying().(*types.Chan); ok && types.Identical(t.Elem(), qr.chanF.Type().Underlying().(*types.Chan).Elem()) {
						supplies = true
					}
				case *ast.CallExpr:
					if fn := calleeOf(info, z); fn != nil && !fn.Exported() {
						// a private helper may do the sending
						if d := c.declOf(fn); d != nil && d.Body != nil {
							ast.Inspect(d.Body, func(w ast.Node) bool {
								if _, ok := w.(*ast.SendStmt); ok {
									supplies = true
								}
								return true
							})
						}
					}
				}
				return true
			})
			if supplies {
				r.ok(rule, construct, c.pos(lit.Pos()), "the list is built from the argument and the function sends tokens")
			} else {
				r.fail(rule, construct, c.pos(lit.Pos()), fmt.Sprintf("the new queue's list %s is built from the constructor's argument (%s) while its channel %s is freshly made and nothing in %s sends a token: the queue is born with values that GetSize, IsEmpty and RemoveHead do not see", qr.listF.Name(), exprStr(listInit), qr.chanF.Name(), fd.Name.Name))
			}
			return true
		})
	}
}
