package main

// C04 — Queue is a linearizable FIFO with bounded back-pressure (structural clauses)
// C05 — Queue never loses a wake-up (structural clauses)

import (
	"fmt"
	"go/ast"
	"go/token"
	"go/types"
	"sort"
	"strings"
)

func init() {
	register(&propInfo{
		ID:      "C04",
		Engines: "EFFECT (write sets, lock regions on go/cfg), PATH (pairing, dominance)",
		Decided: "D1 every field of the queue is either never written after construction or accessed only while the queue's mutex is held (a field through which the value list is mutated counts as written); " +
			"D2 every Lock is followed by Unlock on all normal paths; D3 no channel operation or blocking queue call happens inside a lock region; " +
			"D4 AddValue appends under the lock before it publishes the token, RemoveHead takes the token before it pops and pops only when the receive reported ok; " +
			"D5 the channel's buffer size and the stored capacity are the same value, GetSize/IsEmpty read the channel's length.",
		NotDecided: "linearizability, FIFO order across producers, exactly-once delivery, the blocking bound: all quantify over interleavings; D1-D4 are the race-freedom and ordering preconditions of such an argument, nothing more.",
		Run:        runC04,
		Assumptions: []string{"Go memory model: accesses guarded by one mutex do not race; channel operations are synchronised by the runtime"},
	})
	register(&propInfo{
		ID:      "C05",
		Engines: "EFFECT (frozen channel field), SYM (capacity >= input size at self-filling constructors), PATH",
		Decided: "D1 the channel on which AddValue/RemoveHead block is never replaced after construction (a goroutine parked on the old channel cannot be woken through a new one); " +
			"D2 every function that creates a queue and fills it through the blocking AddValue before returning creates it with a capacity >= the number of values on all integers; " +
			"D3 CloseQueue closes the very channel RemoveHead receives from, RemoveHead uses the two-value receive and returns its ok.",
		NotDecided: "absence of lost wake-ups and termination of producer/consumer programs over all schedules (the runtime's channel semantics are trusted, interleavings are not explored).",
		Run:        runC05,
	})
}

type queueRoles struct {
	q, cls                      *types.Named
	chanF, capF, mutexF, listF  *types.Var
}

func bindQueue(c *Ctx, r *Rec) *queueRoles {
	q := c.mustImpl(r, "bind", "collection", "QueueLike")
	cls := c.mustImpl(r, "bind", "collection", "QueueClassLike")
	if q == nil || cls == nil {
		return nil
	}
	qr := &queueRoles{q: q, cls: cls}
	st := structOf(q)
	if st != nil {
		for i := 0; i < st.NumFields(); i++ {
			f := st.Field(i)
			switch u := f.Type().Underlying().(type) {
			case *types.Chan:
				qr.chanF = f
			case *types.Basic:
				if u.Info()&types.IsInteger != 0 {
					qr.capF = f
				}
			default:
				if isSyncType(f.Type()) {
					qr.mutexF = f
				}
			}
		}
	}
	qr.listF = c.fieldOfIface(q, "collection", "ListLike")
	if qr.chanF == nil || qr.capF == nil || qr.mutexF == nil || qr.listF == nil {
		r.undecided("bind", "collection."+q.Obj().Name(), "", "cannot bind channel/capacity/mutex/list fields of the queue by type")
		return nil
	}
	return qr
}

func runC04(c *Ctx, r *Rec) {
	qr := bindQueue(c, r)
	if qr == nil {
		return
	}
	info := c.info("collection")
	ms := c.methodsOf(qr.q)
	mkey := objKey(qr.mutexF)
	fw := c.fieldWrites()

	checkReceiverWrites(c, r, "D1-receiver-writes-persist", qr.q)
	// ---- D1 lock discipline
	st := structOf(qr.q)
	for i := 0; i < st.NumFields(); i++ {
		f := st.Field(i)
		if f == qr.mutexF {
			continue
		}
		construct := "collection." + qr.q.Obj().Name() + "." + f.Name()
		written := len(fw[f.Origin()]) > 0
		needs := written || isCollectionLike(f.Type())
		if !needs {
			r.ok("D1-lock-discipline", construct, c.pos(f.Pos()), "frozen: never written after construction")
			continue
		}
		var unguarded []string
		nacc := 0
		for _, name := range sortedKeys(ms) {
			fd := ms[name]
			var uses []ast.Node
			inspectNoLit(fd.Body, func(x ast.Node) bool {
				if se, ok := x.(*ast.SelectorExpr); ok && selectorField(info, se) == f {
					uses = append(uses, se)
				}
				return true
			})
			if len(uses) == 0 {
				continue
			}
			li := computeLock(newFG(info, fd.Body), info, mkey)
			for _, u := range uses {
				nacc++
				if h, ok := li.heldAt(u); !ok || !h {
					unguarded = append(unguarded, name)
				}
			}
		}
		unguarded = dedup(unguarded)
		sort.Strings(unguarded)
		if len(unguarded) == 0 {
			r.ok("D1-lock-discipline", construct, c.pos(f.Pos()), fmt.Sprintf("guarded: all %d accesses hold the mutex", nacc))
			continue
		}
		how := "its object is mutated through it"
		if written {
			w := fw[f.Origin()][0]
			how = fmt.Sprintf("it is %s in %s at %s", w.How, w.In.Name.Name, c.pos(w.Pos))
		}
		o := r.fail("D1-lock-discipline", construct, c.pos(f.Pos()), fmt.Sprintf("the field is not frozen (%s) and is accessed without the mutex in: %s - a data race", how, strings.Join(unguarded, ", ")))
		o.Witness = "unguarded in " + strings.Join(unguarded, ",")
	}
	r.floor("D1-lock-discipline", 4)

	// ---- D2 pairing, D3 no blocking under lock
	for _, name := range sortedKeys(ms) {
		fd := ms[name]
		checkLockPairing(c, r, "D2-lock-pairing", info, fd, fd.Body, mkey, qr.mutexF.Name())
		g := newFG(info, fd.Body)
		li := computeLock(g, info, mkey)
		bad := ""
		locks := 0
		for _, b := range g.order {
			for _, n := range b.Nodes {
				if mutexOp(info, &symEnv{info: info}, n, mkey) == "lock" {
					locks++
				}
				if !li.held[n] {
					continue
				}
				inspectNoLit(n, func(x ast.Node) bool {
					switch s := x.(type) {
					case *ast.SendStmt:
						bad = "channel send at " + c.pos(s.Pos())
					case *ast.UnaryExpr:
						if s.Op == token.ARROW {
							bad = "channel receive at " + c.pos(s.Pos())
						}
					case *ast.SelectStmt:
						bad = "select at " + c.pos(s.Pos())
					case *ast.CallExpr:
						if rx, mname, _, ok := methodCall(s); ok {
							t := info.Types[rx].Type
							isQ := false
							if n := derefNamed(t); n != nil && (n.Origin() == qr.q.Origin() || n.Obj().Name() == "QueueLike") {
								isQ = true
							}
							if isQ && (mname == "AddValue" || mname == "RemoveHead") {
								bad = "blocking queue call " + mname + " at " + c.pos(s.Pos())
							}
							if mname == "Wait" {
								bad = "Wait at " + c.pos(s.Pos())
							}
						}
					}
					return true
				})
			}
		}
		if locks > 0 {
			r.check(bad == "", "D3-no-blocking-under-lock", c.fdName(fd), c.pos(fd.Pos()), "nothing inside the lock region can block on a channel",
				"a blocking operation lies inside the mutex region ("+bad+"): a full or empty queue then blocks every other caller, including the one that could unblock it")
		}
	}
	r.floor("D2-lock-pairing", 7)
	r.floor("D3-no-blocking-under-lock", 7)

	// ---- D4 publish order
	if fd := ms["AddValue"]; fd != nil {
		g := newFG(info, fd.Body)
		var appendCall, send ast.Node
		inspectNoLit(fd.Body, func(x ast.Node) bool {
			if rx, mname, call, ok := methodCall(x); ok && selectorField(info, rx) == qr.listF && (mname == "AppendValue" || mname == "InsertValue") {
				appendCall = call
			}
			if s, ok := x.(*ast.SendStmt); ok && selectorField(info, s.Chan) == qr.chanF {
				send = s
			}
			return true
		})
		construct := c.fdName(fd)
		switch {
		case appendCall == nil || send == nil:
			r.fail("D4-publish-order", construct, c.pos(fd.Pos()), "AddValue does not both append to the value list and send a token on the channel")
		case !g.nodeDominates(appendCall, send):
			r.fail("D4-publish-order", construct, c.pos(fd.Pos()), "the token is published before (or without) the value being appended: a consumer woken by the token can find the list empty")
		default:
			// the appended value is the parameter, at the tail
			params := paramObjs(info, fd)
			call := appendCall.(*ast.CallExpr)
			_, mname, _, _ := methodCall(call)
			okArg := len(params) == 1 && len(call.Args) == 1 && isObj(info, call.Args[0], params[0]) && mname == "AppendValue"
			r.check(okArg, "D4-publish-order", construct, c.pos(fd.Pos()), "AppendValue(value) under the lock dominates the token send",
				"AddValue does not append its own parameter at the tail of the value list")
		}
	}
	if fd := ms["RemoveHead"]; fd != nil {
		g := newFG(info, fd.Body)
		var recv, remove ast.Node
		var okObj types.Object
		inspectNoLit(fd.Body, func(x ast.Node) bool {
			if lhs, rhs, ok := multiDef(x); ok && len(lhs) == 2 {
				if u, ok := ast.Unparen(rhs).(*ast.UnaryExpr); ok && u.Op == token.ARROW && selectorField(info, u.X) == qr.chanF {
					recv = x
					okObj = identObj(info, lhs[1])
				}
			}
			if rx, mname, call, ok := methodCall(x); ok && selectorField(info, rx) == qr.listF && mname == "RemoveValue" {
				remove = call
			}
			return true
		})
		construct := c.fdName(fd)
		switch {
		case recv == nil || remove == nil || okObj == nil:
			r.fail("D4-publish-order", construct, c.pos(fd.Pos()), "RemoveHead does not (two-value) receive a token from the channel and then remove from the value list")
		case !g.nodeDominates(recv, remove):
			r.fail("D4-publish-order", construct, c.pos(fd.Pos()), "the head is removed before a token has been received: a consumer can pop a value that was never published or index an empty list")
		default:
			// removal only on the ok edge
			pt, _ := g.locate(remove)
			guarded := false
			for _, ec := range g.edgeConds(pt) {
				if id, ok := ast.Unparen(ec.cond).(*ast.Ident); ok && info.Uses[id] == okObj && ec.polarity {
					guarded = true
				}
			}
			call := remove.(*ast.CallExpr)
			tv := info.Types[call.Args[0]]
			head := len(call.Args) == 1 && tv.Value != nil && tv.Value.String() == "1"
			// the function returns the receive's ok
			retOK := true
			inspectNoLit(fd.Body, func(x ast.Node) bool {
				if rs, ok := x.(*ast.ReturnStmt); ok {
					if len(rs.Results) != 2 || !isObj(info, rs.Results[1], okObj) {
						retOK = false
					}
				}
				return true
			})
			r.check(guarded && head && retOK, "D4-publish-order", construct, c.pos(fd.Pos()), "token receive dominates RemoveValue(1), which runs only when ok, and ok is returned",
				fmt.Sprintf("RemoveHead must pop index 1 only on the ok edge of the token receive and return that ok (guarded=%v head=%v returns-ok=%v)", guarded, head, retOK))
		}
	}
	r.floor("D4-publish-order", 2)

	// ---- D5 capacity agreement
	cms := c.methodsOf(qr.cls)
	for _, name := range sortedKeys(cms) {
		fd := cms[name]
		var lit *ast.CompositeLit
		ast.Inspect(fd.Body, func(x ast.Node) bool {
			if cl, ok := x.(*ast.CompositeLit); ok {
				if n := derefNamed(info.Types[cl].Type); n != nil && n.Origin() == qr.q.Origin() {
					lit = cl
				}
			}
			return true
		})
		if lit == nil {
			continue
		}
		construct := c.fdName(fd)
		var capExpr, chanExpr ast.Expr
		for _, el := range lit.Elts {
			if kv, ok := el.(*ast.KeyValueExpr); ok {
				if id, ok := kv.Key.(*ast.Ident); ok {
					if fv, ok := info.Uses[id].(*types.Var); ok {
						switch fv.Origin() {
						case qr.capF:
							capExpr = kv.Value
						case qr.chanF:
							chanExpr = kv.Value
						}
					}
				}
			}
		}
		if id, ok := ast.Unparen(chanExpr).(*ast.Ident); ok && chanExpr != nil {
			if init := initOf(info, fd, id); init != nil {
				chanExpr = init
			}
		}
		var sizeArg ast.Expr
		if call, ok := ast.Unparen(chanExpr).(*ast.CallExpr); ok && chanExpr != nil && isBuiltinCall(info, call, "make") && len(call.Args) == 2 {
			sizeArg = call.Args[1]
		}
		same := false
		if capExpr != nil && sizeArg != nil {
			a, aok := ast.Unparen(capExpr).(*ast.Ident)
			b, bok := ast.Unparen(sizeArg).(*ast.Ident)
			if aok && bok && info.Uses[a] != nil && info.Uses[a] == info.Uses[b] {
				// no assignment to the variable between the make and the literal
				g := newFG(info, fd.Body)
				pt, ok1 := g.after(sizeArg)
				if ok1 {
					mod, _ := g.exists(pathQuery{from: pt,
						stop:     func(n ast.Node) bool { return containsNode(n, lit) },
						goalNode: func(n ast.Node) bool { return !containsNode(n, lit) && assignedIn(info, n, objKey(info.Uses[a]), &symEnv{info: info}) }})
					same = !mod
				}
			}
		}
		r.check(same, "D5-capacity-agreement", construct, c.pos(fd.Pos()), "the channel buffer and the capacity field are the same variable, unchanged in between",
			"the token channel's buffer size and the stored capacity are not the same value: GetCapacity and the real back-pressure bound disagree")
	}
	for _, vname := range []string{"GetSize", "IsEmpty"} {
		fd := ms[vname]
		if fd == nil {
			continue
		}
		usesLen := false
		inspectNoLit(fd.Body, func(x ast.Node) bool {
			if call, ok := x.(*ast.CallExpr); ok && isBuiltinCall(info, call, "len") && len(call.Args) == 1 && selectorField(info, call.Args[0]) == qr.chanF {
				usesLen = true
			}
			return true
		})
		usesList := false
		inspectNoLit(fd.Body, func(x ast.Node) bool {
			if se, ok := x.(*ast.SelectorExpr); ok && selectorField(info, se) == qr.listF {
				usesList = true
			}
			return true
		})
		r.check(usesLen && !usesList, "D5-capacity-agreement", c.fdName(fd), c.pos(fd.Pos()), "reads len(channel), which the language bounds by the capacity",
			"the size is not read from the token channel: while a producer is blocked the value list is longer than the capacity, so GetSize can exceed GetCapacity")
	}
	r.floor("D5-capacity-agreement", 3)
}

func runC05(c *Ctx, r *Rec) {
	qr := bindQueue(c, r)
	if qr == nil {
		return
	}
	info := c.info("collection")
	ms := c.methodsOf(qr.q)
	fw := c.fieldWrites()

	// ---- D1 stable rendez-vous
	construct := "collection." + qr.q.Obj().Name() + "." + qr.chanF.Name()
	if ws := fw[qr.chanF.Origin()]; len(ws) > 0 {
		var where []string
		for _, w := range ws {
			where = append(where, w.In.Name.Name)
		}
		where = dedup(where)
		o := r.fail("D1-stable-rendezvous", construct, c.pos(qr.chanF.Pos()),
			fmt.Sprintf("the channel that AddValue/RemoveHead block on is replaced in %s (at %s): a goroutine parked on the old channel is never woken by operations on the new one", strings.Join(where, ", "), c.pos(ws[0].Pos)))
		o.Witness = "replaced in " + strings.Join(where, ",")
	} else {
		r.ok("D1-stable-rendezvous", construct, c.pos(qr.chanF.Pos()), "the channel field is never written after construction")
	}

	// ---- D4 a lock that is not released blocks every later call for ever
	for _, name := range sortedKeys(ms) {
		checkLockPairing(c, r, "D4-lock-released", info, ms[name], ms[name].Body, objKey(qr.mutexF), qr.mutexF.Name())
	}
	r.floor("D4-lock-released", 7)

	// ---- D2 no self-fill
	nsites := 0
	for _, role := range []string{"collection", "cdcn", "module"} {
		rinfo := c.info(role)
		for _, fd := range c.allFuncDecls(role) {
			nsites += checkSelfFill(c, r, rinfo, fd, qr)
		}
	}
	r.count("queue-creating functions with a fill loop", nsites)
	r.floor("D2-no-self-fill", 1)

	// ---- D3 close wakes consumers
	closeFD, remFD := ms["CloseQueue"], ms["RemoveHead"]
	if closeFD == nil || remFD == nil {
		r.undecided("D3-close-wakes", "collection."+qr.q.Obj().Name(), "", "CloseQueue/RemoveHead not found")
	} else {
		closes := false
		inspectNoLit(closeFD.Body, func(x ast.Node) bool {
			if call, ok := x.(*ast.CallExpr); ok && isBuiltinCall(info, call, "close") && len(call.Args) == 1 && selectorField(info, call.Args[0]) == qr.chanF {
				closes = true
			}
			return true
		})
		r.check(closes, "D3-close-wakes", c.fdName(closeFD), c.pos(closeFD.Pos()), "closes the queue's own token channel", "CloseQueue does not close the channel field that RemoveHead receives from: parked consumers are never released")
		two := false
		inspectNoLit(remFD.Body, func(x ast.Node) bool {
			if lhs, rhs, ok := multiDef(x); ok && len(lhs) == 2 {
				if u, ok := ast.Unparen(rhs).(*ast.UnaryExpr); ok && u.Op == token.ARROW && selectorField(info, u.X) == qr.chanF {
					two = true
				}
			}
			return true
		})
		r.check(two, "D3-close-wakes", c.fdName(remFD), c.pos(remFD.Pos()), "two-value receive on the queue's own token channel", "RemoveHead does not use the two-value receive on the channel field: it cannot tell a closed queue from a value")
	}
	r.floor("D3-close-wakes", 2)
}

// checkSelfFill: if fd creates a queue through a class constructor and calls the
// blocking AddValue on it inside a loop, the capacity given at creation must be
// >= the number of values the loop's source holds (tracked sizes; n = size of
// the caller's input).
func checkSelfFill(c *Ctx, r *Rec, info *types.Info, fd *ast.FuncDecl, qr *queueRoles) int {
	isQueueT := func(t types.Type) bool {
		n := derefNamed(t)
		return n != nil && (n.Origin() == qr.q.Origin() || n.Obj().Name() == "QueueLike")
	}
	// is there a fill loop at all?
	type fill struct {
		obj  types.Object
		loop ast.Stmt
	}
	var fills []fill
	for _, loop := range loopsIn(fd.Body) {
		inspectNoLit(loop, func(x ast.Node) bool {
			if rx, mname, _, ok := methodCall(x); ok && mname == "AddValue" {
				if id, ok := ast.Unparen(rx).(*ast.Ident); ok {
					if t := info.Types[id].Type; t != nil && isQueueT(t) {
						o := info.Uses[id]
						isParam := false
						for _, p := range paramObjs(info, fd) {
							if p == o {
								isParam = true
							}
						}
						if v, ok := o.(*types.Var); ok && !isParam && !v.IsField() {
							fills = append(fills, fill{o, loop})
						}
					}
				}
			}
			return true
		})
	}
	if len(fills) == 0 {
		return 0
	}
	env := &symEnv{info: info}
	var tracker *sizeTracker
	capKey := func(o types.Object) string { return "cap:" + objKey(o) }
	tracker = newSizeTracker(info, fd, env, nil)
	prevAssign := env.onAssign
	env.onAssign = func(st *symState, lhs ast.Expr, rhs ast.Expr) {
		prevAssign(st, lhs, rhs)
		o := identObj(info, lhs)
		if o == nil || !isQueueT(o.Type()) {
			return
		}
		_, mname, call, ok := methodCall(ast.Unparen(rhs))
		if !ok {
			return
		}
		switch {
		case mname == "MakeWithCapacity" && len(call.Args) == 1:
			st.vars[capKey(o)] = env.eval(st, call.Args[0])
		case mname == "Make":
			st.vars[capKey(o)] = Val{Lin: linSym("default-capacity")}
		default:
			delete(st.vars, capKey(o)) // built by a constructor that sizes it itself
		}
	}
	type finding struct {
		obj  types.Object
		text string
	}
	var findings []finding
	checked := map[types.Object]int{}
	prevLoop := env.onLoop
	env.onLoop = func(st *symState, loop ast.Stmt) {
		for _, fl := range fills {
			if fl.loop != loop {
				continue
			}
			capV, ok := st.vars[capKey(fl.obj)]
			if !ok {
				continue
			}
			checked[fl.obj]++
			// the source of the loop
			var src *Lin
			if fs, ok := loop.(*ast.ForStmt); ok && fs.Cond != nil {
				if it := findIterCond(info, fs.Cond, "HasNext"); it != nil {
					ast.Inspect(fd.Body, func(x ast.Node) bool {
						if lhs, rhs, ok := multiDef(x); ok && len(lhs) == 1 && identObj(info, lhs[0]) == it {
							if rx, mname, _, ok := methodCall(ast.Unparen(rhs)); ok && mname == "GetIterator" {
								src = tracker.sizeAt(st, rx)
							}
						}
						return true
					})
				}
			}
			if rs, ok := loop.(*ast.RangeStmt); ok {
				src = tracker.sizeAt(st, rs.X)
			}
			if src == nil {
				src = tracker.n
			}
			full := append(append(Cube{}, env.base...), st.cube...)
			switch {
			case capV.Lin == nil:
				findings = append(findings, finding{fl.obj, "the capacity given to the new queue is not an integer form"})
			default:
				if sat, dec := satF(full, lt(capV.Lin, src)); sat || !dec {
					findings = append(findings, finding{fl.obj, fmt.Sprintf("the queue is created with capacity %s and then filled in this same function, through the blocking AddValue, with %s values: for some inputs (on {%s}) that is more than the capacity and the call blocks on itself forever", capV.Lin, src, full)})
				}
			}
		}
		prevLoop(st, loop)
	}
	symRun(env, fd.Body)
	sites := 0
	seen := map[types.Object]bool{}
	for _, fl := range fills {
		if seen[fl.obj] {
			continue
		}
		seen[fl.obj] = true
		construct := c.fdName(fd) + "/" + fl.obj.Name()
		if len(env.problems) > 0 {
			r.undecided("D2-no-self-fill", construct, c.pos(fd.Pos()), strings.Join(dedup(env.problems), "; "))
			continue
		}
		if checked[fl.obj] == 0 {
			continue // the queue filled here was not created with an explicit or default capacity in this function
		}
		sites++
		bad := ""
		for _, f := range findings {
			if f.obj == fl.obj {
				bad = f.text
			}
		}
		r.check(bad == "", "D2-no-self-fill", construct, c.pos(fd.Pos()), "the capacity given to the new queue is >= the number of values it is then filled with, on all integers", bad)
	}
	return sites
}

// stmtsBeforeLoops returns the statements of list up to (excluding) the first loop.
func stmtsBeforeLoops(list []ast.Stmt) []ast.Stmt {
	var out []ast.Stmt
	for _, s := range list {
		switch s.(type) {
		case *ast.ForStmt, *ast.RangeStmt:
			return out
		}
		out = append(out, s)
	}
	return out
}
