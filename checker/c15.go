package main

// C15 — Set algebra (ALG engine: 4-bit truth tables over membership in the two operands)
// C16 — Merge, Extract, Concatenate (segment / override laws)

import (
	"fmt"
	"go/ast"
	"go/token"
	"go/types"
	"strings"
)

func init() {
	register(&propInfo{
		ID:      "C15",
		Engines: "ALG (abstract interpretation of the set class functions over 4-bit membership truth tables, sibling summaries composed), FLOW (freshness), purity scan",
		Decided: "D1 And, Or, Sans and Xor evaluate, for a generic element, to the truth tables 0001, 0111, 0100, 0110 over (in first, in second) - for every way of expressing them through AddValues/RemoveValues/filter loops/sibling calls the interpreter understands; " +
			"D2 no mutating method is invoked on an operand and the result is created in the call and shares no storage with an operand (so aliased operands behave as two equal sets); " +
			"D3 the result is created with an operand's collator." +
			" Also: the class functions write no field of the class object; the result's ordered storage is changed only through the set's searched insert/remove; a loop that indexes a set by a counter and removes from it steps the counter back.",
		NotDecided: "order and duplicate-freedom of the result (C02) and the membership semantics of ContainsValue/AddValue themselves (C02/C07): the tables are over abstract membership.",
		Run:        runC15,
	})
	register(&propInfo{
		ID:      "C16",
		Engines: "ALG (segment/override shapes), PATH (control dependence), dependence closure on the syntax tree, FLOW (freshness)",
		Decided: "D1 Concatenate appends first then second to a list made in the call; D2 Merge starts from a copy of first and then sets, for every association of second in order, that association's key to that association's value; " +
			"D3 Extract iterates the requested keys in order and stores a key only under a presence test that depends on the key and on the source catalog and not on the looked-up value; " +
			"D4 operands are not mutated and results are fresh." +
			" Also: a returned collection that starts as a copy starts as a copy of the first operand; the class functions keep no state; association cells of an operand are never stored into the result; when the result is assembled with make and copy the copies tile it (offsets = lengths of what precedes)." +
			" Round 7: (C16) an iterator over GetValues(S) is advanced on every path through a loop over S.",
		NotDecided: "nothing beyond the three laws' shape: that SetValue/AppendValues themselves do what they document is C03/C01.",
		Run:        runC16,
	})
}

// ---------------------------------------------------------------- ALG sets

type algCtx struct {
	c     *Ctx
	info  *types.Info
	cls   map[string]*ast.FuncDecl
	memo  map[string]*uint8
	probs []string
	depth int
}

const (
	tblFirst  uint8 = 0b0011 // bit i set <=> element in first, for i = 2*f + s over (f,s) in 00,01,10,11 -> bits 0..3; written MSB=11
	tblSecond uint8 = 0b0101
)

// Bits are indexed by the pair (inFirst, inSecond): index = 2*inFirst + inSecond.
// We store bit(index).  first = {10,11} -> indices 2,3 ; second = {01,11} -> indices 1,3.
func tblOf(inFirst bool) uint8 {
	if inFirst {
		return 1<<2 | 1<<3
	}
	return 1<<1 | 1<<3
}

func tblString(t uint8) string {
	// rendered in the order 00,01,10,11
	var sb strings.Builder
	for i := 0; i < 4; i++ {
		if t&(1<<i) != 0 {
			sb.WriteByte('1')
		} else {
			sb.WriteByte('0')
		}
	}
	return sb.String()
}

// compose applies a binary set function (given as a table over (a,b)) to argument tables.
func compose(f, a, b uint8) uint8 {
	var out uint8
	for i := 0; i < 4; i++ {
		ai, bi := 0, 0
		if a&(1<<i) != 0 {
			ai = 1
		}
		if b&(1<<i) != 0 {
			bi = 1
		}
		if f&(1<<(2*ai+bi)) != 0 {
			out |= 1 << i
		}
	}
	return out
}

func (a *algCtx) irrelevant(e ast.Expr, env map[types.Object]uint8) bool {
	touches := false
	ast.Inspect(e, func(x ast.Node) bool {
		if id, ok := x.(*ast.Ident); ok {
			if _, ok := env[a.info.Uses[id]]; ok {
				touches = true
			}
		}
		return true
	})
	return !touches
}

func (a *algCtx) problem(format string, args ...any) {
	a.probs = append(a.probs, fmt.Sprintf(format, args...))
}

// evalFunc computes the table of a class function of two set operands.
func (a *algCtx) evalFunc(name string) (uint8, bool) {
	if t, ok := a.memo[name]; ok {
		if t == nil {
			a.problem("recursive class function %s", name)
			return 0, false
		}
		return *t, true
	}
	fd := a.cls[name]
	if fd == nil {
		a.problem("class function %s not found", name)
		return 0, false
	}
	a.memo[name] = nil
	params := paramObjs(a.info, fd)
	if len(params) != 2 {
		a.problem("%s does not take two operands", name)
		return 0, false
	}
	env := map[types.Object]uint8{params[0]: tblOf(true), params[1]: tblOf(false)}
	iters := map[types.Object]uint8{} // iterator variable -> table of the set it enumerates
	t, ok := a.execList(fd, fd.Body.List, env, iters)
	if !ok {
		delete(a.memo, name)
		return 0, false
	}
	a.memo[name] = &t
	return t, true
}

// evalExpr: table of a set-valued expression.
func (a *algCtx) evalExpr(fd *ast.FuncDecl, e ast.Expr, env map[types.Object]uint8) (uint8, bool) {
	e = ast.Unparen(e)
	if id, ok := e.(*ast.Ident); ok {
		if t, ok := env[a.info.Uses[id]]; ok {
			return t, true
		}
		a.problem("unknown set variable %s", id.Name)
		return 0, false
	}
	if rx, mname, call, ok := methodCall(e); ok {
		recv := recvObj(a.info, fd)
		if isObj(a.info, rx, recv) {
			switch {
			case (mname == "Make" && len(call.Args) == 0) || (mname == "MakeWithCollator" && len(call.Args) == 1):
				return 0, true
			case (mname == "MakeFromSequence" || mname == "MakeFromArray") && len(call.Args) == 1:
				return a.evalExpr(fd, call.Args[0], env)
			case len(call.Args) == 2 && a.cls[mname] != nil:
				f, ok := a.evalFunc(mname)
				if !ok {
					return 0, false
				}
				x, ok1 := a.evalExpr(fd, call.Args[0], env)
				y, ok2 := a.evalExpr(fd, call.Args[1], env)
				if !ok1 || !ok2 {
					return 0, false
				}
				return compose(f, x, y), true
			}
		}
	}
	if call, ok := e.(*ast.CallExpr); ok {
		if t, ok, handled := a.callHelper(fd, call, env); handled {
			return t, ok
		}
	}
	a.problem("unsupported set expression %s", exprStr(e))
	return 0, false
}

// callHelper interprets a call of an unexported function of the repository: its set-valued
// parameters are bound to the tables of the arguments, its body is interpreted in place.
func (a *algCtx) callHelper(fd *ast.FuncDecl, call *ast.CallExpr, env map[types.Object]uint8) (uint8, bool, bool) {
	cf := calleeOf(a.info, call)
	if cf == nil || cf.Exported() {
		return 0, false, false
	}
	hd := a.c.declOf(cf.Origin())
	if hd == nil || hd.Body == nil {
		return 0, false, false
	}
	if a.depth >= 3 {
		a.problem("helper nesting too deep at %s", a.c.pos(call.Pos()))
		return 0, false, true
	}
	hp := paramObjs(a.info, hd)
	henv := map[types.Object]uint8{}
	for i, arg := range call.Args {
		if i >= len(hp) {
			break
		}
		if o := identObj(a.info, ast.Unparen(arg)); o != nil {
			if t, ok := env[o]; ok {
				henv[hp[i]] = t
			}
			continue
		}
		if _, isCall := ast.Unparen(arg).(*ast.CallExpr); isCall && isCollectionLike(hp[i].Type()) {
			saved := len(a.probs)
			if t, ok := a.evalExpr(fd, arg, env); ok {
				henv[hp[i]] = t
			} else {
				a.probs = a.probs[:saved]
			}
		}
	}
	a.depth++
	t, ok := a.execList(hd, hd.Body.List, henv, map[types.Object]uint8{})
	a.depth--
	return t, ok, true
}

// execList interprets statements; returns the table of the returned set.
func (a *algCtx) execList(fd *ast.FuncDecl, list []ast.Stmt, env map[types.Object]uint8, iters map[types.Object]uint8) (uint8, bool) {
	for _, s := range list {
		switch st := s.(type) {
		case *ast.ReturnStmt:
			if len(st.Results) != 1 {
				a.problem("unexpected return arity")
				return 0, false
			}
			return a.evalExpr(fd, st.Results[0], env)
		case *ast.DeclStmt, *ast.AssignStmt:
			var lhs []ast.Expr
			var rhs []ast.Expr
			if ds, ok := st.(*ast.DeclStmt); ok {
				gd := ds.Decl.(*ast.GenDecl)
				for _, sp := range gd.Specs {
					vs := sp.(*ast.ValueSpec)
					for _, n := range vs.Names {
						lhs = append(lhs, n)
					}
					rhs = append(rhs, vs.Values...)
				}
			} else {
				as := st.(*ast.AssignStmt)
				lhs, rhs = as.Lhs, as.Rhs
			}
			if len(lhs) != 1 || len(rhs) != 1 {
				a.problem("unsupported declaration at %s", a.c.pos(s.Pos()))
				return 0, false
			}
			obj := identObj(a.info, lhs[0])
			// iterator := X.GetIterator()
			if rx, mname, _, ok := methodCall(ast.Unparen(rhs[0])); ok && mname == "GetIterator" {
				t, ok := a.evalExpr(fd, rx, env)
				if !ok {
					return 0, false
				}
				iters[obj] = t
				continue
			}
			if obj != nil && (!ifaceMethodNames(obj.Type())["GetIterator"] || (!isCollectionLike(obj.Type()) && a.irrelevant(rhs[0], env))) {
				continue // a collator, a notation, a size: not a set
			}
			t, ok := a.evalExpr(fd, rhs[0], env)
			if !ok {
				return 0, false
			}
			env[obj] = t
		case *ast.ExprStmt:
			rx, mname, call, ok := methodCall(st.X)
			if !ok {
				a.problem("unsupported statement at %s", a.c.pos(s.Pos()))
				return 0, false
			}
			obj := identObj(a.info, rx)
			cur, known := env[obj]
			if !known {
				a.problem("call on unknown set %s", exprStr(rx))
				return 0, false
			}
			switch mname {
			case "AddValues", "RemoveValues":
				x, ok := a.evalExpr(fd, call.Args[0], env)
				if !ok {
					return 0, false
				}
				if mname == "AddValues" {
					env[obj] = cur | x
				} else {
					env[obj] = cur &^ x
				}
			case "RemoveAll":
				env[obj] = 0
			default:
				a.problem("unsupported set operation %s", mname)
				return 0, false
			}
		case *ast.ForStmt:
			// for it.HasNext() { v := it.GetNext(); [if [!]Y.ContainsValue(v)] { R.AddValue(v) | R.RemoveValue(v) } }
			if st.Init != nil {
				if lhs, rhs, ok := multiDefStmt(st.Init); ok && len(lhs) == 1 {
					if rx, mname, _, ok := methodCall(ast.Unparen(rhs)); ok && mname == "GetIterator" {
						if t, ok := a.evalExpr(fd, rx, env); ok {
							iters[identObj(a.info, lhs[0])] = t
						}
					}
				}
			}
			if st.Cond == nil {
				a.problem("loop without a condition at %s", a.c.pos(st.Pos()))
				return 0, false
			}
			itObj := findIterCond(a.info, st.Cond, "HasNext")
			src, ok := iters[itObj]
			if itObj == nil || !ok {
				a.problem("loop at %s is not over a known iterator", a.c.pos(st.Pos()))
				return 0, false
			}
			var elem types.Object
			cond := uint8(0b1111)
			for _, bs := range st.Body.List {
				if lhs, rhs, ok := multiDefStmt(bs); ok && len(lhs) == 1 && methodCallOn(a.info, ast.Unparen(rhs), itObj, "GetNext") {
					elem = identObj(a.info, lhs[0])
					continue
				}
				// if C { continue }: the rest of the body runs under not C
				if is, ok := bs.(*ast.IfStmt); ok && is.Init == nil && is.Else == nil && len(is.Body.List) == 1 {
					if br, ok := is.Body.List[0].(*ast.BranchStmt); ok && br.Tok == token.CONTINUE && br.Label == nil {
						cnd, ok := a.memberCond(fd, is.Cond, elem, env)
						if !ok {
							return 0, false
						}
						cond &^= cnd
						continue
					}
				}
				if !a.elementStmt(fd, bs, elem, src, cond, env) {
					return 0, false
				}
			}
		default:
			a.problem("unsupported statement %T at %s", s, a.c.pos(s.Pos()))
			return 0, false
		}
	}
	a.problem("class function falls off its end")
	return 0, false
}

func multiDefStmt(s ast.Stmt) ([]ast.Expr, ast.Expr, bool) {
	switch st := s.(type) {
	case *ast.AssignStmt:
		return multiDef(st)
	case *ast.DeclStmt:
		if gd, ok := st.Decl.(*ast.GenDecl); ok && len(gd.Specs) == 1 {
			return multiDef(gd.Specs[0])
		}
	}
	return nil, nil, false
}

// elementStmt handles a statement of a filter-loop body for the generic
// element `elem` ranging over `src`, under the membership condition `cond`.
func (a *algCtx) elementStmt(fd *ast.FuncDecl, s ast.Stmt, elem types.Object, src uint8, cond uint8, env map[types.Object]uint8) bool {
	switch st := s.(type) {
	case *ast.ExprStmt:
		rx, mname, call, ok := methodCall(st.X)
		if !ok || len(call.Args) != 1 || elem == nil || !isObj(a.info, call.Args[0], elem) {
			a.problem("unsupported loop statement at %s", a.c.pos(s.Pos()))
			return false
		}
		obj := identObj(a.info, rx)
		cur, known := env[obj]
		if !known {
			a.problem("loop updates unknown set %s", exprStr(rx))
			return false
		}
		switch mname {
		case "AddValue":
			env[obj] = cur | (src & cond)
		case "RemoveValue":
			env[obj] = cur &^ (src & cond)
		default:
			a.problem("unsupported element operation %s", mname)
			return false
		}
		return true
	case *ast.IfStmt:
		if st.Init != nil {
			a.problem("unsupported if-init")
			return false
		}
		c, ok := a.memberCond(fd, st.Cond, elem, env)
		if !ok {
			return false
		}
		for _, bs := range st.Body.List {
			if !a.elementStmt(fd, bs, elem, src, cond&c, env) {
				return false
			}
		}
		switch e := st.Else.(type) {
		case nil:
		case *ast.BlockStmt:
			for _, bs := range e.List {
				if !a.elementStmt(fd, bs, elem, src, cond&^c, env) {
					return false
				}
			}
		default:
			a.problem("unsupported else form")
			return false
		}
		return true
	}
	a.problem("unsupported loop statement %T at %s", s, a.c.pos(s.Pos()))
	return false
}

// memberCond: table of a boolean membership condition on the generic element.
func (a *algCtx) memberCond(fd *ast.FuncDecl, e ast.Expr, elem types.Object, env map[types.Object]uint8) (uint8, bool) {
	e = ast.Unparen(e)
	switch x := e.(type) {
	case *ast.UnaryExpr:
		if x.Op == token.NOT {
			t, ok := a.memberCond(fd, x.X, elem, env)
			return ^t & 0b1111, ok
		}
	case *ast.BinaryExpr:
		l, ok1 := a.memberCond(fd, x.X, elem, env)
		r, ok2 := a.memberCond(fd, x.Y, elem, env)
		if ok1 && ok2 {
			switch x.Op {
			case token.LAND:
				return l & r, true
			case token.LOR:
				return l | r, true
			}
		}
	case *ast.CallExpr:
		if rx, mname, call, ok := methodCall(x); ok && mname == "ContainsValue" && len(call.Args) == 1 && elem != nil && isObj(a.info, call.Args[0], elem) {
			return a.evalExpr(fd, rx, env)
		}
	}
	a.problem("unsupported membership condition %s", exprStr(e))
	return 0, false
}

var setMutatorNames = map[string]bool{"AddValue": true, "AddValues": true, "RemoveValue": true, "RemoveValues": true, "RemoveAll": true,
	"SetValue": true, "SetValues": true, "InsertValue": true, "InsertValues": true, "AppendValue": true, "AppendValues": true,
	"SortValues": true, "SortValuesWithRanker": true, "ReverseValues": true, "ShuffleValues": true, "RemoveHead": true, "RemoveTop": true, "CloseQueue": true}

// operandsNotMutated: no mutating method is called on a parameter of fd.
func operandsNotMutated(info *types.Info, fd *ast.FuncDecl) string {
	params := paramObjs(info, fd)
	bad := ""
	ast.Inspect(fd.Body, func(x ast.Node) bool {
		if rx, mname, _, ok := methodCall(x); ok && setMutatorNames[mname] {
			for _, p := range params {
				if isObj(info, rx, p) {
					bad = fmt.Sprintf("%s is called on the operand %s: the class function changes its argument", mname, p.Name())
				}
			}
		}
		return true
	})
	return bad
}

// classFunctionStateless: the class function, and the private methods of its class that it
// reaches through its receiver, write no field of the class object (a class function that
// keeps something from one call for the next is not a function of its operands).
func classFunctionStateless(c *Ctx, info *types.Info, cls *types.Named, fd *ast.FuncDecl) string {
	ms := c.methodsOf(cls)
	cg := c.sameTypeCallGraph(cls)
	name := fd.Name.Name
	scope := []*ast.FuncDecl{fd}
	seen := map[string]bool{name: true}
	for work := []string{name}; len(work) > 0; {
		n := work[0]
		work = work[1:]
		for callee := range cg[n] {
			if !seen[callee] && !ast.IsExported(callee) && ms[callee] != nil {
				seen[callee] = true
				scope = append(scope, ms[callee])
				work = append(work, callee)
			}
		}
	}
	bad := ""
	for _, sfd := range scope {
		recv := recvObj(info, sfd)
		inspectNoLit(sfd.Body, func(x ast.Node) bool {
			mark := func(l ast.Expr) {
				l = ast.Unparen(l)
				if ix, ok := l.(*ast.IndexExpr); ok {
					l = ast.Unparen(ix.X)
				}
				if se, ok := l.(*ast.SelectorExpr); ok && selectorField(info, se) != nil && recvRooted(info, se.X, recv) {
					bad = fmt.Sprintf("%s writes the class field %s at %s: the class function keeps state from one call to the next", sfd.Name.Name, se.Sel.Name, c.pos(l.Pos()))
				}
			}
			switch st := x.(type) {
			case *ast.AssignStmt:
				for _, l := range st.Lhs {
					mark(l)
				}
			case *ast.IncDecStmt:
				mark(st.X)
			}
			return true
		})
	}
	return bad
}

func pureClassFunction(c *Ctx, info *types.Info, cls *types.Named, fd *ast.FuncDecl) string {
	if b := operandsNotMutated(info, fd); b != "" {
		return b
	}
	return classFunctionStateless(c, info, cls, fd)
}

func resultFreshNoAlias(c *Ctx, fd *ast.FuncDecl) string {
	fa := c.flow()
	sf := fa.byFD[fd]
	if sf == nil {
		return "no SSA summary"
	}
	sum := fa.sum[sf]
	if len(sum.freshRet) >= 1 && !sum.freshRet[0] {
		return "the result is not created in the call: " + sum.whyRet[0]
	}
	for pi := 1; pi < len(sum.aliasRet); pi++ {
		if sum.aliasRet[pi] {
			return fmt.Sprintf("the result shares storage with operand #%d (later changes to one show in the other)", pi)
		}
	}
	return ""
}

func runC15(c *Ctx, r *Rec) {
	cls := c.mustImpl(r, "bind", "collection", "SetClassLike")
	if cls == nil {
		return
	}
	info := c.info("collection")
	shapeLints(c, r, fileFuncs(c, "collection", cls))
	a := &algCtx{c: c, info: info, cls: map[string]*ast.FuncDecl{}, memo: map[string]*uint8{}}
	for name, fd := range c.methodsOf(cls) {
		if len(paramObjs(info, fd)) == 2 {
			a.cls[name] = fd
		}
	}
	// tables in the order 00,01,10,11
	want := map[string]string{"And": "0001", "Or": "0111", "Sans": "0010", "Xor": "0110"}
	// NOTE order: index = 2*inFirst + inSecond, so "10" (in first only) is position 2: Sans = only position 2.
	for _, name := range []string{"And", "Or", "Sans", "Xor"} {
		fd := a.cls[name]
		construct := "collection." + cls.Obj().Name() + "." + name
		if fd == nil {
			r.undecided("D1-truth-table", construct, "", "class function not found")
			continue
		}
		a.probs = nil
		t, ok := a.evalFunc(name)
		switch {
		case !ok:
			r.skip("D1-truth-table", construct, c.pos(fd.Pos()), "the body is outside the vocabulary of the set-algebra interpreter: "+strings.Join(dedup(a.probs), "; "))
		case tblString(t) != want[name]:
			o := r.fail("D1-truth-table", construct, c.pos(fd.Pos()), fmt.Sprintf("membership table over (in first, in second) = (00,01,10,11) is %s, required %s: %s", tblString(t), want[name], tblDiff(t, want[name])))
			o.Witness = tblString(t)
		default:
			r.ok("D1-truth-table", construct, c.pos(fd.Pos()), "membership table (00,01,10,11) = "+tblString(t))
		}
		r.check(pureClassFunction(c, info, cls, fd) == "", "D2-pure", construct, c.pos(fd.Pos()), "no mutating call on an operand, no write to the class object", pureClassFunction(c, info, cls, fd))
		bad := resultFreshNoAlias(c, fd)
		r.check(bad == "", "D2-fresh", construct, c.pos(fd.Pos()), "result created in the call, no operand storage inside", bad)
		// D3 collator: every set created in the function is created with an operand's collator
		badC := ""
		// the function itself and the unexported class methods it hands its operands to
		scopeFds := []*ast.FuncDecl{fd}
		for i := 0; i < len(scopeFds) && i < 6; i++ {
			cur := scopeFds[i]
			ast.Inspect(cur.Body, func(x ast.Node) bool {
				if rx, mname, _, ok := methodCall(x); ok && isObj(info, rx, recvObj(info, cur)) && !ast.IsExported(mname) {
					if hd := c.methodsOf(cls)[mname]; hd != nil && hd.Body != nil {
						dup := false
						for _, s := range scopeFds {
							if s == hd {
								dup = true
							}
						}
						if !dup {
							scopeFds = append(scopeFds, hd)
						}
					}
				}
				return true
			})
		}
		for _, sfd := range scopeFds {
			fd := sfd
			params := paramObjs(info, fd)
			ast.Inspect(fd.Body, func(x ast.Node) bool {
				if rx, mname, call, ok := methodCall(x); ok && isObj(info, rx, recvObj(info, fd)) {
					switch mname {
					case "Make", "MakeFromArray", "MakeFromSequence":
						badC = "a result set is created with " + mname + " (the default collator) instead of the operands' collator: under a custom collator the result orders and de-duplicates differently"
					case "MakeWithCollator":
						okArg, unknownArg := false, false
						src := resolveInit(info, fd, call.Args[0])
						if crx, cname, _, ok := methodCall(src); ok && cname == "GetCollator" {
							for _, p := range params {
								if isObj(info, crx, p) {
									okArg = true
								}
							}
							// the collator of a set computed here from the operands (a sibling's result) is the operands' collator too
							if !okArg {
								if o := identObj(info, crx); o != nil && ifaceMethodNames(o.Type())["GetCollator"] {
									okArg = true
								}
							}
						} else if _, cname, _, ok := methodCall(src); !ok || cname != "Make" {
							unknownArg = true // neither an operand's collator nor a freshly made default one
						}
						if unknownArg && !okArg {
							if badC == "" {
								badC = "skip: the collator given to MakeWithCollator is not recognised"
							}
						} else if !okArg {
							badC = "MakeWithCollator is not given an operand's GetCollator()"
						}
					}
				}
				return true
			})
		}
		r.verdict("D3-collator", construct, c.pos(fd.Pos()), "every set built here uses an operand's collator (or comes from a sibling that does)", badC)
	}
	// the result's ordered storage is only changed through the set's own searched insert/remove
	if set, _ := c.impl("collection", "SetLike"); set != nil {
		storage := c.fieldOfIface(set, "collection", "ListLike")
		var searchFn *types.Func
		sms := c.methodsOf(set)
		for _, name := range sortedKeys(sms) {
			if ast.IsExported(name) {
				continue
			}
			sig := c.funcOf(sms[name]).Type().(*types.Signature)
			if sig.Results().Len() == 2 && isIntegerType(sig.Results().At(0).Type()) && isBoolType(sig.Results().At(1).Type()) && sig.Params().Len() == 1 {
				searchFn = c.funcOf(sms[name])
			}
		}
		if storage != nil && searchFn != nil {
			var fds []*ast.FuncDecl
			cm := c.methodsOf(cls)
			for _, name := range sortedKeys(cm) {
				fds = append(fds, cm[name])
			}
			_, _, n := checkStorageSites(c, r, "D1-ordered-storage", info, fds, storage, searchFn)
			r.count("class functions reaching into set storage", n)
		}
	}
	{
		var fds []*ast.FuncDecl
		cm := c.methodsOf(cls)
		for _, name := range sortedKeys(cm) {
			fds = append(fds, cm[name])
		}
		checkRemoveWhileIndexing(c, r, "D1-every-element-examined", info, fds)
	}
	r.floor("D1-truth-table", 4)
	r.floor("D2-pure", 4)
	r.floor("D2-fresh", 4)
}

func tblDiff(t uint8, want string) string {
	names := []string{"in neither", "only in second", "only in first", "in both"}
	var out []string
	for i := 0; i < 4; i++ {
		got := t&(1<<i) != 0
		w := want[i] == '1'
		if got != w {
			if got {
				out = append(out, "an element "+names[i]+" is in the result but must not be")
			} else {
				out = append(out, "an element "+names[i]+" is missing from the result")
			}
		}
	}
	return strings.Join(out, "; ")
}

// ---------------------------------------------------------------- C16

// depClosure computes, for every local variable of fd, the set of variables
// (and parameters) its value may depend on through assignments and the
// conditions/loop headers that control them.
func depClosure(info *types.Info, fd *ast.FuncDecl) map[types.Object]map[types.Object]bool {
	deps := map[types.Object]map[types.Object]bool{}
	addDep := func(to, from types.Object) bool {
		if to == nil || from == nil || to == from {
			return false
		}
		if deps[to] == nil {
			deps[to] = map[types.Object]bool{}
		}
		if deps[to][from] {
			return false
		}
		deps[to][from] = true
		return true
	}
	idents := func(n ast.Node) []types.Object {
		var out []types.Object
		if n == nil {
			return nil
		}
		ast.Inspect(n, func(x ast.Node) bool {
			if id, ok := x.(*ast.Ident); ok {
				if v, ok := info.Uses[id].(*types.Var); ok && !v.IsField() {
					out = append(out, v)
				}
			}
			return true
		})
		return out
	}
	rootObj := func(e ast.Expr) types.Object {
		for {
			switch x := ast.Unparen(e).(type) {
			case *ast.IndexExpr:
				e = x.X
				continue
			case *ast.SelectorExpr:
				e = x.X
				continue
			case *ast.Ident:
				return identObj(info, x)
			}
			return nil
		}
	}
	type edge struct {
		to   types.Object
		from []types.Object
	}
	var edges []edge
	var walk func(n ast.Node, ctrl []types.Object)
	walk = func(n ast.Node, ctrl []types.Object) {
		switch s := n.(type) {
		case nil:
			return
		case *ast.BlockStmt:
			cur := ctrl
			for _, x := range s.List {
				walk(x, cur)
				// what follows a guard clause (an if without else whose body leaves) runs only when
				// the guard did not hold: it depends on the guard's condition
				if is, ok := x.(*ast.IfStmt); ok && is.Else == nil && len(is.Body.List) > 0 {
					switch last := is.Body.List[len(is.Body.List)-1].(type) {
					case *ast.ReturnStmt, *ast.BranchStmt:
						cur = append(append([]types.Object{}, cur...), idents(is.Cond)...)
					case *ast.ExprStmt:
						if call, ok := last.X.(*ast.CallExpr); ok && noReturnCall(info, call) {
							cur = append(append([]types.Object{}, cur...), idents(is.Cond)...)
						}
					}
				}
			}
		case *ast.IfStmt:
			walk(s.Init, ctrl)
			c2 := append(append([]types.Object{}, ctrl...), idents(s.Cond)...)
			walk(s.Body, c2)
			walk(s.Else, c2)
		case *ast.ForStmt:
			walk(s.Init, ctrl)
			c2 := append(append([]types.Object{}, ctrl...), idents(s.Cond)...)
			// the conditions under which the loop is left from inside decide how often it runs
			ast.Inspect(s.Body, func(y ast.Node) bool {
				if _, isLit := y.(*ast.FuncLit); isLit {
					return false
				}
				if is, ok := y.(*ast.IfStmt); ok {
					leaves := false
					ast.Inspect(is.Body, func(z ast.Node) bool {
						switch b := z.(type) {
						case *ast.BranchStmt:
							if b.Tok == token.BREAK {
								leaves = true
							}
						case *ast.ReturnStmt:
							leaves = true
						}
						return true
					})
					if leaves {
						c2 = append(c2, idents(is.Cond)...)
					}
				}
				return true
			})
			walk(s.Body, c2)
			walk(s.Post, c2)
		case *ast.RangeStmt:
			c2 := append(append([]types.Object{}, ctrl...), idents(s.X)...)
			for _, kv := range []ast.Expr{s.Key, s.Value} {
				if kv != nil {
					edges = append(edges, edge{rootObj(kv), c2})
				}
			}
			walk(s.Body, c2)
		case *ast.SwitchStmt:
			walk(s.Init, ctrl)
			c2 := append(append([]types.Object{}, ctrl...), idents(s.Tag)...)
			for _, cl := range s.Body.List {
				cc := cl.(*ast.CaseClause)
				c3 := c2
				for _, e := range cc.List {
					c3 = append(append([]types.Object{}, c3...), idents(e)...)
				}
				for _, x := range cc.Body {
					walk(x, c3)
				}
			}
		case *ast.DeclStmt:
			if gd, ok := s.Decl.(*ast.GenDecl); ok {
				for _, sp := range gd.Specs {
					if vs, ok := sp.(*ast.ValueSpec); ok {
						for _, nm := range vs.Names {
							var from []types.Object
							for _, v := range vs.Values {
								from = append(from, idents(v)...)
							}
							edges = append(edges, edge{info.Defs[nm], append(from, ctrl...)})
						}
					}
				}
			}
		case *ast.AssignStmt:
			var from []types.Object
			for _, v := range s.Rhs {
				from = append(from, idents(v)...)
			}
			for _, l := range s.Lhs {
				if ix, ok := ast.Unparen(l).(*ast.IndexExpr); ok {
					from = append(from, idents(ix.Index)...)
				}
				edges = append(edges, edge{rootObj(l), append(append([]types.Object{}, from...), ctrl...)})
			}
		case *ast.IncDecStmt:
			edges = append(edges, edge{rootObj(s.X), ctrl})
		case *ast.ExprStmt:
			// a method call on a variable may update it from its arguments: R.SetValue(k, v)
			if rx, _, call, ok := methodCall(s.X); ok {
				var from []types.Object
				for _, a := range call.Args {
					from = append(from, idents(a)...)
				}
				edges = append(edges, edge{rootObj(rx), append(from, ctrl...)})
			}
		case *ast.LabeledStmt:
			walk(s.Stmt, ctrl)
		}
	}
	walk(fd.Body, nil)
	changed := true
	for changed {
		changed = false
		for _, e := range edges {
			for _, f := range e.from {
				if addDep(e.to, f) {
					changed = true
				}
				for g := range deps[f] {
					if addDep(e.to, g) {
						changed = true
					}
				}
			}
		}
	}
	return deps
}

func runC16(c *Ctx, r *Rec) {
	lcls := c.mustImpl(r, "bind", "collection", "ListClassLike")
	ccls := c.mustImpl(r, "bind", "collection", "CatalogClassLike")
	if lcls == nil || ccls == nil {
		return
	}
	info := c.info("collection")
	shapeLints(c, r, fileFuncs(c, "collection", lcls, ccls))
	// ---- D1 Concatenate
	if fd := c.methodsOf(lcls)["Concatenate"]; fd != nil {
		construct := c.fdName(fd)
		seq, why := segmentsOf(c, info, fd)
		switch {
		case why != "":
			r.skip("D1-concatenate", construct, c.pos(fd.Pos()), "outside the vocabulary of the segment interpreter: "+why)
		default:
			r.check(strings.Join(seq, ",") == "p0,p1", "D1-concatenate", construct, c.pos(fd.Pos()), "the result is a fresh list into which [first, second] are folded, each once, in this order",
				"the result is built from the operand segments ["+strings.Join(seq, ",")+"], required [p0,p1] (all of first, then all of second, each once; `?` marks a traversal that can stop early)")
		}
		r.check(pureClassFunction(c, info, lcls, fd) == "", "D4-pure", construct, c.pos(fd.Pos()), "no mutating call on an operand, no write to the class object", pureClassFunction(c, info, lcls, fd))
		b := resultFreshNoAlias(c, fd)
		r.check(b == "", "D4-fresh", construct, c.pos(fd.Pos()), "result created in the call", b)
	} else {
		r.undecided("D1-concatenate", "collection.listClass.Concatenate", "", "not found")
	}
	cms := c.methodsOf(ccls)
	// ---- D2 Merge
	if fd := cms["Merge"]; fd != nil {
		construct := c.fdName(fd)
		seq, why := segmentsOf(c, info, fd)
		switch {
		case why != "":
			r.skip("D2-merge", construct, c.pos(fd.Pos()), "outside the vocabulary of the segment interpreter: "+why)
		default:
			r.check(strings.Join(seq, ",") == "p0,p1", "D2-merge", construct, c.pos(fd.Pos()), "the result is a fresh catalog into which every association of first, then every association of second is set (key, value), in their order",
				"the result is built from the operand segments ["+strings.Join(seq, ",")+"], required [p0,p1] (all of first, then all of second so that second wins on a shared key; `?` marks a traversal that can stop early)")
		}
		r.check(pureClassFunction(c, info, ccls, fd) == "", "D4-pure", construct, c.pos(fd.Pos()), "no mutating call on an operand, no write to the class object", pureClassFunction(c, info, ccls, fd))
		b := resultFreshNoAlias(c, fd)
		r.check(b == "", "D4-fresh", construct, c.pos(fd.Pos()), "result created in the call", b)
	} else {
		r.undecided("D2-merge", "collection.catalogClass.Merge", "", "not found")
	}
	// the result starts with the first operand on every path: a returned collection that is
	// created as a copy of another parameter lists that parameter's items first
	for _, ent := range []struct {
		fd   *ast.FuncDecl
		rule string
	}{{c.methodsOf(lcls)["Concatenate"], "D1-starts-with-first"}, {cms["Merge"], "D2-starts-with-first"}} {
		fd := ent.fd
		if fd == nil || fd.Body == nil {
			continue
		}
		params := paramObjs(info, fd)
		if len(params) != 2 {
			continue
		}
		construct := c.fdName(fd)
		bad := ""
		seenCopy := false
		inspectNoLit(fd.Body, func(x ast.Node) bool {
			rs, ok := x.(*ast.ReturnStmt)
			if !ok || len(rs.Results) != 1 {
				return true
			}
			src := ast.Unparen(rs.Results[0])
			if id, ok := src.(*ast.Ident); ok {
				if init := reachingDef(newFG(info, fd.Body), info, fd, id, rs); init != nil {
					src = ast.Unparen(init)
				}
			}
			if _, mname, call, ok := methodCall(src); ok && (mname == "MakeFromSequence" || mname == "MakeFromArray") && len(call.Args) == 1 {
				arg := ast.Unparen(call.Args[0])
				if rx, mn, _, ok := methodCall(arg); ok && mn == "AsArray" {
					arg = ast.Unparen(rx)
				}
				if isObj(info, arg, params[0]) {
					seenCopy = true
				} else if isObj(info, arg, params[1]) {
					bad = fmt.Sprintf("the collection returned at %s is created as a copy of the second operand %s: its items come first in the result, before those of %s", c.pos(rs.Pos()), params[1].Name(), params[0].Name())
				}
			}
			return true
		})
		inserts := false
		inspectNoLit(fd.Body, func(x ast.Node) bool {
			if _, mname, _, ok := methodCall(x); ok && strings.HasPrefix(mname, "Insert") {
				inserts = true
			}
			return true
		})
		switch {
		case bad != "" && inserts:
			r.skip(ent.rule, construct, c.pos(fd.Pos()), "a copy of the second operand is returned but items are also inserted in front of existing ones: the resulting order is not decided by this rule")
		case bad != "":
			r.fail(ent.rule, construct, c.pos(fd.Pos()), bad)
		case seenCopy:
			r.ok(ent.rule, construct, c.pos(fd.Pos()), "every returned collection that starts as a copy starts as a copy of the first operand")
		default:
			r.skip(ent.rule, construct, c.pos(fd.Pos()), "no returned collection is created as a copy of an operand")
		}
	}
	// keys are told apart by identity (==, a Go map), as the catalog itself does; a search of a
	// list or set of keys compares structurally (pointers are followed) and finds look-alikes.
	// And folding the second operand into the result never removes from it: a key that is
	// removed and set again moves to the end of the order.
	for _, ent := range []struct {
		fd   *ast.FuncDecl
		rule string
	}{{cms["Extract"], "D3-keys-by-identity"}, {cms["Merge"], "D2-no-removal-from-result"}} {
		fd := ent.fd
		if fd == nil || fd.Body == nil {
			continue
		}
		scope := []*ast.FuncDecl{fd}
		for i := 0; i < len(scope) && i < 6; i++ {
			ast.Inspect(scope[i].Body, func(x ast.Node) bool {
				if call, ok := x.(*ast.CallExpr); ok {
					if cf := calleeOf(info, call); cf != nil && !cf.Exported() {
						if hd := c.declOf(cf.Origin()); hd != nil && hd.Body != nil && c.infoFor(hd) == info {
							dup := false
							for _, s := range scope {
								if s == hd {
									dup = true
								}
							}
							if !dup {
								scope = append(scope, hd)
							}
						}
					}
				}
				return true
			})
		}
		bad := ""
		for _, sfd := range scope {
			ast.Inspect(sfd.Body, func(x ast.Node) bool {
				rx, mname, call, ok := methodCall(x)
				if !ok || bad != "" {
					return true
				}
				switch ent.rule {
				case "D3-keys-by-identity":
					if searchableNames[mname] && len(call.Args) == 1 {
						if t := info.TypeOf(rx); t != nil && isCollectionLike(t) && !ifaceMethodNames(t)["GetKeys"] {
							bad = fmt.Sprintf("%s asks %s.%s at %s whether a key is present: the search compares with the collator (structurally), the catalog identifies keys with ==; a requested key that only looks like a present one (another pointer to an equal value) is extracted with the zero value", sfd.Name.Name, exprStr(rx), mname, c.pos(call.Pos()))
						}
					}
				case "D2-no-removal-from-result":
					if (mname == "RemoveValue" || mname == "RemoveValues" || mname == "RemoveAll") && sfd == fd {
						if t := info.TypeOf(rx); t != nil && ifaceMethodNames(t)["GetKeys"] {
							isOperand := false
							for _, p := range paramObjs(info, fd) {
								if isObj(info, rx, p) {
									isOperand = true
								}
							}
							if !isOperand {
								bad = fmt.Sprintf("Merge calls %s.%s at %s while folding: a key of the first operand that is removed and set again moves behind the keys that follow it, so the result is not first's keys in first's order followed by second's new keys", exprStr(rx), mname, c.pos(call.Pos()))
							}
						}
					}
				}
				return true
			})
		}
		if bad != "" {
			r.fail(ent.rule, c.fdName(fd), c.pos(fd.Pos()), bad)
		} else {
			r.ok(ent.rule, c.fdName(fd), c.pos(fd.Pos()), map[string]string{"D3-keys-by-identity": "no structural search decides the presence of a key", "D2-no-removal-from-result": "nothing is removed from the catalog under construction"}[ent.rule])
		}
	}
	// a Go map from keys to positions in which "absent" is read off the zero value must never
	// hold position zero for a key that is present
	for _, fd := range []*ast.FuncDecl{c.methodsOf(lcls)["Concatenate"], cms["Merge"], cms["Extract"]} {
		if fd != nil {
			checkZeroAsAbsent(c, r, "D2-positions-not-mistaken-for-absence", info, fd)
		}
	}
	// ---- D3 Extract
	if fd := cms["Extract"]; fd != nil {
		construct := c.fdName(fd)
		params := paramObjs(info, fd)
		bad := ""
		var keysP, catP *types.Var
		for _, p := range params {
			if ifaceMethodNames(p.Type())["GetKeys"] {
				catP = p
			} else if isSequentialParam(p.Type()) {
				keysP = p
			}
		}
		if keysP == nil || catP == nil {
			r.skip("D3-extract", construct, c.pos(fd.Pos()), "cannot bind the catalog and keys parameters")
		} else {
			deps := depClosure(info, fd)
			// find the SetValue on the result inside a loop over keys
			var setCall *ast.CallExpr
			var loop *ast.ForStmt
			for _, l := range loopsIn(fd.Body) {
				fs, ok := l.(*ast.ForStmt)
				if !ok || fs.Cond == nil {
					continue
				}
				it := findIterCond(info, fs.Cond, "HasNext")
				if it == nil || !deps[it][keysP] {
					continue
				}
				inspectNoLit(fs.Body, func(x ast.Node) bool {
					if _, mname, call, ok := methodCall(x); ok && mname == "SetValue" && len(call.Args) == 2 {
						setCall, loop = call, fs
					}
					return true
				})
			}
			if setCall == nil {
				bad = "skip: no SetValue on the result inside a loop over the requested keys"
			} else {
				keyObj := identObj(info, setCall.Args[0])
				// control conditions between the loop and the call
				var conds []ast.Expr
				g := newFG(info, fd.Body)
				if pt, ok := g.locate(setCall); ok {
					for _, ec := range g.edgeConds(pt) {
						if containsNode(loop.Body, ec.cond) {
							conds = append(conds, ec.cond)
						}
					}
				}
				dependsOn := func(e ast.Expr, target types.Object) bool {
					found := false
					ast.Inspect(e, func(x ast.Node) bool {
						if id, ok := x.(*ast.Ident); ok {
							if o := info.Uses[id]; o != nil && (o == target || deps[o][target]) {
								found = true
							}
						}
						return true
					})
					return found
				}
				usesValue := func(e ast.Expr) bool {
					found := false
					ast.Inspect(e, func(x ast.Node) bool {
						if _, mname, _, ok := methodCall(x); ok && mname == "GetValue" {
							found = true
						}
						if id, ok := x.(*ast.Ident); ok {
							if init := initOf(info, fd, id); init != nil {
								if _, mname, _, ok := methodCall(ast.Unparen(init)); ok && mname == "GetValue" {
									found = true
								}
							}
						}
						return true
					})
					return found
				}
				present := false
				for _, cd := range conds {
					if keyObj != nil && dependsOn(cd, keyObj) && dependsOn(cd, catP) {
						if usesValue(cd) {
							bad = "the presence test looks at the stored value: a present key whose value is the zero value would be dropped"
						} else {
							present = true
						}
					}
				}
				if !present && bad == "" {
					bad = "the store into the result is not guarded by a presence test that depends on both the key and the source catalog: a requested key the catalog does not contain yields an association with the zero value (Extract({a:1}, [zz, a]) has size 2)"
				}
				// the value stored is the catalog's value under that key
				vSrc := resolveInit(info, fd, setCall.Args[1])
				if rx, mname, call, ok := methodCall(vSrc); !ok || mname != "GetValue" || !isObj(info, rx, catP) || len(call.Args) != 1 || identObj(info, call.Args[0]) != keyObj {
					if bad == "" {
						bad = "skip: the value stored is not recognisably catalog.GetValue(key) for the same key"
					}
				}
			}
			if bad == "" && loop != nil {
				if _, s := coveringLoop(c, info, loop); strings.HasPrefix(s, "skip:") {
					bad = s
				} else if s != "" && !strings.HasPrefix(s, "a continue") {
					bad = "the loop over the requested keys can stop early: " + s
				}
			}
			r.verdict("D3-extract", construct, c.pos(fd.Pos()), "keys visited in order; SetValue(key, catalog.GetValue(key)) only under a presence test on (key, catalog)", bad)
		}
		r.check(pureClassFunction(c, info, ccls, fd) == "", "D4-pure", construct, c.pos(fd.Pos()), "no mutating call on an operand, no write to the class object", pureClassFunction(c, info, ccls, fd))
		b := resultFreshNoAlias(c, fd)
		r.check(b == "", "D4-fresh", construct, c.pos(fd.Pos()), "result created in the call", b)
	} else {
		r.undecided("D3-extract", "collection.catalogClass.Extract", "", "not found")
	}
	checkParallelCursor(c, r, "D3-parallel-cursor", fileFuncs(c, "collection", ccls))
	{
		fds := fileFuncs(c, "collection", ccls, lcls)
		if an, err := c.impl("collection", "AssociationLike"); err == nil && an != nil {
			fds = append(fds, fileFuncs(c, "collection", an)...)
		}
		checkNoDynamicEquality(c, r, "D2-no-dynamic-equality", fds)
	}
	checkPooledEscape(c, r, "D4-pooled-objects-stay-home")
	checkElementPointersAcrossAppend(c, r, "D2-element-pointers-stay-valid", fileFuncs(c, "collection", ccls, lcls))
	checkCellsNotShared(c, r, "D4-cells-not-shared")
	r.floor("D4-pure", 3)
	r.floor("D4-fresh", 3)
}

// checkZeroAsAbsent: in fd (and nowhere else) a local map[K]int is looked up with the
// single-value form and the result compared with zero to decide whether the key is present.
// Then every value stored into that map must be at least 1.  A store of len(x) (the slot before
// an append), of the constant 0 or of a zero-based range index is a present key that reads as
// absent: the first entry is taken for a new one.
func checkZeroAsAbsent(c *Ctx, r *Rec, rule string, info *types.Info, fd *ast.FuncDecl) {
	if fd.Body == nil {
		return
	}
	construct := c.fdName(fd)
	isIntMap := func(o types.Object) bool {
		if o == nil {
			return false
		}
		m, ok := o.Type().Underlying().(*types.Map)
		if !ok {
			return false
		}
		b, ok := m.Elem().Underlying().(*types.Basic)
		return ok && b.Info()&types.IsInteger != 0
	}
	// lookups:  s := M[k]   (single value)
	lookupVar := map[types.Object]types.Object{} // s -> M
	ast.Inspect(fd.Body, func(x ast.Node) bool {
		if lhs, rhs, ok := multiDef(x); ok && len(lhs) == 1 {
			if ix, ok := ast.Unparen(rhs).(*ast.IndexExpr); ok {
				if mo := identObj(info, ix.X); isIntMap(mo) {
					if so := identObj(info, lhs[0]); so != nil {
						lookupVar[so] = mo
					}
				}
			}
		}
		return true
	})
	zeroTested := map[types.Object]ast.Expr{} // M -> the test
	ast.Inspect(fd.Body, func(x ast.Node) bool {
		be, ok := x.(*ast.BinaryExpr)
		if !ok {
			return true
		}
		for _, side := range [][2]ast.Expr{{be.X, be.Y}, {be.Y, be.X}} {
			tv, isC := info.Types[side[1]]
			if !isC || tv.Value == nil {
				continue
			}
			k, okc := constantInt(tv)
			if !okc || (k != 0 && k != 1) {
				continue
			}
			switch be.Op {
			case token.GTR, token.NEQ, token.EQL, token.GEQ, token.LSS, token.LEQ:
			default:
				continue
			}
			var mo types.Object
			if so := identObj(info, side[0]); so != nil {
				mo = lookupVar[so]
			}
			if ix, ok := ast.Unparen(side[0]).(*ast.IndexExpr); ok {
				if o := identObj(info, ix.X); isIntMap(o) {
					mo = o
				}
			}
			if mo != nil {
				zeroTested[mo] = be
			}
		}
		return true
	})
	if len(zeroTested) == 0 {
		return
	}
	for mo, test := range zeroTested {
		var viol []string
		stores := 0
		ast.Inspect(fd.Body, func(x ast.Node) bool {
			as, ok := x.(*ast.AssignStmt)
			if !ok || len(as.Lhs) != 1 || len(as.Rhs) != 1 {
				return true
			}
			ix, ok := ast.Unparen(as.Lhs[0]).(*ast.IndexExpr)
			if !ok || identObj(info, ix.X) != mo {
				return true
			}
			stores++
			e := ast.Unparen(resolveInit(info, fd, as.Rhs[0]))
			zeroable := ""
			if call, ok := e.(*ast.CallExpr); ok && isBuiltinCall(info, call, "len") {
				zeroable = "the length " + exprStr(e) + ", which is 0 for the first entry"
			}
			if tv, ok := info.Types[e]; ok && tv.Value != nil {
				if k, ok := constantInt(tv); ok && k == 0 {
					zeroable = "the constant 0"
				}
			}
			if id, ok := e.(*ast.Ident); ok {
				// the index variable of a range statement counts from 0
				ast.Inspect(fd.Body, func(y ast.Node) bool {
					if rs, ok := y.(*ast.RangeStmt); ok && rs.Key != nil && identObj(info, rs.Key) == info.Uses[id] {
						if _, isMap := info.TypeOf(rs.X).Underlying().(*types.Map); !isMap {
							zeroable = "the zero-based range index " + id.Name
						}
					}
					return true
				})
			}
			if zeroable != "" {
				viol = append(viol, fmt.Sprintf("%s[...] is given %s at %s, but a key counts as present only when `%s`: the entry stored with 0 is taken for a missing key", mo.Name(), zeroable, c.pos(as.Pos()), exprStr(test)))
			}
			return true
		})
		switch {
		case len(viol) > 0:
			r.fail(rule, construct+"/"+"position-map", c.pos(test.Pos()), strings.Join(dedup(viol), " | "))
		case stores > 0:
			r.ok(rule, construct+"/"+"position-map", c.pos(test.Pos()), "no value stored into the map is a length, a zero or a zero-based index")
		}
	}
}
