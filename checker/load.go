package main

// Loading of /repo/v4 (type-checked syntax + SSA) and role-binding helpers.

import (
	"fmt"
	"go/ast"
	"go/printer"
	"go/token"
	"go/types"
	"os"
	"path/filepath"
	"sort"
	"strings"

	"golang.org/x/tools/go/packages"
	"golang.org/x/tools/go/ssa"
	"golang.org/x/tools/go/ssa/ssautil"
)

const modPath = "github.com/craterdog/go-collection-framework/v4"

type Ctx struct {
	Root        string // module directory (…/v4)
	Fset        *token.FileSet
	Pkgs        map[string]*packages.Package // by short role: agent, collection, cdcn, module
	All         []*packages.Package
	Prog        *ssa.Program
	SSA         map[string]*ssa.Package
	Tier        string
	NFiles      int
	NFuncs      int
	NNormalised int                    // statements brought into the normal spelling (see normalise.go)
	NInlined    int                    // calls of helpers of embedded private structs replaced by their bodies (inline.go)
	InlinedAway map[*ast.FuncDecl]bool // helpers no call of which is left after that
	NoopGuards  []*ast.IfStmt          // `if c { continue }` at the very end of a round, dropped by the normaliser

	decls map[*types.Func]*ast.FuncDecl
	cache map[string]any
}

func (c *Ctx) PkgPaths() []string {
	var s []string
	for _, p := range c.All {
		s = append(s, p.PkgPath)
	}
	sort.Strings(s)
	return s
}

func (c *Ctx) pos(p token.Pos) string { return posStr(c.Fset, filepath.Dir(c.Root), p) }

func loadRepo(root string, tags string, tier string) (*Ctx, error) {
	env := append(os.Environ(), "GOFLAGS=-mod=mod", "GOPROXY=off", "GOSUMDB=off", "GOWORK=off", "GOTOOLCHAIN=local")
	cfg := &packages.Config{
		Mode: packages.NeedName | packages.NeedFiles | packages.NeedCompiledGoFiles | packages.NeedImports |
			packages.NeedTypes | packages.NeedTypesSizes | packages.NeedSyntax | packages.NeedTypesInfo | packages.NeedDeps | packages.NeedModule,
		Dir:   root,
		Env:   env,
		Tests: false,
		Fset:  token.NewFileSet(),
	}
	if tags != "" {
		cfg.BuildFlags = []string{"-tags=" + tags}
	}
	pkgs, err := packages.Load(cfg, "./...")
	if err != nil {
		return nil, fmt.Errorf("packages.Load: %w", err)
	}
	c := &Ctx{Root: root, Fset: cfg.Fset, Pkgs: map[string]*packages.Package{}, SSA: map[string]*ssa.Package{}, Tier: tier,
		decls: map[*types.Func]*ast.FuncDecl{}, cache: map[string]any{}}
	var errs []string
	for _, p := range pkgs {
		for _, e := range p.Errors {
			errs = append(errs, e.Error())
		}
		for _, e := range p.TypeErrors {
			errs = append(errs, e.Error())
		}
		if !strings.HasPrefix(p.PkgPath, modPath) {
			continue
		}
		c.All = append(c.All, p)
		switch p.PkgPath {
		case modPath:
			c.Pkgs["module"] = p
		case modPath + "/agent":
			c.Pkgs["agent"] = p
		case modPath + "/collection":
			c.Pkgs["collection"] = p
		case modPath + "/cdcn":
			c.Pkgs["cdcn"] = p
		}
	}
	if len(errs) > 0 {
		return nil, fmt.Errorf("the repository does not type-check: %s", strings.Join(errs, "; "))
	}
	for _, role := range []string{"module", "agent", "collection", "cdcn"} {
		if c.Pkgs[role] == nil {
			return nil, fmt.Errorf("expected package %q of %s was not loaded (got %v)", role, modPath, c.PkgPaths())
		}
	}
	for _, p := range c.All {
		c.NFiles += len(p.Syntax)
		for _, f := range p.Syntax {
			for _, d := range f.Decls {
				if fd, ok := d.(*ast.FuncDecl); ok {
					c.NFuncs++
					if fn, ok := p.TypesInfo.Defs[fd.Name].(*types.Func); ok {
						c.decls[fn] = fd
					}
				}
			}
		}
	}
	prog, spkgs := ssautil.Packages(pkgs, ssa.BuilderMode(0))
	for i, sp := range spkgs {
		if sp == nil {
			continue
		}
		for role, p := range c.Pkgs {
			if p == pkgs[i] {
				c.SSA[role] = sp
			}
		}
	}
	prog.Build()
	c.Prog = prog
	c.NNormalised = normaliseAST(c)
	if want := os.Getenv("VCHECK_DUMP_FUNC"); want != "" {
		for _, p := range c.All {
			for _, f := range p.Syntax {
				for _, d := range f.Decls {
					if fd, ok := d.(*ast.FuncDecl); ok && fd.Name.Name == want {
						printer.Fprint(os.Stderr, c.Fset, fd)
						fmt.Fprintln(os.Stderr)
					}
				}
			}
		}
	}
	return c, nil
}

// ---------------------------------------------------------------- lookup helpers

// roleOf returns the short role of the package that declares obj ("" if foreign).
func (c *Ctx) roleOf(pkg *types.Package) string {
	if pkg == nil {
		return ""
	}
	for role, p := range c.Pkgs {
		if p.Types == pkg {
			return role
		}
	}
	return ""
}

func (c *Ctx) info(role string) *types.Info { return c.Pkgs[role].TypesInfo }

// infoFor returns the types.Info of the package that contains pos.
func (c *Ctx) infoFor(fd *ast.FuncDecl) *types.Info {
	for _, p := range c.All {
		if _, ok := p.TypesInfo.Defs[fd.Name]; ok {
			return p.TypesInfo
		}
	}
	return nil
}

// named returns the named type `name` declared in package role, or nil.
func (c *Ctx) named(role, name string) *types.Named {
	obj := c.Pkgs[role].Types.Scope().Lookup(name)
	if obj == nil {
		return nil
	}
	if tn, ok := obj.(*types.TypeName); ok {
		if n, ok := tn.Type().(*types.Named); ok {
			return n
		}
	}
	return nil
}

// allNamed lists all named (non-alias) types declared at package level in role.
func (c *Ctx) allNamed(role string) []*types.Named {
	var out []*types.Named
	sc := c.Pkgs[role].Types.Scope()
	for _, n := range sc.Names() {
		if tn, ok := sc.Lookup(n).(*types.TypeName); ok && !tn.IsAlias() {
			if nt, ok := tn.Type().(*types.Named); ok {
				out = append(out, nt)
			}
		}
	}
	return out
}

// methodsOf returns name → declaration of every method declared on the named type.
func (c *Ctx) methodsOf(n *types.Named) map[string]*ast.FuncDecl {
	out := map[string]*ast.FuncDecl{}
	n = n.Origin()
	for i := 0; i < n.NumMethods(); i++ {
		m := n.Method(i)
		if fd := c.decls[m]; fd != nil && !c.InlinedAway[fd] {
			out[m.Name()] = fd
		}
	}
	// methods promoted from private struct types of the same package that the type embeds (a
	// helper struct that carries part of the state and the methods that work on it)
	var promoted func(t *types.Named, depth int)
	promoted = func(t *types.Named, depth int) {
		st, ok := t.Underlying().(*types.Struct)
		if !ok || depth > 2 {
			return
		}
		for i := 0; i < st.NumFields(); i++ {
			f := st.Field(i)
			if !f.Embedded() {
				continue
			}
			en := derefNamed(f.Type())
			if en == nil || en.Obj().Pkg() != n.Obj().Pkg() || en.Obj().Exported() {
				continue
			}
			if _, isStruct := en.Underlying().(*types.Struct); !isStruct {
				continue
			}
			en = en.Origin()
			for k := 0; k < en.NumMethods(); k++ {
				m := en.Method(k)
				if fd := c.decls[m]; fd != nil && out[m.Name()] == nil && !c.InlinedAway[fd] {
					out[m.Name()] = fd
				}
			}
			promoted(en, depth+1)
		}
	}
	promoted(n, 0)
	return out
}

// flatFields lists the fields of a struct type, those of embedded private struct types of the
// same package included (in place of the embedding field).
func flatFields(n *types.Named) []*types.Var {
	var out []*types.Var
	var walk func(t *types.Named, depth int)
	walk = func(t *types.Named, depth int) {
		st, ok := t.Origin().Underlying().(*types.Struct)
		if !ok {
			return
		}
		for i := 0; i < st.NumFields(); i++ {
			f := st.Field(i)
			if en := derefNamed(f.Type()); f.Embedded() && en != nil && en.Obj().Pkg() == n.Obj().Pkg() && !en.Obj().Exported() && depth < 2 {
				if _, isStruct := en.Underlying().(*types.Struct); isStruct {
					walk(en, depth+1)
					continue
				}
			}
			out = append(out, f)
		}
	}
	if n != nil {
		walk(n, 0)
	}
	return out
}

func (c *Ctx) declOf(fn *types.Func) *ast.FuncDecl {
	if fn == nil {
		return nil
	}
	return c.decls[fn.Origin()]
}

func (c *Ctx) funcOf(fd *ast.FuncDecl) *types.Func {
	for fn, d := range c.decls {
		if d == fd {
			return fn
		}
	}
	return nil
}

// recvNamed returns the (origin) named type a method is declared on.
func recvNamed(fn *types.Func) *types.Named {
	sig, ok := fn.Type().(*types.Signature)
	if !ok || sig.Recv() == nil {
		return nil
	}
	t := sig.Recv().Type()
	if p, ok := t.(*types.Pointer); ok {
		t = p.Elem()
	}
	if n, ok := t.(*types.Named); ok {
		return n.Origin()
	}
	return nil
}

// fdName returns Type.Method or Func for a declaration.
func (c *Ctx) fdName(fd *ast.FuncDecl) string {
	fn := c.funcOf(fd)
	if fn == nil {
		return fd.Name.Name
	}
	role := c.roleOf(fn.Pkg())
	if n := recvNamed(fn); n != nil {
		return role + "." + n.Obj().Name() + "." + fn.Name()
	}
	return role + "." + fn.Name()
}

// allFuncDecls lists every function declaration of a package role, in source order.
func (c *Ctx) allFuncDecls(role string) []*ast.FuncDecl {
	var out []*ast.FuncDecl
	for _, f := range c.Pkgs[role].Syntax {
		for _, d := range f.Decls {
			if fd, ok := d.(*ast.FuncDecl); ok && fd.Body != nil && !c.InlinedAway[fd] {
				out = append(out, fd)
			}
		}
	}
	return out
}

// structOf returns the underlying struct of a named type, or nil.
func structOf(n *types.Named) *types.Struct {
	if n == nil {
		return nil
	}
	s, _ := n.Origin().Underlying().(*types.Struct)
	return s
}

// derefNamed strips pointers and returns the origin named type, or nil.
func derefNamed(t types.Type) *types.Named {
	for {
		switch x := t.(type) {
		case *types.Pointer:
			t = x.Elem()
			continue
		case *types.Named:
			return x.Origin()
		}
		return nil
	}
}

// isNamedFrom reports whether t (after deref) is the named type pkgPath.name.
func isNamedFrom(t types.Type, pkgPath, name string) bool {
	n := derefNamed(t)
	return n != nil && n.Obj().Name() == name && n.Obj().Pkg() != nil && n.Obj().Pkg().Path() == pkgPath
}

// ifaceMethodNames returns the full method-name set of an interface type.
func ifaceMethodNames(t types.Type) map[string]bool {
	out := map[string]bool{}
	it, ok := t.Underlying().(*types.Interface)
	if !ok {
		return out
	}
	for i := 0; i < it.NumMethods(); i++ {
		out[it.Method(i).Name()] = true
	}
	return out
}

// implementers returns the repository named types whose (pointer) method set
// covers every method name of the interface (generic-safe approximation of
// types.Implements; exact here because every …Like interface has one implementation).
func (c *Ctx) implementers(iface types.Type) []*types.Named {
	names := ifaceMethodNames(iface)
	if len(names) == 0 {
		return nil
	}
	var out []*types.Named
	for _, role := range []string{"agent", "collection", "cdcn", "module"} {
		for _, n := range c.allNamed(role) {
			if _, isIface := n.Underlying().(*types.Interface); isIface {
				continue
			}
			have := map[string]bool{}
			for i := 0; i < n.NumMethods(); i++ {
				have[n.Method(i).Name()] = true
			}
			// methods promoted from embedded (private helper) struct types count as well
			mset := types.NewMethodSet(types.NewPointer(n))
			for i := 0; i < mset.Len(); i++ {
				// ... but not those that come with an embedded interface: a struct that embeds the
				// interface itself is a wrapper around an implementation, not one
				if fn, ok := mset.At(i).Obj().(*types.Func); ok {
					if sig, ok := fn.Type().(*types.Signature); ok && sig.Recv() != nil {
						if _, isIface := sig.Recv().Type().Underlying().(*types.Interface); isIface {
							continue
						}
					}
				}
				have[mset.At(i).Obj().Name()] = true
			}
			all := true
			for m := range names {
				if !have[m] {
					all = false
					break
				}
			}
			if all {
				out = append(out, n)
			}
		}
	}
	return out
}

// calleeOf resolves the static callee object of a call (function, method or
// interface method), or nil (builtin, conversion, function value).
func calleeOf(info *types.Info, call *ast.CallExpr) *types.Func {
	fun := ast.Unparen(call.Fun)
	// strip explicit instantiation
	switch f := fun.(type) {
	case *ast.IndexExpr:
		if tv, ok := info.Types[f.X]; ok && !tv.IsType() {
			if _, isSig := tv.Type.Underlying().(*types.Signature); isSig {
				fun = f.X
			}
		}
	case *ast.IndexListExpr:
		fun = f.X
	}
	switch f := fun.(type) {
	case *ast.Ident:
		if fn, ok := info.Uses[f].(*types.Func); ok {
			return fn
		}
	case *ast.SelectorExpr:
		if sel, ok := info.Selections[f]; ok {
			if fn, ok := sel.Obj().(*types.Func); ok {
				return fn
			}
			return nil
		}
		if fn, ok := info.Uses[f.Sel].(*types.Func); ok {
			return fn
		}
	}
	return nil
}

// isBuiltinCall reports whether call is a call of the named builtin.
func isBuiltinCall(info *types.Info, call *ast.CallExpr, name string) bool {
	id, ok := ast.Unparen(call.Fun).(*ast.Ident)
	if !ok || id.Name != name {
		return false
	}
	_, isB := info.Uses[id].(*types.Builtin)
	return isB
}

// calleeFullName gives pkgpath.Func or pkgpath.Type.Method for resolved callees.
func calleeFullName(fn *types.Func) string {
	if fn == nil {
		return ""
	}
	pp := ""
	if fn.Pkg() != nil {
		pp = fn.Pkg().Path()
	}
	if n := recvNamed(fn); n != nil {
		return pp + "." + n.Obj().Name() + "." + fn.Name()
	}
	if sig, ok := fn.Type().(*types.Signature); ok && sig.Recv() != nil {
		// interface method
		if nn := derefNamed(sig.Recv().Type()); nn != nil {
			return pp + "." + nn.Obj().Name() + "." + fn.Name()
		}
		return pp + ".(interface)." + fn.Name()
	}
	return pp + "." + fn.Name()
}

// selectorField returns the struct field object selected by e (x.f), or nil.
func selectorField(info *types.Info, e ast.Expr) *types.Var {
	se, ok := ast.Unparen(e).(*ast.SelectorExpr)
	if !ok {
		return nil
	}
	if sel, ok := info.Selections[se]; ok && sel.Kind() == types.FieldVal {
		if v, ok := sel.Obj().(*types.Var); ok {
			return v.Origin()
		}
	}
	return nil
}

// exprStr renders an expression compactly.
func exprStr(e ast.Expr) string { return types.ExprString(e) }
