package main

// Unsigned size minus a constant: `uint(len(values)) - 1` wraps around to the largest number
// when the size is zero.  The rule looks for a subtraction of unsigned type whose left operand
// is the number of values of something and whose right operand is a positive constant, on a
// path from the function's entry on which no condition says that there is at least one value.
// Positive evidence only: a subtraction that sits under any condition the rule cannot read is
// left alone.

import (
	"fmt"
	"go/ast"
	"go/token"
	"go/types"
)

func checkUnsignedSizeMinus(c *Ctx, r *Rec, rule string, fds []*ast.FuncDecl) {
	er := &emptResolver{c: c}
	for _, fd := range fds {
		info := c.infoFor(fd)
		if info == nil || fd.Body == nil {
			continue
		}
		var sites []*ast.BinaryExpr
		inspectNoLit(fd.Body, func(n ast.Node) bool {
			be, ok := n.(*ast.BinaryExpr)
			if !ok || be.Op != token.SUB {
				return true
			}
			tv, ok := info.Types[be]
			if !ok || tv.Value != nil {
				return true
			}
			b, ok := tv.Type.Underlying().(*types.Basic)
			if !ok || b.Info()&types.IsUnsigned == 0 {
				return true
			}
			if k, isC := constIntExpr(info, be.Y); !isC || k < 1 {
				return true
			}
			if er.isSize(fd, be.X, 0) {
				sites = append(sites, be)
			}
			return true
		})
		if len(sites) == 0 {
			continue
		}
		g := newFG(info, fd.Body)
		for _, be := range sites {
			construct := c.fdName(fd) + "/" + exprStr(be)
			p, ok := g.locate(be)
			if !ok {
				r.skip(rule, construct, c.pos(be.Pos()), "the subtraction is not a node of the function's own flow graph")
				continue
			}
			conds := g.edgeConds(p)
			// a loop header evaluates its condition in the block itself: `for i < size-1`
			guarded, opaque := false, false
			for _, ec := range conds {
				for _, f := range er.facts(fd, ec.cond, ec.polarity, 0) {
					switch f {
					case factNonEmpty:
						guarded = true
					case factUnknown, factOther:
						opaque = true
					}
				}
			}
			k, _ := constIntExpr(info, be.Y)
			switch {
			case guarded && k == 1:
				r.ok(rule, construct, c.pos(be.Pos()), "under a condition that says there is at least one value")
			case opaque || guarded:
				r.skip(rule, construct, c.pos(be.Pos()), "under a condition the rule cannot relate to the size")
			default:
				r.fail(rule, construct, c.pos(be.Pos()), fmt.Sprintf("%s is computed in unsigned arithmetic on every path from the entry of %s, also when there are no values: it wraps around to the largest number instead of going below zero, and what is derived from it (an index, a loop bound) is then far out of range", exprStr(be), fd.Name.Name))
			}
		}
	}
}
