package main

// The limit handed to a random number source is positive.  crypto/rand.Int panics for a limit
// <= 0, math/rand.Intn and its siblings panic for n <= 0.  A private helper that hands its
// parameter on as the limit passes the obligation to its callers.

import (
	"fmt"
	"go/ast"
	"go/token"
	"go/types"
	"strings"
)

func stripConversions(info *types.Info, e ast.Expr) ast.Expr {
	for {
		e = ast.Unparen(e)
		call, ok := e.(*ast.CallExpr)
		if !ok || len(call.Args) != 1 || !info.Types[call.Fun].IsType() {
			return e
		}
		e = call.Args[0]
	}
}

// randomLimit: if call draws a random number below a limit, the limit expression.
func randomLimit(info *types.Info, fd *ast.FuncDecl, call *ast.CallExpr) ast.Expr {
	fn := calleeOf(info, call)
	if fn == nil || fn.Pkg() == nil {
		return nil
	}
	switch fn.Pkg().Path() {
	case "math/rand", "math/rand/v2":
		switch fn.Name() {
		case "Intn", "Int63n", "Int31n", "IntN", "Int64N", "Int32N", "N", "UintN", "Uint64N", "Uint32N":
			if len(call.Args) == 1 {
				return stripConversions(info, call.Args[0])
			}
		}
	case "crypto/rand":
		if fn.Name() == "Int" && len(call.Args) == 2 {
			mx := ast.Unparen(call.Args[1])
			if id, ok := mx.(*ast.Ident); ok {
				if init := initOf(info, fd, id); init != nil {
					mx = ast.Unparen(init)
				}
			}
			if bc, ok := mx.(*ast.CallExpr); ok && len(bc.Args) == 1 {
				if bf := calleeOf(info, bc); bf != nil && bf.Pkg() != nil && bf.Pkg().Path() == "math/big" && bf.Name() == "NewInt" {
					return stripConversions(info, bc.Args[0])
				}
			}
		}
	}
	return nil
}

func checkRandomLimitPositive(c *Ctx, r *Rec, rule string, fds []*ast.FuncDecl) {
	type site struct {
		fd    *ast.FuncDecl
		call  *ast.CallExpr
		limit ast.Expr
	}
	var sites []site
	helpers := map[*types.Func]int{} // the parameter that is the limit
	for _, fd := range fds {
		info := c.infoFor(fd)
		if info == nil || fd.Body == nil {
			continue
		}
		params := paramObjs(info, fd)
		inspectNoLit(fd.Body, func(x ast.Node) bool {
			call, ok := x.(*ast.CallExpr)
			if !ok {
				return true
			}
			lim := randomLimit(info, fd, call)
			if lim == nil {
				return true
			}
			if o := identObj(info, lim); o != nil {
				for i, p := range params {
					if types.Object(p) == o && !assignedAnywhere(info, fd.Body, o) {
						helpers[c.funcOf(fd).Origin()] = i
						return true
					}
				}
			}
			sites = append(sites, site{fd, call, lim})
			return true
		})
	}
	for _, fd := range fds {
		info := c.infoFor(fd)
		if info == nil || fd.Body == nil || len(helpers) == 0 {
			continue
		}
		inspectNoLit(fd.Body, func(x ast.Node) bool {
			call, ok := x.(*ast.CallExpr)
			if !ok {
				return true
			}
			if fn := calleeOf(info, call); fn != nil {
				if k, ok := helpers[fn.Origin()]; ok && k < len(call.Args) {
					sites = append(sites, site{fd, call, stripConversions(info, call.Args[k])})
				}
			}
			return true
		})
	}
	for _, s := range sites {
		info := c.infoFor(s.fd)
		construct := fmt.Sprintf("%s/random-limit %s", c.fdName(s.fd), exprStr(s.limit))
		bad, skip := randomLimitVerdict(c, info, s.fd, s.call, s.limit)
		switch {
		case bad != "":
			r.fail(rule, construct, c.pos(s.call.Pos()), bad)
		case skip != "":
			r.skip(rule, construct, c.pos(s.call.Pos()), skip)
		default:
			r.ok(rule, construct, c.pos(s.call.Pos()), "the limit is at least 1 under the conditions that govern the call")
		}
	}
	r.count("random draws below a limit", len(sites))
}

func assignedAnywhere(info *types.Info, body ast.Node, o types.Object) bool {
	return writesAny(info, body, []types.Object{o})
}

func randomLimitVerdict(c *Ctx, info *types.Info, fd *ast.FuncDecl, call *ast.CallExpr, limit ast.Expr) (bad, skip string) {
	if tv := info.Types[limit]; tv.Value != nil {
		if v, ok := constIntExpr(info, limit); ok && v <= 0 {
			return fmt.Sprintf("the limit of the random draw is the constant %d: the source panics for a limit that is not positive", v), ""
		}
		return "", ""
	}
	g := newFG(info, fd.Body)
	pt, ok := g.locate(call)
	if !ok {
		return "", "the call is not on the control-flow graph of the function"
	}
	env := &symEnv{info: info}
	st := &symState{vars: map[string]Val{}}
	var facts []*F
	var known []string

	// how each local variable is written in the function
	type history struct {
		defs, ups, downs, others int
		init                     ast.Expr
		use                      *ast.Ident
	}
	hist := map[types.Object]*history{}
	h := func(o types.Object) *history {
		if hist[o] == nil {
			hist[o] = &history{}
		}
		return hist[o]
	}
	positiveConst := func(e ast.Expr) bool {
		v, ok := constIntExpr(info, e)
		return ok && v > 0
	}
	ast.Inspect(fd.Body, func(x ast.Node) bool {
		switch s := x.(type) {
		case *ast.ValueSpec:
			for i, nm := range s.Names {
				if o := info.Defs[nm]; o != nil {
					h(o).defs++
					if len(s.Values) == len(s.Names) {
						h(o).init = s.Values[i]
					}
				}
			}
		case *ast.AssignStmt:
			for i, l := range s.Lhs {
				o := identObj(info, l)
				if o == nil {
					continue
				}
				switch {
				case s.Tok == token.DEFINE && info.Defs[l.(*ast.Ident)] != nil:
					h(o).defs++
					if len(s.Lhs) == len(s.Rhs) {
						h(o).init = s.Rhs[i]
					}
				case s.Tok == token.ADD_ASSIGN && positiveConst(s.Rhs[0]):
					h(o).ups++
				case s.Tok == token.SUB_ASSIGN && positiveConst(s.Rhs[0]):
					h(o).downs++
				default:
					h(o).others++
				}
			}
		case *ast.IncDecStmt:
			if o := identObj(info, s.X); o != nil {
				if s.Tok == token.INC {
					h(o).ups++
				} else {
					h(o).downs++
				}
			}
		case *ast.RangeStmt:
			for _, e := range []ast.Expr{s.Key, s.Value} {
				if e != nil {
					if o := identObj(info, e); o != nil {
						h(o).others++
					}
				}
			}
		case *ast.UnaryExpr:
			if s.Op == token.AND {
				if o := identObj(info, s.X); o != nil {
					h(o).others += 2
				}
			}
		case *ast.Ident:
			if o := info.Uses[s]; o != nil && h(o).use == nil {
				h(o).use = s
			}
		}
		return true
	})
	params := map[types.Object]bool{}
	for _, p := range paramObjs(info, fd) {
		params[p] = true
	}
	// pure: made of local variables, constants, len() and arithmetic
	pure := func(e ast.Expr) bool {
		ok := true
		ast.Inspect(e, func(x ast.Node) bool {
			switch s := x.(type) {
			case *ast.CallExpr:
				if !isBuiltinCall(info, s, "len") && !info.Types[s.Fun].IsType() {
					ok = false
				}
			case *ast.SelectorExpr, *ast.IndexExpr, *ast.StarExpr, *ast.FuncLit:
				ok = false
			case *ast.UnaryExpr:
				if s.Op == token.ARROW {
					ok = false
				}
			case *ast.Ident:
				if v, isVar := info.Uses[s].(*types.Var); isVar && (v.IsField() || v.Pkg() == nil || v.Parent() == v.Pkg().Scope()) {
					ok = false
				}
			}
			return ok
		})
		return ok
	}
	varsOf := func(e ast.Expr) []types.Object {
		var out []types.Object
		ast.Inspect(e, func(x ast.Node) bool {
			if id, ok := x.(*ast.Ident); ok {
				if v, isVar := info.Uses[id].(*types.Var); isVar {
					out = append(out, v)
				}
			}
			return true
		})
		return out
	}
	// constant: never written after its one definition (or a parameter that is never written)
	constant := func(o types.Object) bool {
		hh := h(o)
		if params[o] {
			return hh.defs+hh.ups+hh.downs+hh.others == 0
		}
		return hh.defs == 1 && hh.ups+hh.downs+hh.others == 0
	}
	// what is known about a variable for the whole function
	described := map[types.Object]bool{}
	var describe func(o types.Object)
	describe = func(o types.Object) {
		if described[o] {
			return
		}
		described[o] = true
		hh := h(o)
		if hh.use == nil || hh.init == nil || hh.defs != 1 || hh.others != 0 || !pure(hh.init) {
			return
		}
		for _, d := range varsOf(hh.init) {
			if !constant(d) {
				return
			}
			describe(d)
		}
		a, b := env.eval(st, hh.use), env.eval(st, hh.init)
		if a.Lin == nil || b.Lin == nil {
			return
		}
		switch {
		case hh.ups == 0 && hh.downs == 0:
			facts = append(facts, fCmp(token.EQL, a.Lin, b.Lin))
		case hh.downs == 0:
			facts = append(facts, ge(a.Lin, b.Lin))
		case hh.ups == 0:
			facts = append(facts, le(a.Lin, b.Lin))
		}
	}
	if !pure(limit) {
		return "", "the limit is not made of local variables, constants and lengths"
	}
	// the variables of the limit keep their value from the governing test to the call: checked per test below;
	// the limit itself is evaluated at the call
	lv := env.eval(st, limit)
	if lv.Lin == nil {
		return "", "the limit is not an integer form"
	}
	for _, o := range varsOf(limit) {
		describe(o)
	}
	writes := func(o types.Object) func(n ast.Node) bool {
		return func(n ast.Node) bool {
			if containsNode(n, call) {
				return false
			}
			return writesAny(info, n, []types.Object{o})
		}
	}
	// governing tests: an edge that every path to the call takes, with no write to the variables
	// of the test between the edge and the call
	for _, b := range g.order {
		cond := g.branchCond(b)
		if cond == nil || !pure(cond) {
			continue
		}
		for si, s := range b.Succs {
			if !(len(g.preds[s]) == 1 && g.blockDominates(s, pt.b) && b.Succs[1-si] != s) {
				continue
			}
			valid := true
			for _, o := range varsOf(cond) {
				if constant(o) {
					continue
				}
				if found, _ := g.exists(pathQuery{from: point{s, 0}, stop: func(n ast.Node) bool { return containsNode(n, call) || n == ast.Node(cond) }, goalNode: writes(o)}); found {
					valid = false
				}
			}
			if !valid {
				continue
			}
			cv := env.eval(st, cond)
			if cv.B == nil {
				continue
			}
			for _, o := range varsOf(cond) {
				describe(o)
			}
			if si == 0 {
				facts = append(facts, cv.B)
				known = append(known, exprStr(cond))
			} else {
				facts = append(facts, not(cv.B))
				known = append(known, "!("+exprStr(cond)+")")
			}
		}
	}
	// inside the body of a range loop the operand is not empty and the key indexes it
	for _, l := range loopsIn(fd.Body) {
		rs, ok := l.(*ast.RangeStmt)
		if !ok || !containsNode(rs.Body, call) || !pure(rs.X) {
			continue
		}
		stableX := true
		for _, o := range varsOf(rs.X) {
			if !constant(o) {
				stableX = false
			}
		}
		if !stableX {
			continue
		}
		var n *Lin
		switch u := info.TypeOf(rs.X).Underlying().(type) {
		case *types.Slice, *types.Array:
			n = linSym("val:len(" + exprStr(rs.X) + ")")
		case *types.Basic:
			if u.Info()&types.IsInteger != 0 {
				if xv := env.eval(st, rs.X); xv.Lin != nil {
					n = xv.Lin
					for _, o := range varsOf(rs.X) {
						describe(o)
					}
				}
			} else if u.Info()&types.IsString != 0 {
				n = linSym("val:len(" + exprStr(rs.X) + ")")
			}
		}
		if n == nil {
			continue
		}
		facts = append(facts, ge(n, k(1)))
		known = append(known, "inside range "+exprStr(rs.X))
		if kid, ok := rs.Key.(*ast.Ident); ok && rs.Key != nil && rs.Tok == token.DEFINE && info.Defs[kid] != nil && !writesAny(info, rs.Body, []types.Object{info.Defs[kid]}) {
			if _, isStr := info.TypeOf(rs.X).Underlying().(*types.Basic); !isStr || isIntegerType(info.TypeOf(rs.X)) {
				ks := linSym(kid.Name)
				facts = append(facts, ge(ks, k(0)), le(ks, n.plus(-1)))
			}
		}
	}
	if len(env.problems) > 0 {
		return "", "the governing conditions are outside the integer fragment"
	}
	// a length is never negative
	lens := map[string]bool{}
	for _, f := range append(append([]*F{}, facts...), le(lv.Lin, k(0))) {
		for _, cube := range dnf(f) {
			for _, atom := range cube {
				for sname := range atom.C {
					if strings.HasPrefix(sname, "val:len(") && !lens[sname] {
						lens[sname] = true
					}
				}
			}
		}
	}
	for sname := range lens {
		facts = append(facts, ge(linSym(sname), k(0)))
	}
	all := and(append(facts, le(lv.Lin, k(0)))...)
	sat, decided := satF(env.base, all)
	if !decided {
		return "", "the governing conditions are outside the decidable fragment"
	}
	if sat {
		return fmt.Sprintf("the limit %s of the random draw at %s can be zero or negative under the conditions that govern the call (%s): the random source panics for a limit that is not positive, for an argument the operation must accept", exprStr(limit), c.pos(call.Pos()), strings.Join(known, ", ")), ""
	}
	return "", ""
}
