package main

// C19 — Distinct instances are independent across goroutines.

import (
	"fmt"
	"go/ast"
	"go/token"
	"go/types"
	"golang.org/x/tools/go/ssa"
	"strings"

	"golang.org/x/tools/go/cfg"
)

func init() {
	register(&propInfo{
		ID:      "C19",
		Engines: "EFFECT (post-construction write sets, lock regions on go/cfg, type-graph reachability from shared roots incl. closures stored in function-typed fields)",
		Decided: "D1 every class registry map is referenced only while one and the same package-level mutex is held, with the lookup and the insert of the get-or-create in a single lock region; " +
			"D2 no object with post-construction writes (and no mutable standard-library value such as strings.Builder) is reachable from a package-level variable or from a field of a class struct, i.e. from state that all instances of a type share - bound receivers and captured variables of stored function values included; " +
			"D3 package-level variables are never assigned outside their declaration." +
			" Also: the fields of a class object are written only while it is built (they are constants every instance reads without a lock); a reference field of a new instance is not initialised from a field of the shared class object when instances mutate it; an object given back to a sync.Pool does not leave the function that gave it back." +
			" Rounds 8-9: every write of a registry holds the exclusive lock (a double-checked binding under a read-write lock is accepted when the write lock region looks the registry up again).",
		NotDecided: "equivalence of concurrent and sequential results; races inside one instance deliberately shared by the caller (excluded by the property).",
		Run:        runC19,
		Assumptions: []string{
			"Go memory model: accesses guarded by one mutex do not race",
			"*regexp.Regexp and sync.Mutex are safe for concurrent use (allow-listed foreign types)",
		},
	})
}

func runC19(c *Ctx, r *Rec) {
	{
		var all []*ast.FuncDecl
		for _, role := range []string{"agent", "collection", "cdcn", "module"} {
			all = append(all, c.allFuncDecls(role)...)
		}
		shapeLints(c, r, all)
	}
	// ---- D1 registries
	nreg := 0
	for _, role := range []string{"agent", "collection", "cdcn", "module"} {
		info := c.info(role)
		var mutexes []*types.Var
		var registries []*types.Var
		for _, v := range c.packageVars(role) {
			if isSyncType(v.Type()) {
				mutexes = append(mutexes, v)
			}
			if _, ok := v.Type().Underlying().(*types.Map); ok {
				// a registry is a package-level map that is written somewhere after initialisation
				registries = append(registries, v)
			}
		}
		carriedWith := map[*types.Var]*types.Var{}
		for _, reg := range registries {
			// collect references per function
			type ref struct {
				fd    *ast.FuncDecl
				id    *ast.Ident
				write bool
			}
			var refs []ref
			for _, fd := range c.allFuncDecls(role) {
				ast.Inspect(fd.Body, func(x ast.Node) bool {
					if id, ok := x.(*ast.Ident); ok && info.Uses[id] == reg {
						refs = append(refs, ref{fd: fd, id: id})
					}
					return true
				})
			}
			written := false
			for i := range refs {
				chain := pathTo(refs[i].fd.Body, refs[i].id)
				for j := len(chain) - 2; j >= 0; j-- {
					if as, ok := chain[j].(*ast.AssignStmt); ok {
						for _, l := range as.Lhs {
							if containsNode(l, refs[i].id) {
								refs[i].write = true
								written = true
							}
						}
					}
					if call, ok := chain[j].(*ast.CallExpr); ok && isBuiltinCall(info, call, "delete") {
						refs[i].write = true
						written = true
					}
				}
			}
			construct := role + "." + reg.Name()
			if !written {
				// the registry may be handed, together with its mutex, to a helper that does the
				// get-or-create (bindClass(registry, &mutex, create)): inside the helper every use of
				// the map parameter lies in a lock region of the mutex parameter, in a single region
				carried, cbad := false, ""
				for _, rf := range refs {
					chain := pathTo(rf.fd.Body, rf.id)
					var call *ast.CallExpr
					for j := len(chain) - 2; j >= 0 && call == nil; j-- {
						if cl, ok := chain[j].(*ast.CallExpr); ok {
							for _, a := range cl.Args {
								if ast.Unparen(a) == ast.Expr(rf.id) {
									call = cl
								}
							}
						}
					}
					if call == nil {
						continue
					}
					cf := calleeOf(info, call)
					if cf == nil {
						continue
					}
					hd := c.declOf(cf.Origin())
					if hd == nil {
						hd = c.declOf(cf)
					}
					if hd == nil || hd.Body == nil || c.infoFor(hd) != info {
						continue
					}
					hps := paramObjs(info, hd)
					var mapP, mtxP *types.Var
					for i, a := range call.Args {
						if i >= len(hps) {
							break
						}
						if ast.Unparen(a) == ast.Expr(rf.id) {
							mapP = hps[i]
						}
						if u, ok := ast.Unparen(a).(*ast.UnaryExpr); ok && u.Op == token.AND {
							if mo, ok := identObj(info, u.X).(*types.Var); ok && isSyncType(mo.Type()) {
								mtxP = hps[i]
							}
						}
					}
					if mapP == nil {
						continue
					}
					// one registry, one mutex: every place that hands this registry to a helper
					// hands the same mutex with it
					for _, a := range call.Args {
						if u, ok := ast.Unparen(a).(*ast.UnaryExpr); ok && u.Op == token.AND {
							if mo, ok := identObj(info, u.X).(*types.Var); ok && isSyncType(mo.Type()) {
								if prev, seen := carriedWith[reg]; seen && prev != mo {
									cbad = fmt.Sprintf("the registry is handed to %s together with %s at %s, and together with %s elsewhere: two goroutines that hold different mutexes read and write the one map at the same time (concurrent map read and map write)", hd.Name.Name, mo.Name(), c.pos(call.Pos()), prev.Name())
								} else if !seen {
									carriedWith[reg] = mo
								}
							}
						}
					}
					// does the helper write the map?
					hwrites := false
					var uses []*ast.Ident
					ast.Inspect(hd.Body, func(x ast.Node) bool {
						if id, ok := x.(*ast.Ident); ok && info.Uses[id] == types.Object(mapP) {
							uses = append(uses, id)
						}
						if as, ok := x.(*ast.AssignStmt); ok {
							for _, l := range as.Lhs {
								if ix, ok := ast.Unparen(l).(*ast.IndexExpr); ok && identObj(info, ix.X) == types.Object(mapP) {
									hwrites = true
								}
							}
						}
						return true
					})
					if !hwrites {
						continue
					}
					carried = true
					if mtxP == nil {
						cbad = fmt.Sprintf("the registry is handed to %s, which writes it, without a mutex", hd.Name.Name)
						continue
					}
					hg := newFG(info, hd.Body)
					li := computeLock(hg, info, objKey(mtxP))
					for _, id := range uses {
						if h, ok := li.heldAt(id); !ok || !h {
							cbad = fmt.Sprintf("%s uses the registry it is handed at %s without holding the mutex it is handed with it: a lookup outside the lock races with the insert of another goroutine (concurrent map read and map write)", hd.Name.Name, c.pos(id.Pos()))
						}
					}
					env := &symEnv{info: info}
					locks := 0
					for _, b := range hg.order {
						for _, n := range b.Nodes {
							if mutexOp(info, env, n, objKey(mtxP)) == "lock" {
								locks++
							}
						}
					}
					if locks > 1 && cbad == "" {
						cbad = fmt.Sprintf("%s takes the mutex %d times: the lookup and the insert of the get-or-create are not in one critical section", hd.Name.Name, locks)
					}
				}
				if carried {
					nreg++
					r.check(cbad == "", "D1-registry-lock", construct, c.pos(reg.Pos()), "handed with its mutex to a helper that uses it only inside one lock region", cbad)
					continue
				}
				// a constant table: no lock needed (D3 covers that it is never assigned)
				r.ok("D1-registry-lock", construct, c.pos(reg.Pos()), "package-level map never written after initialisation")
				continue
			}
			nreg++
			byFunc := map[*ast.FuncDecl][]ref{}
			var order []*ast.FuncDecl
			for _, rf := range refs {
				if len(byFunc[rf.fd]) == 0 {
					order = append(order, rf.fd)
				}
				byFunc[rf.fd] = append(byFunc[rf.fd], rf)
			}
			var guard *types.Var
			bad := ""
			for _, fd := range order {
				g := newFG(info, fd.Body)
				// which mutex is held at all references?
				var held *types.Var
				for _, m := range mutexes {
					li := computeLock(g, info, objKey(m))
					all := true
					for _, rf := range byFunc[fd] {
						if h, ok := li.heldAt(rf.id); !ok || !h {
							all = false
						}
					}
					if all {
						held = m
						// single region: exactly one Lock in the function
						env := &symEnv{info: info}
						locks := 0
						for _, b := range g.order {
							for _, n := range b.Nodes {
								if mutexOp(info, env, n, objKey(m)) == "lock" {
									locks++
								}
							}
						}
						if locks != 1 && !recheckedInsert(g, info, fd, objKey(m)) {
							bad = fmt.Sprintf("%s takes %s %d times: the lookup and the insert of the get-or-create are not in one critical section (two goroutines can both create the class)", c.fdName(fd), m.Name(), locks)
						}
						break
					}
				}
				if held == nil && !ast.IsExported(fd.Name.Name) {
					// an unexported helper ("the caller must hold the lock"): judged where it is called
					hfn := c.funcOf(fd)
					sites := 0
					var callerHeld *types.Var
					okAll := true
					for _, cfd := range c.allFuncDecls(role) {
						if cfd.Body == nil || cfd == fd {
							continue
						}
						var calls []*ast.CallExpr
						ast.Inspect(cfd.Body, func(x ast.Node) bool {
							if call, ok := x.(*ast.CallExpr); ok && hfn != nil {
								if cf := calleeOf(info, call); cf != nil && cf.Origin() == hfn.Origin() {
									calls = append(calls, call)
								}
							}
							return true
						})
						if len(calls) == 0 {
							continue
						}
						cg := newFG(info, cfd.Body)
						for _, call := range calls {
							sites++
							var hm *types.Var
							for _, m := range mutexes {
								li := computeLock(cg, info, objKey(m))
								if h, ok := li.heldAt(call); ok && h {
									hm = m
								}
							}
							if hm == nil || (callerHeld != nil && callerHeld != hm) {
								okAll = false
							}
							callerHeld = hm
						}
					}
					if sites > 0 && okAll {
						held = callerHeld
					}
				}
				if held == nil {
					bad = fmt.Sprintf("%s references the registry at %s without holding a package-level mutex on every path", c.fdName(fd), c.pos(byFunc[fd][0].id.Pos()))
					break
				}
				// a write of the registry needs the exclusive lock: under RLock other readers are
				// inside the map at the same time
				if writes := registryWritesIn(info, fd, reg); len(writes) > 0 {
					for _, w := range writes {
						if lockKindAt(g, info, objKey(held), w) == "shared" {
							bad = fmt.Sprintf("%s writes the registry at %s while it holds only the read lock of %s: other goroutines read the map at the same moment (concurrent map read and map write)", c.fdName(fd), c.pos(w.Pos()), held.Name())
						}
					}
					if bad == "" && !ast.IsExported(fd.Name.Name) {
						// a private helper that writes: every call site must hold the exclusive lock
						hfn := c.funcOf(fd)
						for _, cfd := range c.allFuncDecls(role) {
							if cfd.Body == nil || cfd == fd || hfn == nil {
								continue
							}
							var cg *FG
							ast.Inspect(cfd.Body, func(x ast.Node) bool {
								if call, ok := x.(*ast.CallExpr); ok {
									if cf := calleeOf(info, call); cf != nil && cf.Origin() == hfn.Origin() {
										if cg == nil {
											cg = newFG(info, cfd.Body)
										}
										if lockKindAt(cg, info, objKey(held), call) == "shared" {
											bad = fmt.Sprintf("%s, which writes the registry, is called at %s while %s holds only the read lock of %s: other goroutines read the map at the same moment (concurrent map read and map write)", fd.Name.Name, c.pos(call.Pos()), c.fdName(cfd), held.Name())
										}
									}
								}
								return true
							})
						}
					}
					if bad != "" {
						break
					}
				}
				if guard == nil {
					guard = held
				} else if guard != held {
					bad = fmt.Sprintf("the registry is guarded by %s in one function and by %s in %s", guard.Name(), held.Name(), c.fdName(fd))
				}
			}
			if bad != "" {
				r.fail("D1-registry-lock", construct, c.pos(reg.Pos()), bad)
			} else {
				r.ok("D1-registry-lock", construct, c.pos(reg.Pos()), fmt.Sprintf("%d references in %d function(s), all inside single lock regions of %s", len(refs), len(order), guard.Name()))
			}
			// lock pairing in those functions
			for _, fd := range order {
				if guard == nil {
					break
				}
				checkLockPairing(c, r, "D1-lock-pairing", info, fd, fd.Body, objKey(guard), guard.Name())
			}
		}
	}
	r.count("registries", nreg)
	r.floor("D1-registry-lock", 3)

	// ---- D2 shared mutable state
	allow := func(t types.Type) bool {
		if isSyncType(t) {
			return true
		}
		if n := derefNamed(t); n != nil && n.Obj().Pkg() != nil && n.Obj().Pkg().Path() == "regexp" {
			return true
		}
		return false
	}
	roots := c.sharedRoots()
	for _, root := range roots {
		path, why := c.findMutableFrom(root.T, root.Name, allow)
		if _, isSig := root.T.Underlying().(*types.Signature); isSig && path == "" && root.Var != nil {
			for _, tgt := range c.funcFieldTargets(root.Var) {
				if path, why = c.findMutableFrom(tgt.T, root.Name+" ["+tgt.Via+"]", allow); path != "" {
					break
				}
			}
		}
		// the root variable itself, if a struct pointer, is covered by the search (its fields)
		if path == "" {
			r.ok("D2-shared-mutable", root.Name, c.pos(root.Pos), "no mutable object reachable ("+shortType(root.T)+")")
		} else {
			o := r.fail("D2-shared-mutable", root.Name, c.pos(root.Pos), "state shared by every instance of a type reaches an unsynchronised mutable object: "+path+"; "+why)
			o.Witness = witnessOfPath(path)
		}
	}
	r.count("shared roots", len(roots))
	r.floor("D2-shared-mutable", 5)
	checkClassStateHandedOut(c, r, "D2-instances-share-nothing")
	checkPooledEscape(c, r, "D2-pooled-objects-stay-home")

	// ---- D3 write-once package variables
	for _, role := range []string{"agent", "collection", "cdcn", "module"} {
		info := c.info(role)
		for _, v := range c.packageVars(role) {
			bad := ""
			for _, fd := range c.allFuncDecls(role) {
				ast.Inspect(fd.Body, func(x ast.Node) bool {
					switch s := x.(type) {
					case *ast.AssignStmt:
						for _, l := range s.Lhs {
							if id, ok := ast.Unparen(l).(*ast.Ident); ok && info.Uses[id] == v {
								bad = "assigned in " + c.fdName(fd) + " at " + c.pos(s.Pos())
							}
						}
					case *ast.IncDecStmt:
						if id, ok := ast.Unparen(s.X).(*ast.Ident); ok && info.Uses[id] == v {
							bad = "stepped in " + c.fdName(fd) + " at " + c.pos(s.Pos())
						}
					case *ast.UnaryExpr:
						if id, ok := ast.Unparen(s.X).(*ast.Ident); ok && s.Op == token.AND && info.Uses[id] == v && !isSyncType(v.Type()) {
							bad = "address taken in " + c.fdName(fd) + " at " + c.pos(s.Pos())
						}
					}
					return true
				})
			}
			r.check(bad == "", "D3-write-once", role+"."+v.Name(), c.pos(v.Pos()), "only initialised by its declaration", "the package-level variable is "+bad+": every goroutine shares it")
		}
	}
	r.floor("D3-write-once", 1)
	// the fields of a class object are its constants: every instance and every goroutine reads
	// them without a lock, so they are set while the object is built and never again
	{
		fw := c.fieldWrites()
		for _, n := range c.classTypes() {
			st := structOf(n)
			if st == nil {
				continue
			}
			role := c.roleOf(n.Obj().Pkg())
			for i := 0; i < st.NumFields(); i++ {
				f := st.Field(i)
				if isSyncType(f.Type()) {
					continue
				}
				construct := role + "." + n.Obj().Name() + "." + f.Name()
				if ws := fw[f.Origin()]; len(ws) > 0 {
					r.fail("D3-class-constants", construct, c.pos(ws[0].Pos), fmt.Sprintf("the class field %s is %s in %s after the class object was published: the object is shared by every instance and every goroutine, which read the field without a lock", f.Name(), ws[0].How, ws[0].In.Name.Name))
				} else {
					r.ok("D3-class-constants", construct, c.pos(f.Pos()), "set only while the class object is built")
				}
			}
		}
	}
}

// witnessOfPath: the terminal type of a reachability path (stable key for known findings).
func witnessOfPath(path string) string {
	parts := strings.Split(path, " -> ")
	return parts[len(parts)-1]
}

// checkLockPairing: every Lock of the mutex is followed by an Unlock on all
// normal paths (or a deferred Unlock is registered), and no return lies inside
// a region without one.
func checkLockPairing(c *Ctx, r *Rec, rule string, info *types.Info, fd *ast.FuncDecl, body *ast.BlockStmt, key, mname string) {
	g := newFG(info, body)
	env := &symEnv{info: info}
	idx := 0
	for _, b := range g.order {
		for i, n := range b.Nodes {
			if mutexOp(info, env, n, key) != "lock" {
				continue
			}
			idx++
			construct := fmt.Sprintf("%s/%s.Lock#%d", c.fdName(fd), mname, idx)
			// a path from after the lock to a normal exit that passes no unlock (and no deferred unlock was registered before)
			deferred := false
			for _, bb := range g.order {
				for _, nn := range bb.Nodes {
					if mutexOp(info, env, nn, key) == "defer-unlock" {
						deferred = true
					}
				}
			}
			leak2, w2 := g.exists(pathQuery{
				from:     point{b, i + 1},
				stop:     func(x ast.Node) bool { return mutexOp(info, env, x, key) == "unlock" },
				goalExit: func(kind int, _ *cfg.Block) bool { return kind == exitReturn },
			})
			// an explicit panic raised while the mutex is held (and not released by a defer) leaves it
			// locked for good: the caller may recover, the next call on the object blocks forever
			leak3, w3 := false, ast.Node(nil)
			if !deferred {
				leak3, w3 = g.exists(pathQuery{
					from: point{b, i + 1},
					stop: func(x ast.Node) bool { return mutexOp(info, env, x, key) == "unlock" },
					goalNode: func(x ast.Node) bool {
						found := false
						inspectNoLit(x, func(y ast.Node) bool {
							if call, ok := y.(*ast.CallExpr); ok && isBuiltinCall(info, call, "panic") && !nilAssertion(info, fd.Body, call) {
								found = true
							}
							// a method of the same type that raises a panic itself (a limit check of
							// a traversal, say) is a panic under the lock all the same
							if call, ok := y.(*ast.CallExpr); ok && !found {
								if rn := recvNamedOfDecl(c, fd); rn != nil {
									if cf := calleeOf(info, call); cf != nil && recvNamed(cf) != nil && recvNamed(cf).Origin() == rn.Origin() && methodMayPanic(c, c.declOf(cf), rn, 0, map[*ast.FuncDecl]bool{}) {
										found = true
									}
								}
							}
							return true
						})
						return found
					},
				})
			}
			switch {
			case deferred:
				r.ok(rule, construct, c.pos(n.Pos()), "released by a deferred Unlock")
			case leak3:
				r.fail(rule, construct, c.pos(n.Pos()), fmt.Sprintf("a path from this Lock reaches the panic at %s without Unlock: a caller that recovers from the panic finds the object locked for ever", c.pos(w3.Pos())))
			case leak2:
				at := "the end of the function"
				if w2 != nil {
					at = c.pos(w2.Pos())
				}
				r.fail(rule, construct, c.pos(n.Pos()), fmt.Sprintf("a path from this Lock reaches the function exit at %s without Unlock: the next caller blocks forever", at))
			default:
				r.ok(rule, construct, c.pos(n.Pos()), "every normal path from this Lock passes an Unlock")
			}
		}
	}
}

// checkClassStateHandedOut: a class object is shared by all instances of its type.  A field of
// a new instance that is a reference (map, slice, pointer, channel, interface) must not be
// initialised from a field of the class when the instance later mutates what it refers to:
// all instances would then work on one unsynchronised object.
func checkClassStateHandedOut(c *Ctx, r *Rec, rule string) {
	fw := c.fieldWrites()
	isRef := func(t types.Type) bool {
		switch t.Underlying().(type) {
		case *types.Map, *types.Slice, *types.Pointer, *types.Chan:
			return true
		}
		return false
	}
	n := 0
	for _, role := range []string{"agent", "collection", "cdcn", "module"} {
		info := c.info(role)
		for _, fd := range c.allFuncDecls(role) {
			recv := recvObj(info, fd)
			if recv == nil || fd.Body == nil {
				continue
			}
			rn := derefNamed(recv.Type())
			if rn == nil || !isClassType(c, rn) {
				continue
			}
			handed := func(target *types.Var, val ast.Expr, pos token.Pos) {
				if target == nil || !isRef(target.Type()) {
					return
				}
				se, ok := ast.Unparen(val).(*ast.SelectorExpr)
				if !ok || selectorField(info, se) == nil || !isObj(info, se.X, recv) {
					return
				}
				n++
				construct := c.fdName(fd) + "/" + target.Name()
				if ws := fw[target.Origin()]; len(ws) > 0 {
					r.fail(rule, construct, c.pos(pos), fmt.Sprintf("the new instance's field %s is set to the class's own %s, and instances change it (%s in %s at %s): every instance of this type works on the one object kept by the shared class, without synchronisation", target.Name(), exprStr(se), ws[0].How, ws[0].In.Name.Name, c.pos(ws[0].Pos)))
				} else {
					r.ok(rule, construct, c.pos(pos), "handed out by the class but never changed through the instance")
				}
			}
			ast.Inspect(fd.Body, func(x ast.Node) bool {
				switch s := x.(type) {
				case *ast.CompositeLit:
					if _, isStruct := info.TypeOf(s).Underlying().(*types.Struct); !isStruct {
						return true
					}
					for _, el := range s.Elts {
						if kv, ok := el.(*ast.KeyValueExpr); ok {
							if id, ok := kv.Key.(*ast.Ident); ok {
								if fv, ok := info.Uses[id].(*types.Var); ok && fv.IsField() {
									handed(fv, kv.Value, kv.Pos())
								}
							}
						}
					}
				case *ast.AssignStmt:
					if len(s.Lhs) == len(s.Rhs) {
						for i, l := range s.Lhs {
							if underConstruction(info, fd, l) {
								handed(selectorField(info, l), s.Rhs[i], s.Pos())
							}
						}
					}
				}
				return true
			})
		}
	}
	r.count("class fields handed to instances", n)
}

// checkPooledEscape: an object handed back to a sync.Pool may be picked up by any other
// goroutine at once.  A function that puts an object back (typically by defer) must not also
// return it, or anything carved out of it, to its caller.
func checkPooledEscape(c *Ctx, r *Rec, rule string) {
	fa := c.flow()
	n := 0
	for _, f := range fa.fns {
		if f == nil || f.Blocks == nil {
			continue
		}
		var put []ssa.Value
		var putPos token.Pos
		for _, b := range f.Blocks {
			for _, ins := range b.Instrs {
				var cc *ssa.CallCommon
				switch x := ins.(type) {
				case *ssa.Call:
					cc = x.Common()
				case *ssa.Defer:
					cc = x.Common()
				}
				if cc == nil {
					continue
				}
				callee := cc.StaticCallee()
				if callee == nil || callee.Name() != "Put" || callee.Pkg == nil || callee.Pkg.Pkg.Path() != "sync" || len(cc.Args) != 2 {
					continue
				}
				put = append(put, cc.Args[1])
				putPos = ins.Pos()
			}
		}
		if len(put) == 0 {
			continue
		}
		n++
		pooled := map[ssa.Value]bool{}
		for _, p := range put {
			allocRoots(p, map[ssa.Value]bool{}, pooled)
		}
		bad := ""
		for _, b := range f.Blocks {
			for _, ins := range b.Instrs {
				ret, ok := ins.(*ssa.Return)
				if !ok {
					continue
				}
				for _, rv := range ret.Results {
					roots := map[ssa.Value]bool{}
					// a function literal that is handed out takes what it captures with it (a deferred
					// call makes the compiler spill the result into a local slot first)
					var closures []*ssa.MakeClosure
					var findClosures func(v ssa.Value, depth int)
					findClosures = func(v ssa.Value, depth int) {
						if depth > 4 {
							return
						}
						switch x := v.(type) {
						case *ssa.MakeClosure:
							closures = append(closures, x)
						case *ssa.Phi:
							for _, e := range x.Edges {
								findClosures(e, depth+1)
							}
						case *ssa.UnOp:
							if a, ok := x.X.(*ssa.Alloc); ok && x.Op == token.MUL && a.Referrers() != nil {
								for _, rf := range *a.Referrers() {
									if st, ok := rf.(*ssa.Store); ok && st.Addr == ssa.Value(a) {
										findClosures(st.Val, depth+1)
									}
								}
							}
						}
					}
					findClosures(rv, 0)
					for _, mc := range closures {
						for _, bnd := range mc.Bindings {
							if cell, ok := bnd.(*ssa.Alloc); ok {
								roots[cell] = true
								if refs := cell.Referrers(); refs != nil {
									for _, rf := range *refs {
										if st, ok := rf.(*ssa.Store); ok && st.Addr == ssa.Value(cell) {
											allocRoots(st.Val, map[ssa.Value]bool{}, roots)
										}
									}
								}
								continue
							}
							allocRoots(bnd, map[ssa.Value]bool{}, roots)
						}
					}
					if len(closures) == 0 && !carriesStorage(rv.Type()) {
						continue
					}
					allocRoots(rv, map[ssa.Value]bool{}, roots)
					for root := range roots {
						if pooled[root] {
							bad = fmt.Sprintf("the function gives an object back to a sync.Pool (at %s) and also returns it, or a part of it, to its caller: another goroutine can take the object from the pool and overwrite it while the caller still reads it", c.pos(putPos))
						}
					}
				}
			}
		}
		name := f.Name()
		if f.Parent() != nil {
			name = f.Parent().Name() + "/" + name
		}
		r.check(bad == "", rule, name, c.pos(f.Pos()), "what goes back to the pool does not leave the function", bad)
	}
	r.count("functions that return objects to a sync.Pool", n)
}

// checkTypeLockPairing: a collection type that guards its state with a mutex field releases it
// on every way out of every method, the panics it raises itself included.
func checkTypeLockPairing(c *Ctx, r *Rec, rule string, n *types.Named) {
	if n == nil {
		return
	}
	st := structOf(n)
	if st == nil {
		return
	}
	role := c.roleOf(n.Obj().Pkg())
	info := c.info(role)
	for i := 0; i < st.NumFields(); i++ {
		f := st.Field(i)
		if !isSyncType(f.Type()) || !strings.HasSuffix(types.TypeString(f.Type(), nil), "Mutex") {
			continue
		}
		ms := c.methodsOf(n)
		for _, name := range sortedKeys(ms) {
			if ms[name].Body != nil {
				checkLockPairing(c, r, rule, info, ms[name], ms[name].Body, objKey(f), f.Name())
			}
		}
	}
	if strings.HasSuffix(rule, "lock-released") {
		checkTypeNoReentry(c, r, strings.TrimSuffix(rule, "lock-released")+"no-reentry-under-lock", n)
	}
}

// recheckedInsert: a function that takes the registry's mutex more than once is still a correct
// get-or-create when every write to the registry sits in an exclusive region (Lock, not RLock)
// in which the registry is looked up again before the write (double-checked binding: a first
// lookup under the read lock, then lookup and insert under the write lock).
func recheckedInsert(g *FG, info *types.Info, fd *ast.FuncDecl, key string) bool {
	env := &symEnv{info: info}
	type lockOp struct {
		node      ast.Node
		exclusive bool
	}
	var locks []lockOp
	var unlocks []ast.Node
	for _, b := range g.order {
		for _, n := range b.Nodes {
			switch mutexOp(info, env, n, key) {
			case "lock":
				excl := false
				if es, ok := n.(*ast.ExprStmt); ok {
					if _, mname, _, ok := methodCall(es.X); ok && mname == "Lock" {
						excl = true
					}
				}
				locks = append(locks, lockOp{n, excl})
			case "unlock":
				unlocks = append(unlocks, n)
			}
		}
	}
	regionOf := func(x ast.Node) *lockOp {
		var best *lockOp
		for i := range locks {
			l := &locks[i]
			if !g.nodeDominates(l.node, x) {
				continue
			}
			closed := false
			for _, u := range unlocks {
				if g.nodeDominates(l.node, u) && g.nodeDominates(u, x) {
					closed = true
				}
			}
			if !closed {
				best = l
			}
		}
		return best
	}
	// the registry's identifiers in this function, split into writes and reads
	var writes, reads []ast.Node
	isReg := func(e ast.Expr) bool {
		id, ok := ast.Unparen(e).(*ast.Ident)
		if !ok {
			return false
		}
		o := info.Uses[id]
		v, isVar := o.(*types.Var)
		if !isVar || v.Pkg() == nil || v.Parent() != v.Pkg().Scope() {
			return false
		}
		_, isMap := v.Type().Underlying().(*types.Map)
		return isMap
	}
	ast.Inspect(fd.Body, func(x ast.Node) bool {
		switch s := x.(type) {
		case *ast.AssignStmt:
			for _, l := range s.Lhs {
				if ix, ok := ast.Unparen(l).(*ast.IndexExpr); ok && isReg(ix.X) {
					writes = append(writes, s)
				}
			}
			for _, rh := range s.Rhs {
				ast.Inspect(rh, func(y ast.Node) bool {
					if ix, ok := y.(*ast.IndexExpr); ok && isReg(ix.X) {
						reads = append(reads, ix)
					}
					return true
				})
			}
			return false
		case *ast.CallExpr:
			if isBuiltinCall(info, s, "delete") && len(s.Args) == 2 && isReg(s.Args[0]) {
				writes = append(writes, s)
				return false
			}
		case *ast.IndexExpr:
			if isReg(s.X) {
				reads = append(reads, s)
			}
		}
		return true
	})
	if len(writes) == 0 {
		return true
	}
	for _, w := range writes {
		rw := regionOf(w)
		if rw == nil || !rw.exclusive {
			return false
		}
		rechecked := false
		for _, rd := range reads {
			if rr := regionOf(rd); rr == rw && rd.Pos() < w.Pos() {
				rechecked = true
			}
		}
		if !rechecked {
			return false
		}
	}
	return true
}

// methodMayPanic: the method, or a method of the same type it calls (a few levels deep), contains
// an explicit panic.
func methodMayPanic(c *Ctx, fd *ast.FuncDecl, n *types.Named, depth int, seen map[*ast.FuncDecl]bool) bool {
	if fd == nil || fd.Body == nil || depth > 4 || seen[fd] {
		return false
	}
	seen[fd] = true
	info := c.infoFor(fd)
	if info == nil {
		return false
	}
	found := false
	ast.Inspect(fd.Body, func(x ast.Node) bool {
		call, ok := x.(*ast.CallExpr)
		if !ok || found {
			return !found
		}
		if isBuiltinCall(info, call, "panic") {
			found = true
			return false
		}
		if cf := calleeOf(info, call); cf != nil && recvNamed(cf) != nil && recvNamed(cf).Origin() == n.Origin() {
			if methodMayPanic(c, c.declOf(cf), n, depth+1, seen) {
				found = true
			}
		}
		return true
	})
	return found
}

// lockKindAt: "exclusive" when x stands in a region opened by Lock, "shared" when opened by RLock,
// "" when no region of the mutex encloses it (dominating lock that no dominating unlock closes).
func lockKindAt(g *FG, info *types.Info, key string, x ast.Node) string {
	env := &symEnv{info: info}
	kind := ""
	for _, b := range g.order {
		for _, n := range b.Nodes {
			if mutexOp(info, env, n, key) != "lock" || !g.nodeDominates(n, x) {
				continue
			}
			closed := false
			for _, b2 := range g.order {
				for _, u := range b2.Nodes {
					if mutexOp(info, env, u, key) == "unlock" && g.nodeDominates(n, u) && g.nodeDominates(u, x) {
						closed = true
					}
				}
			}
			if closed {
				continue
			}
			kind = "shared"
			if es, ok := n.(*ast.ExprStmt); ok {
				if _, mname, _, ok := methodCall(es.X); ok && mname == "Lock" {
					kind = "exclusive"
				}
			}
		}
	}
	return kind
}

// registryWritesIn lists the statements of fd that write the package-level map reg.
func registryWritesIn(info *types.Info, fd *ast.FuncDecl, reg types.Object) []ast.Node {
	var out []ast.Node
	ast.Inspect(fd.Body, func(x ast.Node) bool {
		switch s := x.(type) {
		case *ast.AssignStmt:
			for _, l := range s.Lhs {
				if ix, ok := ast.Unparen(l).(*ast.IndexExpr); ok && isObj(info, ix.X, reg) {
					out = append(out, s)
				}
			}
		case *ast.CallExpr:
			if isBuiltinCall(info, s, "delete") && len(s.Args) == 2 && isObj(info, s.Args[0], reg) {
				out = append(out, s)
			}
		}
		return true
	})
	return out
}
