package main

// Consecutive copies tile their destination.  Two copy statements that follow one another in
// one block and write into the same slice, `copy(D[a:], S1)` and then `copy(D[b:], S2)`, are
// meant to place S2 behind S1: b has to be a + len(S1).  When both offsets are sums of lengths
// (locals that are defined once are followed) and b is a different sum, the second block
// overwrites part of the first or leaves a gap - for operands of different lengths.  Offsets the
// rule cannot write as a sum of lengths are left alone.

import (
	"fmt"
	"go/ast"
	"go/token"
	"go/types"
	"sort"
	"strings"
)

type lenSum map[string]int // "len(x)" -> coefficient, "" -> constant

func (a lenSum) String() string {
	var ks []string
	for k := range a {
		ks = append(ks, k)
	}
	sort.Strings(ks)
	var parts []string
	for _, k := range ks {
		if a[k] == 0 {
			continue
		}
		switch {
		case k == "":
			parts = append(parts, fmt.Sprint(a[k]))
		case a[k] == 1:
			parts = append(parts, k)
		default:
			parts = append(parts, fmt.Sprintf("%d*%s", a[k], k))
		}
	}
	if len(parts) == 0 {
		return "0"
	}
	return strings.Join(parts, "+")
}

func lenSumOf(info *types.Info, scope ast.Node, e ast.Expr, depth int) lenSum {
	if depth > 6 || e == nil {
		return nil
	}
	e = ast.Unparen(e)
	if k, ok := constIntExpr(info, e); ok {
		return lenSum{"": int(k)}
	}
	switch x := e.(type) {
	case *ast.CallExpr:
		if tv, ok := info.Types[x.Fun]; ok && tv.IsType() && len(x.Args) == 1 {
			return lenSumOf(info, scope, x.Args[0], depth+1)
		}
		if isBuiltinCall(info, x, "len") && len(x.Args) == 1 {
			if id, ok := ast.Unparen(x.Args[0]).(*ast.Ident); ok {
				return lenSum{"len(" + id.Name + ")": 1}
			}
		}
	case *ast.Ident:
		if init := initOfDeep(info, scope, x); init != nil {
			return lenSumOf(info, scope, init, depth+1)
		}
	case *ast.BinaryExpr:
		if x.Op == token.ADD || x.Op == token.SUB {
			l, r := lenSumOf(info, scope, x.X, depth+1), lenSumOf(info, scope, x.Y, depth+1)
			if l == nil || r == nil {
				return nil
			}
			out := lenSum{}
			for k, v := range l {
				out[k] += v
			}
			for k, v := range r {
				if x.Op == token.ADD {
					out[k] += v
				} else {
					out[k] -= v
				}
			}
			return out
		}
	}
	return nil
}

func sameLenSum(a, b lenSum) bool {
	for k, v := range a {
		if b[k] != v {
			return false
		}
	}
	for k, v := range b {
		if a[k] != v {
			return false
		}
	}
	return true
}

func checkCopiesTile(c *Ctx, r *Rec, rule string, fds []*ast.FuncDecl) {
	pairs, bad := 0, 0
	for _, fd := range fds {
		info := c.infoFor(fd)
		if info == nil || fd.Body == nil {
			continue
		}
		type cp struct {
			call *ast.CallExpr
			dst  types.Object
			off  lenSum
			src  string
		}
		parse := func(s ast.Stmt) *cp {
			es, ok := s.(*ast.ExprStmt)
			if !ok {
				return nil
			}
			call, ok := es.X.(*ast.CallExpr)
			if !ok || !isBuiltinCall(info, call, "copy") || len(call.Args) != 2 {
				return nil
			}
			dst := ast.Unparen(call.Args[0])
			off := lenSum{}
			if se, ok := dst.(*ast.SliceExpr); ok {
				if se.High != nil {
					return nil
				}
				if se.Low != nil {
					if off = lenSumOf(info, fd, se.Low, 0); off == nil {
						return nil
					}
				}
				dst = ast.Unparen(se.X)
			}
			do := identObj(info, dst)
			if do == nil {
				return nil
			}
			sid, ok := ast.Unparen(call.Args[1]).(*ast.Ident)
			if !ok {
				// a source that is not a plain variable: kept by its text, for the sibling rule only
				return &cp{call, do, off, "?" + exprStr(call.Args[1])}
			}
			return &cp{call, do, off, sid.Name}
		}
		type pair struct{ a, b *cp }
		var siblings []pair
		ast.Inspect(fd.Body, func(n ast.Node) bool {
			var list []ast.Stmt
			switch blk := n.(type) {
			case *ast.BlockStmt:
				list = blk.List
			case *ast.CaseClause:
				list = blk.Body
			case *ast.CommClause:
				list = blk.Body
			default:
				return true
			}
			for i := 0; i+1 < len(list); i++ {
				a, b := parse(list[i]), parse(list[i+1])
				if a == nil || b == nil || a.dst != b.dst {
					continue
				}
				if len(a.off) == 0 || a.off.String() == "0" {
					siblings = append(siblings, pair{a, b})
				}
				if strings.HasPrefix(a.src, "?") {
					continue
				}
				pairs++
				want := lenSum{}
				for k, v := range a.off {
					want[k] += v
				}
				want["len("+a.src+")"]++
				if !sameLenSum(want, b.off) {
					bad++
					r.fail(rule, c.fdName(fd)+"/"+exprStr(b.call), c.pos(b.call.Pos()), fmt.Sprintf("%s follows %s into the same slice at offset %s, but what precedes it ends at %s: when the two lengths differ the second block overwrites the end of the first or leaves a gap, and values are lost or doubled", exprStr(b.call), exprStr(a.call), b.off, want))
				}
			}
			return true
		})
		// siblings: two places in one function that put a first block at the front of the same
		// slice and a second block behind it at the *same* offset, although the first blocks are
		// different things - the offset can be the length of only one of them
		for i := 0; i < len(siblings); i++ {
			for j := i + 1; j < len(siblings); j++ {
				p, q := siblings[i], siblings[j]
				if p.a.dst != q.a.dst || p.a.src == q.a.src || !sameLenSum(p.b.off, q.b.off) || p.b.off.String() == "0" {
					continue
				}
				bad++
				r.fail(rule, c.fdName(fd)+"/"+exprStr(q.b.call), c.pos(q.b.call.Pos()), fmt.Sprintf("at %s the block behind %s is placed at offset %s, and at %s the block behind %s is placed at the same offset %s: the offset can be the length of only one of the two leading blocks, so for operands of different lengths one of the two places overwrites the end of its first block or leaves a gap (values are lost or doubled)", c.pos(p.b.call.Pos()), strings.TrimPrefix(p.a.src, "?"), p.b.off, c.pos(q.b.call.Pos()), strings.TrimPrefix(q.a.src, "?"), q.b.off))
			}
		}
	}
	if bad == 0 && pairs > 0 {
		r.ok(rule, "copy-pairs", "", fmt.Sprintf("%d pairs of consecutive copies into one slice, each second one placed where the first ends", pairs))
	}
}
