package main

// C02 — Set stays strictly ordered, duplicate-free and equal to the mathematical set.

import (
	"fmt"
	"go/ast"
	"go/token"
	"go/types"
	"strings"
)

func init() {
	register(&propInfo{
		ID:      "C02",
		Engines: "SYM (octagon abstract interpretation of the binary-search step under an inductive invariant), PATH (edge conditions), call-site tables",
		Decided: "D1 the storage is mutated only by AddValue->InsertValue, RemoveValue->RemoveValue, RemoveAll->RemoveAll; AddValue inserts its parameter, at the slot returned by the search for that parameter, only on the not-found edge of that same search; RemoveValue removes the index returned by the search only on its found edge; " +
			"D2 every membership/position query goes through the set's own search helper and own collator: no method uses the list's linear search or builds another collator; " +
			"D3 the search helper is a correct binary search step: with the inductive invariant size = last-first+1, 1<=first, it probes a position inside [first,last], the arm taken when the value ranks before the probe keeps [first, middle-1], the arm taken when it ranks after keeps [middle+1, last], the equal arm returns (probe position, true), all three ranks are handled, the interval shrinks strictly (termination), and on exhaustion it returns (first-1, false) = the number of elements ranking before the value; " +
			"D4 all loops of the set type and class are in terminating forms (the search loop by D3's strict decrease).",
		NotDecided: "that the stored list is sorted to begin with is the induction hypothesis of D3, maintained by D1+D3 only together with the list's element placement (C01 not-decided part) and a collator that is a total preorder (C07).",
		Run:        runC02,
	})
}

var searchableNames = map[string]bool{"ContainsValue": true, "ContainsAny": true, "ContainsAll": true, "GetIndex": true}

func runC02(c *Ctx, r *Rec) {
	set := c.mustImpl(r, "bind", "collection", "SetLike")
	cls := c.mustImpl(r, "bind", "collection", "SetClassLike")
	if set == nil || cls == nil {
		return
	}
	info := c.info("collection")
	storage := c.fieldOfIface(set, "collection", "ListLike")
	collF := c.fieldOfIface(set, "agent", "CollatorLike")
	if storage == nil || collF == nil {
		r.undecided("bind", "collection."+set.Obj().Name(), "", "cannot bind the storage (ListLike) and collator (CollatorLike) fields")
		return
	}
	ms := c.methodsOf(set)
	// the search helper: the private method returning (int, bool)
	var search *ast.FuncDecl
	for _, name := range sortedKeys(ms) {
		fd := ms[name]
		if ast.IsExported(name) {
			continue
		}
		sig := c.funcOf(fd).Type().(*types.Signature)
		if sig.Results().Len() == 2 && isIntegerType(sig.Results().At(0).Type()) && isBoolType(sig.Results().At(1).Type()) && sig.Params().Len() == 1 {
			search = fd
		}
	}
	if search == nil {
		r.undecided("bind", "collection."+set.Obj().Name()+"/search-helper", "", "no private method (value) -> (int, bool) found")
		return
	}
	searchFn := c.funcOf(search)

	checkReceiverWrites(c, r, "D1-receiver-writes-persist", set)
	// ---- D1 single gate + edge discipline
	allowed := map[string]string{"AddValue": "InsertValue", "RemoveValue": "RemoveValue", "RemoveAll": "RemoveAll"}
	for _, name := range sortedKeys(ms) {
		fd := ms[name]
		inspectNoLit(fd.Body, func(x ast.Node) bool {
			if rx, mname, call, ok := methodCall(x); ok && selectorField(info, rx) == storage && listMutators[mname] {
				r.check(allowed[name] == mname, "D1-single-gate", c.fdName(fd)+"/"+mname, c.pos(call.Pos()), "the gate method and its storage mutator",
					fmt.Sprintf("%s mutates the storage through %s: order and uniqueness are only maintained by AddValue->InsertValue at the searched slot, RemoveValue->RemoveValue at the searched index, RemoveAll", name, mname))
			}
			return true
		})
	}
	for _, w := range c.fieldWrites()[storage.Origin()] {
		r.fail("D1-single-gate", c.fdName(w.In)+"/storage-write", c.pos(w.Pos), "the storage field is "+w.How+" outside the constructor")
	}
	r.floor("D1-single-gate", 3)
	for _, gate := range []struct {
		name, mut string
		onFound   bool
	}{{"AddValue", "InsertValue", false}, {"RemoveValue", "RemoveValue", true}} {
		fd := ms[gate.name]
		construct := "collection." + set.Obj().Name() + "." + gate.name
		if fd == nil {
			r.undecided("D1-searched-position", construct, "", "method not found")
			continue
		}
		params := paramObjs(info, fd)
		var posObj, foundObj types.Object
		var searchCall *ast.CallExpr
		nSearch := 0
		ast.Inspect(fd.Body, func(x ast.Node) bool {
			if lhs, rhs, ok := multiDef(x); ok && len(lhs) == 2 {
				if call, ok := ast.Unparen(rhs).(*ast.CallExpr); ok {
					if cf := calleeOf(info, call); cf != nil && cf.Origin() == searchFn {
						posObj, foundObj, searchCall = identObj(info, lhs[0]), identObj(info, lhs[1]), call
						nSearch++
					}
				}
			}
			return true
		})
		var mutCall *ast.CallExpr
		inspectNoLit(fd.Body, func(x ast.Node) bool {
			if rx, mname, call, ok := methodCall(x); ok && selectorField(info, rx) == storage && mname == gate.mut {
				mutCall = call
			}
			return true
		})
		bad := ""
		switch {
		case searchCall == nil || nSearch != 1 || mutCall == nil || len(params) != 1:
			bad = "the method does not consist of one search for its parameter and one " + gate.mut + " on the storage"
		case len(searchCall.Args) != 1 || !isObj(info, searchCall.Args[0], params[0]):
			bad = "the search is not for the method's own parameter"
		default:
			g := newFG(info, fd.Body)
			pt, _ := g.locate(mutCall)
			guarded := false
			for _, ec := range g.edgeConds(pt) {
				cond, pol := ast.Unparen(ec.cond), ec.polarity
				if u, ok := cond.(*ast.UnaryExpr); ok && u.Op == token.NOT {
					cond, pol = ast.Unparen(u.X), !pol
				}
				if id, ok := cond.(*ast.Ident); ok && info.Uses[id] == foundObj {
					if pol == gate.onFound {
						guarded = true
					} else {
						bad = fmt.Sprintf("%s runs on the wrong edge of the search result (found=%v)", gate.mut, pol)
					}
				}
			}
			if !guarded && bad == "" {
				bad = fmt.Sprintf("%s is not guarded by the found flag of the search: %s", gate.mut, map[bool]string{false: "a value already present is inserted again (duplicate)", true: "an absent value removes whatever sits at the returned slot"}[gate.onFound])
			}
			// position operand is result #0 of that same search (modulo a conversion)
			posArg := ast.Unparen(mutCall.Args[0])
			if call, ok := posArg.(*ast.CallExpr); ok && len(call.Args) == 1 {
				if tv, ok := info.Types[call.Fun]; ok && tv.IsType() {
					posArg = ast.Unparen(call.Args[0])
				}
			}
			if !isObj(info, posArg, posObj) && bad == "" {
				bad = "the position handed to " + gate.mut + " is " + exprStr(mutCall.Args[0]) + ", not the position returned by the search"
			}
			if gate.name == "AddValue" && (len(mutCall.Args) != 2 || !isObj(info, mutCall.Args[1], params[0])) && bad == "" {
				bad = "the value inserted is not the method's parameter"
			}
			// the position/found variables are not modified between search and use
			for _, o := range []types.Object{posObj, foundObj} {
				n := 0
				ast.Inspect(fd.Body, func(x ast.Node) bool {
					switch s := x.(type) {
					case *ast.AssignStmt:
						for _, l := range s.Lhs {
							if identObj(info, l) == o {
								n++
							}
						}
					case *ast.ValueSpec:
						for _, nm := range s.Names {
							if info.Defs[nm] == o {
								n++
							}
						}
					case *ast.IncDecStmt:
						if identObj(info, s.X) == o {
							n++
						}
					}
					return true
				})
				if n != 1 && bad == "" {
					bad = "the search result " + o.Name() + " is modified before it is used"
				}
			}
		}
		r.check(bad == "", "D1-searched-position", construct, c.pos(fd.Pos()),
			fmt.Sprintf("%s at the searched position, only when found=%v, for the method's own parameter", gate.mut, gate.onFound), bad)
	}
	r.floor("D1-searched-position", 2)

	// ---- D2 one order
	for _, name := range sortedKeys(ms) {
		fd := ms[name]
		bad := ""
		ast.Inspect(fd.Body, func(x ast.Node) bool {
			if rx, mname, _, ok := methodCall(x); ok && selectorField(info, rx) == storage && searchableNames[mname] {
				bad = fmt.Sprintf("%s asks the list's own %s, which compares with a default collator and linear equality: under a custom (reversed or coarse) collator the answer disagrees with the set's order", name, mname)
			}
			if call, ok := x.(*ast.CallExpr); ok {
				if cf := calleeOf(info, call); cf != nil && cf.Name() == "Collator" && c.roleOf(cf.Pkg()) == "agent" {
					bad = name + " builds another collator instead of using the set's own"
				}
			}
			return true
		})
		if searchableNames[name] {
			// must reach the search helper (directly or through ContainsValue)
			reaches := false
			ast.Inspect(fd.Body, func(x ast.Node) bool {
				if call, ok := x.(*ast.CallExpr); ok {
					if cf := calleeOf(info, call); cf != nil && (cf.Origin() == searchFn || (searchableNames[cf.Name()] && recvNamed(cf) != nil && recvNamed(cf).Origin() == set.Origin())) {
						reaches = true
					}
				}
				return true
			})
			if !reaches && bad == "" {
				bad = name + " does not go through the set's search helper"
			}
			r.check(bad == "", "D2-one-order", c.fdName(fd), c.pos(fd.Pos()), "answered by the set's own binary search under its own collator", bad)
		} else if bad != "" {
			r.fail("D2-one-order", c.fdName(fd), c.pos(fd.Pos()), bad)
		}
	}
	r.floor("D2-one-order", 4)

	// ---- D5 bulk operations are folds of the single-value gates
	for _, b := range [][2]string{{"AddValues", "AddValue"}, {"RemoveValues", "RemoveValue"}} {
		if fd := ms[b[0]]; fd != nil {
			bad := bulkFold(c, info, fd, b[1], true)
			r.check(bad == "", "D5-bulk-fold", c.fdName(fd), c.pos(fd.Pos()), "applies "+b[1]+" to every element of the operand", bad)
		}
	}
	if fd := c.methodsOf(cls)["MakeFromSequence"]; fd != nil {
		bad := bulkFold(c, info, fd, "AddValue", false)
		r.check(bad == "", "D5-bulk-fold", c.fdName(fd), c.pos(fd.Pos()), "adds every element of the source", bad)
	}
	r.floor("D5-bulk-fold", 3)

	// ---- D3 binary search
	checkBinarySearch(c, r, info, set, search, storage, collF)

	// ---- D4 loops
	exempt := map[string]string{}
	if r.hasOK("D3-binary-search-step") {
		exempt[c.fdName(search)+"/loop#1"] = "terminates by D3: the interval size decreases strictly on every non-returning arm"
	}
	for _, n := range []*types.Named{set, cls} {
		m := c.methodsOf(n)
		for _, name := range sortedKeys(m) {
			checkLoops(c, r, "D4-loop-progress", m[name], exempt)
		}
	}
	r.floor("D4-loop-progress", 1)
}

func (r *Rec) hasOK(rule string) bool {
	okN, other := 0, 0
	for _, o := range r.Obls {
		if o.Rule == rule {
			if o.Status == stOK {
				okN++
			} else {
				other++
			}
		}
	}
	return okN > 0 && other == 0
}

func checkBinarySearch(c *Ctx, r *Rec, info *types.Info, set *types.Named, fd *ast.FuncDecl, storage, collF *types.Var) {
	construct := c.fdName(fd)
	rule := "D3-binary-search-step"
	fail := func(msg string) { r.fail(rule, construct, c.pos(fd.Pos()), msg) }
	und := func(msg string) { r.undecided(rule, construct, c.pos(fd.Pos()), msg) }
	params := paramObjs(info, fd)
	recv := recvObj(info, fd)
	var loop *ast.ForStmt
	var loopIdx int
	for i, s := range fd.Body.List {
		if fs, ok := s.(*ast.ForStmt); ok {
			loop, loopIdx = fs, i
			break
		}
	}
	if loop == nil || loop.Cond == nil || len(params) != 1 {
		und("the search helper is not `declarations; for <size> > 0 { ... }; return`")
		return
	}
	// size variable: the one tested by the loop condition  size > 0
	be, ok := ast.Unparen(loop.Cond).(*ast.BinaryExpr)
	if !ok {
		und("unrecognised loop condition")
		return
	}
	sizeObj := identObj(info, be.X)
	if tv := info.Types[be.Y]; sizeObj == nil || be.Op != token.GTR || tv.Value == nil || tv.Value.String() != "0" {
		und("the loop condition is not `size > 0`")
		return
	}
	// interpret the prefix to learn the initial values
	env0 := &symEnv{info: info, resolve: sizeResolver(info, recv, "n")}
	p0 := symRun(env0, &ast.BlockStmt{List: fd.Body.List[:loopIdx]})
	if len(env0.problems) > 0 || len(p0) != 1 {
		und("cannot interpret the initialisation: " + strings.Join(env0.problems, "; "))
		return
	}
	var firstKey, lastKey string
	sizeKey := objKey(sizeObj)
	for key, v := range p0[0].State {
		if key == sizeKey || v.Lin == nil {
			continue
		}
		switch {
		case v.Lin.equal(k(1)):
			firstKey = key
		case v.Lin.equal(sym("n")):
			lastKey = key
		}
	}
	if firstKey == "" || lastKey == "" || p0[0].State[sizeKey].Lin == nil || !p0[0].State[sizeKey].Lin.equal(sym("n")) {
		fail("the search does not start with first = 1, last = size of the set, size = last (the invariant size = last-first+1 does not hold initially)")
		return
	}
	// ---- interpret one iteration under the invariant
	first, size, half := sym("first"), sym("size"), sym("half")
	env := &symEnv{info: info}
	env.base = Cube{first.scale(-1).plus(1) /* first>=1 */, size.scale(-1).plus(1) /* size>=1 in the loop */, half.scale(-1) /* half>=0 */, half.sub(size).plus(1) /* half<=size-1 */}
	type probe struct {
		idx  *Lin
		cube Cube
	}
	var probes []probe
	var rankCall *ast.CallExpr
	badHalf := ""
	env.resolve = func(e ast.Expr) (Val, bool) {
		switch x := e.(type) {
		case *ast.BinaryExpr:
			if x.Op == token.QUO {
				if tv := info.Types[x.Y]; tv.Value != nil && tv.Value.String() == "2" {
					num := env.eval(env.cur, x.X)
					if num.Lin == nil || !num.Lin.equal(size) {
						badHalf = "the midpoint offset is " + exprStr(x) + ", not size/2"
					}
					return Val{Lin: half}, true
				}
			}
		case *ast.CallExpr:
			if rx, mname, call, ok := methodCall(x); ok {
				if mname == "GetValue" && len(call.Args) == 1 && recvRooted(info, rx, recv) {
					idx := env.eval(env.cur, call.Args[0])
					probes = append(probes, probe{idx.Lin, append(Cube{}, env.cur.cube...)})
					return Val{Opaque: "candidate"}, true
				}
				if mname == "RankValues" && len(call.Args) == 2 {
					rankCall = call
					return Val{Lin: linSym("rank")}, true
				}
			}
		}
		return Val{}, false
	}
	env.init = map[string]Val{firstKey: {Lin: first}, sizeKey: {Lin: size}, lastKey: {Lin: first.add(size).plus(-1)}}
	paths := symRun(env, loop.Body)
	if len(env.problems) > 0 {
		und("SYM cannot interpret the search step: " + strings.Join(dedup(env.problems), "; "))
		return
	}
	if badHalf != "" {
		fail(badHalf)
		return
	}
	if rankCall == nil {
		fail("the search step does not rank the sought value against the probed candidate")
		return
	}
	// orientation of the ranking call: RankValues(value, candidate) or (candidate, value)
	if rx, _, _, _ := methodCall(rankCall); selectorField(info, rx) != collF {
		fail("the ranking is not done by the set's own collator field")
		return
	}
	valueFirst := isObj(info, rankCall.Args[0], params[0])
	candFirst := isObj(info, rankCall.Args[1], params[0])
	if valueFirst == candFirst {
		fail("the ranking call does not compare the sought value with the probed candidate")
		return
	}
	// Rank constants
	rankConst := func(name string) int64 {
		if o := c.Pkgs["agent"].Types.Scope().Lookup(name); o != nil {
			if cst, ok := o.(*types.Const); ok {
				if v, ok := constInt(cst); ok {
					return v
				}
			}
		}
		return -1
	}
	lesser, equal, greater := rankConst("LesserRank"), rankConst("EqualRank"), rankConst("GreaterRank")
	if !valueFirst {
		lesser, greater = greater, lesser
	}
	middle := first.add(half)
	var viol []string
	for _, pr := range probes {
		if pr.idx == nil || !pr.idx.equal(middle) {
			viol = append(viol, fmt.Sprintf("the probed position is %v, required first + size/2", pr.idx))
		}
	}
	if len(probes) == 0 {
		viol = append(viol, "no element is probed")
	}
	rank := sym("rank")
	get := func(p symPath, key string, dflt *Lin) *Lin {
		if v, ok := p.State[key]; ok {
			return v.Lin
		}
		return dflt
	}
	for _, arm := range []struct {
		name  string
		when  *F
		check func(p symPath) string
	}{
		{"value ranks before the probe", eq(rank, k(lesser)), func(p symPath) string {
			if p.Kind != "fall" {
				return "the arm must continue the search"
			}
			f2, l2, s2 := get(p, firstKey, first), get(p, lastKey, nil), get(p, sizeKey, size)
			if f2 == nil || l2 == nil || s2 == nil {
				return "non-linear update"
			}
			if !f2.equal(first) || !l2.equal(middle.plus(-1)) {
				return fmt.Sprintf("it keeps [%v, %v], required [first, middle-1] (the elements from the probe on rank after the value)", f2, l2)
			}
			if !l2.equal(f2.add(s2).plus(-1)) {
				return fmt.Sprintf("it breaks the invariant: size becomes %v but last-first+1 = %v", s2, l2.sub(f2).plus(1))
			}
			return ""
		}},
		{"value ranks after the probe", eq(rank, k(greater)), func(p symPath) string {
			if p.Kind != "fall" {
				return "the arm must continue the search"
			}
			f2, l2, s2 := get(p, firstKey, first), get(p, lastKey, nil), get(p, sizeKey, size)
			if f2 == nil || l2 == nil || s2 == nil {
				return "non-linear update"
			}
			if !f2.equal(middle.plus(1)) || !l2.equal(first.add(size).plus(-1)) {
				return fmt.Sprintf("it keeps [%v, %v], required [middle+1, last] (the elements up to the probe rank before the value)", f2, l2)
			}
			if !l2.equal(f2.add(s2).plus(-1)) {
				return fmt.Sprintf("it breaks the invariant: size becomes %v but last-first+1 = %v", s2, l2.sub(f2).plus(1))
			}
			return ""
		}},
		{"value ranks equal to the probe", eq(rank, k(equal)), func(p symPath) string {
			if p.Kind != "return" || len(p.Rets) != 2 || p.Rets[0].Lin == nil || p.Rets[1].B == nil {
				return "the arm must return (probe position, true)"
			}
			if !p.Rets[0].Lin.equal(middle) {
				return fmt.Sprintf("it returns position %v, required the probed position first+size/2", p.Rets[0].Lin)
			}
			if s, _ := satF(nil, fNotOf(p.Rets[1].B)); s {
				return "it does not return found = true"
			}
			return ""
		}},
	} {
		matched := false
		for _, p := range paths {
			all := append(append(Cube{}, env.base...), p.Cube...)
			if sat, _ := satF(all, arm.when); !sat {
				continue
			}
			matched = true
			if msg := arm.check(p); msg != "" {
				viol = append(viol, "when the "+arm.name+": "+msg)
				continue
			}
			if p.Kind == "fall" {
				s2 := get(p, sizeKey, size)
				if h, d := holdsOn(env, p.Cube, and(ge(s2, k(0)), lt(s2, size))); !h || !d {
					viol = append(viol, fmt.Sprintf("when the %s: the new size %v is not within 0 <= size' < size (termination / non-negative interval)", arm.name, s2))
				}
				f2 := get(p, firstKey, first)
				if h, d := holdsOn(env, p.Cube, ge(f2, k(1))); !h || !d {
					viol = append(viol, "first can drop below 1")
				}
			}
		}
		if !matched {
			viol = append(viol, "no arm handles the case that the "+arm.name)
		}
	}
	// the probe lies inside [first, last]: 0 <= half <= size-1 (base) gives first <= middle <= last
	// a path on which none of the three ranks matched must not exist as a silent fall-through that keeps the interval
	for _, p := range paths {
		all := append(append(Cube{}, env.base...), p.Cube...)
		if sat, _ := satF(all, and(ne(rank, k(lesser)), ne(rank, k(equal)), ne(rank, k(greater)))); sat && p.Kind == "fall" {
			s2 := get(p, sizeKey, size)
			if s2 != nil && s2.equal(size) {
				// unreachable for a well-behaved collator; tolerated
			}
		}
	}
	// ---- after the loop: return (first-1, false) under size = 0
	env2 := &symEnv{info: info}
	env2.init = map[string]Val{firstKey: {Lin: first}, sizeKey: {Lin: size}, lastKey: {Lin: first.add(size).plus(-1)}}
	env2.base = Cube{size, size.scale(-1), first.scale(-1).plus(1)} // size = 0
	for _, p := range symRun(env2, &ast.BlockStmt{List: fd.Body.List[loopIdx+1:]}) {
		if p.Kind != "return" || len(p.Rets) != 2 || p.Rets[0].Lin == nil || p.Rets[1].B == nil {
			viol = append(viol, "after the loop the helper must return (slot, false)")
			continue
		}
		if s, _ := satF(env2.base, ne(p.Rets[0].Lin, first.plus(-1))); s {
			viol = append(viol, fmt.Sprintf("on exhaustion it returns slot %v, required first-1 = last: the number of elements ranking before the value (AddValue inserts after that many)", p.Rets[0].Lin))
		}
		if s, _ := satF(nil, p.Rets[1].B); s {
			viol = append(viol, "on exhaustion it does not return found = false")
		}
	}
	if len(env2.problems) > 0 {
		und("cannot interpret the code after the loop: " + strings.Join(env2.problems, "; "))
		return
	}
	r.count("SYM paths", len(paths))
	if len(viol) > 0 {
		fail(strings.Join(dedup(viol), " | "))
		return
	}
	r.ok(rule, construct, c.pos(fd.Pos()), fmt.Sprintf("%d step paths: invariant size=last-first+1 preserved, probe inside the interval, halves kept on the correct side for all three ranks, strict decrease, (first-1,false) on exhaustion", len(paths)))
}

func constInt(cst *types.Const) (int64, bool) {
	s := cst.Val().ExactString()
	var v int64
	_, err := fmt.Sscan(s, &v)
	return v, err == nil
}
