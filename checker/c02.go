package main

// C02 — Set stays strictly ordered, duplicate-free and equal to the mathematical set.

import (
	"fmt"
	"go/ast"
	"go/token"
	"go/types"
	"sort"
	"strings"
)

func init() {
	register(&propInfo{
		ID:      "C02",
		Engines: "SYM (octagon abstract interpretation of the binary-search step under an inductive invariant), PATH (edge conditions), call-site tables",
		Decided: "D1 the storage is mutated only by AddValue->InsertValue, RemoveValue->RemoveValue, RemoveAll->RemoveAll; AddValue inserts its parameter, at the slot returned by the search for that parameter, only on the not-found edge of that same search; RemoveValue removes the index returned by the search only on its found edge; " +
			"D2 every membership/position query goes through the set's own search helper and own collator: no method uses the list's linear search or builds another collator; " +
			"D3 the search helper is a correct binary search step: with the inductive invariant size = last-first+1, 1<=first, it probes a position inside [first,last], the arm taken when the value ranks before the probe keeps [first, middle-1], the arm taken when it ranks after keeps [middle+1, last], the equal arm returns (probe position, true), all three ranks are handled, the interval shrinks strictly (termination), and on exhaustion it returns (first-1, false) = the number of elements ranking before the value; " +
			"D4 all loops of the set type and class are in terminating forms (the search loop by D3's strict decrease)." +
			" Also: ContainsAny/ContainsAll of an empty operand are false/true." +
			" Round 7: no dynamic == on element values; RemoveAll clears on every path not selected by an emptiness test; with a mutex field, no locking method of the receiver - or of an operand that may be the receiver - is called inside a lock region." +
			" Rounds 8-9: readers assign no field; membership is not decided by comparing sizes.",
		NotDecided: "that the stored list is sorted to begin with is the induction hypothesis of D3, maintained by D1+D3 only together with the list's element placement (C01 not-decided part) and a collator that is a total preorder (C07).",
		Run:        runC02,
	})
}

var searchableNames = map[string]bool{"ContainsValue": true, "ContainsAny": true, "ContainsAll": true, "GetIndex": true}

func runC02(c *Ctx, r *Rec) {
	set := c.mustImpl(r, "bind", "collection", "SetLike")
	cls := c.mustImpl(r, "bind", "collection", "SetClassLike")
	if set == nil || cls == nil {
		return
	}
	info := c.info("collection")
	storage := c.fieldOfIface(set, "collection", "ListLike")
	collF := c.fieldOfIface(set, "agent", "CollatorLike")
	if storage == nil || collF == nil {
		r.skip("bind", "collection."+set.Obj().Name(), "", "cannot bind the storage (ListLike) and collator (CollatorLike) fields")
		return
	}
	ms := c.methodsOf(set)
	checkEmptyOperand(c, r, "D1-empty-operand", c.info("collection"), ms)
	checkResetCompleteness(c, r, "D1-reset-complete", set)
	checkReadersWriteNothing(c, r, "D1-readers-write-nothing", set)
	checkContainsNotDecidedBySizes(c, r, "D1-membership-not-by-sizes", set)
	checkTypeLockPairing(c, r, "D1-lock-released", set)
	checkNoDynamicEquality(c, r, "D1-no-dynamic-equality", fileFuncs(c, "collection", set))
	checkUnsignedSizeMinus(c, r, "D1-unsigned-size-minus", fileFuncs(c, "collection", set))
	// the order of the members is what the collator says: the shape rules read the collator too
	{
		fds := append(fileFuncs(c, "collection", set, cls), moduleFuncsReturning(c, "SetLike")...)
		if coll, err := c.impl("agent", "CollatorLike"); err == nil && coll != nil {
			fds = append(fds, fileFuncs(c, "agent", coll)...)
		}
		shapeLints(c, r, fds)
	}
	// the search helper: the private method returning (int, bool)
	var search *ast.FuncDecl
	for _, name := range sortedKeys(ms) {
		fd := ms[name]
		if ast.IsExported(name) {
			continue
		}
		sig := c.funcOf(fd).Type().(*types.Signature)
		if sig.Results().Len() == 2 && isIntegerType(sig.Results().At(0).Type()) && isBoolType(sig.Results().At(1).Type()) && sig.Params().Len() == 1 {
			search = fd
		}
	}
	if search == nil {
		r.skip("bind", "collection."+set.Obj().Name()+"/search-helper", "", "no private method (value) -> (int, bool) of the set found: the rules about the searched position, the one order and the search step are bound to that design and are not evaluated")
		return
	}
	searchFn := c.funcOf(search)

	checkReceiverWrites(c, r, "D1-receiver-writes-persist", set)
	// ---- D1 every mutation of the storage happens at the searched position (site-local rule)
	var allFds []*ast.FuncDecl
	for _, name := range sortedKeys(ms) {
		allFds = append(allFds, ms[name])
	}
	inSet := map[*ast.FuncDecl]bool{}
	for _, fd := range allFds {
		inSet[fd] = true
	}
	// functions outside the set type that reach into its storage (class functions, helpers)
	for _, fd := range c.allFuncDecls("collection") {
		if !inSet[fd] && fd.Body != nil {
			allFds = append(allFds, fd)
		}
	}
	insertHosts, removeHosts, nsites := checkStorageSites(c, r, "D1-searched-position", info, allFds, storage, searchFn)
	for _, w := range c.fieldWrites()[storage.Origin()] {
		r.fail("D1-searched-position", c.fdName(w.In)+"/storage-write", c.pos(w.Pos), "the storage field is "+w.How+" outside the constructor")
	}
	r.count("storage mutation sites", nsites)
	r.floor("D1-searched-position", 3)

	// ---- D2 one order
	cg := c.sameTypeCallGraph(set)
	reachSearch := reachers(cg, func(n string) bool { return ms[n] == search })
	for _, name := range sortedKeys(ms) {
		fd := ms[name]
		bad := ""
		ast.Inspect(fd.Body, func(x ast.Node) bool {
			if rx, mname, _, ok := methodCall(x); ok && selectorField(info, rx) == storage && searchableNames[mname] {
				bad = fmt.Sprintf("%s asks the list's own %s, which compares with a default collator and linear equality: under a custom (reversed or coarse) collator the answer disagrees with the set's order", name, mname)
			}
			if call, ok := x.(*ast.CallExpr); ok {
				if cf := calleeOf(info, call); cf != nil && cf.Name() == "Collator" && c.roleOf(cf.Pkg()) == "agent" {
					bad = name + " builds another collator instead of using the set's own"
				}
			}
			return true
		})
		if searchableNames[name] {
			if !reachSearch[name] && bad == "" {
				bad = name + " does not go through the set's search helper (directly or through other methods of the set)"
			}
			r.check(bad == "", "D2-one-order", c.fdName(fd), c.pos(fd.Pos()), "answered by the set's own binary search under its own collator", bad)
		} else if bad != "" {
			r.fail("D2-one-order", c.fdName(fd), c.pos(fd.Pos()), bad)
		}
	}
	r.floor("D2-one-order", 4)

	// ---- D5 bulk operations are folds of the single-value operations
	adders := reachers(cg, func(n string) bool { return insertHosts[n] })
	removers := reachers(cg, func(n string) bool { return removeHosts[n] })
	bulkAdders := map[string]bool{"AddValues": true}
	for _, b := range []struct {
		name   string
		accept map[string]bool
		deleg  map[string]bool
	}{{"AddValues", adders, nil}, {"RemoveValues", removers, nil}} {
		if fd := ms[b.name]; fd != nil {
			acc := map[string]bool{}
			for n := range b.accept {
				if n != b.name {
					acc[n] = true
				}
			}
			bad := bulkFoldSet(c, info, fd, acc, b.deleg)
			r.verdict("D5-bulk-fold", c.fdName(fd), c.pos(fd.Pos()), "applies the single-value operation to every element of the operand", bad)
		}
	}
	if fd := c.methodsOf(cls)["MakeFromSequence"]; fd != nil {
		acc := map[string]bool{}
		for n := range adders {
			if ast.IsExported(n) && n != "AddValues" {
				acc[n] = true
			}
		}
		bad := bulkFoldSet(c, info, fd, acc, bulkAdders)
		r.verdict("D5-bulk-fold", c.fdName(fd), c.pos(fd.Pos()), "adds every element of the source", bad)
	}
	r.floor("D5-bulk-fold", 3)

	// ---- D3 binary search
	checkBinarySearch(c, r, info, set, search, storage, collF)

	// ---- D4 loops
	exempt := map[string]string{}
	if r.hasOK("D3-binary-search-step") {
		exempt[c.fdName(search)+"/loop#1"] = "terminates by D3: the interval size decreases strictly on every non-returning arm"
	}
	for _, n := range []*types.Named{set, cls} {
		m := c.methodsOf(n)
		for _, name := range sortedKeys(m) {
			checkLoops(c, r, "D4-loop-progress", m[name], exempt)
		}
	}
	r.floorSoft("D4-loop-progress", "loops", "no loop is left in the methods this rule looks at")
}

func (r *Rec) hasOK(rule string) bool {
	okN, other := 0, 0
	for _, o := range r.Obls {
		if o.Rule == rule {
			if o.Status == stOK {
				okN++
			} else {
				other++
			}
		}
	}
	return okN > 0 && other == 0
}

func checkBinarySearch(c *Ctx, r *Rec, info *types.Info, set *types.Named, fd *ast.FuncDecl, storage, collF *types.Var) {
	construct := c.fdName(fd)
	rule := "D3-binary-search-step"
	fail := func(msg string) { r.fail(rule, construct, c.pos(fd.Pos()), msg) }
	skip := func(msg string) {
		r.skip(rule, construct, c.pos(fd.Pos()), "the search helper is written in a form this rule does not understand ("+msg+"); its arithmetic is not checked")
	}
	params := paramObjs(info, fd)
	recv := recvObj(info, fd)
	var loop *ast.ForStmt
	var loopIdx int
	for i, s := range fd.Body.List {
		if fs, ok := s.(*ast.ForStmt); ok {
			loop, loopIdx = fs, i
			break
		}
	}
	if loop == nil || loop.Cond == nil || loop.Init != nil || loop.Post != nil || len(params) != 1 {
		skip("not `declarations; for <condition> { ... }; return`")
		return
	}
	// ---- initial values of the loop-carried integer variables
	env0 := &symEnv{info: info, resolve: sizeResolver(info, recv, "n")}
	p0 := symRun(env0, &ast.BlockStmt{List: fd.Body.List[:loopIdx]})
	if len(env0.problems) > 0 || len(p0) != 1 {
		skip("cannot interpret the initialisation")
		return
	}
	envK := &symEnv{info: info}
	var carried []string
	for key, v := range p0[0].State {
		if v.Lin != nil && assignedIn(info, loop.Body, key, envK) {
			carried = append(carried, key)
		}
	}
	sort.Strings(carried)
	name := func(key string) string { return strings.SplitN(key, "@", 2)[0] }
	var lKey, uKey, sKey string
	var ones, ns []string
	for _, key := range carried {
		switch {
		case p0[0].State[key].Lin.equal(k(1)):
			ones = append(ones, key)
		case p0[0].State[key].Lin.equal(sym("n")):
			ns = append(ns, key)
		}
	}
	// the variable (if any) that the loop condition compares with a constant is the size
	condVars := map[string]bool{}
	ast.Inspect(loop.Cond, func(x ast.Node) bool {
		if id, ok := x.(*ast.Ident); ok {
			condVars[objKey(info.Uses[id])] = true
		}
		return true
	})
	switch {
	case len(carried) == 3 && len(ones) == 1 && len(ns) == 2:
		lKey = ones[0]
		for _, key := range ns {
			if condVars[key] && len(condVars) >= 1 && !condVars[lKey] {
				sKey = key
			}
		}
		for _, key := range ns {
			if key != sKey {
				uKey = key
			}
		}
		if sKey == "" {
			skip("three interval variables but the loop does not test the size")
			return
		}
	case len(carried) == 2 && len(ones) == 1 && len(ns) == 1:
		lKey, uKey = ones[0], ns[0]
	default:
		zeros := 0
		for _, key := range carried {
			if p0[0].State[key].Lin.equal(k(0)) {
				zeros++
			}
		}
		if len(ones) == 0 && zeros >= 1 && len(ns) >= 1 {
			skip("a zero-based (half-open) interval: another formulation of the search")
		} else if len(ones) != 1 || len(ns) == 0 {
			fail("the search does not start from the whole list: the interval variables must start at 1 and at the size of the set")
		} else {
			skip(fmt.Sprintf("%d loop-carried interval variables", len(carried)))
		}
		return
	}
	L, U := sym("L"), sym("U")
	var S *Lin
	init := map[string]Val{lKey: {Lin: L}}
	base := Cube{L.scale(-1).plus(1)} // L >= 1
	if sKey != "" {
		S = sym("S")
		init[sKey] = Val{Lin: S}
		init[uKey] = Val{Lin: L.add(S).plus(-1)} // invariant S = U-L+1, holds initially (1, n, n)
		U = L.add(S).plus(-1)
	} else {
		init[uKey] = Val{Lin: U}
	}
	width := U.sub(L).plus(1) // number of candidates
	// ---- the loop condition must be `at least one candidate`
	envC := &symEnv{info: info, init: init}
	stC := &symState{vars: map[string]Val{}}
	for k2, v := range init {
		stC.vars[k2] = v
	}
	cond := envC.eval(stC, loop.Cond)
	if cond.B == nil {
		skip("loop condition is not an integer comparison")
		return
	}
	nonEmpty := ge(width, k(1))
	if s1, _ := satF(base, and(cond.B, not(nonEmpty))); s1 {
		fail(fmt.Sprintf("the loop continues with an empty candidate interval (condition %s): the probe falls outside the interval", exprStr(loop.Cond)))
		return
	}
	if s2, _ := satF(append(append(Cube{}, base...), width.scale(-1)), and(not(cond.B), nonEmpty)); s2 { // width >= 0 && non-empty but loop stops
		fail(fmt.Sprintf("the loop stops (condition %s) while candidates remain: members are not found", exprStr(loop.Cond)))
		return
	}
	// ---- one iteration
	env := &symEnv{info: info, init: init}
	env.base = append(append(Cube{}, base...), width.scale(-1).plus(1)) // width >= 1 inside the loop
	type probe struct {
		idx  *Lin
		cube Cube
		pos  token.Pos
	}
	var probes []probe
	var rankCall *ast.CallExpr
	nhalf := 0
	env.resolve = func(e ast.Expr) (Val, bool) {
		switch x := e.(type) {
		case *ast.BinaryExpr:
			if x.Op == token.QUO || x.Op == token.SHR {
				// N/2, and N>>1 (the same for the non-negative N the shift is applied to)
				if tv := info.Types[x.Y]; tv.Value != nil && ((x.Op == token.QUO && tv.Value.String() == "2") || (x.Op == token.SHR && tv.Value.String() == "1")) {
					num := env.eval(env.cur, x.X)
					if num.Lin == nil {
						return Val{}, false
					}
					nhalf++
					h := linSym(fmt.Sprintf("half%d", nhalf))
					// h = floor(N/2):  2h <= N <= 2h+1 ; h >= 0 and h <= N-1 when N >= 1
					env.base = append(env.base, h.scale(2).sub(num.Lin), num.Lin.sub(h.scale(2)).plus(-1))
					full := append(append(Cube{}, env.base...), env.cur.cube...)
					if entailsCube(full, ge(num.Lin, k(1))) {
						env.base = append(env.base, h.scale(-1), h.sub(num.Lin).plus(1))
					} else if entailsCube(full, ge(num.Lin, k(0))) {
						env.base = append(env.base, h.scale(-1), h.sub(num.Lin))
					}
					return Val{Lin: h}, true
				}
			}
		case *ast.CallExpr:
			// a method value kept in a local:  rank := v.collator_.RankValues ... rank(value, candidate)
			if id, ok := ast.Unparen(x.Fun).(*ast.Ident); ok && len(x.Args) == 2 {
				if init := initOf(info, fd, id); init != nil {
					if se, ok := ast.Unparen(init).(*ast.SelectorExpr); ok && se.Sel.Name == "RankValues" {
						rankCall = x
						for _, a := range x.Args {
							env.eval(env.cur, a)
						}
						return Val{Lin: linSym("rank")}, true
					}
				}
			}
			if rx, mname, call, ok := methodCall(x); ok {
				if mname == "GetValue" && len(call.Args) == 1 && recvRooted(info, rx, recv) {
					idx := env.eval(env.cur, call.Args[0])
					probes = append(probes, probe{idx.Lin, append(Cube{}, env.cur.cube...), call.Pos()})
					return Val{Opaque: "candidate"}, true
				}
				if mname == "RankValues" && len(call.Args) == 2 {
					rankCall = call
					for _, a := range call.Args {
						env.eval(env.cur, a) // records a probe written inline
					}
					return Val{Lin: linSym("rank")}, true
				}
			}
		}
		return Val{}, false
	}
	env.loopBody = true
	paths := symRun(env, loop.Body)
	if len(env.problems) > 0 {
		skip("the loop body uses statements outside the interpreter's vocabulary: " + strings.Join(dedup(env.problems), "; "))
		return
	}
	if rankCall == nil {
		fail("the search step does not rank the sought value against the probed candidate")
		return
	}
	rankRecv := func() ast.Expr {
		if rx, _, _, ok := methodCall(rankCall); ok {
			return rx
		}
		// a method value kept in a local
		if id, ok := ast.Unparen(rankCall.Fun).(*ast.Ident); ok {
			if init := initOf(info, fd, id); init != nil {
				if se, ok := ast.Unparen(init).(*ast.SelectorExpr); ok {
					return se.X
				}
			}
		}
		return nil
	}()
	// a local copy of the field (var collator = v.collator_) is the field
	if id, ok := ast.Unparen(rankRecv).(*ast.Ident); ok && rankRecv != nil {
		if init := initOf(info, fd, id); init != nil {
			rankRecv = init
		}
	}
	if rankRecv == nil || selectorField(info, rankRecv) != collF {
		fail("the ranking is not done by the set's own collator field")
		return
	}
	valueFirst := isObj(info, rankCall.Args[0], params[0])
	candFirst := isObj(info, rankCall.Args[1], params[0])
	if valueFirst == candFirst {
		fail("the ranking call does not compare the sought value with the probed candidate")
		return
	}
	rankConst := func(nm string) int64 {
		if o := c.Pkgs["agent"].Types.Scope().Lookup(nm); o != nil {
			if cst, ok := o.(*types.Const); ok {
				if v, ok := constInt(cst); ok {
					return v
				}
			}
		}
		return -1
	}
	lesser, equal, greater := rankConst("LesserRank"), rankConst("EqualRank"), rankConst("GreaterRank")
	if !valueFirst {
		lesser, greater = greater, lesser
	}
	rank := sym("rank")
	lo, hi := lesser, greater
	if lo > hi {
		lo, hi = hi, lo
	}
	env.base = append(env.base, rank.scale(-1).plus(lo), rank.plus(-hi)) // the rank is one of the three constants
	var viol []string
	if len(probes) == 0 {
		viol = append(viol, "no element is probed")
	}
	var m *Lin
	for _, pr := range probes {
		if pr.idx == nil {
			viol = append(viol, "the probed position is not a linear form")
			continue
		}
		m = pr.idx
		full := append(append(Cube{}, env.base...), pr.cube...)
		if !entailsCube(full, and(ge(pr.idx, L), le(pr.idx, U))) {
			viol = append(viol, fmt.Sprintf("the probed position %v can lie outside the candidate interval [first, last] (%s): an element outside the interval is compared, or an index outside the list is read", pr.idx, c.pos(pr.pos)))
		}
	}
	if m == nil {
		if len(viol) == 0 {
			viol = append(viol, "no probe")
		}
		fail(strings.Join(dedup(viol), " | "))
		return
	}
	get := func(p symPath, key string, dflt *Lin) *Lin {
		if key == "" {
			return nil
		}
		if v, ok := p.State[key]; ok {
			return v.Lin
		}
		return dflt
	}
	eqUnder := func(full Cube, a, b *Lin) bool {
		if a == nil || b == nil {
			return false
		}
		s, d := satF(full, ne(a, b))
		return !s && d
	}
	for _, arm := range []struct {
		name string
		when *F
		kind string // "continue" or "found"
		wL   *Lin
		wU   *Lin
	}{
		{"value ranks before the probe", eq(rank, k(lesser)), "continue", L, m.plus(-1)},
		{"value ranks after the probe", eq(rank, k(greater)), "continue", m.plus(1), U},
		{"value ranks equal to the probe", eq(rank, k(equal)), "found", nil, nil},
	} {
		matched := false
		assertions := 0
		for _, p := range paths {
			full := append(append(Cube{}, env.base...), p.Cube...)
			if sat, _ := satF(full, arm.when); !sat {
				continue
			}
			for _, cb := range dnf(arm.when) {
				full = append(full, cb...)
			}
			if s, _ := feasible(full); !s {
				continue
			}
			if p.Kind == "panic" {
				// an assertion inside the step: whether it can fire is a question about invariants
				// this rule does not carry (last <= size, ...); it is not the step
				assertions++
				continue
			}
			matched = true
			if arm.kind == "found" {
				if p.Kind != "return" || len(p.Rets) != 2 || p.Rets[0].Lin == nil || p.Rets[1].B == nil {
					viol = append(viol, "when the "+arm.name+": the step must return (probe position, true)")
					continue
				}
				if !eqUnder(full, p.Rets[0].Lin, m) {
					viol = append(viol, fmt.Sprintf("when the %s: it returns position %v, required the probed position", arm.name, p.Rets[0].Lin))
				}
				if s, _ := satF(full, fNotOf(p.Rets[1].B)); s {
					viol = append(viol, "when the "+arm.name+": it does not return found = true")
				}
				continue
			}
			if p.Kind != "fall" {
				viol = append(viol, "when the "+arm.name+": the search must continue, but the step "+p.Kind+"s")
				continue
			}
			l2, u2 := get(p, lKey, L), get(p, uKey, U)
			if sKey != "" {
				s2 := get(p, sKey, S)
				if s2 == nil || u2 == nil || l2 == nil || !eqUnder(full, s2, u2.sub(l2).plus(1)) {
					viol = append(viol, fmt.Sprintf("when the %s: the size becomes %v but last-first+1 = %v: the invariant size = last-first+1 is broken", arm.name, s2, u2.sub(l2).plus(1)))
					continue
				}
			}
			if !eqUnder(full, l2, arm.wL) || !eqUnder(full, u2, arm.wU) {
				viol = append(viol, fmt.Sprintf("when the %s: the step keeps [%v, %v], required [%v, %v] (%s)", arm.name, l2, u2, arm.wL, arm.wU,
					map[string]string{"value ranks before the probe": "the probe and everything after it rank after the value", "value ranks after the probe": "the probe and everything before it rank before the value"}[arm.name]))
			}
		}
		if !matched && assertions > 0 {
			viol = append(viol, "when the "+arm.name+": every path of the step panics")
		} else if !matched {
			viol = append(viol, "no path handles the case that the "+arm.name)
		}
	}
	// ---- exhaustion: under `no candidates left` (U = L-1) the helper returns (L-1, false)
	env2 := &symEnv{info: info, init: init}
	env2.base = append(append(Cube{}, base...), width, width.scale(-1)) // width == 0
	for _, p := range symRun(env2, &ast.BlockStmt{List: fd.Body.List[loopIdx+1:]}) {
		if p.Kind != "return" || len(p.Rets) != 2 || p.Rets[0].Lin == nil || p.Rets[1].B == nil {
			viol = append(viol, "after the loop the helper must return (slot, false)")
			continue
		}
		full := append(append(Cube{}, env2.base...), p.Cube...)
		if !eqUnder(full, p.Rets[0].Lin, L.plus(-1)) {
			viol = append(viol, fmt.Sprintf("on exhaustion it returns slot %v, required first-1 (= last): the number of members ranking before the value (AddValue inserts after that many)", p.Rets[0].Lin))
		}
		if s, _ := satF(full, p.Rets[1].B); s {
			viol = append(viol, "on exhaustion it does not return found = false")
		}
	}
	if len(env2.problems) > 0 {
		skip("cannot interpret the code after the loop")
		return
	}
	r.count("SYM paths", len(paths))
	if len(viol) > 0 {
		fail(strings.Join(dedup(viol), " | "))
		return
	}
	rep := "first/last"
	if sKey != "" {
		rep = "first/last/size with the invariant size = last-first+1"
	}
	r.ok(rule, construct, c.pos(fd.Pos()), fmt.Sprintf("%d step paths over the interval representation %s (%s..%s): probe inside the interval, the correct half kept for each rank, (probe, true) on Equal, strict shrink, (first-1, false) on exhaustion", len(paths), rep, name(lKey), name(uKey)))
}

func constInt(cst *types.Const) (int64, bool) {
	s := cst.Val().ExactString()
	var v int64
	_, err := fmt.Sscan(s, &v)
	return v, err == nil
}

// searchedSite checks one InsertValue/RemoveValue call on the set's storage: the position is the
// one returned by a search (in the same function) for the very value concerned, the call is
// reachable only on the matching found/not-found outcome of that search, and (for inserts) the
// value inserted is the value searched for.  Returns "" or a complaint.
func searchedSite(c *Ctx, info *types.Info, fd *ast.FuncDecl, site *ast.CallExpr, searchFn *types.Func, wantFound bool) string {
	type srch struct {
		node     ast.Node
		call     *ast.CallExpr
		pos, fnd types.Object
	}
	var searches []srch
	ast.Inspect(fd.Body, func(x ast.Node) bool {
		if lhs, rhs, ok := multiDef(x); ok && len(lhs) == 2 {
			if call, ok := ast.Unparen(rhs).(*ast.CallExpr); ok {
				if cf := calleeOf(info, call); cf != nil && cf.Origin() == searchFn.Origin() {
					searches = append(searches, srch{x, call, identObj(info, lhs[0]), identObj(info, lhs[1])})
				}
			}
		}
		return true
	})
	g := newFG(info, fd.Body)
	var s *srch
	for i := range searches {
		if g.nodeDominates(searches[i].call, site) {
			s = &searches[i]
		}
	}
	what := map[bool]string{false: "inserted", true: "removed"}[wantFound]
	if s == nil {
		return "the position " + what + " does not come from a search in this function: the set's order is not consulted"
	}
	if len(s.call.Args) != 1 {
		return "unexpected search call"
	}
	// position operand (modulo a conversion)
	posArg := ast.Unparen(site.Args[0])
	for i := 0; i < 4; i++ {
		if call, ok := posArg.(*ast.CallExpr); ok && len(call.Args) == 1 {
			if tv, ok := info.Types[call.Fun]; ok && tv.IsType() {
				posArg = ast.Unparen(call.Args[0])
				continue
			}
		}
		if id, ok := posArg.(*ast.Ident); ok && s.pos != nil && info.Uses[id] != s.pos {
			if init := initOf(info, fd, id); init != nil {
				posArg = ast.Unparen(init)
				continue
			}
		}
		break
	}
	if s.pos == nil || !isObj(info, posArg, s.pos) {
		return "the position handed to the storage is " + exprStr(site.Args[0]) + ", not the position returned by the search"
	}
	if !wantFound {
		if len(site.Args) != 2 || exprStr(ast.Unparen(site.Args[1])) != exprStr(ast.Unparen(s.call.Args[0])) {
			return "the value inserted is not the value that was searched for"
		}
	}
	// neither result is modified between the search and the site
	for _, o := range []types.Object{s.pos, s.fnd} {
		if o == nil {
			continue
		}
		n := 0
		ast.Inspect(fd.Body, func(x ast.Node) bool {
			switch st := x.(type) {
			case *ast.AssignStmt:
				for _, l := range st.Lhs {
					if identObj(info, l) == o {
						n++
					}
				}
			case *ast.ValueSpec:
				for _, nm := range st.Names {
					if info.Defs[nm] == o {
						n++
					}
				}
			case *ast.IncDecStmt:
				if identObj(info, st.X) == o {
					n++
				}
			}
			return true
		})
		if n != 1 {
			return "the search result " + o.Name() + " is modified before it is used"
		}
	}
	if s.fnd == nil || s.fnd.Name() == "_" {
		return "the found flag of the search is discarded: the storage is " + map[bool]string{false: "given a value that may already be a member (duplicate)", true: "asked to remove whatever sits at the returned slot"}[wantFound]
	}
	// is the site reachable along edges on which found has the WRONG value?
	pt, ok := g.after(s.node)
	if !ok {
		// the definition may be a ValueSpec inside a DeclStmt
		pt, ok = g.after(s.call)
	}
	if !ok {
		return ""
	}
	wrong, _ := g.exists(pathQuery{from: pt,
		goalNode: func(n ast.Node) bool { return containsNode(n, site) },
		edgeOK: func(cond ast.Expr, pol bool) bool {
			cd := ast.Unparen(cond)
			if u, ok := cd.(*ast.UnaryExpr); ok && u.Op == token.NOT {
				cd, pol = ast.Unparen(u.X), !pol
			}
			if id, ok := cd.(*ast.Ident); ok && info.Uses[id] == s.fnd {
				// on this edge found == pol; follow it only if that is the wrong outcome
				return pol != wantFound
			}
			return true
		}})
	if wrong {
		return fmt.Sprintf("the storage is %s also when the search reported found=%v: %s", map[bool]string{false: "extended", true: "shortened"}[wantFound], !wantFound,
			map[bool]string{false: "a value already present is inserted again (duplicate)", true: "an absent value removes whatever sits at the returned slot"}[wantFound])
	}
	return ""
}

// checkStorageSites: every call that mutates the set's ordered storage (in any of fds) is
// RemoveAll, InsertValue at the searched slot or RemoveValue at the searched index.
func checkStorageSites(c *Ctx, r *Rec, rule string, info *types.Info, fds []*ast.FuncDecl, storage *types.Var, searchFn *types.Func) (insertHosts, removeHosts map[string]bool, nsites int) {
	insertHosts, removeHosts = map[string]bool{}, map[string]bool{}
	for _, fd := range fds {
		name := fd.Name.Name
		seq := 0
		inspectNoLit(fd.Body, func(x ast.Node) bool {
			rx, mname, call, ok := methodCall(x)
			if !ok || selectorField(info, rx) != storage || !listMutators[mname] {
				return true
			}
			nsites++
			seq++
			construct := fmt.Sprintf("%s/%s#%d", c.fdName(fd), mname, seq)
			switch mname {
			case "RemoveAll":
				r.ok(rule, construct, c.pos(call.Pos()), "emptying the storage keeps it (trivially) ordered and duplicate-free")
			case "InsertValue", "RemoveValue":
				bad := searchedSite(c, info, fd, call, searchFn, mname == "RemoveValue")
				if bad == "" {
					if mname == "InsertValue" {
						insertHosts[name] = true
					} else {
						removeHosts[name] = true
					}
				}
				r.check(bad == "", rule, construct, c.pos(call.Pos()),
					map[string]string{"InsertValue": "inserts the searched value at the slot returned by the search for it, only when not found", "RemoveValue": "removes the index returned by the search, only when found"}[mname], bad)
			default:
				r.fail(rule, construct, c.pos(call.Pos()), fmt.Sprintf("%s mutates the ordered storage through %s: order and uniqueness are only maintained by InsertValue at the searched slot, RemoveValue at the searched index, and RemoveAll", name, mname))
			}
			return true
		})
	}
	return
}
