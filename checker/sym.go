package main

// SYM engine: abstract interpretation of loop-free integer code over the
// (integer, tightly closed) octagon domain with trace partitioning per branch.
// The result of interpreting a function is a finite table of
// (cube of linear atoms, outcome); a spec is a second such table written in the
// checker; conformance is decided by feasibility of pairwise conjunctions.

import (
	"fmt"
	"go/ast"
	"go/constant"
	"go/token"
	"go/types"
	"sort"
	"strings"
)

// ---------------------------------------------------------------- linear forms

type Lin struct {
	C map[string]int64
	K int64
}

func linConst(k int64) *Lin { return &Lin{C: map[string]int64{}, K: k} }
func linSym(s string) *Lin  { return &Lin{C: map[string]int64{s: 1}} }

func (a *Lin) clone() *Lin {
	b := &Lin{C: map[string]int64{}, K: a.K}
	for k, v := range a.C {
		b.C[k] = v
	}
	return b
}
func (a *Lin) add(b *Lin) *Lin {
	r := a.clone()
	for k, v := range b.C {
		r.C[k] += v
		if r.C[k] == 0 {
			delete(r.C, k)
		}
	}
	r.K += b.K
	return r
}
func (a *Lin) scale(m int64) *Lin {
	r := &Lin{C: map[string]int64{}, K: a.K * m}
	if m != 0 {
		for k, v := range a.C {
			r.C[k] = v * m
		}
	}
	return r
}
func (a *Lin) sub(b *Lin) *Lin   { return a.add(b.scale(-1)) }
func (a *Lin) plus(k int64) *Lin { r := a.clone(); r.K += k; return r }
func (a *Lin) isConst() bool     { return len(a.C) == 0 }
func (a *Lin) equal(b *Lin) bool {
	d := a.sub(b)
	return d.isConst() && d.K == 0
}
func (a *Lin) String() string {
	var ks []string
	for k := range a.C {
		ks = append(ks, k)
	}
	sort.Strings(ks)
	var sb strings.Builder
	for _, k := range ks {
		v := a.C[k]
		switch {
		case v == 1:
			sb.WriteString("+" + k)
		case v == -1:
			sb.WriteString("-" + k)
		default:
			fmt.Fprintf(&sb, "%+d*%s", v, k)
		}
	}
	if a.K != 0 || len(ks) == 0 {
		fmt.Fprintf(&sb, "%+d", a.K)
	}
	return strings.TrimPrefix(sb.String(), "+")
}

// ---------------------------------------------------------------- formulas

type fop int

const (
	fTrue fop = iota
	fFalse
	fAtom // a <= 0
	fAnd
	fOr
	fNot
)

type F struct {
	op fop
	a  *Lin
	xs []*F
}

var (
	FTrue  = &F{op: fTrue}
	FFalse = &F{op: fFalse}
)

func fLe0(a *Lin) *F { return &F{op: fAtom, a: a} }
func fAndOf(xs ...*F) *F {
	return &F{op: fAnd, xs: xs}
}
func fOrOf(xs ...*F) *F { return &F{op: fOr, xs: xs} }
func fNotOf(x *F) *F    { return &F{op: fNot, xs: []*F{x}} }

// comparison a ⋈ b
func fCmp(op token.Token, a, b *Lin) *F {
	d := a.sub(b) // a - b
	switch op {
	case token.LSS: // a-b <= -1
		return fLe0(d.plus(1))
	case token.LEQ:
		return fLe0(d)
	case token.GTR: // b-a <= -1
		return fLe0(d.scale(-1).plus(1))
	case token.GEQ:
		return fLe0(d.scale(-1))
	case token.EQL:
		return fAndOf(fLe0(d), fLe0(d.scale(-1)))
	case token.NEQ:
		return fOrOf(fLe0(d.plus(1)), fLe0(d.scale(-1).plus(1)))
	}
	return nil
}

func (f *F) String() string {
	switch f.op {
	case fTrue:
		return "true"
	case fFalse:
		return "false"
	case fAtom:
		return f.a.String() + "<=0"
	case fNot:
		return "!(" + f.xs[0].String() + ")"
	}
	sep := " && "
	if f.op == fOr {
		sep = " || "
	}
	var ps []string
	for _, x := range f.xs {
		ps = append(ps, x.String())
	}
	return "(" + strings.Join(ps, sep) + ")"
}

// nnf pushes negations to the atoms.
func nnf(f *F, neg bool) *F {
	switch f.op {
	case fTrue:
		if neg {
			return FFalse
		}
		return FTrue
	case fFalse:
		if neg {
			return FTrue
		}
		return FFalse
	case fAtom:
		if neg { // !(a<=0)  ==  a>=1  == -a+1<=0
			return fLe0(f.a.scale(-1).plus(1))
		}
		return f
	case fNot:
		return nnf(f.xs[0], !neg)
	case fAnd, fOr:
		op := f.op
		if neg {
			if op == fAnd {
				op = fOr
			} else {
				op = fAnd
			}
		}
		r := &F{op: op}
		for _, x := range f.xs {
			r.xs = append(r.xs, nnf(x, neg))
		}
		return r
	}
	return f
}

type Cube []*Lin // conjunction of (lin <= 0)

func (c Cube) String() string {
	var ps []string
	for _, a := range c {
		ps = append(ps, a.String()+"<=0")
	}
	if len(ps) == 0 {
		return "true"
	}
	return strings.Join(ps, " && ")
}

// dnf expands a formula into cubes.
func dnf(f *F) []Cube {
	f = nnf(f, false)
	var rec func(f *F) []Cube
	rec = func(f *F) []Cube {
		switch f.op {
		case fTrue:
			return []Cube{{}}
		case fFalse:
			return nil
		case fAtom:
			return []Cube{{f.a}}
		case fOr:
			var out []Cube
			for _, x := range f.xs {
				out = append(out, rec(x)...)
			}
			return out
		case fAnd:
			out := []Cube{{}}
			for _, x := range f.xs {
				xs := rec(x)
				var nxt []Cube
				for _, a := range out {
					for _, b := range xs {
						c := append(append(Cube{}, a...), b...)
						nxt = append(nxt, c)
					}
				}
				out = nxt
			}
			return out
		}
		return nil
	}
	return rec(f)
}

// ---------------------------------------------------------------- octagon feasibility

const inf = int64(1) << 50

// feasible decides satisfiability over the integers of a conjunction of atoms.
// Returns (sat, decided).  decided=false when an atom is outside the UTVPI
// fragment (then nothing may be concluded).
func feasible(cube Cube) (bool, bool) {
	for _, a := range cube {
		if !isUTVPI(a) {
			return feasibleFM(cube), true
		}
	}
	syms := map[string]int{}
	for _, a := range cube {
		for s := range a.C {
			if _, ok := syms[s]; !ok {
				syms[s] = len(syms)
			}
		}
	}
	n := 2 * len(syms)
	m := make([][]int64, n)
	for i := range m {
		m[i] = make([]int64, n)
		for j := range m[i] {
			if i != j {
				m[i][j] = inf
			}
		}
	}
	set := func(i, j int, c int64) {
		if c < m[i][j] {
			m[i][j] = c
		}
	}
	floorDiv := func(a, b int64) int64 { // b>0
		q := a / b
		if a%b != 0 && a < 0 {
			q--
		}
		return q
	}
	for _, a := range cube {
		switch len(a.C) {
		case 0:
			if a.K > 0 {
				return false, true
			}
		case 1:
			for s, k := range a.C {
				i := syms[s]
				// k*x + K <= 0
				if k > 0 { // x <= floor(-K/k)
					ub := floorDiv(-a.K, k)
					set(2*i+1, 2*i, 2*ub)
				} else { // -x <= floor(-K/-k)  i.e. x >= ceil(K/-k) ; -x <= floor(-K/|k|)
					ub := floorDiv(-a.K, -k)
					set(2*i, 2*i+1, 2*ub)
				}
			}
		case 2:
			var ss []string
			for s := range a.C {
				ss = append(ss, s)
			}
			sort.Strings(ss)
			ka, kb := a.C[ss[0]], a.C[ss[1]]
			if (ka != 1 && ka != -1) || (kb != 1 && kb != -1) {
				return false, false
			}
			ia, ib := syms[ss[0]], syms[ss[1]]
			c := -a.K // ka*xa + kb*xb <= c
			// node index: positive literal of x_i is 2i, negative is 2i+1.
			// constraint  V_j - V_i <= c  is m[i][j].
			// ka*xa + kb*xb <= c  ==  (ka*xa) - (-(kb*xb)) <= c
			pa := 2 * ia
			if ka < 0 {
				pa++
			}
			nb := 2*ib + 1 // literal for -(kb*xb)
			if kb < 0 {
				nb = 2 * ib
			}
			set(nb, pa, c)
			// coherent twin: (kb*xb) - (-(ka*xa)) <= c
			pb := 2 * ib
			if kb < 0 {
				pb++
			}
			na := 2*ia + 1
			if ka < 0 {
				na = 2 * ia
			}
			set(na, pb, c)
		default:
			return false, false
		}
	}
	bar := func(i int) int { return i ^ 1 }
	for iter := 0; iter < 4; iter++ {
		for k := 0; k < n; k++ {
			for i := 0; i < n; i++ {
				if m[i][k] >= inf {
					continue
				}
				for j := 0; j < n; j++ {
					if m[k][j] >= inf {
						continue
					}
					if v := m[i][k] + m[k][j]; v < m[i][j] {
						m[i][j] = v
					}
				}
			}
		}
		for i := 0; i < n; i++ {
			if m[i][bar(i)] < inf {
				m[i][bar(i)] = 2 * floorDiv(m[i][bar(i)], 2)
			}
		}
		for i := 0; i < n; i++ {
			for j := 0; j < n; j++ {
				if m[i][bar(i)] < inf && m[bar(j)][j] < inf {
					if v := (m[i][bar(i)] + m[bar(j)][j]) / 2; v < m[i][j] {
						m[i][j] = v
					}
				}
			}
		}
		for i := 0; i < n; i++ {
			if m[i][i] < 0 {
				return false, true
			}
			if m[i][bar(i)] < inf && m[bar(i)][i] < inf && m[i][bar(i)]+m[bar(i)][i] < 0 {
				return false, true
			}
		}
	}
	return true, true
}

// satF: is formula f satisfiable (conjoined with base cube)?  (sat, decided)
func satF(base Cube, f *F) (bool, bool) {
	decided := true
	for _, cb := range dnf(f) {
		all := append(append(Cube{}, base...), cb...)
		s, d := feasible(all)
		if !d {
			decided = false
			continue
		}
		if s {
			return true, true
		}
	}
	return false, decided
}

// ---------------------------------------------------------------- symbolic values

type Val struct {
	Lin    *Lin   // integer-valued linear form
	B      *F     // boolean-valued formula
	Opaque string // anything else (canonical text)
	Tuple  []Val  // results of an inlined multi-value call
}

func (v Val) String() string {
	switch {
	case v.Lin != nil:
		return v.Lin.String()
	case v.B != nil:
		return v.B.String()
	}
	return "<" + v.Opaque + ">"
}

type symAccess struct {
	Kind  string // "index", "lo", "hi", "make"
	Base  string // text of the indexed expression
	Index *Lin
	Cube  Cube
	Pos   token.Pos
}

type symPath struct {
	Cube     Cube
	Kind     string // "return", "panic", "fall"
	Rets     []Val
	State    map[string]Val
	Accesses []symAccess
	Pos      token.Pos
	Calls    []string // opaque calls executed as statements on this path, in order
}

// symEnv customises the interpretation.
type symEnv struct {
	info *types.Info
	// resolve maps an expression to a value before the generic rules apply.
	resolve func(e ast.Expr) (Val, bool)
	// base constraints on symbols (e.g. size >= 0)
	base Cube
	// unordered: comparison atoms over these symbols evaluate as IEEE unordered
	unordered map[string]bool
	// problems encountered (unsupported statements); non-empty => undecided
	problems []string
	paths    []symPath
	maxPaths int
	// variables known to be positive (loop analysis)
	positiveVars map[*types.Var]bool
	// state in which the expression currently being evaluated lives (for resolve hooks)
	cur *symState
	// initial values of variables (by state key)
	init map[string]Val
	// render element reads / slices with their evaluated index forms
	elemForms bool
	// arithmetic between two symbolic fixed-width integers (may wrap around)
	wraps []string
	// havocLoops: loops are over-approximated (variables assigned in them become unknown)
	havocLoops bool
	// aliases: parameters of inlined helpers that stand for a container of the caller
	aliases map[types.Object]string
	// namedResults: the named results of the function being interpreted (innermost last)
	namedResults [][]*ast.Ident
	// zeroTrip: every loop is taken to run zero times (the evaluation is for inputs that make it so)
	zeroTrip   bool
	onLoop     func(st *symState, loop ast.Stmt)
	onCallStmt func(st *symState, s *ast.ExprStmt) // a call that stands as a statement of its own
	onAssign   func(st *symState, lhs ast.Expr, rhs ast.Expr)
	// loopBody: the interpreted block is one iteration of a loop (continue/break end the path)
	loopBody bool
	// inlinable: calls of private helpers that are interpreted by stepping into their bodies
	// (returns the declaration to inline, or nil).  recvs: receiver objects of the frames on the
	// inline stack (helpers of the same object see the same fields).
	inlinable    func(call *ast.CallExpr) *ast.FuncDecl
	recvs        map[types.Object]bool
	onInlineBind func(caller, callee *symState, param types.Object, arg ast.Expr) // facts about an argument follow it into the helper
	inlineSkip   map[*types.Func]bool                                             // never interpreted in place (abstracted by a resolve hook instead)
	inlineStack  []*ast.FuncDecl
	strIDs       map[string]int64 // string constants used as switch labels
	havocN       int
}

type symState struct {
	vars     map[string]Val
	cube     Cube
	accesses []symAccess
	calls    []string
}

func (s *symState) clone() *symState {
	n := &symState{vars: map[string]Val{}, cube: append(Cube{}, s.cube...), accesses: append([]symAccess{}, s.accesses...), calls: append([]string{}, s.calls...)}
	for k, v := range s.vars {
		n.vars[k] = v
	}
	return n
}

func objKey(o types.Object) string {
	if o == nil {
		return ""
	}
	if v, ok := o.(*types.Var); ok && v.IsField() {
		return "." + v.Name()
	}
	return fmt.Sprintf("%s@%d", o.Name(), o.Pos())
}

func (e *symEnv) problem(format string, args ...any) {
	e.problems = append(e.problems, fmt.Sprintf(format, args...))
}

// lvalKey returns the state key of an assignable expression.
func (e *symEnv) lvalKey(x ast.Expr) string {
	switch x := ast.Unparen(x).(type) {
	case *ast.Ident:
		if x.Name == "_" {
			return "_"
		}
		if o := e.info.Defs[x]; o != nil {
			return objKey(o)
		}
		return objKey(e.info.Uses[x])
	case *ast.SelectorExpr:
		if f := selectorField(e.info, x); f != nil {
			return objKey(f)
		}
	}
	return ""
}

func isIntegerType(t types.Type) bool {
	b, ok := t.Underlying().(*types.Basic)
	return ok && b.Info()&types.IsInteger != 0
}
func isNumericOrString(t types.Type) bool {
	if tp, ok := t.(*types.TypeParam); ok {
		// a type parameter whose constraint admits only ordered basic types (constraints.Ordered
		// and the like) is compared with <, ==, > exactly like a number
		return orderedConstraint(tp)
	}
	b, ok := t.Underlying().(*types.Basic)
	return ok && b.Info()&(types.IsNumeric|types.IsString) != 0
}

// orderedConstraint: every term of the type set of tp's constraint is a numeric or string type.
func orderedConstraint(tp *types.TypeParam) bool {
	iface, ok := tp.Constraint().Underlying().(*types.Interface)
	if !ok {
		return false
	}
	terms := 0
	okAll := true
	var walk func(t types.Type, depth int)
	walk = func(t types.Type, depth int) {
		if depth > 4 {
			okAll = false
			return
		}
		switch u := t.(type) {
		case *types.Union:
			for i := 0; i < u.Len(); i++ {
				walk(u.Term(i).Type(), depth+1)
			}
		case *types.Named:
			if _, isIface := u.Underlying().(*types.Interface); isIface {
				walk(u.Underlying(), depth+1)
			} else {
				walk(u.Underlying(), depth+1)
			}
		case *types.Interface:
			for i := 0; i < u.NumEmbeddeds(); i++ {
				walk(u.EmbeddedType(i), depth+1)
			}
			if u.NumMethods() > 0 {
				okAll = false
			}
		case *types.Basic:
			terms++
			if u.Info()&(types.IsNumeric|types.IsString) == 0 {
				okAll = false
			}
		default:
			okAll = false
		}
	}
	walk(iface, 0)
	return okAll && terms > 0
}
func isBoolType(t types.Type) bool {
	b, ok := t.Underlying().(*types.Basic)
	return ok && b.Info()&types.IsBoolean != 0
}

// eval evaluates an expression in a state.
func (e *symEnv) eval(st *symState, x ast.Expr) Val {
	x = ast.Unparen(x)
	e.cur = st
	if call, ok := x.(*ast.CallExpr); ok {
		if v, ok := st.vars[fmt.Sprintf("$call:%d", call.Pos())]; ok {
			return v
		}
	}
	if e.resolve != nil {
		if v, ok := e.resolve(x); ok {
			return v
		}
	}
	// *new(T): the zero value of T, written as an expression
	if star, ok := x.(*ast.StarExpr); ok {
		if call, ok := ast.Unparen(star.X).(*ast.CallExpr); ok && isBuiltinCall(e.info, call, "new") && len(call.Args) == 1 {
			if tv, ok := e.info.Types[x]; ok && tv.Type != nil {
				switch {
				case isNumericOrString(tv.Type) && isIntegerType(tv.Type):
					return Val{Lin: linConst(0)}
				case isBoolType(tv.Type):
					return Val{B: FFalse}
				default:
					return Val{Opaque: "zero"}
				}
			}
		}
	}
	if tv, ok := e.info.Types[x]; ok && tv.Value != nil {
		switch tv.Value.Kind() {
		case constant.Int:
			if i, ok := constant.Int64Val(tv.Value); ok {
				return Val{Lin: linConst(i)}
			}
		case constant.Bool:
			if constant.BoolVal(tv.Value) {
				return Val{B: FTrue}
			}
			return Val{B: FFalse}
		case constant.Float:
			if f, _ := constant.Float64Val(tv.Value); f == float64(int64(f)) {
				return Val{Lin: linConst(int64(f))}
			}
		}
		return Val{Opaque: "const:" + tv.Value.ExactString()}
	}
	switch x := x.(type) {
	case *ast.Ident:
		key := e.lvalKey(x)
		if v, ok := st.vars[key]; ok {
			return v
		}
		return e.symbolFor(x, key)
	case *ast.SelectorExpr:
		if key := e.lvalKey(x); key != "" {
			if v, ok := st.vars[key]; ok {
				return v
			}
			return e.symbolFor(x, key)
		}
	case *ast.UnaryExpr:
		v := e.eval(st, x.X)
		switch x.Op {
		case token.SUB:
			if v.Lin != nil {
				return Val{Lin: v.Lin.scale(-1)}
			}
		case token.ADD:
			return v
		case token.NOT:
			if v.B != nil {
				return Val{B: fNotOf(v.B)}
			}
		}
	case *ast.BinaryExpr:
		switch x.Op {
		case token.LAND, token.LOR:
			a := e.eval(st, x.X)
			// the right operand is only evaluated when the left one has (&&) or has not (||)
			// held: what it reads, it reads under that condition
			saved := len(st.cube)
			if a.B != nil {
				guard := a.B
				if x.Op == token.LOR {
					guard = fNotOf(a.B)
				}
				if cubes := dnf(guard); len(cubes) == 1 {
					st.cube = append(st.cube, cubes[0]...)
				}
			}
			b := e.eval(st, x.Y)
			st.cube = st.cube[:saved]
			if a.B != nil && b.B != nil {
				if x.Op == token.LAND {
					return Val{B: fAndOf(a.B, b.B)}
				}
				return Val{B: fOrOf(a.B, b.B)}
			}
		case token.ADD, token.SUB:
			if x.Op == token.SUB {
				if v, ok := st.vars[fmt.Sprintf("$usub:%d", x.Pos())]; ok {
					return v
				}
			}
			a, b := e.eval(st, x.X), e.eval(st, x.Y)
			if a.Lin != nil && b.Lin != nil {
				if !a.Lin.isConst() && !b.Lin.isConst() {
					if tv, ok := e.info.Types[x]; ok && tv.Type != nil && isIntegerType(tv.Type) {
						e.wraps = append(e.wraps, exprStr(x))
					}
				}
				if x.Op == token.ADD {
					return Val{Lin: a.Lin.add(b.Lin)}
				}
				return Val{Lin: a.Lin.sub(b.Lin)}
			}
		case token.MUL:
			a, b := e.eval(st, x.X), e.eval(st, x.Y)
			if a.Lin != nil && b.Lin != nil {
				if a.Lin.isConst() {
					return Val{Lin: b.Lin.scale(a.Lin.K)}
				}
				if b.Lin.isConst() {
					return Val{Lin: a.Lin.scale(b.Lin.K)}
				}
			}
		case token.LSS, token.LEQ, token.GTR, token.GEQ, token.EQL, token.NEQ:
			a, b := e.eval(st, x.X), e.eval(st, x.Y)
			if a.Lin != nil && b.Lin != nil && isWrapped(a.Lin) != isWrapped(b.Lin) {
				// a wrapped-around unsigned value is larger than anything it is compared with
				big := isWrapped(a.Lin)
				switch x.Op {
				case token.LSS, token.LEQ:
					if big {
						return Val{B: FFalse}
					}
					return Val{B: FTrue}
				case token.GTR, token.GEQ:
					if big {
						return Val{B: FTrue}
					}
					return Val{B: FFalse}
				case token.EQL:
					return Val{B: FFalse}
				case token.NEQ:
					return Val{B: FTrue}
				}
			}
			if a.Lin != nil && b.Lin != nil {
				if e.unordered != nil {
					for s := range a.Lin.C {
						if e.unordered[s] {
							if x.Op == token.NEQ {
								return Val{B: FTrue}
							}
							return Val{B: FFalse}
						}
					}
					for s := range b.Lin.C {
						if e.unordered[s] {
							if x.Op == token.NEQ {
								return Val{B: FTrue}
							}
							return Val{B: FFalse}
						}
					}
				}
				return Val{B: fCmp(x.Op, a.Lin, b.Lin)}
			}
			if a.B != nil && b.B != nil && (x.Op == token.EQL || x.Op == token.NEQ) {
				eq := fOrOf(fAndOf(a.B, b.B), fAndOf(fNotOf(a.B), fNotOf(b.B)))
				if x.Op == token.NEQ {
					return Val{B: fNotOf(eq)}
				}
				return Val{B: eq}
			}
		}
	case *ast.CallExpr:
		if isBuiltinCall(e.info, x, "make") && len(x.Args) >= 2 {
			e.record(st, "make", x.Args[0], e.eval(st, x.Args[1]), x.Pos())
			return Val{Opaque: exprStr(x)}
		}
		// conversions between integer types are the identity on the abstract integers
		if tv, ok := e.info.Types[x.Fun]; ok && tv.IsType() && len(x.Args) == 1 {
			v := e.eval(st, x.Args[0])
			if v.Lin != nil || v.B != nil {
				return v
			}
			return Val{Opaque: exprStr(x)}
		}
	case *ast.IndexExpr:
		if tv, ok := e.info.Types[x.X]; ok && !tv.IsType() {
			if _, isSig := tv.Type.Underlying().(*types.Signature); !isSig {
				idx := e.eval(st, x.Index)
				e.record(st, "index", x.X, idx, x.Pos())
				if idx.Lin != nil && e.elemForms {
					return Val{Opaque: e.baseStr(x.X) + "[" + idx.Lin.String() + "]"}
				}
				if e.baseStr(x.X) != exprStr(x.X) {
					return Val{Opaque: e.baseStr(x.X) + "[" + exprStr(x.Index) + "]"}
				}
			}
		}
		return Val{Opaque: exprStr(x)}
	case *ast.SliceExpr:
		if x.Low != nil {
			e.record(st, "lo", x.X, e.eval(st, x.Low), x.Pos())
		}
		if x.High != nil {
			e.record(st, "hi", x.X, e.eval(st, x.High), x.Pos())
		}
		if e.elemForms {
			lo, hi := "", ""
			if x.Low != nil {
				lo = e.eval(st, x.Low).String()
			}
			if x.High != nil {
				hi = e.eval(st, x.High).String()
			}
			return Val{Opaque: exprStr(x.X) + "[" + lo + ":" + hi + "]"}
		}
		return Val{Opaque: exprStr(x)}
	}
	// opaque: a boolean-typed opaque expression becomes a 0/1 predicate symbol
	if tv, ok := e.info.Types[x]; ok && tv.Type != nil && isBoolType(tv.Type) {
		s := "pred:" + exprStr(x)
		return Val{B: fLe0(linSym(s).scale(-1).plus(1))} // s >= 1
	}
	if tv, ok := e.info.Types[x]; ok && tv.Type != nil && isIntegerType(tv.Type) {
		return Val{Lin: linSym("val:" + exprStr(x))}
	}
	return Val{Opaque: exprStr(x)}
}

// record logs an index/slice/make event.
func (e *symEnv) record(st *symState, kind string, base ast.Expr, idx Val, pos token.Pos) {
	a := symAccess{Kind: kind, Base: e.baseStr(base), Index: idx.Lin, Cube: append(Cube{}, st.cube...), Pos: pos}
	st.accesses = append(st.accesses, a)
}

// symbolFor creates the initial symbolic value of a variable.
func (e *symEnv) symbolFor(x ast.Expr, key string) Val {
	tv, ok := e.info.Types[x]
	if !ok || tv.Type == nil {
		return Val{Opaque: exprStr(x)}
	}
	name := key
	if i := strings.Index(name, "@"); i > 0 {
		name = name[:i]
	}
	switch {
	case isBoolType(tv.Type):
		return Val{B: fLe0(linSym(name).scale(-1).plus(1))}
	case isNumericOrString(tv.Type):
		return Val{Lin: linSym(name)}
	}
	return Val{Opaque: exprStr(x)}
}

func (e *symEnv) finish(st *symState, kind string, rets []Val, pos token.Pos) {
	p := symPath{Cube: append(Cube{}, st.cube...), Kind: kind, Rets: rets, State: map[string]Val{}, Accesses: st.accesses, Pos: pos, Calls: st.calls}
	for k, v := range st.vars {
		p.State[k] = v
	}
	e.paths = append(e.paths, p)
}

// branch splits st on condition f: returns states for f true and f false
// (only feasible ones).
func (e *symEnv) branch(st *symState, f *F) (ts, fs []*symState) {
	mk := func(f *F) []*symState {
		var out []*symState
		for _, cb := range dnf(f) {
			all := append(append(append(Cube{}, e.base...), st.cube...), cb...)
			sat, dec := feasible(all)
			if !dec {
				e.problem("condition outside the octagon fragment: %s", f)
				sat = true
			}
			if sat {
				n := st.clone()
				n.cube = append(n.cube, cb...)
				out = append(out, n)
			}
		}
		return out
	}
	return mk(f), mk(fNotOf(f))
}

// exec runs a statement list from the given states; returns the states that
// fall through.
func (e *symEnv) execList(states []*symState, list []ast.Stmt) []*symState {
	for _, s := range list {
		if len(states) == 0 {
			return nil
		}
		var next []*symState
		for _, st := range states {
			next = append(next, e.exec(st, s)...)
		}
		states = next
		if e.maxPaths > 0 && len(states)+len(e.paths) > e.maxPaths {
			e.problem("path explosion")
			return nil
		}
	}
	return states
}

func (e *symEnv) assign(st *symState, lhs ast.Expr, v Val) {
	key := e.lvalKey(lhs)
	if key == "_" {
		return
	}
	if key == "" {
		if ix, ok := ast.Unparen(lhs).(*ast.IndexExpr); ok {
			idx := e.eval(st, ix.Index)
			e.record(st, "index", ix.X, idx, ix.Pos())
			st.calls = append(st.calls, fmt.Sprintf("store %s[%s] = %s", exprStr(ix.X), idx.String(), v.String()))
			return
		}
		e.problem("unsupported assignment target %s", exprStr(lhs))
		return
	}
	// an unknown value stored in a boolean (integer) variable is a fresh predicate (number):
	// later tests of the variable branch consistently on it
	if v.B == nil && v.Lin == nil {
		if tv, ok := e.info.Types[lhs]; ok && tv.Type != nil {
			e.havocN++
			switch {
			case isBoolType(tv.Type):
				v = Val{B: fLe0(linSym(fmt.Sprintf("pred:?%s#%d", exprStr(lhs), e.havocN)).scale(-1).plus(1)), Opaque: v.Opaque}
			case isIntegerType(tv.Type):
				v = Val{Lin: linSym(fmt.Sprintf("val:?%s#%d", exprStr(lhs), e.havocN)), Opaque: v.Opaque}
			}
		} else if id, ok := ast.Unparen(lhs).(*ast.Ident); ok {
			if o := e.info.Defs[id]; o != nil {
				e.havocN++
				switch {
				case isBoolType(o.Type()):
					v = Val{B: fLe0(linSym(fmt.Sprintf("pred:?%s#%d", id.Name, e.havocN)).scale(-1).plus(1)), Opaque: v.Opaque}
				case isIntegerType(o.Type()):
					v = Val{Lin: linSym(fmt.Sprintf("val:?%s#%d", id.Name, e.havocN)), Opaque: v.Opaque}
				}
			}
		}
	}
	st.vars[key] = v
}

// unsignedSubsIn lists the subtractions of unsigned type in a statement's own expressions
// (innermost first): where the mathematical difference can be negative the value wraps around.
func (e *symEnv) unsignedSubsIn(s ast.Stmt) []*ast.BinaryExpr {
	var exprs []ast.Expr
	switch x := s.(type) {
	case *ast.ExprStmt:
		exprs = append(exprs, x.X)
	case *ast.AssignStmt:
		exprs = append(exprs, x.Rhs...)
	case *ast.DeclStmt:
		if gd, ok := x.Decl.(*ast.GenDecl); ok {
			for _, sp := range gd.Specs {
				if vs, ok := sp.(*ast.ValueSpec); ok {
					exprs = append(exprs, vs.Values...)
				}
			}
		}
	case *ast.ReturnStmt:
		exprs = append(exprs, x.Results...)
	case *ast.IfStmt:
		if x.Init == nil {
			exprs = append(exprs, x.Cond)
		}
	}
	var out []*ast.BinaryExpr
	for _, ex := range exprs {
		ast.Inspect(ex, func(n ast.Node) bool {
			if _, isLit := n.(*ast.FuncLit); isLit {
				return false
			}
			if be, ok := n.(*ast.BinaryExpr); ok && be.Op == token.SUB {
				if tv, ok := e.info.Types[be]; ok && tv.Value == nil && tv.Type != nil {
					if bt, ok := tv.Type.Underlying().(*types.Basic); ok && bt.Info()&types.IsUnsigned != 0 {
						out = append(out, be)
					}
				}
			}
			return true
		})
	}
	for i, j := 0, len(out)-1; i < j; i, j = i+1, j-1 {
		out[i], out[j] = out[j], out[i]
	}
	return out
}

// isWrapped: the linear form holds the stand-in for a wrapped-around unsigned value (larger than
// every size and index the program can hold).
func isWrapped(l *Lin) bool {
	if l == nil {
		return false
	}
	for s, k := range l.C {
		if strings.HasPrefix(s, "wrap#") && k > 0 {
			return true
		}
	}
	return false
}

func (e *symEnv) exec(st *symState, s ast.Stmt) []*symState {
	// unsigned subtraction: one state in which the difference is not negative, one in which it
	// wraps around (only where the latter is possible at all)
	if us := e.unsignedSubsIn(s); len(us) > 0 {
		states := []*symState{st}
		for _, be := range us {
			key := fmt.Sprintf("$usub:%d", be.Pos())
			var next []*symState
			for _, cs := range states {
				if _, done := cs.vars[key]; done {
					next = append(next, cs)
					continue
				}
				a, b := e.eval(cs, be.X), e.eval(cs, be.Y)
				if a.Lin == nil || b.Lin == nil || isWrapped(a.Lin) || isWrapped(b.Lin) {
					next = append(next, cs)
					continue
				}
				full := append(append(Cube{}, e.base...), cs.cube...)
				if neg, dec := satF(full, lt(a.Lin, b.Lin)); !neg && dec {
					next = append(next, cs) // never negative here
					continue
				}
				for side := 0; side < 2; side++ {
					ns := cs.clone()
					var cond *F
					if side == 0 {
						cond = le(b.Lin, a.Lin)
					} else {
						cond = lt(a.Lin, b.Lin)
					}
					cubes := dnf(cond)
					if len(cubes) != 1 {
						continue
					}
					ns.cube = append(ns.cube, cubes[0]...)
					if ok, _ := feasible(append(append(Cube{}, e.base...), ns.cube...)); !ok {
						continue
					}
					if side == 0 {
						ns.vars[key] = Val{Lin: a.Lin.sub(b.Lin)}
					} else {
						ns.vars[key] = Val{Lin: linSym(fmt.Sprintf("wrap#%d", be.Pos()))}
					}
					next = append(next, ns)
				}
			}
			states = next
		}
		if len(states) != 1 || states[0] != st {
			var out []*symState
			for _, cs := range states {
				out = append(out, e.exec(cs, s)...)
			}
			return out
		}
	}
	// the builtins min and max of two integers: one state per argument that can be the result
	if mm := e.minMaxCallsIn(s); len(mm) > 0 {
		states := []*symState{st}
		for _, call := range mm {
			key := fmt.Sprintf("$call:%d", call.Pos())
			var next []*symState
			for _, cs := range states {
				if _, done := cs.vars[key]; done {
					next = append(next, cs)
					continue
				}
				a, b := e.eval(cs, call.Args[0]), e.eval(cs, call.Args[1])
				if a.Lin == nil || b.Lin == nil {
					next = append(next, cs)
					continue
				}
				if _, isBuiltinName := ast.Unparen(call.Fun).(*ast.Ident); !isBuiltinName {
					// cmp.Compare / strings.Compare: -1, 0 or +1 as the first operand is less than,
					// equal to or greater than the second
					for side, cond := range []*F{lt(a.Lin, b.Lin), eq(a.Lin, b.Lin), lt(b.Lin, a.Lin)} {
						for _, cb := range dnf(cond) {
							ns := cs.clone()
							ns.cube = append(ns.cube, cb...)
							if ok, _ := feasible(append(append(Cube{}, e.base...), ns.cube...)); !ok {
								continue
							}
							ns.vars[key] = Val{Lin: linConst(int64(side - 1))}
							next = append(next, ns)
						}
					}
					continue
				}
				isMin := ast.Unparen(call.Fun).(*ast.Ident).Name == "min"
				for side := 0; side < 2; side++ {
					ns := cs.clone()
					var cond *F
					var res *Lin
					switch {
					case side == 0 && isMin, side == 1 && !isMin:
						res = a.Lin
					default:
						res = b.Lin
					}
					if side == 0 {
						cond = le(a.Lin, b.Lin)
					} else {
						cond = lt(b.Lin, a.Lin)
					}
					cubes := dnf(cond)
					if len(cubes) != 1 {
						continue
					}
					ns.cube = append(ns.cube, cubes[0]...)
					if ok, _ := feasible(append(append(Cube{}, e.base...), ns.cube...)); !ok {
						continue
					}
					ns.vars[key] = Val{Lin: res}
					next = append(next, ns)
				}
			}
			states = next
		}
		if len(states) != 1 || states[0] != st {
			var out []*symState
			for _, cs := range states {
				out = append(out, e.exec(cs, s)...)
			}
			return out
		}
	}
	if e.inlinable != nil {
		if calls := e.inlinableCallsIn(s); len(calls) > 0 {
			states := []*symState{st}
			for _, call := range calls {
				var next []*symState
				for _, cs := range states {
					next = append(next, e.inlineCall(cs, call)...)
				}
				states = next
			}
			var out []*symState
			for _, cs := range states {
				out = append(out, e.execCore(cs, s)...)
			}
			return out
		}
	}
	return e.execCore(st, s)
}

// minMaxCallsIn lists the calls of the builtins min/max with two arguments in a statement's own
// expressions that have not been evaluated yet, innermost first.
func (e *symEnv) minMaxCallsIn(s ast.Stmt) []*ast.CallExpr {
	var exprs []ast.Expr
	switch x := s.(type) {
	case *ast.ExprStmt:
		exprs = append(exprs, x.X)
	case *ast.AssignStmt:
		exprs = append(exprs, x.Rhs...)
	case *ast.DeclStmt:
		if gd, ok := x.Decl.(*ast.GenDecl); ok {
			for _, sp := range gd.Specs {
				if vs, ok := sp.(*ast.ValueSpec); ok {
					exprs = append(exprs, vs.Values...)
				}
			}
		}
	case *ast.ReturnStmt:
		exprs = append(exprs, x.Results...)
	case *ast.SwitchStmt:
		if x.Tag != nil && x.Init == nil {
			exprs = append(exprs, x.Tag)
		}
	case *ast.IfStmt:
		if x.Init == nil {
			exprs = append(exprs, x.Cond)
		}
	}
	var out []*ast.CallExpr
	for _, ex := range exprs {
		ast.Inspect(ex, func(n ast.Node) bool {
			if _, isLit := n.(*ast.FuncLit); isLit {
				return false
			}
			if call, ok := n.(*ast.CallExpr); ok && len(call.Args) == 2 {
				if id, ok := ast.Unparen(call.Fun).(*ast.Ident); ok && (id.Name == "min" || id.Name == "max") {
					if _, isBuiltin := e.info.Uses[id].(*types.Builtin); isBuiltin {
						out = append(out, call)
					}
				}
				// the three-way comparisons of the standard library, on integers and strings (for
				// floating point operands cmp.Compare has an order of its own for NaN: not modelled)
				if cf := calleeOf(e.info, call); cf != nil && cf.Pkg() != nil && cf.Name() == "Compare" && (cf.Pkg().Path() == "cmp" || cf.Pkg().Path() == "strings") {
					okT := true
					for _, a := range call.Args {
						t := e.info.TypeOf(a)
						if t == nil || !isNumericOrString(t) {
							okT = false
						} else if bt, isB := t.Underlying().(*types.Basic); isB && bt.Info()&(types.IsFloat|types.IsComplex) != 0 {
							okT = false
						}
					}
					if okT {
						out = append(out, call)
					}
				}
			}
			return true
		})
	}
	for i, j := 0, len(out)-1; i < j; i, j = i+1, j-1 {
		out[i], out[j] = out[j], out[i]
	}
	return out
}

// inlinableCallsIn lists the inlinable calls of a statement's own expressions (not of nested
// statement bodies), innermost first.
func (e *symEnv) inlinableCallsIn(s ast.Stmt) []*ast.CallExpr {
	var exprs []ast.Expr
	switch x := s.(type) {
	case *ast.ExprStmt:
		exprs = append(exprs, x.X)
	case *ast.AssignStmt:
		exprs = append(exprs, x.Rhs...)
	case *ast.DeclStmt:
		if gd, ok := x.Decl.(*ast.GenDecl); ok {
			for _, sp := range gd.Specs {
				if vs, ok := sp.(*ast.ValueSpec); ok {
					exprs = append(exprs, vs.Values...)
				}
			}
		}
	case *ast.ReturnStmt:
		exprs = append(exprs, x.Results...)
	case *ast.IfStmt:
		if x.Init == nil {
			exprs = append(exprs, x.Cond)
		}
	case *ast.SwitchStmt:
		if x.Init == nil && x.Tag != nil {
			exprs = append(exprs, x.Tag)
		}
	}
	var out []*ast.CallExpr
	for _, ex := range exprs {
		ast.Inspect(ex, func(n ast.Node) bool {
			if _, isLit := n.(*ast.FuncLit); isLit {
				return false
			}
			if call, ok := n.(*ast.CallExpr); ok && e.inlinable(call) != nil {
				out = append(out, call)
			}
			return true
		})
	}
	// innermost first: reverse pre-order
	for i, j := 0, len(out)-1; i < j; i, j = i+1, j-1 {
		out[i], out[j] = out[j], out[i]
	}
	return out
}

// inlineCall interprets the callee's body from st with the parameters bound to the argument
// values; every normally returning path continues as a state that carries the results under
// the key $call:<pos>.  Panicking paths are finished as panics of the caller.
func (e *symEnv) inlineCall(st *symState, call *ast.CallExpr) []*symState {
	key := fmt.Sprintf("$call:%d", call.Pos())
	if _, done := st.vars[key]; done {
		return []*symState{st}
	}
	fd := e.inlinable(call)
	if fd == nil || len(e.inlineStack) >= 3 {
		return []*symState{st}
	}
	for _, f := range e.inlineStack {
		if f == fd {
			return []*symState{st}
		}
	}
	// bind parameters
	st2 := st.clone()
	var params []*ast.Ident
	if fd.Type.Params != nil {
		for _, f := range fd.Type.Params.List {
			params = append(params, f.Names...)
		}
	}
	if len(params) != len(call.Args) {
		return []*symState{st}
	}
	for i, p := range params {
		v := e.eval(st, call.Args[i])
		if o := e.info.Defs[p]; o != nil {
			// a container handed to the helper is known inside under the caller's name for it
			// (a field of the receiver passed as a parameter)
			if _, isSel := ast.Unparen(call.Args[i]).(*ast.SelectorExpr); isSel || e.baseStr(call.Args[i]) != exprStr(call.Args[i]) {
				switch o.Type().Underlying().(type) {
				case *types.Slice, *types.Map, *types.Array:
					if e.aliases == nil {
						e.aliases = map[types.Object]string{}
					}
					e.aliases[o] = e.baseStr(call.Args[i])
				}
			}
			st2.vars[objKey(o)] = v
			if e.onInlineBind != nil {
				e.onInlineBind(st, st2, o, call.Args[i])
			}
		}
	}
	if fd.Recv != nil && len(fd.Recv.List) > 0 && len(fd.Recv.List[0].Names) > 0 {
		if o := e.info.Defs[fd.Recv.List[0].Names[0]]; o != nil {
			if e.recvs == nil {
				e.recvs = map[types.Object]bool{}
			}
			e.recvs[o] = true
		}
	}
	savedPaths, savedLoop := e.paths, e.loopBody
	e.paths, e.loopBody = nil, false
	e.inlineStack = append(e.inlineStack, fd)
	e.namedResults = append(e.namedResults, namedResultsOf(fd.Type))
	e.zeroNamedResults(st2, fd.Type)
	rest := e.execList([]*symState{st2}, fd.Body.List)
	e.namedResults = e.namedResults[:len(e.namedResults)-1]
	e.inlineStack = e.inlineStack[:len(e.inlineStack)-1]
	sub := e.paths
	e.paths, e.loopBody = savedPaths, savedLoop
	var out []*symState
	for _, r := range rest { // fell off the end of a function without results
		r.vars[key] = Val{Opaque: "void"}
		out = append(out, r)
	}
	for _, p := range sub {
		switch p.Kind {
		case "return":
			ns := &symState{vars: map[string]Val{}, cube: append(Cube{}, p.Cube...), accesses: p.Accesses, calls: p.Calls}
			for k, v := range p.State {
				ns.vars[k] = v
			}
			switch len(p.Rets) {
			case 0:
				ns.vars[key] = Val{Opaque: "void"}
			case 1:
				ns.vars[key] = p.Rets[0]
			default:
				ns.vars[key] = Val{Tuple: p.Rets, Opaque: "tuple"}
			}
			out = append(out, ns)
		default:
			e.paths = append(e.paths, p) // panic (or fall) inside the helper ends the caller's path too
		}
	}
	return out
}

func (e *symEnv) execCore(st *symState, s ast.Stmt) []*symState {
	switch s := s.(type) {
	case *ast.BlockStmt:
		return e.execList([]*symState{st}, s.List)
	case *ast.EmptyStmt:
		return []*symState{st}
	case *ast.DeclStmt:
		gd, ok := s.Decl.(*ast.GenDecl)
		if !ok || gd.Tok != token.VAR {
			return []*symState{st}
		}
		for _, sp := range gd.Specs {
			vs := sp.(*ast.ValueSpec)
			if len(vs.Values) == len(vs.Names) {
				for i, n := range vs.Names {
					e.assign(st, n, e.eval(st, vs.Values[i]))
					if e.onAssign != nil {
						e.onAssign(st, n, vs.Values[i])
					}
				}
			} else if len(vs.Values) == 0 {
				for _, n := range vs.Names {
					// zero value
					o := e.info.Defs[n]
					if o != nil && isNumericOrString(o.Type()) && isIntegerType(o.Type()) {
						e.assign(st, n, Val{Lin: linConst(0)})
					} else if o != nil && isBoolType(o.Type()) {
						e.assign(st, n, Val{B: FFalse})
					} else {
						e.assign(st, n, Val{Opaque: "zero"})
					}
				}
			} else {
				// multi-value call
				v := e.eval(st, vs.Values[0])
				for i, n := range vs.Names {
					if i < len(v.Tuple) {
						e.assign(st, n, v.Tuple[i])
					} else {
						e.assign(st, n, Val{Opaque: fmt.Sprintf("%s#%d", v.String(), i)})
					}
				}
			}
		}
		return []*symState{st}
	case *ast.AssignStmt:
		switch s.Tok {
		case token.ASSIGN, token.DEFINE:
			if len(s.Lhs) == len(s.Rhs) {
				vals := make([]Val, len(s.Rhs))
				for i := range s.Rhs {
					vals[i] = e.eval(st, s.Rhs[i])
				}
				for i := range s.Lhs {
					e.assign(st, s.Lhs[i], vals[i])
					if e.onAssign != nil {
						e.onAssign(st, s.Lhs[i], s.Rhs[i])
					}
				}
			} else {
				v := e.eval(st, s.Rhs[0])
				for i := range s.Lhs {
					if i < len(v.Tuple) {
						e.assign(st, s.Lhs[i], v.Tuple[i])
					} else {
						e.assign(st, s.Lhs[i], Val{Opaque: fmt.Sprintf("%s#%d", v.String(), i)})
					}
				}
			}
		case token.ADD_ASSIGN, token.SUB_ASSIGN:
			a, b := e.eval(st, s.Lhs[0]), e.eval(st, s.Rhs[0])
			if a.Lin != nil && b.Lin != nil {
				if s.Tok == token.ADD_ASSIGN {
					e.assign(st, s.Lhs[0], Val{Lin: a.Lin.add(b.Lin)})
				} else {
					e.assign(st, s.Lhs[0], Val{Lin: a.Lin.sub(b.Lin)})
				}
			} else {
				e.assign(st, s.Lhs[0], Val{Opaque: exprStr(s.Lhs[0]) + s.Tok.String() + exprStr(s.Rhs[0])})
			}
		default:
			e.problem("unsupported assignment operator %s", s.Tok)
		}
		return []*symState{st}
	case *ast.IncDecStmt:
		a := e.eval(st, s.X)
		if a.Lin != nil {
			d := int64(1)
			if s.Tok == token.DEC {
				d = -1
			}
			e.assign(st, s.X, Val{Lin: a.Lin.plus(d)})
		} else {
			e.problem("inc/dec of a non-integer %s", exprStr(s.X))
		}
		return []*symState{st}
	case *ast.ExprStmt:
		if call, ok := s.X.(*ast.CallExpr); ok {
			if noReturnCall(e.info, call) {
				e.finish(st, "panic", nil, s.Pos())
				return nil
			}
			if e.onCallStmt != nil {
				e.onCallStmt(st, s)
			}
			if e.resolve != nil {
				e.cur = st
				if v, ok := e.resolve(call); ok {
					st.calls = append(st.calls, "resolved:"+v.String())
					return []*symState{st}
				}
			}
			var argv []string
			for _, a := range call.Args {
				av := e.eval(st, a)
				argv = append(argv, av.String())
			}
			if isBuiltinCall(e.info, call, "copy") {
				st.calls = append(st.calls, "copy("+strings.Join(argv, ", ")+")")
			} else {
				st.calls = append(st.calls, exprStr(call.Fun))
			}
			return []*symState{st}
		}
		e.eval(st, s.X)
		return []*symState{st}
	case *ast.ReturnStmt:
		var rets []Val
		for _, r := range s.Results {
			rets = append(rets, e.eval(st, r))
		}
		if len(s.Results) == 0 && len(e.namedResults) > 0 {
			// a bare return hands back the named results
			for _, id := range e.namedResults[len(e.namedResults)-1] {
				rets = append(rets, e.eval(st, id))
			}
		}
		e.finish(st, "return", rets, s.Pos())
		return nil
	case *ast.IfStmt:
		states := []*symState{st}
		if s.Init != nil {
			states = e.exec(st, s.Init)
		}
		var out []*symState
		for _, st := range states {
			c := e.eval(st, s.Cond)
			if c.B == nil {
				e.problem("unsupported condition %s", exprStr(s.Cond))
				continue
			}
			ts, fs := e.branch(st, c.B)
			out = append(out, e.execList(ts, s.Body.List)...)
			if s.Else != nil {
				for _, f := range fs {
					out = append(out, e.exec(f, s.Else)...)
				}
			} else {
				out = append(out, fs...)
			}
		}
		return out
	case *ast.SwitchStmt:
		states := []*symState{st}
		if s.Init != nil {
			states = e.exec(st, s.Init)
		}
		var out []*symState
		for _, st := range states {
			var tag *Val
			if s.Tag != nil {
				v := e.eval(st, s.Tag)
				if v.Lin == nil {
					v = Val{Lin: linSym("val:" + exprStr(s.Tag))}
				}
				tag = &v
			}
			remaining := []*symState{st}
			var deflt *ast.CaseClause
			for _, cl := range s.Body.List {
				cc := cl.(*ast.CaseClause)
				if cc.List == nil {
					deflt = cc
					continue
				}
				var conds []*F
				bad := false
				for _, ce := range cc.List {
					if tag != nil {
						cv := e.eval(st, ce)
						if cv.Lin == nil {
							// a string constant as case label: distinct constants are distinct numbers
							if tv, ok := e.info.Types[ce]; ok && tv.Value != nil && tv.Value.Kind() == constant.String {
								if e.strIDs == nil {
									e.strIDs = map[string]int64{}
								}
								sv := constant.StringVal(tv.Value)
								id, ok := e.strIDs[sv]
								if !ok {
									id = int64(1000003 + len(e.strIDs))
									e.strIDs[sv] = id
								}
								cv = Val{Lin: linConst(id)}
							}
						}
						if cv.Lin == nil {
							bad = true
							break
						}
						conds = append(conds, fCmp(token.EQL, tag.Lin, cv.Lin))
					} else {
						// evaluate in each remaining state separately below
						conds = append(conds, nil)
					}
				}
				if bad {
					e.problem("unsupported switch case in %s", exprStr(cc.List[0]))
					continue
				}
				var nextRemaining []*symState
				for _, rs := range remaining {
					var f *F
					if tag != nil {
						f = fOrOf(conds...)
					} else {
						var fs []*F
						for _, ce := range cc.List {
							cv := e.eval(rs, ce)
							if cv.B == nil {
								e.problem("unsupported switch condition %s", exprStr(ce))
								cv.B = FFalse
							}
							fs = append(fs, cv.B)
						}
						f = fOrOf(fs...)
					}
					ts, fs := e.branch(rs, f)
					body := e.execList(ts, cc.Body)
					for _, b := range body {
						out = append(out, b)
					}
					nextRemaining = append(nextRemaining, fs...)
				}
				remaining = nextRemaining
			}
			if deflt != nil {
				out = append(out, e.execList(remaining, deflt.Body)...)
			} else {
				out = append(out, remaining...)
			}
		}
		// NOTE: fallthrough/break inside switch bodies are not modelled
		return out
	case *ast.BranchStmt:
		if e.loopBody && s.Label == nil {
			switch s.Tok {
			case token.CONTINUE:
				e.finish(st, "fall", nil, s.Pos())
				return nil
			case token.BREAK:
				e.finish(st, "break", nil, s.Pos())
				return nil
			}
		}
		e.problem("unsupported branch statement %s", s.Tok)
		return nil
	case *ast.ForStmt, *ast.RangeStmt:
		if e.zeroTrip {
			// the inputs are such that no loop body runs (empty operands): only the init statement counts
			if fs, ok := s.(*ast.ForStmt); ok && fs.Init != nil {
				return e.exec(st, fs.Init)
			}
			return []*symState{st}
		}
		if e.havocLoops {
			if e.onLoop != nil {
				e.onLoop(st, s)
			}
			ast.Inspect(s, func(x ast.Node) bool {
				var keys []string
				switch a := x.(type) {
				case *ast.AssignStmt:
					for _, l := range a.Lhs {
						keys = append(keys, e.lvalKey(l))
					}
				case *ast.IncDecStmt:
					keys = append(keys, e.lvalKey(a.X))
				case *ast.RangeStmt:
					if a.Key != nil {
						keys = append(keys, e.lvalKey(a.Key))
					}
					if a.Value != nil {
						keys = append(keys, e.lvalKey(a.Value))
					}
				}
				for _, k := range keys {
					if k == "" || k == "_" {
						continue
					}
					if old, ok := st.vars[k]; ok && (old.Lin != nil) {
						e.havocN++
						st.vars[k] = Val{Lin: linSym(fmt.Sprintf("havoc%d:%s", e.havocN, k))}
					} else if ok {
						st.vars[k] = Val{Opaque: "havoc"}
					}
				}
				return true
			})
			return []*symState{st}
		}
		e.problem("loop in a function bound to a SYM rule")
		return nil
	}
	if ds, ok := s.(*ast.DeferStmt); ok && rePanicOnly(e.info, ds) {
		return []*symState{st} // passes on what it catches, unchanged: nothing to interpret
	}
	e.problem("unsupported statement %T", s)
	return nil
}

// symRun interprets a function body.
func symRun(env *symEnv, body *ast.BlockStmt) []symPath {
	st := &symState{vars: map[string]Val{}}
	for k, v := range env.init {
		st.vars[k] = v
	}
	env.paths = nil
	env.maxPaths = 4096
	if ft := funcTypeOfBody(env.info, body); ft != nil {
		env.namedResults = append(env.namedResults, namedResultsOf(ft))
		env.zeroNamedResults(st, ft)
		defer func() { env.namedResults = env.namedResults[:len(env.namedResults)-1] }()
	} else {
		env.namedResults = append(env.namedResults, nil)
		defer func() { env.namedResults = env.namedResults[:len(env.namedResults)-1] }()
	}
	rest := env.execList([]*symState{st}, body.List)
	for _, r := range rest {
		env.finish(r, "fall", nil, body.End())
	}
	return env.paths
}

// ---------------------------------------------------------------- spec tables

type specRow struct {
	When  *F     // condition over the symbols
	Kind  string // "panic" | "return" | "any"
	Ret   []*Lin // expected integer results (nil entries = don't care)
	RetB  []*F   // expected boolean results (nil = don't care)
	State map[string]*Lin
	Desc  string
}

// conform checks the path table against the spec.  It returns violations as text.
func conform(env *symEnv, paths []symPath, spec []specRow) (viol []string, undec []string) {
	// symbols the specification and the binding of the rule know; a result that is computed from
	// other opaque values (the answer of a library function, a table lookup) cannot be compared
	known := map[string]bool{}
	for _, a := range env.base {
		for sname := range a.C {
			known[sname] = true
		}
	}
	for _, row := range spec {
		for sname := range symbolsOfF(row.When) {
			known[sname] = true
		}
		for _, l := range row.Ret {
			if l != nil {
				for sname := range l.C {
					known[sname] = true
				}
			}
		}
		for _, f := range row.RetB {
			for sname := range symbolsOfF(f) {
				known[sname] = true
			}
		}
		for k, l := range row.State {
			known[k] = true
			if l != nil {
				for sname := range l.C {
					known[sname] = true
				}
			}
		}
	}
	foreignIn := func(names map[string]bool) string {
		var out []string
		for sname := range names {
			if !known[sname] && (strings.HasPrefix(sname, "val:") || strings.HasPrefix(sname, "pred:")) {
				out = append(out, sname)
			}
		}
		sort.Strings(out)
		return strings.Join(out, ", ")
	}
	linNames := func(l *Lin) map[string]bool {
		m := map[string]bool{}
		if l != nil {
			for sname := range l.C {
				m[sname] = true
			}
		}
		return m
	}
	for _, p := range paths {
		for _, row := range spec {
			for _, cb := range dnf(row.When) {
				all := append(append(append(Cube{}, env.base...), p.Cube...), cb...)
				sat, dec := feasible(all)
				if !dec {
					undec = append(undec, fmt.Sprintf("cannot decide feasibility of %s", all))
					continue
				}
				if !sat {
					continue
				}
				where := fmt.Sprintf("on the region {%s} (spec: %s)", all, row.Desc)
				if row.Kind == "any" {
					continue
				}
				if row.Kind == "panic" {
					if p.Kind != "panic" {
						viol = append(viol, fmt.Sprintf("%s the code %ss %v but must panic", where, p.Kind, p.Rets))
					}
					continue
				}
				if p.Kind == "panic" {
					viol = append(viol, fmt.Sprintf("%s the code panics but must %s", where, row.Desc))
					continue
				}
				for i, want := range row.Ret {
					if want == nil {
						continue
					}
					if i < len(p.Rets) && p.Rets[i].Lin == nil && p.Rets[i].B == nil {
						undec = append(undec, foreignPrefix+fmt.Sprintf("%s result #%d is %s, a value the rule does not interpret", where, i, p.Rets[i].String()))
						continue
					}
					if i >= len(p.Rets) || p.Rets[i].Lin == nil {
						viol = append(viol, fmt.Sprintf("%s result #%d is not an integer form", where, i))
						continue
					}
					if s, d := satF(all, fCmp(token.NEQ, p.Rets[i].Lin, want)); s || !d {
						if fs := foreignIn(linNames(p.Rets[i].Lin)); fs != "" {
							undec = append(undec, foreignPrefix+fmt.Sprintf("%s the result is computed from %s, which the rule cannot relate to the specification", where, fs))
						} else if !d {
							undec = append(undec, fmt.Sprintf("%s cannot compare result %s with %s", where, p.Rets[i].Lin, want))
						} else {
							viol = append(viol, fmt.Sprintf("%s the code returns %s, the spec requires %s", where, p.Rets[i].Lin, want))
						}
					}
				}
				for i, want := range row.RetB {
					if want == nil {
						continue
					}
					if i < len(p.Rets) && p.Rets[i].Lin == nil && p.Rets[i].B == nil {
						undec = append(undec, foreignPrefix+fmt.Sprintf("%s result #%d is %s, a value the rule does not interpret", where, i, p.Rets[i].String()))
						continue
					}
					if i >= len(p.Rets) || p.Rets[i].B == nil {
						viol = append(viol, fmt.Sprintf("%s result #%d is not a boolean form", where, i))
						continue
					}
					got := p.Rets[i].B
					diff := fOrOf(fAndOf(got, fNotOf(want)), fAndOf(fNotOf(got), want))
					if s, d := satF(all, diff); s || !d {
						if fs := foreignIn(symbolsOfF(got)); fs != "" {
							undec = append(undec, foreignPrefix+fmt.Sprintf("%s the result is computed from %s, which the rule cannot relate to the specification", where, fs))
						} else if !d {
							undec = append(undec, fmt.Sprintf("%s cannot compare boolean result", where))
						} else {
							viol = append(viol, fmt.Sprintf("%s the code returns %s, the spec requires %s", where, got, want))
						}
					}
				}
				for key, want := range row.State {
					got, ok := p.State[key]
					if !ok {
						got = Val{Lin: linSym(key)}
					}
					if got.Lin == nil {
						viol = append(viol, fmt.Sprintf("%s state %s is not an integer form (%s)", where, key, got))
						continue
					}
					if s, d := satF(all, fCmp(token.NEQ, got.Lin, want)); s || !d {
						if !d {
							undec = append(undec, fmt.Sprintf("%s cannot compare state %s", where, key))
						} else {
							viol = append(viol, fmt.Sprintf("%s the code leaves %s = %s, the spec requires %s", where, key, got.Lin, want))
						}
					}
				}
			}
		}
	}
	return dedup(viol), dedup(undec)
}

func dedup(xs []string) []string {
	seen := map[string]bool{}
	var out []string
	for _, x := range xs {
		if !seen[x] {
			seen[x] = true
			out = append(out, x)
		}
	}
	return out
}

// helpers to build spec formulas
func sym(s string) *Lin { return linSym(s) }
func k(n int64) *Lin    { return linConst(n) }
func lt(a, b *Lin) *F   { return fCmp(token.LSS, a, b) }
func le(a, b *Lin) *F   { return fCmp(token.LEQ, a, b) }
func gt(a, b *Lin) *F   { return fCmp(token.GTR, a, b) }
func ge(a, b *Lin) *F   { return fCmp(token.GEQ, a, b) }
func eq(a, b *Lin) *F   { return fCmp(token.EQL, a, b) }
func ne(a, b *Lin) *F   { return fCmp(token.NEQ, a, b) }
func and(xs ...*F) *F   { return fAndOf(xs...) }
func or(xs ...*F) *F    { return fOrOf(xs...) }
func not(x *F) *F       { return fNotOf(x) }

// holdsOn reports whether formula f holds on every integer point of the path's
// region (base && cube): (holds, decided).
func holdsOn(env *symEnv, cube Cube, f *F) (bool, bool) {
	all := append(append(Cube{}, env.base...), cube...)
	sat, dec := satF(all, fNotOf(f))
	return !sat && dec, dec
}

func isUTVPI(a *Lin) bool {
	switch len(a.C) {
	case 0, 1:
		return true
	case 2:
		for _, k := range a.C {
			if k != 1 && k != -1 {
				return false
			}
		}
		return true
	}
	return false
}

func gcd64(a, b int64) int64 {
	if a < 0 {
		a = -a
	}
	if b < 0 {
		b = -b
	}
	for b != 0 {
		a, b = b, a%b
	}
	return a
}

// normLin divides by the gcd of the coefficients and tightens the constant
// (integer solutions only):  a.x + c <= 0  ==>  (a/g).x + ceil(c/g) <= 0.
func normLin(a *Lin) *Lin {
	var g int64
	for _, k := range a.C {
		g = gcd64(g, k)
	}
	if g <= 1 {
		return a
	}
	r := &Lin{C: map[string]int64{}}
	for s, k := range a.C {
		r.C[s] = k / g
	}
	// ceil(c/g)
	q := a.K / g
	if a.K%g != 0 && a.K > 0 {
		q++
	}
	r.K = q
	return r
}

// feasibleFM: Fourier-Motzkin elimination with integer tightening.  A result of
// false is a proof of unsatisfiability over the integers; true means no
// contradiction was derived (satisfiable over the rationals).
func feasibleFM(cube Cube) bool {
	cons := make([]*Lin, 0, len(cube))
	for _, a := range cube {
		cons = append(cons, normLin(a))
	}
	for iter := 0; iter < 12; iter++ {
		// constants
		vars := map[string][2]int{}
		for _, a := range cons {
			if len(a.C) == 0 && a.K > 0 {
				return false
			}
			for s, k := range a.C {
				v := vars[s]
				if k > 0 {
					v[0]++
				} else {
					v[1]++
				}
				vars[s] = v
			}
		}
		if len(vars) == 0 {
			return true
		}
		// pick the variable with the fewest combinations
		best, bestCost := "", int(^uint(0)>>1)
		var names []string
		for s := range vars {
			names = append(names, s)
		}
		sort.Strings(names)
		for _, s := range names {
			v := vars[s]
			if cost := v[0] * v[1]; cost < bestCost {
				best, bestCost = s, cost
			}
		}
		var pos, neg, rest []*Lin
		for _, a := range cons {
			switch k := a.C[best]; {
			case k > 0:
				pos = append(pos, a)
			case k < 0:
				neg = append(neg, a)
			default:
				rest = append(rest, a)
			}
		}
		for _, p := range pos {
			for _, n := range neg {
				kp, kn := p.C[best], -n.C[best]
				comb := p.scale(kn).add(n.scale(kp))
				delete(comb.C, best)
				rest = append(rest, normLin(comb))
			}
		}
		if len(rest) > 4000 {
			return true
		}
		cons = rest
	}
	for _, a := range cons {
		if len(a.C) == 0 && a.K > 0 {
			return false
		}
	}
	return true
}

// enableInlining lets the interpreter step into private helpers: unexported methods called on the
// receiver (of fd or of a frame already inlined) and unexported package-level functions of the
// repository, except those in skip (helpers a rule abstracts on its own).
func enableInlining(c *Ctx, env *symEnv, fd *ast.FuncDecl, skip map[*types.Func]bool) {
	info := env.info
	if env.recvs == nil {
		env.recvs = map[types.Object]bool{}
	}
	if ro := recvObj(info, fd); ro != nil {
		env.recvs[ro] = true
	}
	env.inlinable = func(call *ast.CallExpr) *ast.FuncDecl {
		cf := calleeOf(info, call)
		if cf == nil || ast.IsExported(cf.Name()) || skip[cf.Origin()] || env.inlineSkip[cf.Origin()] {
			return nil
		}
		d := c.declOf(cf)
		if d == nil || d.Body == nil {
			return nil
		}
		if c.infoFor(d) != info {
			return nil // another package: different types.Info
		}
		if d.Recv != nil {
			sel, ok := ast.Unparen(call.Fun).(*ast.SelectorExpr)
			if !ok {
				return nil
			}
			rx := ast.Unparen(sel.X)
			// recv.embedded_.method(): the embedded private struct is part of the receiver
			if es, ok := rx.(*ast.SelectorExpr); ok {
				if f := selectorField(info, es); f != nil && f.Embedded() {
					rx = ast.Unparen(es.X)
				}
			}
			id, ok := rx.(*ast.Ident)
			if !ok || !env.recvs[info.Uses[id]] {
				return nil
			}
		}
		return d
	}
}

// isRecvRooted: e is a receiver of the current inline stack, or receiver.field.
func (e *symEnv) isRecvRooted(x ast.Expr) bool {
	x = ast.Unparen(x)
	if id, ok := x.(*ast.Ident); ok {
		return e.recvs[e.info.Uses[id]]
	}
	if se, ok := x.(*ast.SelectorExpr); ok && selectorField(e.info, se) != nil {
		if id, ok := ast.Unparen(se.X).(*ast.Ident); ok {
			return e.recvs[e.info.Uses[id]]
		}
	}
	return false
}

// foreignPrefix marks an undecided comparison whose only obstacle is a value the rule has no
// binding for (not-evaluated, never a failure).
const foreignPrefix = "foreign: "

func onlyForeign(undec []string) bool {
	if len(undec) == 0 {
		return false
	}
	for _, u := range undec {
		if !strings.HasPrefix(u, foreignPrefix) {
			return false
		}
	}
	return true
}

// symbolsOfF: the symbol names occurring in a formula.
func symbolsOfF(f *F) map[string]bool {
	out := map[string]bool{}
	var walk func(f *F)
	walk = func(f *F) {
		if f == nil {
			return
		}
		if f.op == fAtom && f.a != nil {
			for sname := range f.a.C {
				out[sname] = true
			}
		}
		for _, x := range f.xs {
			walk(x)
		}
	}
	walk(f)
	return out
}

func namedResultsOf(ft *ast.FuncType) []*ast.Ident {
	var out []*ast.Ident
	if ft == nil || ft.Results == nil {
		return nil
	}
	for _, f := range ft.Results.List {
		out = append(out, f.Names...)
	}
	return out
}

// zeroNamedResults: named results start with the zero value of their type.
func (e *symEnv) zeroNamedResults(st *symState, ft *ast.FuncType) {
	for _, n := range namedResultsOf(ft) {
		o := e.info.Defs[n]
		if o == nil || n.Name == "_" {
			continue
		}
		switch {
		case isNumericOrString(o.Type()) && isIntegerType(o.Type()):
			e.assign(st, n, Val{Lin: linConst(0)})
		case isBoolType(o.Type()):
			e.assign(st, n, Val{B: FFalse})
		default:
			e.assign(st, n, Val{Opaque: "zero"})
		}
	}
}

// funcTypeOfBody: the type of the function (declaration or literal) whose body this is.
func funcTypeOfBody(info *types.Info, body *ast.BlockStmt) *ast.FuncType {
	if info == nil || body == nil {
		return nil
	}
	var best *ast.FuncType
	for node, sc := range info.Scopes {
		ft, ok := node.(*ast.FuncType)
		if !ok || sc == nil {
			continue
		}
		// the scope of a function type spans its parameters and its body
		if sc.Pos() <= body.Pos() && body.End() <= sc.End() && sc.End() == body.End() {
			if best == nil || ft.Pos() > best.Pos() {
				best = ft
			}
		}
	}
	return best
}

// baseStr renders the container expression of an element access; a parameter of an inlined helper
// that was bound to a container of the caller is rendered as the caller wrote it.
func (e *symEnv) baseStr(x ast.Expr) string {
	if id, ok := ast.Unparen(x).(*ast.Ident); ok && e.aliases != nil {
		if o := e.info.Uses[id]; o != nil {
			if s, ok := e.aliases[o]; ok {
				return s
			}
		}
	}
	return exprStr(x)
}
