package main

// A cursor that runs in step with the loop.  X.GetValues(S) answers one value per position of S
// (the zero value where X has no such key), so an iterator over that answer is a cursor parallel
// to the traversal of S: it has to be advanced exactly once per position.  A loop over S that
// advances the parallel cursor only on some paths through its body pairs every later position
// with a value that belongs to an earlier one.

import (
	"fmt"
	"go/ast"
	"go/types"

	"golang.org/x/tools/go/cfg"
)

func checkParallelCursor(c *Ctx, r *Rec, rule string, fds []*ast.FuncDecl) {
	for _, fd := range fds {
		info := c.infoFor(fd)
		if info == nil || fd.Body == nil {
			continue
		}
		// parallel cursors: B := X.GetValues(S).GetIterator()   (possibly through a local)
		type cursor struct {
			obj types.Object
			src types.Object // S
		}
		var cursors []cursor
		ast.Inspect(fd.Body, func(x ast.Node) bool {
			lhs, rhs, ok := multiDef(x)
			if !ok || len(lhs) != 1 {
				return true
			}
			rx, mname, _, ok := methodCall(ast.Unparen(rhs))
			if !ok || mname != "GetIterator" {
				return true
			}
			inner := resolveInit(info, fd, rx)
			_, m2, call2, ok := methodCall(inner)
			if !ok || m2 != "GetValues" || len(call2.Args) != 1 {
				return true
			}
			s := identObj(info, call2.Args[0])
			b := identObj(info, lhs[0])
			if s != nil && b != nil {
				cursors = append(cursors, cursor{b, s})
			}
			return true
		})
		for _, cur := range cursors {
			for _, l := range loopsIn(fd.Body) {
				var body *ast.BlockStmt
				drivenByS := false
				switch fs := l.(type) {
				case *ast.ForStmt:
					body = fs.Body
					if fs.Cond != nil {
						if it := findIterCond(info, fs.Cond, "HasNext"); it != nil {
							if id := identOfObj(fd, info, it); id != nil {
								if rx, mname, _, ok := methodCall(resolveInit(info, fd, id)); ok && mname == "GetIterator" && isObj(info, rx, cur.src) {
									drivenByS = true
								}
							}
						}
					}
				case *ast.RangeStmt:
					body = fs.Body
					if rx, mname, _, ok := methodCall(ast.Unparen(fs.X)); ok && mname == "AsArray" && isObj(info, rx, cur.src) {
						drivenByS = true
					}
				}
				if body == nil || !drivenByS {
					continue
				}
				var advance ast.Node
				ast.Inspect(body, func(x ast.Node) bool {
					if rx, mname, call, ok := methodCall(x); ok && mname == "GetNext" && isObj(info, rx, cur.obj) {
						advance = call
					}
					return true
				})
				if advance == nil {
					continue
				}
				construct := c.fdName(fd) + "/" + cur.obj.Name()
				g := newFG(info, body)
				skips, _ := g.exists(pathQuery{from: point{g.entry(), 0},
					stop:     func(x ast.Node) bool { return containsNode(x, advance) },
					goalExit: func(kind int, _ *cfg.Block) bool { return kind == exitReturn }})
				if skips {
					r.fail(rule, construct, c.pos(advance.Pos()), fmt.Sprintf("%s iterates over the answer of GetValues(%s), which holds one value per position of %s, but the loop over %s advances it only on some paths through its body: after the first pass that skips %s.GetNext() every later position is paired with the value of an earlier one", cur.obj.Name(), cur.src.Name(), cur.src.Name(), cur.src.Name(), cur.obj.Name()))
				} else {
					r.ok(rule, construct, c.pos(advance.Pos()), "the parallel cursor is advanced on every path through the loop body")
				}
			}
		}
	}
}

// identOfObj finds some identifier that uses obj inside fd.
func identOfObj(fd *ast.FuncDecl, info *types.Info, obj types.Object) *ast.Ident {
	var out *ast.Ident
	ast.Inspect(fd.Body, func(x ast.Node) bool {
		if id, ok := x.(*ast.Ident); ok && out == nil && info.Uses[id] == obj {
			out = id
		}
		return true
	})
	return out
}
