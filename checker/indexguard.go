package main

// A guard that admits the length.  When an index expression X[i] sits under conditions that
// compare that same i with len(X), the author meant to keep i inside X; if all those
// conditions together still allow i == len(X) (`i > len(X)` rejected, `i <= len(X)`
// required), the guard is off by one and X[len(X)] is a run-time error.  The rule is a
// contradiction rule: it needs the guard to be there, and reads nothing else.

import (
	"fmt"
	"go/ast"
	"go/token"
	"go/types"
)

type condAtom struct {
	e    ast.Expr
	true bool
}

// atomsOf splits a condition that is known to have the given truth value into the
// comparisons that are known to hold or not to hold.
func atomsOf(e ast.Expr, truth bool, out *[]condAtom) {
	e = ast.Unparen(e)
	switch x := e.(type) {
	case *ast.UnaryExpr:
		if x.Op == token.NOT {
			atomsOf(x.X, !truth, out)
			return
		}
	case *ast.BinaryExpr:
		if (x.Op == token.LAND && truth) || (x.Op == token.LOR && !truth) {
			atomsOf(x.X, truth, out)
			atomsOf(x.Y, truth, out)
			return
		}
		if x.Op == token.LAND || x.Op == token.LOR {
			return
		}
	}
	*out = append(*out, condAtom{e, truth})
}

func checkIndexGuardAdmitsLength(c *Ctx, r *Rec, rule string, fds []*ast.FuncDecl) {
	sites, bad := 0, 0
	for _, fd := range fds {
		info := c.infoFor(fd)
		if info == nil || fd.Body == nil {
			continue
		}
		bodies := []*ast.BlockStmt{fd.Body}
		for _, fl := range funcLitsIn(fd.Body) {
			bodies = append(bodies, fl.Body)
			for _, inner := range funcLitsIn(fl.Body) {
				bodies = append(bodies, inner.Body)
			}
		}
		for _, body := range bodies {
			var g *FG
			inspectNoLit(body, func(n ast.Node) bool {
				ix, ok := n.(*ast.IndexExpr)
				if !ok {
					return true
				}
				t := info.TypeOf(ix.X)
				if t == nil {
					return true
				}
				switch u := t.Underlying().(type) {
				case *types.Slice:
				case *types.Basic:
					if u.Info()&types.IsString == 0 {
						return true
					}
				default:
					return true
				}
				xs, is := exprStr(ix.X), exprStr(ix.Index)
				if g == nil {
					g = newFG(info, body)
				}
				p, ok := g.locate(ix)
				if !ok {
					return true
				}
				var atoms []condAtom
				for _, ec := range g.edgeConds(p) {
					atomsOf(ec.cond, ec.polarity, &atoms)
				}
				// relation between i and len(X): collect what the atoms say
				strict, weak := false, false
				var weakAt ast.Expr
				for _, a := range atoms {
					be, ok := a.e.(*ast.BinaryExpr)
					if !ok {
						continue
					}
					op, l, rg := be.Op, ast.Unparen(be.X), ast.Unparen(be.Y)
					isLen := func(e ast.Expr) bool {
						call, ok := e.(*ast.CallExpr)
						return ok && isBuiltinCall(info, call, "len") && len(call.Args) == 1 && exprStr(call.Args[0]) == xs
					}
					switch {
					case exprStr(l) == is && isLen(rg):
					case exprStr(rg) == is && isLen(l):
						// mirror: len(X) op i  ==  i op' len(X)
						switch op {
						case token.LSS:
							op = token.GTR
						case token.LEQ:
							op = token.GEQ
						case token.GTR:
							op = token.LSS
						case token.GEQ:
							op = token.LEQ
						}
					default:
						continue
					}
					if !a.true {
						switch op {
						case token.LSS:
							op = token.GEQ
						case token.LEQ:
							op = token.GTR
						case token.GTR:
							op = token.LEQ
						case token.GEQ:
							op = token.LSS
						case token.EQL:
							op = token.NEQ
						case token.NEQ:
							op = token.EQL
						}
					}
					switch op {
					case token.LSS, token.NEQ:
						strict = true
					case token.LEQ:
						weak = true
						weakAt = a.e
					}
				}
				if strict || weak {
					sites++
				}
				if weak && !strict {
					bad++
					r.fail(rule, c.fdName(fd)+"/"+exprStr(ix), c.pos(ix.Pos()), fmt.Sprintf("the index expression %s is guarded by %s, which still admits %s == len(%s): the guard is off by one, and for that index the program ends with a Go run-time error (index out of range) instead of the behaviour the guard was written for", exprStr(ix), exprStr(weakAt), is, xs))
				}
				return true
			})
		}
	}
	if bad == 0 {
		r.ok(rule, "index-guards", "", fmt.Sprintf("%d index expressions stand under a comparison of their index with the length; each excludes the length itself", sites))
	}
}
