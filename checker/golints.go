package main

// Shapes of Go code that are wrong wherever they occur, tied to the properties whose code they
// were found in.  Each rule names the exact shape (positive evidence) and says nothing otherwise.

import (
	"fmt"
	"go/ast"
	"go/constant"
	"go/token"
	"go/types"
	"strings"
)

// ---------------------------------------------------------------- the caller's Go array is not written

// mutatesSliceParam: does fd write through its parameter number pi (a slice)?  Index stores, copy
// with the parameter as destination, the in-place operations of a sorter, and handing the
// parameter on to a function of the module that does one of these.
func mutatesSliceParam(c *Ctx, fd *ast.FuncDecl, pi int, depth int, seen map[string]bool) string {
	if fd == nil || fd.Body == nil || depth > 3 {
		return ""
	}
	key := fmt.Sprintf("%p#%d", fd, pi)
	if seen[key] {
		return ""
	}
	seen[key] = true
	info := c.infoFor(fd)
	if info == nil {
		return ""
	}
	ps := paramObjs(info, fd)
	if pi >= len(ps) {
		return ""
	}
	p := ps[pi]
	// locals that are the parameter itself (or a window of it)
	alias := map[types.Object]bool{p: true}
	for changed := true; changed; {
		changed = false
		ast.Inspect(fd.Body, func(x ast.Node) bool {
			lhs, rhs, ok := multiDef(x)
			if !ok || len(lhs) != 1 {
				return true
			}
			src := ast.Unparen(rhs)
			if se, ok := src.(*ast.SliceExpr); ok {
				src = ast.Unparen(se.X)
			}
			if o := identObj(info, lhs[0]); o != nil && !alias[o] && alias[identObj(info, src)] && identObj(info, src) != nil {
				alias[o] = true
				changed = true
			}
			return true
		})
	}
	isAlias := func(e ast.Expr) bool {
		e = ast.Unparen(e)
		if se, ok := e.(*ast.SliceExpr); ok {
			e = ast.Unparen(se.X)
		}
		o := identObj(info, e)
		return o != nil && alias[o]
	}
	why := ""
	ast.Inspect(fd.Body, func(x ast.Node) bool {
		if why != "" {
			return false
		}
		switch s := x.(type) {
		case *ast.AssignStmt:
			for _, l := range s.Lhs {
				if ix, ok := ast.Unparen(l).(*ast.IndexExpr); ok && isAlias(ix.X) {
					why = fmt.Sprintf("the element store %s at %s", exprStr(l), c.pos(s.Pos()))
				}
			}
		case *ast.CallExpr:
			if isBuiltinCall(info, s, "copy") && len(s.Args) == 2 && isAlias(s.Args[0]) {
				why = fmt.Sprintf("copy into it at %s", c.pos(s.Pos()))
				return false
			}
			fn := calleeOf(info, s)
			if fn == nil {
				return true
			}
			for ai, a := range s.Args {
				if !isAlias(a) {
					continue
				}
				switch fn.Name() {
				case "SortValues", "ReverseValues", "ShuffleValues":
					if c.roleOf(fn.Pkg()) == "agent" {
						why = fmt.Sprintf("%s, which works in place, at %s", fn.Name(), c.pos(s.Pos()))
						return false
					}
				}
				if d := c.declOf(fn); d != nil {
					if w := mutatesSliceParam(c, d, ai, depth+1, seen); w != "" {
						why = fmt.Sprintf("%s (called at %s): %s", fn.Name(), c.pos(s.Pos()), w)
						return false
					}
				}
			}
		}
		return true
	})
	return why
}

func checkArgumentsNotModified(c *Ctx, r *Rec, rule string, roles ...string) {
	n := 0
	for _, role := range roles {
		for _, fd := range c.allFuncDecls(role) {
			if !ast.IsExported(fd.Name.Name) {
				continue
			}
			info := c.infoFor(fd)
			for pi, p := range paramObjs(info, fd) {
				if _, isSlice := p.Type().Underlying().(*types.Slice); !isSlice {
					continue
				}
				n++
				construct := c.fdName(fd) + "/" + p.Name()
				if w := mutatesSliceParam(c, fd, pi, 0, map[string]bool{}); w != "" {
					r.fail(rule, construct, c.pos(fd.Pos()), fmt.Sprintf("the caller's Go array %s is written by %s: the argument of a constructor or a bulk operation is an input, and the caller finds its own array reordered or overwritten after the call", p.Name(), w))
				} else {
					r.ok(rule, construct, c.pos(fd.Pos()), "the argument is only read")
				}
			}
		}
	}
	_ = n
}

// ---------------------------------------------------------------- pointers to elements of a slice that grows

// checkElementPointersAcrossAppend: `&s[i]` kept (in a map, a variable, another slice) while s is
// still appended to.  An append that reallocates moves the elements; the pointers kept before go
// on pointing at the abandoned array, and writes through them are lost.
func checkElementPointersAcrossAppend(c *Ctx, r *Rec, rule string, fds []*ast.FuncDecl) {
	sites, bad := 0, 0
	for _, fd := range fds {
		info := c.infoFor(fd)
		if info == nil || fd.Body == nil {
			continue
		}
		type kept struct {
			obj types.Object
			at  ast.Node
		}
		var keeps []kept
		ast.Inspect(fd.Body, func(x ast.Node) bool {
			as, ok := x.(*ast.AssignStmt)
			if !ok {
				return true
			}
			for i, rh := range as.Rhs {
				u, ok := ast.Unparen(rh).(*ast.UnaryExpr)
				if !ok || u.Op != token.AND {
					continue
				}
				ix, ok := ast.Unparen(u.X).(*ast.IndexExpr)
				if !ok {
					continue
				}
				if _, isSlice := info.TypeOf(ix.X).Underlying().(*types.Slice); !isSlice {
					continue
				}
				o := identObj(info, ix.X)
				if o == nil || i >= len(as.Lhs) {
					continue
				}
				// stored somewhere that outlives the statement: a map or slice element, a field,
				// or a variable of an outer block
				switch l := ast.Unparen(as.Lhs[i]).(type) {
				case *ast.IndexExpr, *ast.SelectorExpr:
					keeps = append(keeps, kept{o, as})
					_ = l
				}
			}
			return true
		})
		for _, k := range keeps {
			sites++
			// an append to the same slice in a loop, or anywhere after the pointer was taken
			var grow ast.Node
			for _, l := range loopsIn(fd.Body) {
				ast.Inspect(l, func(y ast.Node) bool {
					if as, ok := y.(*ast.AssignStmt); ok && len(as.Lhs) == 1 && len(as.Rhs) == 1 && isObj(info, as.Lhs[0], k.obj) {
						if call, ok := ast.Unparen(as.Rhs[0]).(*ast.CallExpr); ok && isBuiltinCall(info, call, "append") && len(call.Args) >= 2 && isObj(info, call.Args[0], k.obj) {
							if as.Pos() > k.at.Pos() || containsNode(l, k.at) {
								grow = as
							}
						}
					}
					return true
				})
			}
			if grow == nil {
				continue
			}
			// the capacity the slice was made with covers every append only if it is not a bound
			// the rule can see through: a make with a capacity is not proof, so it is reported
			bad++
			r.fail(rule, c.fdName(fd)+"/"+k.obj.Name(), c.pos(k.at.Pos()), fmt.Sprintf("a pointer to an element of %s is kept at %s while %s is still appended to at %s: when an append has to reallocate, the elements move and the pointers kept before point at the abandoned array - what is written through them afterwards never reaches the slice", k.obj.Name(), c.pos(k.at.Pos()), k.obj.Name(), c.pos(grow.Pos())))
		}
	}
	if bad == 0 {
		r.ok(rule, "element-pointers", "", fmt.Sprintf("%d pointers to slice elements are kept; none of the slices grows afterwards", sites))
	}
}

// ---------------------------------------------------------------- a narrow counter in an unbounded loop

// checkNarrowCounters: a variable of an 8 or 16 bit integer type that is stepped once per round
// of a loop whose number of rounds is not bounded by that type wraps around.
func checkNarrowCounters(c *Ctx, r *Rec, rule string, fds []*ast.FuncDecl) {
	sites, bad := 0, 0
	for _, fd := range fds {
		info := c.infoFor(fd)
		if info == nil || fd.Body == nil {
			continue
		}
		ast.Inspect(fd.Body, func(x ast.Node) bool {
			fs, ok := x.(*ast.ForStmt)
			if !ok {
				return true
			}
			ast.Inspect(fs.Body, func(y ast.Node) bool {
				var target ast.Expr
				switch s := y.(type) {
				case *ast.IncDecStmt:
					target = s.X
				case *ast.AssignStmt:
					if (s.Tok == token.ADD_ASSIGN || s.Tok == token.SUB_ASSIGN) && len(s.Lhs) == 1 {
						target = s.Lhs[0]
					}
				}
				if target == nil {
					return true
				}
				t := info.TypeOf(target)
				if t == nil {
					return true
				}
				b, ok := t.Underlying().(*types.Basic)
				if !ok {
					return true
				}
				switch b.Kind() {
				case types.Int8, types.Uint8, types.Int16, types.Uint16:
				default:
					return true
				}
				o := identObj(info, target)
				if o == nil {
					return true
				}
				sites++
				// bounded by the loop's own condition on the counter?
				bounded := false
				if fs.Cond != nil {
					ast.Inspect(fs.Cond, func(z ast.Node) bool {
						if id, ok := z.(*ast.Ident); ok && info.Uses[id] == o {
							bounded = true
						}
						return true
					})
				}
				// reset inside the loop (a wrap by hand)?
				ast.Inspect(fs.Body, func(z ast.Node) bool {
					if as, ok := z.(*ast.AssignStmt); ok && as.Tok == token.ASSIGN {
						for _, l := range as.Lhs {
							if isObj(info, l, o) {
								bounded = true
							}
						}
					}
					return true
				})
				if !bounded {
					bad++
					r.fail(rule, c.fdName(fd)+"/"+o.Name(), c.pos(y.Pos()), fmt.Sprintf("%s is a %s that is stepped once per round of a loop whose number of rounds nothing ties to that type: after %d rounds it wraps around, and what is computed from it (a turn, a position) jumps", o.Name(), b.Name(), 1<<(8*sizeofKind(b.Kind()))))
				}
				return true
			})
			return true
		})
	}
	if bad == 0 {
		r.ok(rule, "narrow-counters", "", fmt.Sprintf("%d steps of 8 or 16 bit variables in loops, each bounded by the loop's condition or reset inside", sites))
	}
}

func sizeofKind(k types.BasicKind) uint {
	switch k {
	case types.Int8, types.Uint8:
		return 1
	}
	return 2
}

// ---------------------------------------------------------------- membership is not decided by sizes

// checkContainsNotDecidedBySizes: ContainsAll and ContainsAny answer about members.  An answer
// that is returned because of how the size of the operand compares with the size of the
// collection (the operand is longer, so not all of it can be inside) forgets that a sequence may
// name a member several times, and that a collator may rank several values equal to one member.
func checkContainsNotDecidedBySizes(c *Ctx, r *Rec, rule string, n *types.Named) {
	if n == nil {
		return
	}
	ms := c.methodsOf(n)
	er := &emptResolver{c: c}
	for _, name := range []string{"ContainsAll", "ContainsAny"} {
		entry := ms[name]
		if entry == nil || entry.Body == nil {
			continue
		}
		bad := ""
		// the method itself and the private methods it hands the question to
		todo := []*ast.FuncDecl{entry}
		ast.Inspect(entry.Body, func(x ast.Node) bool {
			if call, ok := x.(*ast.CallExpr); ok {
				if cf := calleeOf(c.infoFor(entry), call); cf != nil && !cf.Exported() {
					if hd := ms[cf.Name()]; hd != nil && hd.Body != nil && hd != entry {
						todo = append(todo, hd)
					}
				}
			}
			return true
		})
		for _, fd := range todo {
			info := c.infoFor(fd)
			g := newFG(info, fd.Body)
			inspectNoLit(fd.Body, func(x ast.Node) bool {
				rs, ok := x.(*ast.ReturnStmt)
				if !ok || len(rs.Results) != 1 || bad != "" {
					return true
				}
				if tv, ok := info.Types[rs.Results[0]]; !ok || tv.Value == nil {
					return true
				}
				pt, ok := g.locate(rs)
				if !ok {
					return true
				}
				var atoms []condAtom
				for _, ec := range g.edgeConds(pt) {
					atomsOf(ec.cond, ec.polarity, &atoms)
				}
				for _, a := range atoms {
					be, ok := a.e.(*ast.BinaryExpr)
					if !ok {
						continue
					}
					switch be.Op {
					case token.LSS, token.LEQ, token.GTR, token.GEQ:
					default:
						continue
					}
					if _, isC := constIntExpr(info, be.X); isC {
						continue
					}
					if _, isC := constIntExpr(info, be.Y); isC {
						continue
					}
					if er.isSize(fd, be.X, 0) && er.isSize(fd, be.Y, 0) {
						bad = fmt.Sprintf("the answer returned at %s is decided by %s, a comparison of two sizes: a sequence that names a member twice (or, under a coarse collator, several values that rank equal to one member) is longer than the collection and still contained in it", c.pos(rs.Pos()), exprStr(a.e))
					}
				}
				return true
			})
		}
		r.check(bad == "", rule, c.fdName(entry), c.pos(entry.Pos()), "no constant answer is selected by a comparison of the two sizes", bad)
	}
}

// ---------------------------------------------------------------- a table indexed by an enumeration covers it

// checkEnumIndexedTables: a package-level array that is indexed with a value of an enumerated
// type (a named integer type with constants) must be long enough for the largest constant: a
// keyed literal `[...]T{A: ..., M: ...}` is exactly as long as its largest key, and the constants
// behind it index out of range.
func checkEnumIndexedTables(c *Ctx, r *Rec, rule, role string) {
	info := c.info(role)
	p := c.Pkgs[role]
	if info == nil || p == nil {
		return
	}
	// largest constant per named integer type
	maxOf := map[*types.TypeName]int64{}
	nameOfMax := map[*types.TypeName]string{}
	scope := p.Types.Scope()
	for _, nm := range scope.Names() {
		cn, ok := scope.Lookup(nm).(*types.Const)
		if !ok {
			continue
		}
		named, ok := cn.Type().(*types.Named)
		if !ok {
			continue
		}
		v, exact := constant.Int64Val(constant.ToInt(cn.Val()))
		if !exact {
			continue
		}
		if cur, seen := maxOf[named.Obj()]; !seen || v > cur {
			maxOf[named.Obj()] = v
			nameOfMax[named.Obj()] = cn.Name()
		}
	}
	sites, bad := 0, 0
	for _, fd := range c.allFuncDecls(role) {
		ast.Inspect(fd.Body, func(x ast.Node) bool {
			ix, ok := x.(*ast.IndexExpr)
			if !ok {
				return true
			}
			at, ok := info.TypeOf(ix.X).Underlying().(*types.Array)
			if !ok {
				return true
			}
			named, ok := info.TypeOf(ix.Index).(*types.Named)
			if !ok {
				return true
			}
			mx, known := maxOf[named.Obj()]
			if !known {
				return true
			}
			sites++
			if at.Len() <= mx {
				// a guard on the index before the access?
				g := newFG(info, fd.Body)
				guarded := false
				if pt, ok := g.locate(ix); ok {
					for _, ec := range g.edgeConds(pt) {
						if strings.Contains(exprStr(ec.cond), exprStr(ix.Index)) {
							guarded = true
						}
					}
				}
				if !guarded {
					bad++
					r.fail(rule, c.fdName(fd)+"/"+exprStr(ix), c.pos(ix.Pos()), fmt.Sprintf("%s has %d entries and is indexed with a %s, whose constants go up to %s = %d: for that value the access is a Go run-time error (index out of range) instead of the entry - or the \"no entry\" answer - the table was written to give", exprStr(ix.X), at.Len(), named.Obj().Name(), nameOfMax[named.Obj()], mx))
				}
			}
			return true
		})
	}
	if bad == 0 {
		r.ok(rule, role+"/enum-indexed-tables", "", fmt.Sprintf("%d accesses of arrays with an enumerated index; every array is as long as the enumeration", sites))
	}
}

// ---------------------------------------------------------------- a clone that keeps nil

// checkCloneKeepsNil: slices.Clone(nil) is nil.  A collection whose storage is the result of
// slices.Clone of an argument is a nil slice for a nil argument, and nil is "undefined" to the
// collator: the empty collection made that way differs from every other empty collection.
func checkCloneKeepsNil(c *Ctx, r *Rec, rule string, fds []*ast.FuncDecl) {
	sites, bad := 0, 0
	for _, fd := range fds {
		info := c.infoFor(fd)
		if info == nil || fd.Body == nil {
			continue
		}
		params := map[types.Object]bool{}
		for _, p := range paramObjs(info, fd) {
			params[p] = true
		}
		ast.Inspect(fd.Body, func(x ast.Node) bool {
			rs, ok := x.(*ast.ReturnStmt)
			if !ok {
				return true
			}
			for _, res := range rs.Results {
				e := ast.Unparen(res)
				// strip conversions
				for {
					cv, ok := e.(*ast.CallExpr)
					if ok && len(cv.Args) == 1 {
						if tv, ok := info.Types[cv.Fun]; ok && tv.IsType() {
							e = ast.Unparen(cv.Args[0])
							continue
						}
					}
					break
				}
				if id, isId := e.(*ast.Ident); isId {
					// `var x []V` that is only ever extended with append inside loops or branches: nil
					// when nothing is appended
					if v, isVar := info.Uses[id].(*types.Var); isVar {
						if _, isSlice := v.Type().Underlying().(*types.Slice); isSlice && declaredWithoutValue(info, fd, v) {
							onlyAppends, unconditional := true, false
							ast.Inspect(fd.Body, func(y ast.Node) bool {
								as, ok := y.(*ast.AssignStmt)
								if !ok {
									return true
								}
								for li, l := range as.Lhs {
									if identObj(info, l) != types.Object(v) {
										continue
									}
									ap, isCall := ast.Unparen(as.Rhs[min(li, len(as.Rhs)-1)]).(*ast.CallExpr)
									if !isCall || !isBuiltinCall(info, ap, "append") || len(ap.Args) == 0 || identObj(info, ap.Args[0]) != types.Object(v) {
										onlyAppends = false
										continue
									}
									// conditional: inside a loop, an if or a switch
									cond := false
									chain := pathTo(fd.Body, as)
									for _, anc := range chain {
										switch anc.(type) {
										case *ast.ForStmt, *ast.RangeStmt, *ast.IfStmt, *ast.SwitchStmt, *ast.TypeSwitchStmt:
											cond = true
										}
									}
									if !cond {
										unconditional = true
									}
								}
								return true
							})
							if onlyAppends && !unconditional {
								sites++
								bad++
								r.fail(rule, c.fdName(fd)+"/"+id.Name, c.pos(id.Pos()), fmt.Sprintf("the result is made from %s, a Go array that is declared without a value and only ever extended with append inside loops or branches: when nothing is appended it is nil, not empty - the collection built around it is \"undefined\" to the collator and compares unequal to every other empty collection of its kind", id.Name))
								continue
							}
						}
					}
					if init := initOf(info, fd, id); init != nil {
						e = ast.Unparen(init)
					}
				}
				call, ok := e.(*ast.CallExpr)
				if !ok || len(call.Args) != 1 {
					continue
				}
				fn := calleeOf(info, call)
				if fn == nil || fn.Pkg() == nil || (fn.Pkg().Path() != "slices" && fn.Pkg().Path() != "maps") || fn.Name() != "Clone" {
					continue
				}
				sites++
				if o := identObj(info, call.Args[0]); o != nil && params[o] && fn.Pkg().Path() == "maps" {
					bad++
					r.fail(rule, c.fdName(fd)+"/"+exprStr(call), c.pos(call.Pos()), fmt.Sprintf("the result is %s of the argument %s: for a nil argument that is a nil Go map - it reads as empty, and the first value that is set in it is an assignment to an entry of a nil map (a run-time panic)", exprStr(call), o.Name()))
				} else if o != nil && params[o] {
					bad++
					r.fail(rule, c.fdName(fd)+"/"+exprStr(call), c.pos(call.Pos()), fmt.Sprintf("the result is %s of the argument %s: for a nil argument that is a nil slice, not an empty one - the collection built around it is \"undefined\" to the collator and ranks before, and compares unequal to, every other empty collection of its kind", exprStr(call), o.Name()))
				}
			}
			return true
		})
	}
	if bad == 0 {
		r.ok(rule, "nil-keeping-clones", "", fmt.Sprintf("%d results made with slices.Clone, none of an argument that may be nil", sites))
	}
}

// declaredWithoutValue: `var x T` (no initial value) in the function.
func declaredWithoutValue(info *types.Info, fd *ast.FuncDecl, v *types.Var) bool {
	found := false
	ast.Inspect(fd.Body, func(x ast.Node) bool {
		if vs, ok := x.(*ast.ValueSpec); ok && len(vs.Values) == 0 {
			for _, nm := range vs.Names {
				if info.Defs[nm] == types.Object(v) {
					found = true
				}
			}
		}
		return true
	})
	return found
}
