package main

// C01 D6 — rebuild-step rules for the list mutators.
//
// Every list mutator builds a new array element by element.  The rules below are
// local (per path through a loop body, decided by SYM) and together they are the
// induction step of "positions are filled consecutively from 1, each with the
// element just fetched from the right source":
//   R1 stride    - a path writes at most once into each new array; the write goes to the
//                  slot next to the previous one and the position variable advances by
//                  exactly one (no write: it does not move);
//   R2 source    - what is written is the element fetched from an iterator on that same
//                  path (or the method's value parameter); a fetched element is written
//                  exactly once, except on the documented skip path of RemoveValue;
//   R3 start     - the position variable starts at the value its stride style needs;
//   R4 guards    - the paths that differ (insert-here, skip-this, goes-to-removed) are
//                  taken exactly on the documented condition;
//   R5 sequence  - the loops enumerate the documented sources in the documented order.

import (
	"fmt"
	"go/ast"
	"go/token"
	"go/types"
	"sort"
	"strings"
)

type rbWrite struct {
	array types.Object
	pos   *Lin
	val   string
	cube  Cube
}

type rbPath struct {
	writes  []rbWrite
	fetches []string // sources fetched on this path, in order
	p       symPath
}

type rebuildCtx struct {
	c      *Ctx
	info   *types.Info
	fd     *ast.FuncDecl
	recv   types.Object
	arrays map[types.Object]bool
	params []*types.Var
	norm   *types.Func
}

// itSourceKey: state key under which the current source of an iterator variable is tracked.
func itSourceKey(o types.Object) string { return "itsrc:" + objKey(o) }

func (rc *rebuildCtx) newEnv() (*symEnv, *[]rbWrite, *[]string) {
	info := rc.info
	env := collectionSymEnv(rc.c, info, rc.fd, nil)
	if rc.norm != nil {
		zResolve(env, info, rc.norm)
	}
	var writes []rbWrite
	var fetches []string
	base := env.resolve
	env.resolve = func(e ast.Expr) (Val, bool) {
		call, ok := e.(*ast.CallExpr)
		if ok {
			if rx, mname, _, ok := methodCall(call); ok {
				o := identObj(info, rx)
				switch {
				case mname == "GetNext" && o != nil && len(call.Args) == 0:
					src := "?"
					if v, ok := env.cur.vars[itSourceKey(o)]; ok {
						src = v.Opaque
					}
					n := 0
					if v, ok := env.cur.vars["fetched"]; ok && v.Lin != nil {
						n = int(v.Lin.K)
					}
					env.cur.vars["fetched"] = Val{Lin: linConst(int64(n + 1))}
					env.cur.calls = append(env.cur.calls, "fetch "+src)
					return Val{Opaque: fmt.Sprintf("elem:%s#%d", src, n+1)}, true
				case mname == "SetValue" && o != nil && rc.arrays[o] && len(call.Args) == 2:
					pos := env.eval(env.cur, call.Args[0])
					val := env.eval(env.cur, call.Args[1])
					vs := val.Opaque
					if id, ok := ast.Unparen(call.Args[1]).(*ast.Ident); ok {
						for _, p := range rc.params {
							if info.Uses[id] == p {
								vs = "param:" + p.Name()
							}
						}
					}
					env.cur.calls = append(env.cur.calls, fmt.Sprintf("write %s %s", objKey(o), vs))
					writes = append(writes, rbWrite{array: o, pos: pos.Lin, val: vs, cube: append(Cube{}, env.cur.cube...)})
					return Val{Opaque: "written"}, true
				case mname == "HasNext" && o != nil:
					return Val{B: fLe0(linSym("pred:more:" + objKey(o)).scale(-1).plus(1))}, true
				}
			}
		}
		if base != nil {
			return base(e)
		}
		return Val{}, false
	}
	env.onAssign = func(st *symState, lhs ast.Expr, rhs ast.Expr) {
		o := identObj(info, lhs)
		if o == nil {
			return
		}
		if rx, mname, _, ok := methodCall(ast.Unparen(rhs)); ok && mname == "GetIterator" {
			src := "?"
			switch {
			case recvRooted(info, rx, rc.recv):
				src = "recv"
			default:
				for _, p := range rc.params {
					if isObj(info, rx, p) {
						src = "operand"
					}
				}
			}
			st.vars[itSourceKey(o)] = Val{Opaque: src}
		}
	}
	return env, &writes, &fetches
}

// checkRebuildSteps runs the rules on every mutator of the list type.
func checkRebuildSteps(c *Ctx, r *Rec, info *types.Info, lst *types.Named, norm *types.Func) {
	storage := c.fieldOfIface(lst, "collection", "ArrayLike")
	ms := c.methodsOf(lst)
	type expect struct {
		loops []string // expected source of each top-level loop, in order
		tail  string   // expected straight-line write after the loops ("param" or "")
	}
	table := map[string]expect{
		"AppendValue":  {[]string{"recv"}, "param"},
		"AppendValues": {[]string{"recv", "operand"}, ""},
		"InsertValue":  {[]string{"recv+param"}, ""},
		"InsertValues": {[]string{"recv", "operand", "recv"}, ""},
		"RemoveValue":  {[]string{"recv-skip"}, ""},
		"RemoveValues": {[]string{"recv-split"}, ""},
	}
	for _, name := range sortedKeys(table) {
		fd := ms[name]
		construct := "collection." + lst.Obj().Name() + "." + name
		if fd == nil {
			r.undecided("D6-rebuild-step", construct, "", "mutator not found")
			continue
		}
		rc := &rebuildCtx{c: c, info: info, fd: fd, recv: recvObj(info, fd), arrays: map[types.Object]bool{}, params: paramObjs(info, fd), norm: norm}
		// new arrays: locals initialised by X.Make(size)
		ast.Inspect(fd.Body, func(x ast.Node) bool {
			if lhs, rhs, ok := multiDef(x); ok && len(lhs) == 1 {
				if _, mname, call, ok := methodCall(ast.Unparen(rhs)); ok && mname == "Make" && len(call.Args) == 1 {
					if o := identObj(info, lhs[0]); o != nil && isCollectionLike(o.Type()) {
						rc.arrays[o] = true
					}
				}
			}
			return true
		})
		if len(rc.arrays) == 0 {
			r.skip("D6-rebuild-step", construct, c.pos(fd.Pos()), "the mutator does not build a new array with Make(size): the rebuild-step rules apply to the rebuild design only")
			continue
		}
		var committed, returned types.Object
		ast.Inspect(fd.Body, func(x ast.Node) bool {
			switch s := x.(type) {
			case *ast.AssignStmt:
				for i, l := range s.Lhs {
					if selectorField(info, l) == storage && i < len(s.Rhs) {
						committed = identObj(info, s.Rhs[i])
					}
				}
			case *ast.ReturnStmt:
				if len(s.Results) == 1 {
					if o := identObj(info, s.Results[0]); o != nil && rc.arrays[o] {
						returned = o
					}
				}
			}
			return true
		})
		var viol, undec []string
		if committed == nil || !rc.arrays[committed] {
			viol = append(viol, "the array committed to the storage field is not one of the arrays built in the call")
		}
		// ---- interpret the whole body; loops are analysed by the hook and then havocked
		env, _, _ := rc.newEnv()
		env.havocLoops = true
		var loopSources []string
		posStart := map[string]*Lin{} // position variable -> value before the first loop that uses it
		posStyle := map[string]string{}
		env.onLoop = func(st *symState, loop ast.Stmt) {
			// only top-level loops of the method body
			top := false
			for _, s := range fd.Body.List {
				if s == loop {
					top = true
				}
			}
			if !top {
				return
			}
			src, v, u := rc.analyseLoop(st, loop, name, committed, returned, posStart, posStyle)
			loopSources = append(loopSources, src)
			viol = append(viol, v...)
			undec = append(undec, u...)
			// after the loop every iterator that the loop advances is exhausted; keep sources
		}
		// straight-line writes (outside loops) are collected from the path log
		paths := symRun(env, fd.Body)
		for _, p := range env.problems {
			undec = append(undec, p)
		}
		// R5 sequence
		want := table[name]
		if strings.Join(loopSources, ",") != strings.Join(want.loops, ",") {
			a, b := append([]string{}, loopSources...), append([]string{}, want.loops...)
			sort.Strings(a)
			sort.Strings(b)
			if strings.Join(a, ",") == strings.Join(b, ",") {
				viol = append(viol, fmt.Sprintf("the loops enumerate [%s], the documented order of sources is [%s]", strings.Join(loopSources, ", "), strings.Join(want.loops, ", ")))
			} else {
				// a different decomposition of the rebuild (helpers, split loops): the step rules
				// below were written for the reference decomposition and claim nothing here.
				r.skip("D6-rebuild-step", construct, c.pos(fd.Pos()), fmt.Sprintf("the method's loops enumerate [%s]; the rebuild-step rules are bound to the decomposition [%s]", strings.Join(loopSources, ", "), strings.Join(want.loops, ", ")))
				continue
			}
		}
		// tail write (AppendValue): after the loop, position+1 gets the value parameter
		if want.tail == "param" {
			okTail := false
			for _, p := range paths {
				for _, cl := range p.Calls {
					if strings.HasPrefix(cl, "write ") && strings.HasSuffix(cl, " param:"+rc.params[len(rc.params)-1].Name()) {
						okTail = true
					}
				}
			}
			if !okTail {
				viol = append(viol, "after the existing values the method does not write its value parameter into the new array")
			}
		}
		// R3 start values
		var pv []string
		for k := range posStyle {
			pv = append(pv, k)
		}
		sort.Strings(pv)
		for _, k := range pv {
			start := posStart[k]
			wantStart := int64(0)
			if posStyle[k] == "B" {
				wantStart = 1
			}
			if start != nil && !start.isConst() {
				undec = append(undec, fmt.Sprintf("the position variable %s starts at %v, where an earlier loop stopped: another formulation, the first slot is not checked", strings.SplitN(k, "@", 2)[0], start))
			} else if start == nil || !start.isConst() || start.K != wantStart {
				viol = append(viol, fmt.Sprintf("the position variable %s starts at %v, but its loop writes %s: the first element lands at the wrong ordinal", strings.SplitN(k, "@", 2)[0], start, map[string]string{"A": "after incrementing (it must start at 0)", "B": "before incrementing (it must start at 1)"}[posStyle[k]]))
			}
		}
		switch {
		case len(viol) > 0:
			r.fail("D6-rebuild-step", construct, c.pos(fd.Pos()), strings.Join(dedup(viol), " | "))
		case len(undec) > 0:
			r.skip("D6-rebuild-step", construct, c.pos(fd.Pos()), strings.Join(dedup(undec), " | "))
		default:
			r.ok("D6-rebuild-step", construct, c.pos(fd.Pos()), fmt.Sprintf("loops over [%s]: every path writes the element it fetched to the next slot, the position advances by one, guards as documented", strings.Join(loopSources, ", ")))
		}
	}
}

// analyseLoop interprets one iteration of a top-level loop from a generic state.
func (rc *rebuildCtx) analyseLoop(outer *symState, loop ast.Stmt, method string, committed, returned types.Object, posStart map[string]*Lin, posStyle map[string]string) (source string, viol, undec []string) {
	fs, ok := loop.(*ast.ForStmt)
	if !ok {
		return "?", nil, []string{"a rebuild loop is not a for statement"}
	}
	env, writes, _ := rc.newEnv()
	// the init statement of the loop (for ordinal := 1; ...) belongs to the state before the loop
	if fs.Init != nil {
		if sts := env.exec(outer.clone(), fs.Init); len(sts) == 1 && len(env.problems) == 0 {
			outer = sts[0]
		}
		env.problems = nil
	}
	// generic pre-state: every variable assigned in the loop is a symbol of its own name
	env.init = map[string]Val{}
	var carried []string
	ast.Inspect(fs, func(x ast.Node) bool {
		var keys []string
		switch a := x.(type) {
		case *ast.AssignStmt:
			for _, l := range a.Lhs {
				keys = append(keys, env.lvalKey(l))
			}
		case *ast.IncDecStmt:
			keys = append(keys, env.lvalKey(a.X))
		}
		for _, k := range keys {
			if k == "" || k == "_" {
				continue
			}
			if old, ok := outer.vars[k]; ok && old.Lin != nil {
				nm := strings.SplitN(k, "@", 2)[0]
				env.init[k] = Val{Lin: linSym(nm)}
				carried = append(carried, k)
			}
		}
		return true
	})
	// iterator sources and other facts known before the loop
	for k, v := range outer.vars {
		if strings.HasPrefix(k, "itsrc:") {
			env.init[k] = v
		} else if _, isCarried := env.init[k]; !isCarried && v.Lin != nil {
			env.init[k] = v // loop-invariant values (slot, first, last, size ...)
		}
	}
	// the loop condition holds at the top of the body
	condEnv := env
	st0 := &symState{vars: map[string]Val{}}
	for k, v := range env.init {
		st0.vars[k] = v
	}
	cond := condEnv.eval(st0, fs.Cond)
	var condCubes []Cube
	if cond.B != nil {
		condCubes = dnf(cond.B)
	} else {
		condCubes = []Cube{{}}
	}
	*writes = nil
	env.loopBody = true
	body := fs.Body
	if fs.Post != nil {
		hasContinue := false
		ast.Inspect(fs.Body, func(x ast.Node) bool {
			if b, ok := x.(*ast.BranchStmt); ok && b.Tok == token.CONTINUE {
				hasContinue = true
			}
			return true
		})
		if hasContinue {
			return "?", nil, []string{"a rebuild loop has a post statement and a continue"}
		}
		body = &ast.BlockStmt{Lbrace: fs.Body.Lbrace, Rbrace: fs.Body.Rbrace, List: append(append([]ast.Stmt{}, fs.Body.List...), fs.Post)}
	}
	paths := symRun(env, body)
	if len(env.problems) > 0 {
		return "?", nil, env.problems
	}
	// group the writes by path (cube prefix match)
	var rps []rbPath
	for _, p := range paths {
		rp := rbPath{p: p}
		for _, cl := range p.Calls {
			if strings.HasPrefix(cl, "fetch ") {
				rp.fetches = append(rp.fetches, strings.TrimPrefix(cl, "fetch "))
			}
		}
		rps = append(rps, rp)
	}
	// attach writes: a write belongs to the paths whose cube extends the write's cube and whose call log contains it
	for _, w := range *writes {
		for i := range rps {
			if cubeExtends(rps[i].p.Cube, w.cube) {
				n := 0
				for _, cl := range rps[i].p.Calls {
					if cl == fmt.Sprintf("write %s %s", objKey(w.array), w.val) {
						n++
					}
				}
				have := 0
				for _, ew := range rps[i].writes {
					if ew.array == w.array && ew.val == w.val {
						have++
					}
				}
				if have < n {
					rps[i].writes = append(rps[i].writes, w)
				}
			}
		}
	}
	srcSet := map[string]bool{}
	paramWrite, skipPath, splitPath := false, false, false
	feasibleWithCond := func(cube Cube) bool {
		for _, cc := range condCubes {
			all := append(append(append(Cube{}, env.base...), cc...), cube...)
			if s, _ := feasible(all); s {
				return true
			}
		}
		return false
	}
	for _, rp := range rps {
		if rp.p.Kind == "panic" || !feasibleWithCond(rp.p.Cube) {
			continue
		}
		where := "on {" + rp.p.Cube.String() + "}"
		for _, f := range rp.fetches {
			srcSet[f] = true
		}
		if len(rp.fetches) > 1 {
			viol = append(viol, where+" two elements are fetched in one iteration: one of them is lost")
		}
		perArray := map[types.Object]int{}
		for _, w := range rp.writes {
			perArray[w.array]++
			if w.pos == nil {
				viol = append(viol, where+" an element is written at a non-linear position")
				continue
			}
			// R1: position variable
			var pvKey, pvName string
			for s := range w.pos.C {
				for _, k := range carried {
					if strings.SplitN(k, "@", 2)[0] == s {
						pvKey, pvName = k, s
					}
				}
			}
			if pvKey == "" {
				viol = append(viol, fmt.Sprintf("%s the write position %v does not advance with the loop: every iteration overwrites the same slot", where, w.pos))
				continue
			}
			pre := linSym(pvName)
			post := rp.p.State[pvKey].Lin
			style := ""
			switch {
			case w.pos.equal(pre.plus(1)):
				style = "A"
			case w.pos.equal(pre):
				style = "B"
			default:
				viol = append(viol, fmt.Sprintf("%s the element is written at %v, neither the slot after nor at the current position %s: a slot is skipped or overwritten", where, w.pos, pvName))
			}
			if post == nil || !post.equal(pre.plus(1)) {
				viol = append(viol, fmt.Sprintf("%s the position %s becomes %v after a write, required %s+1: the next element overwrites this one or leaves a gap", where, pvName, post, pvName))
			}
			if style != "" {
				if old, ok := posStyle[pvKey]; ok && old != style {
					viol = append(viol, "the loops mix write-then-step and step-then-write on "+pvName)
				}
				posStyle[pvKey] = style
				if _, ok := posStart[pvKey]; !ok {
					posStart[pvKey] = outer.vars[pvKey].Lin
				}
			}
			// R2: source of the value
			switch {
			case strings.HasPrefix(w.val, "param:"):
				paramWrite = true
				if len(rp.fetches) > 0 {
					viol = append(viol, where+" an element is fetched but the value parameter is written instead: the fetched element is dropped")
				}
			case strings.HasPrefix(w.val, "elem:"):
				if len(rp.fetches) == 0 {
					viol = append(viol, where+" the value written was not fetched in this iteration")
				}
			default:
				viol = append(viol, fmt.Sprintf("%s the value written (%s) is neither the element just fetched nor the method's value parameter", where, w.val))
			}
		}
		for a, n := range perArray {
			if n > 1 {
				viol = append(viol, fmt.Sprintf("%s %d writes into %s in one iteration", where, n, a.Name()))
			}
		}
		// position variables must not move on paths without a write to their array
		if len(rp.writes) == 0 {
			for _, k := range carried {
				nm := strings.SplitN(k, "@", 2)[0]
				if _, isPos := posStyle[k]; isPos {
					if post := rp.p.State[k].Lin; post != nil && !post.equal(linSym(nm)) {
						viol = append(viol, fmt.Sprintf("%s nothing is written but the position %s moves to %v: a slot stays at the zero value", where, nm, post))
					}
				}
			}
		}
		if len(rp.fetches) == 1 && len(rp.writes) == 0 {
			skipPath = true
			if method != "RemoveValue" {
				viol = append(viol, where+" an element is fetched and not written anywhere: it is dropped from the list")
			} else {
				// R4: skipped exactly when the element's ordinal is the normalised index:
				// a countdown from z that reaches zero, or a count-up from 0 that reaches z.
				okGuard, recognised := false, false
				full := append(append(Cube{}, env.base...), rp.p.Cube...)
				for _, ck := range carried {
					nm := strings.SplitN(ck, "@", 2)[0]
					post := rp.p.State[ck].Lin
					if post == nil {
						continue
					}
					start := outer.vars[ck].Lin
					switch {
					case post.equal(linSym(nm).plus(-1)): // a countdown
						recognised = true
						if entailsCube(full, eq(post, linConst(0))) && start != nil && isZSym(start) {
							okGuard = true
						}
					case post.equal(linSym(nm).plus(1)): // a count-up
						if _, isPos := posStyle[ck]; isPos {
							continue
						}
						recognised = true
						if start != nil && start.isConst() && start.K == 0 {
							for _, ov := range outer.vars {
								if ov.Lin != nil && isZSym(ov.Lin) && entailsCube(full, eq(post, ov.Lin)) {
									okGuard = true
								}
							}
						}
						// an ordinal counter: it starts at 1 and is stepped behind the test, so the element
						// that is looked at has the ordinal the counter shows
						if start != nil && start.isConst() && start.K == 1 {
							for _, ov := range outer.vars {
								if ov.Lin != nil && isZSym(ov.Lin) && entailsCube(full, eq(post.plus(-1), ov.Lin)) {
									okGuard = true
								}
							}
						}
					}
				}
				if !recognised {
					undec = append(undec, where+" the element is skipped under a guard that is neither a countdown nor a count-up of fetched elements")
				} else if !okGuard {
					viol = append(viol, where+" the element is skipped, but not exactly when its ordinal is the normalised index: the wrong element is removed")
				}
			}
		}
		if len(rp.fetches) == 1 && len(rp.writes) == 1 && returned != nil && rp.writes[0].array == returned && returned != committed {
			splitPath = true
		}
	}
	_ = splitPath
	// classify the loop
	var srcs []string
	for s := range srcSet {
		srcs = append(srcs, s)
	}
	sort.Strings(srcs)
	source = strings.Join(srcs, "+")
	if paramWrite {
		source += "+param"
		// R4 (InsertValue): the parameter goes in exactly when the position equals the slot
		for _, rp := range rps {
			if !feasibleWithCond(rp.p.Cube) {
				continue
			}
			isParam := false
			for _, w := range rp.writes {
				if strings.HasPrefix(w.val, "param:") {
					isParam = true
				}
			}
			slotSym := ""
			for _, p := range rc.params {
				if b, ok := p.Type().Underlying().(*types.Basic); ok && b.Kind() == types.Uint {
					slotSym = p.Name()
				}
			}
			if slotSym == "" {
				continue
			}
			full := append(append(Cube{}, env.base...), rp.p.Cube...)
			// position variable: the carried variable in the write position
			for _, w := range rp.writes {
				if w.pos == nil {
					continue
				}
				// stated on the place that is written (whatever the counter that leads there counts):
				// the parameter lands at ordinal slot+1, and nothing else does
				atSlot := eq(w.pos, linSym(slotSym).plus(1))
				if isParam && !entailsCube(full, atSlot) {
					viol = append(viol, fmt.Sprintf("the value parameter is inserted on {%s} at ordinal %v, required ordinal %s+1", rp.p.Cube, w.pos, slotSym))
				}
				if !isParam && satOK(full, atSlot) {
					viol = append(viol, fmt.Sprintf("an existing element is copied on {%s} to ordinal %v, which can be %s+1: the inserted value is not placed at its slot", rp.p.Cube, w.pos, slotSym))
				}
			}
		}
	}
	if skipPath && method == "RemoveValue" {
		source += "-skip"
		// the countdown starts at the normalised index: checked through the z-symbol in the outer state
		okStart := false
		for k, v := range outer.vars {
			_ = k
			if v.Lin != nil {
				for s := range v.Lin.C {
					if strings.HasPrefix(s, "z:") && len(v.Lin.C) == 1 && v.Lin.K == 0 {
						okStart = true
					}
				}
			}
		}
		if !okStart {
			viol = append(viol, "the countdown that selects the element to skip does not start at the normalised index")
		}
	}
	if method == "RemoveValues" {
		source += "-split"
		// R4: elements go to the returned array exactly for first <= counter <= last (after the step)
		for _, rp := range rps {
			if len(rp.writes) != 1 || !feasibleWithCond(rp.p.Cube) {
				continue
			}
			full := append(append(Cube{}, env.base...), rp.p.Cube...)
			// the counter: the carried variable stepped on every path that is not a position variable
			var cnt *Lin
			for _, k := range carried {
				if _, isPos := posStyle[k]; isPos {
					continue
				}
				nm := strings.SplitN(k, "@", 2)[0]
				if post := rp.p.State[k].Lin; post != nil && post.equal(linSym(nm).plus(1)) {
					cnt = post
				}
			}
			var zs []string
			for _, v := range outer.vars {
				if v.Lin != nil && len(v.Lin.C) == 1 && v.Lin.K == 0 {
					for s := range v.Lin.C {
						if strings.HasPrefix(s, "z:") {
							zs = append(zs, s)
						}
					}
				}
			}
			sort.Strings(zs)
			zs = dedup(zs)
			if cnt == nil || len(zs) != 2 || len(rc.params) != 2 {
				undec = append(undec, "cannot bind the element counter and the two normalised range bounds of RemoveValues")
				break
			}
			zf, zl := linSym("z:"+rc.params[0].Name()), linSym("z:"+rc.params[1].Name())
			inRange := and(ge(cnt, zf), le(cnt, zl))
			toReturned := rp.writes[0].array == returned
			if toReturned && !entailsCube(full, inRange) {
				viol = append(viol, fmt.Sprintf("an element goes to the returned (removed) sequence on {%s}, required exactly for first <= ordinal <= last", rp.p.Cube))
			}
			if !toReturned && satOK(full, inRange) {
				viol = append(viol, fmt.Sprintf("an element inside the removed range stays in the list on {%s}", rp.p.Cube))
			}
		}
	}
	// bound of a counting prefix loop (InsertValues' first loop): index < slot
	if source == "recv" && fs.Cond != nil {
		if be, ok := ast.Unparen(fs.Cond).(*ast.BinaryExpr); ok && be.Op == token.LSS {
			// nothing to check here beyond R1/R2: the bound being the slot is R5's business
			bound := env.eval(st0, be.Y)
			slotSym := ""
			for _, p := range rc.params {
				if b, ok := p.Type().Underlying().(*types.Basic); ok && b.Kind() == types.Uint {
					slotSym = p.Name()
				}
			}
			if slotSym != "" && (bound.Lin == nil || !bound.Lin.equal(linSym(slotSym))) {
				viol = append(viol, fmt.Sprintf("the loop that copies the elements preceding the insertion point runs up to %v, required up to the slot", bound))
			}
		}
	}
	return source, viol, undec
}

// isZSym: the linear form is exactly one normalised-index symbol z:<param>.
func isZSym(l *Lin) bool {
	if l == nil || l.K != 0 || len(l.C) != 1 {
		return false
	}
	for s, k := range l.C {
		return strings.HasPrefix(s, "z:") && k == 1
	}
	return false
}

// cubeExtends: every atom of small occurs in big (by rendering).
func cubeExtends(big, small Cube) bool {
	have := map[string]bool{}
	for _, a := range big {
		have[a.String()] = true
	}
	for _, a := range small {
		if !have[a.String()] {
			return false
		}
	}
	return true
}
