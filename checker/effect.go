package main

// EFFECT engine: post-construction write sets, lock regions, shared-state reachability.

import (
	"fmt"
	"go/ast"
	"go/token"
	"go/types"
	"os"
	"sort"
	"strings"

	"golang.org/x/tools/go/cfg"
)

// ---------------------------------------------------------------- write sets

type fieldWrite struct {
	Field *types.Var
	Pos   token.Pos
	How   string
	In    *ast.FuncDecl
}

// fieldWrites lists every post-construction write to a struct field in the
// repository: assignments, inc/dec, address-of, and calls of pointer-receiver
// methods of standard-library value types through the field (strings.Builder…).
func (c *Ctx) fieldWrites() map[*types.Var][]fieldWrite {
	if v, ok := c.cache["fieldWrites"]; ok {
		return v.(map[*types.Var][]fieldWrite)
	}
	out := map[*types.Var][]fieldWrite{}
	for _, role := range []string{"agent", "collection", "cdcn", "module"} {
		info := c.info(role)
		for _, fd := range c.allFuncDecls(role) {
			fd := fd
			add := func(e ast.Expr, how string, pos token.Pos) {
				if underConstruction(info, fd, e) {
					return // a field of an object created in this very function: still construction
				}
				if f := selectorField(info, e); f != nil {
					out[f.Origin()] = append(out[f.Origin()], fieldWrite{Field: f.Origin(), Pos: pos, How: how, In: fd})
				}
			}
			ast.Inspect(fd.Body, func(x ast.Node) bool {
				switch s := x.(type) {
				case *ast.AssignStmt:
					for _, l := range s.Lhs {
						add(l, "assigned", s.Pos())
						// element store through a field: v.f[i] = x
						if ix, ok := ast.Unparen(l).(*ast.IndexExpr); ok {
							add(ix.X, "element stored", s.Pos())
						}
					}
				case *ast.IncDecStmt:
					add(s.X, "stepped", s.Pos())
				case *ast.UnaryExpr:
					if s.Op == token.AND {
						add(s.X, "address taken", s.Pos())
					}
				case *ast.CallExpr:
					// v.f.M() where M has a pointer receiver on a non-repository value type
					if sel, ok := ast.Unparen(s.Fun).(*ast.SelectorExpr); ok {
						if f := selectorField(info, sel.X); f != nil {
							if fn := calleeOf(info, s); fn != nil && c.roleOf(fn.Pkg()) == "" {
								if sig, ok := fn.Type().(*types.Signature); ok && sig.Recv() != nil {
									if _, isPtr := sig.Recv().Type().(*types.Pointer); isPtr {
										if _, fIsPtr := f.Type().Underlying().(*types.Pointer); !fIsPtr {
											if !isSyncType(f.Type()) {
												add(sel.X, "mutated through "+fn.Name(), s.Pos())
											}
										}
									}
								}
							}
						}
					}
					// delete(v.f, k), close handled elsewhere
					if isBuiltinCall(info, s, "delete") && len(s.Args) == 2 {
						add(s.Args[0], "element deleted", s.Pos())
					}
				}
				return true
			})
		}
	}
	c.cache["fieldWrites"] = out
	return out
}

// underConstruction: e is X.f where X is a local variable whose only definition in fd is a
// composite literal, its address, or new(T): the object has not left the function yet.
func underConstruction(info *types.Info, fd *ast.FuncDecl, e ast.Expr) bool {
	se, ok := ast.Unparen(e).(*ast.SelectorExpr)
	if !ok {
		return false
	}
	id, ok := ast.Unparen(se.X).(*ast.Ident)
	if !ok {
		return false
	}
	v, ok := info.Uses[id].(*types.Var)
	if !ok || v.IsField() || v.Parent() == nil || v.Parent() == v.Pkg().Scope() {
		return false
	}
	init := initOf(info, fd, id)
	if init == nil {
		init = freshDefinitionBefore(info, fd, se, v)
	}
	if init == nil {
		return false
	}
	init = ast.Unparen(init)
	if u, ok := init.(*ast.UnaryExpr); ok && u.Op == token.AND {
		init = ast.Unparen(u.X)
	}
	if _, ok := init.(*ast.CompositeLit); ok {
		return true
	}
	if call, ok := init.(*ast.CallExpr); ok && isBuiltinCall(info, call, "new") {
		return true
	}
	// an element of a slice that was made in this function: slot := &storage[i]
	if ix, ok := init.(*ast.IndexExpr); ok {
		if sid, ok := ast.Unparen(ix.X).(*ast.Ident); ok {
			if sinit := initOf(info, fd, sid); sinit != nil {
				if call, ok := ast.Unparen(sinit).(*ast.CallExpr); ok && isBuiltinCall(info, call, "make") {
					return true
				}
			}
		}
	}
	return false
}

// freshDefinitionBefore: the local v has several definitions in fd (the style that declares every
// local at the head of the function and assigns it where it is needed).  The write through se lies
// in a statement of some list; an earlier statement of the same list is `v = E`, and the
// statements in between mention v only as the base of field writes whose values do not mention
// it: that assignment is the definition in force at se, and what it made has not left the
// function.  No function literal of fd mentions v.
func freshDefinitionBefore(info *types.Info, fd *ast.FuncDecl, se *ast.SelectorExpr, v *types.Var) ast.Expr {
	if fd == nil || fd.Body == nil {
		return nil
	}
	captured := false
	ast.Inspect(fd.Body, func(x ast.Node) bool {
		if fl, ok := x.(*ast.FuncLit); ok {
			if mentionsObj(info, fl, v) {
				captured = true
			}
			return false
		}
		return !captured
	})
	if captured {
		return nil
	}
	var found ast.Expr
	fieldWriteOnly := func(s ast.Stmt) bool {
		as, ok := s.(*ast.AssignStmt)
		if !ok || as.Tok != token.ASSIGN {
			return false
		}
		for _, l := range as.Lhs {
			ls, ok := ast.Unparen(l).(*ast.SelectorExpr)
			if !ok {
				if mentionsObj(info, l, v) {
					return false
				}
				continue
			}
			if b, ok := ast.Unparen(ls.X).(*ast.Ident); !ok || info.Uses[b] != types.Object(v) {
				if mentionsObj(info, l, v) {
					return false
				}
			}
		}
		for _, rh := range as.Rhs {
			if mentionsObj(info, rh, v) {
				return false
			}
		}
		return true
	}
	search := func(list []ast.Stmt) {
		at := -1
		for i, s := range list {
			// by identity: the copies the inliner makes share one position
			inside := false
			ast.Inspect(s, func(x ast.Node) bool {
				if x == ast.Node(se) {
					inside = true
				}
				return !inside
			})
			if inside {
				at = i
				break
			}
		}
		if at < 0 || found != nil {
			return
		}
		// the write itself must be a plain field write (not nested in a compound statement that
		// could be a loop around the list)
		if !fieldWriteOnly(list[at]) {
			return
		}
		for j := at - 1; j >= 0; j-- {
			if !mentionsObj(info, list[j], v) {
				continue
			}
			if as, ok := list[j].(*ast.AssignStmt); ok && as.Tok == token.ASSIGN && len(as.Lhs) == 1 && len(as.Rhs) == 1 {
				if lid, ok := as.Lhs[0].(*ast.Ident); ok && info.Uses[lid] == types.Object(v) && !mentionsObj(info, as.Rhs[0], v) {
					found = as.Rhs[0]
					return
				}
			}
			if !fieldWriteOnly(list[j]) {
				return
			}
		}
	}
	ast.Inspect(fd.Body, func(x ast.Node) bool {
		switch b := x.(type) {
		case *ast.FuncLit:
			return false
		case *ast.BlockStmt:
			search(b.List)
		case *ast.CaseClause:
			search(b.Body)
		case *ast.CommClause:
			search(b.Body)
		}
		return found == nil
	})
	return found
}

func isSyncType(t types.Type) bool {
	n := derefNamed(t)
	return n != nil && n.Obj().Pkg() != nil && (n.Obj().Pkg().Path() == "sync" || n.Obj().Pkg().Path() == "sync/atomic")
}

// mutableFields returns the written fields of a struct type (origin fields).
func (c *Ctx) mutableFields(n *types.Named) []*types.Var {
	st := structOf(n)
	if st == nil {
		return nil
	}
	fw := c.fieldWrites()
	var out []*types.Var
	for i := 0; i < st.NumFields(); i++ {
		f := st.Field(i)
		if len(fw[f.Origin()]) > 0 {
			out = append(out, f)
		}
	}
	return out
}

// monitorParts: when n is a struct that carries a mutex (directly or in an embedded private
// struct) and every post-construction write of every field of n and of its embedded parts lies
// inside a lock region of that mutex, n is a monitor: the named types of its embedded parts (and
// n itself) are returned; their mutable fields are synchronised state.  nil otherwise.
func (c *Ctx) monitorParts(n *types.Named) map[*types.TypeName]bool {
	st := structOf(n)
	if st == nil {
		return nil
	}
	var mutexF *types.Var
	for _, f := range flatFields(n) {
		if isSyncType(f.Type()) {
			if _, isPtr := f.Type().(*types.Pointer); !isPtr {
				mutexF = f
			}
		}
	}
	if mutexF == nil {
		return nil
	}
	fw := c.fieldWrites()
	graphs := map[*ast.FuncDecl]*lockInfo{}
	writes := 0
	for _, f := range flatFields(n) {
		for _, w := range fw[f.Origin()] {
			if w.In == nil || w.In.Body == nil {
				return nil
			}
			info := c.infoFor(w.In)
			if info == nil {
				return nil
			}
			li := graphs[w.In]
			if li == nil {
				li = computeLock(newFG(info, w.In.Body), info, objKey(mutexF))
				graphs[w.In] = li
			}
			if held, ok := li.heldAt(&ast.Ident{NamePos: w.Pos, Name: "_"}); !ok || !held {
				return nil
			}
			writes++
		}
	}
	if writes == 0 {
		return nil
	}
	// and every read of a field that is written lies under the lock too
	role := c.roleOf(n.Obj().Pkg())
	for _, f := range flatFields(n) {
		if len(fw[f.Origin()]) == 0 {
			continue
		}
		unguarded := false
		for _, fd := range c.allFuncDecls(role) {
			info := c.infoFor(fd)
			if info == nil {
				continue
			}
			ast.Inspect(fd.Body, func(x ast.Node) bool {
				se, ok := x.(*ast.SelectorExpr)
				if !ok || selectorField(info, se) != f.Origin() {
					return true
				}
				li := graphs[fd]
				if li == nil {
					li = computeLock(newFG(info, fd.Body), info, objKey(mutexF))
					graphs[fd] = li
				}
				if held, ok := li.heldAt(se); !ok || !held {
					unguarded = true
					if os.Getenv("VCHECK_DEBUG_MONITOR") != "" {
						fmt.Fprintf(os.Stderr, "monitor %s: unguarded %s in %s at %s (located=%v)\n", n.Obj().Name(), exprStr(se), fd.Name.Name, c.pos(se.Pos()), ok)
					}
				}
				return true
			})
		}
		if unguarded {
			return nil
		}
	}
	parts := map[*types.TypeName]bool{n.Origin().Obj(): true}
	var walk func(t *types.Named, depth int)
	walk = func(t *types.Named, depth int) {
		ts, ok := t.Origin().Underlying().(*types.Struct)
		if !ok || depth > 2 {
			return
		}
		for i := 0; i < ts.NumFields(); i++ {
			f := ts.Field(i)
			if en := derefNamed(f.Type()); f.Embedded() && en != nil && en.Obj().Pkg() == n.Obj().Pkg() && !en.Obj().Exported() {
				if _, isStruct := en.Underlying().(*types.Struct); isStruct {
					parts[en.Origin().Obj()] = true
					walk(en, depth+1)
				}
			}
		}
	}
	walk(n, 0)
	return parts
}

// ---------------------------------------------------------------- lock regions

// lockState computes, for every CFG node, whether the mutex denoted by key is
// definitely held just before the node (must analysis; meet = AND).
type lockInfo struct {
	held map[ast.Node]bool // node -> held before it
	g    *FG
}

// mutexOp classifies n as Lock/Unlock of the mutex with the given key.
func mutexOp(info *types.Info, env *symEnv, n ast.Node, key string) (op string) {
	var call *ast.CallExpr
	deferred := false
	switch s := n.(type) {
	case *ast.ExprStmt:
		call, _ = s.X.(*ast.CallExpr)
	case *ast.DeferStmt:
		call = s.Call
		deferred = true
	}
	if call == nil {
		return ""
	}
	sel, ok := ast.Unparen(call.Fun).(*ast.SelectorExpr)
	if !ok {
		return ""
	}
	if env.lvalKey(sel.X) != key {
		return ""
	}
	switch sel.Sel.Name {
	case "Lock", "RLock":
		if !deferred {
			return "lock"
		}
	case "Unlock", "RUnlock":
		if deferred {
			return "defer-unlock"
		}
		return "unlock"
	}
	return ""
}

func computeLock(g *FG, info *types.Info, key string) *lockInfo {
	env := &symEnv{info: info}
	li := &lockInfo{held: map[ast.Node]bool{}, g: g}
	in := map[*cfg.Block]int{} // 0 unknown(top), 1 held, 2 not held
	in[g.entry()] = 2
	changed := true
	for changed {
		changed = false
		for _, b := range g.order {
			st := in[b]
			if st == 0 {
				continue
			}
			cur := st
			for _, n := range b.Nodes {
				switch mutexOp(info, env, n, key) {
				case "lock":
					cur = 1
				case "unlock":
					cur = 2
				}
			}
			for _, s := range b.Succs {
				old := in[s]
				nw := old
				switch {
				case old == 0:
					nw = cur
				case old != cur:
					nw = 2
				}
				if nw != old {
					in[s] = nw
					changed = true
				}
			}
		}
	}
	for _, b := range g.order {
		cur := in[b]
		for _, n := range b.Nodes {
			li.held[n] = cur == 1
			switch mutexOp(info, env, n, key) {
			case "lock":
				cur = 1
			case "unlock":
				cur = 2
			}
		}
	}
	return li
}

// heldAt: is the lock held at the CFG node containing x?
func (li *lockInfo) heldAt(x ast.Node) (bool, bool) {
	p, ok := li.g.locate(x)
	if !ok || p.idx >= len(p.b.Nodes) {
		return false, false
	}
	return li.held[p.b.Nodes[p.idx]], true
}

// ---------------------------------------------------------------- shared-state reachability

type reachStep struct {
	T   types.Type
	Via string
}

// typeSuccessors lists the types reachable in one step from t.
func (c *Ctx) typeSuccessors(t types.Type) []reachStep {
	var out []reachStep
	switch u := t.(type) {
	case *types.Pointer:
		return []reachStep{{u.Elem(), "*"}}
	case *types.Slice:
		return []reachStep{{u.Elem(), "[]"}}
	case *types.Array:
		return []reachStep{{u.Elem(), "[n]"}}
	case *types.Map:
		return []reachStep{{u.Key(), "map-key"}, {u.Elem(), "map-value"}}
	case *types.Chan:
		return []reachStep{{u.Elem(), "chan"}}
	case *types.TypeParam:
		return nil
	case *types.Named:
		if u.Obj().Pkg() == nil {
			return nil
		}
		if c.roleOf(u.Obj().Pkg()) == "" {
			return nil // foreign types are judged by the allow/deny table at the use site
		}
		o := u.Origin()
		switch ut := o.Underlying().(type) {
		case *types.Struct:
			for i := 0; i < ut.NumFields(); i++ {
				f := ut.Field(i)
				out = append(out, reachStep{f.Type(), "." + f.Name()})
			}
		case *types.Interface:
			for _, n := range c.implementers(o) {
				if implementsInst(n, o) {
					out = append(out, reachStep{n, "implemented-by"})
				}
			}
		case *types.Signature:
			// function-typed named type: handled at the field that stores it
		default:
			out = append(out, reachStep{o.Underlying(), "underlying"})
		}
		return out
	case *types.Struct:
		for i := 0; i < u.NumFields(); i++ {
			out = append(out, reachStep{u.Field(i).Type(), "." + u.Field(i).Name()})
		}
	}
	return out
}

// funcFieldTargets: for a function-typed struct field, the types whose state the
// stored function values can reach (bound receivers, captured variables).
func (c *Ctx) funcFieldTargets(f *types.Var) []reachStep {
	var out []reachStep
	for _, role := range []string{"agent", "collection", "cdcn", "module"} {
		info := c.info(role)
		for _, fd := range c.allFuncDecls(role) {
			ast.Inspect(fd.Body, func(x ast.Node) bool {
				var val ast.Expr
				switch s := x.(type) {
				case *ast.KeyValueExpr:
					if id, ok := s.Key.(*ast.Ident); ok {
						if v, ok := info.Uses[id].(*types.Var); ok && v.Origin() == f.Origin() {
							val = s.Value
						}
					}
				case *ast.AssignStmt:
					for i, l := range s.Lhs {
						if sf := selectorField(info, l); sf != nil && sf.Origin() == f.Origin() && i < len(s.Rhs) {
							val = s.Rhs[i]
						}
					}
				}
				if val == nil {
					return true
				}
				switch v := ast.Unparen(val).(type) {
				case *ast.SelectorExpr:
					// method value  x.M : the function is bound to x
					if sel, ok := info.Selections[v]; ok && sel.Kind() == types.MethodVal {
						out = append(out, reachStep{info.Types[v.X].Type, "bound receiver of the method value " + exprStr(v) + " stored at " + c.pos(v.Pos())})
					}
				case *ast.FuncLit:
					// captured variables
					ast.Inspect(v.Body, func(y ast.Node) bool {
						if id, ok := y.(*ast.Ident); ok {
							if vr, ok := info.Uses[id].(*types.Var); ok && !vr.IsField() {
								if vr.Pos() < v.Pos() || vr.Pos() > v.End() {
									if vr.Parent() != nil && vr.Parent() != vr.Pkg().Scope() {
										out = append(out, reachStep{vr.Type(), "variable " + vr.Name() + " captured by the function literal stored at " + c.pos(v.Pos())})
									}
								}
							}
						}
						return true
					})
				}
				return true
			})
		}
	}
	return out
}

// findMutableFrom searches the type graph from root for a struct type with
// post-construction writes (or a foreign mutable value type).  allow(t) prunes.
// Returns the path description or "".
func (c *Ctx) findMutableFrom(root types.Type, rootName string, allow func(t types.Type) bool) (string, string) {
	return c.searchFrom(root, rootName, allow, nil)
}

// searchFrom: like findMutableFrom; when target is non-nil the search looks for
// that named type instead of for mutability.
func (c *Ctx) searchFrom(root types.Type, rootName string, allow func(t types.Type) bool, target *types.Named) (string, string) {
	type item struct {
		t    types.Type
		path string
	}
	seen := map[string]bool{}
	monitored := map[*types.TypeName]bool{} // structs all of whose writes lie under the mutex they carry, and their embedded parts
	work := []item{{root, rootName}}
	for len(work) > 0 {
		it := work[0]
		work = work[1:]
		key := types.TypeString(it.t, nil)
		if n := derefNamed(it.t); n != nil {
			if _, isPtr := it.t.(*types.Pointer); !isPtr {
				key = "N:" + n.Obj().Pkg().Path() + "." + n.Obj().Name()
			}
		}
		if seen[key] {
			continue
		}
		seen[key] = true
		if allow != nil && allow(it.t) {
			continue
		}
		if n, ok := it.t.(*types.Named); ok {
			if c.roleOf(n.Obj().Pkg()) != "" {
				if target != nil && n.Origin() == target.Origin() {
					return it.path + " -> " + n.Obj().Name(), "reaches " + n.Obj().Name()
				}
				if parts := c.monitorParts(n); parts != nil {
					for tn := range parts {
						monitored[tn] = true
					}
				}
				if mf := c.mutableFields(n); target == nil && len(mf) > 0 && !monitored[n.Origin().Obj()] {
					var names []string
					for _, f := range mf {
						w := c.fieldWrites()[f.Origin()][0]
						names = append(names, fmt.Sprintf("%s (%s at %s)", f.Name(), w.How, c.pos(w.Pos)))
					}
					sort.Strings(names)
					return it.path + " -> " + n.Obj().Name(), "mutable fields: " + strings.Join(names, ", ")
				}
				// function-typed fields
				if st := structOf(n); st != nil {
					for i := 0; i < st.NumFields(); i++ {
						f := st.Field(i)
						if _, isSig := f.Type().Underlying().(*types.Signature); isSig {
							for _, tgt := range c.funcFieldTargets(f) {
								work = append(work, item{tgt.T, it.path + " -> " + n.Obj().Name() + "." + f.Name() + " [" + tgt.Via + "]"})
							}
						}
					}
				}
			} else if n.Obj().Pkg() != nil {
				// foreign named type
				full := n.Obj().Pkg().Path() + "." + n.Obj().Name()
				switch full {
				case "strings.Builder", "bytes.Buffer":
					if target != nil {
						break
					}
					return it.path + " -> " + full, "a mutable standard-library value type"
				case "math/rand.Rand", "math/rand/v2.Rand", "math/rand/v2.PCG", "math/rand/v2.ChaCha8",
					"bufio.Reader", "bufio.Writer", "bufio.Scanner", "bufio.ReadWriter":
					if target != nil {
						break
					}
					return it.path + " -> " + full, "a standard-library object whose methods change its state and that is documented as not safe for concurrent use"
				}
			}
		}
		for _, s := range c.typeSuccessors(it.t) {
			p := it.path
			if s.Via == "implemented-by" {
				p += " (interface " + shortType(it.t) + ")"
			} else if strings.HasPrefix(s.Via, ".") {
				p += " -> " + shortType(it.t) + s.Via
			}
			work = append(work, item{s.T, p})
		}
	}
	return "", ""
}

func shortType(t types.Type) string {
	return types.TypeString(t, func(p *types.Package) string { return p.Name() })
}

// packageVars lists the package-level variables of a role with their declarations.
func (c *Ctx) packageVars(role string) []*types.Var {
	var out []*types.Var
	sc := c.Pkgs[role].Types.Scope()
	for _, n := range sc.Names() {
		if v, ok := sc.Lookup(n).(*types.Var); ok {
			out = append(out, v)
		}
	}
	return out
}

type sharedRoot struct {
	Name string
	T    types.Type
	Pos  token.Pos
	Var  *types.Var
}

// classTypes: struct types implementing a public …ClassLike interface.
func (c *Ctx) classTypes() []*types.Named {
	var out []*types.Named
	seen := map[*types.Named]bool{}
	for _, role := range []string{"agent", "collection", "cdcn"} {
		for _, it := range c.allNamed(role) {
			if _, ok := it.Underlying().(*types.Interface); !ok || !strings.HasSuffix(it.Obj().Name(), "ClassLike") {
				continue
			}
			for _, n := range c.implementers(it) {
				if implementsInst(n, it) && !seen[n] {
					seen[n] = true
					out = append(out, n)
				}
			}
		}
	}
	sort.Slice(out, func(i, j int) bool { return out[i].Obj().Name() < out[j].Obj().Name() })
	return out
}

// sharedRoots: every package-level variable and every field of every class struct.
func (c *Ctx) sharedRoots() []sharedRoot {
	var out []sharedRoot
	for _, role := range []string{"agent", "collection", "cdcn", "module"} {
		for _, v := range c.packageVars(role) {
			out = append(out, sharedRoot{Name: role + "." + v.Name(), T: v.Type(), Pos: v.Pos(), Var: v})
		}
	}
	for _, n := range c.classTypes() {
		st := structOf(n)
		if st == nil {
			continue
		}
		role := c.roleOf(n.Obj().Pkg())
		for i := 0; i < st.NumFields(); i++ {
			f := st.Field(i)
			out = append(out, sharedRoot{Name: role + "." + n.Obj().Name() + "." + f.Name(), T: f.Type(), Pos: f.Pos(), Var: f})
		}
	}
	return out
}

// packageVarLiteral: the composite literal a package-level variable is initialised with (nil if none).
func (c *Ctx) packageVarLiteral(v *types.Var) *ast.CompositeLit {
	role := c.roleOf(v.Pkg())
	if role == "" {
		return nil
	}
	info := c.info(role)
	var lit *ast.CompositeLit
	for _, f := range c.Pkgs[role].Syntax {
		for _, d := range f.Decls {
			gd, ok := d.(*ast.GenDecl)
			if !ok {
				continue
			}
			for _, sp := range gd.Specs {
				vs, ok := sp.(*ast.ValueSpec)
				if !ok {
					continue
				}
				for i, nm := range vs.Names {
					if info.Defs[nm] == v && i < len(vs.Values) {
						if l, ok := ast.Unparen(vs.Values[i]).(*ast.CompositeLit); ok {
							lit = l
						}
					}
				}
			}
		}
	}
	return lit
}

// fieldWritesOfVar: assignments to a package-level variable (or to its elements) inside functions.
func (c *Ctx) fieldWritesOfVar(v *types.Var) []token.Pos {
	role := c.roleOf(v.Pkg())
	if role == "" {
		return nil
	}
	info := c.info(role)
	var out []token.Pos
	for _, fd := range c.allFuncDecls(role) {
		if fd.Body == nil {
			continue
		}
		ast.Inspect(fd.Body, func(x ast.Node) bool {
			as, ok := x.(*ast.AssignStmt)
			if !ok {
				return true
			}
			for _, l := range as.Lhs {
				e := ast.Unparen(l)
				if ix, ok := e.(*ast.IndexExpr); ok {
					e = ast.Unparen(ix.X)
				}
				if id, ok := e.(*ast.Ident); ok && info.Uses[id] == v {
					out = append(out, as.Pos())
				}
			}
			return true
		})
	}
	return out
}
