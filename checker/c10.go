package main

// C10 — CDCN round trip (structural clauses): writer/scanner language agreement,
// converter tables, formatter purity, guarded recursion.

import (
	"fmt"
	"go/ast"
	"go/token"
	"go/types"
	"sort"
	"strings"
)

func init() {
	register(&propInfo{
		ID:      "C10",
		Engines: "LANG (abstract interpretation of the formatter's leaf functions over regular languages; inclusion and prefix-shadow products against the scanner's token automata), EFFECT/PATH (reset-or-restore of formatter state, depth balance), call graph (guarded recursion), converter-pair tables",
		Decided: "D1 for every intrinsic leaf of the formatter the language of what it can print (strconv producers modelled by trusted regular over-approximations) is included in the scanner's language of the intended token type, and no token type tried earlier by the scanner matches a prefix of a printed word followed by a delimiter; " +
			"D2 writer and reader use inverse conversion pairs with equal constants (FormatInt(10)/ParseInt(10,64), 0x+FormatUint(16)/ParseUint([2:],16,64), FormatFloat(64)/ParseFloat(64), Quote/Unquote, QuoteRune/Unquote+decode, FormatBool/ParseBool), and the collection type names emitted, scanned and dispatched on are one and the same set; " +
			"D3 every field of the formatter that FormatValue writes is re-initialised at its entry (or restored by defer) and the depth counter is balanced on normal paths: the text is a function of the argument alone, also after a failed call; " +
			"D4 every recursion cycle of the formatter carries depth accounting (else a self-containing value overflows the stack instead of being elided); D5 the formatter's loops terminate." +
			" Also: every word a leaf can print is the match Go's leftmost-first matching selects (not only a word of the token's language); the reader does not fill a bounded collection past the capacity it created it with." +
			" Round 7: the text restored by strconv.Unquote is not passed through []rune and back." +
			" Rounds 8-9: every family of primitive types that has an arm in the intrinsic type switch has an arm for each member.",
		NotDecided: "value equality of Parse(Format(v)), the text fixpoint, numeric exactness (strconv's contract), leftmost-first match preference inside one token regex, ordering of unordered maps.",
		Run:        runC10,
		Assumptions: []string{
			"the regular-language models of strconv.FormatBool/FormatInt/FormatUint/FormatFloat('G',-1,64; finite values)/Quote/QuoteRune in checker/cdcn.go over-approximate what those functions print",
		},
	})
}

// ---------------------------------------------------------------- language-domain interpreter

type langState struct {
	strs  map[types.Object]*DFA
	bools map[types.Object]bool
	signs map[types.Object]string // float/int variables: "", "ge0", "lt0"
	out   *DFA
	done  bool // the path has returned
	// string variables whose text is already part of the output: a later test of such a variable
	// says something about text that is written, which the refinement of the variable does not reach
	emitted map[types.Object]bool
}

func (s *langState) clone() *langState {
	n := &langState{strs: map[types.Object]*DFA{}, bools: map[types.Object]bool{}, signs: map[types.Object]string{}, out: s.out, done: s.done, emitted: map[types.Object]bool{}}
	for k := range s.emitted {
		n.emitted[k] = true
	}
	for k, v := range s.strs {
		n.strs[k] = v
	}
	for k, v := range s.bools {
		n.bools[k] = v
	}
	for k, v := range s.signs {
		n.signs[k] = v
	}
	return n
}

type leafInterp struct {
	c             *Ctx
	info          *types.Info
	al            *Alphabet
	appendFn      *types.Func // the formatter's append-to-buffer method
	fmtType       *types.Named
	memo          map[string]*DFA
	problems      []string
	imprecise     bool
	impreciseKeys map[string]bool
	problemKeys   map[string][]string
	bufF          *types.Var
}

func (li *leafInterp) problem(format string, args ...any) {
	li.problems = append(li.problems, fmt.Sprintf(format, args...))
}

func (li *leafInterp) regexDFA(src string) *DFA {
	re, err := parseRegex(src)
	if err != nil {
		li.problem("bad model regex %q: %v", src, err)
		return dfaFromString(li.al, "")
	}
	d, err := dfaFromRegexp(li.al, re)
	if err != nil {
		li.problem("%v", err)
		return dfaFromString(li.al, "")
	}
	return d.minimize()
}

// signOfArg: abstraction of a numeric argument expression.
func (li *leafInterp) signOf(st *langState, e ast.Expr) string {
	e = ast.Unparen(e)
	if call, ok := e.(*ast.CallExpr); ok && len(call.Args) == 1 {
		if tv, ok := li.info.Types[call.Fun]; ok && tv.IsType() {
			return li.signOf(st, call.Args[0])
		}
	}
	if id, ok := e.(*ast.Ident); ok {
		return st.signs[li.info.Uses[id]]
	}
	return ""
}

// evalStr evaluates a string-valued expression to a language.
func (li *leafInterp) evalStr(st *langState, e ast.Expr) (*DFA, bool) {
	e = ast.Unparen(e)
	if s, ok := constString(li.info, e); ok {
		return dfaFromString(li.al, s), true
	}
	switch x := e.(type) {
	case *ast.Ident:
		if d, ok := st.strs[li.info.Uses[x]]; ok {
			return d, true
		}
	case *ast.BinaryExpr:
		if x.Op == token.ADD {
			a, ok1 := li.evalStr(st, x.X)
			b, ok2 := li.evalStr(st, x.Y)
			if ok1 && ok2 {
				return concatDFA(a, b), true
			}
			return nil, false
		}
	case *ast.SliceExpr:
		base, ok := li.evalStr(st, x.X)
		if !ok {
			return nil, false
		}
		lo, hi := "", ""
		if x.Low != nil {
			if tv := li.info.Types[x.Low]; tv.Value != nil {
				lo = tv.Value.String()
			} else {
				lo = "?"
			}
		}
		if x.High != nil {
			if tv := li.info.Types[x.High]; tv.Value != nil {
				hi = tv.Value.String()
			} else {
				hi = "?"
			}
		}
		switch {
		case (lo == "" || lo == "0") && hi == "1":
			return base.head(), true
		case lo == "1" && hi == "":
			return base.tail(), true
		}
		li.problem("unsupported slicing %s", exprStr(x))
		return nil, false
	case *ast.CallExpr:
		fn := calleeOf(li.info, x)
		if fn == nil || fn.Pkg() == nil {
			break
		}
		full := fn.Pkg().Path() + "." + fn.Name()
		if fn.Pkg().Path() == "strconv" {
			var args []string
			for _, a := range x.Args {
				if tv := li.info.Types[a]; tv.Value != nil {
					args = append(args, tv.Value.ExactString())
				} else {
					args = append(args, "?")
				}
			}
			sign := ""
			if len(x.Args) > 0 {
				sign = li.signOf(st, x.Args[0])
			}
			if model, ok := strconvModel(full, args, sign); ok {
				return li.regexDFA(model), true
			}
			li.problem("no language model for %s(%s)", full, strings.Join(args, ", "))
			return nil, false
		}
		if d := li.c.declOf(fn); d != nil && d.Body != nil && li.c.infoFor(d) == li.info {
			if sig, ok := fn.Type().(*types.Signature); ok && sig.Results().Len() == 1 && isStringType(sig.Results().At(0).Type()) {
				sign := ""
				if len(x.Args) > 0 {
					sign = li.signOf(st, x.Args[0])
				}
				if lang := li.summary(d, sign); lang != nil {
					return lang, true
				}
			}
		}
		if full == "strings.TrimLeft" && len(x.Args) == 2 {
			base, ok := li.evalStr(st, x.Args[0])
			cut, okc := constString(li.info, x.Args[1])
			if ok && okc && len([]rune(cut)) == 1 {
				return base.trimLeft([]rune(cut)[0]), true
			}
		}
	}
	li.problem("unsupported string expression %s", exprStr(e))
	return nil, false
}

// condLang: for a condition built from strings.Contains(x, const) over ONE
// variable x, returns x and the language of values satisfying it.
func (li *leafInterp) condLang(e ast.Expr) (types.Object, *DFA, bool) {
	e = ast.Unparen(e)
	switch x := e.(type) {
	case *ast.UnaryExpr:
		if x.Op == token.NOT {
			o, d, ok := li.condLang(x.X)
			if ok {
				return o, d.complement(), true
			}
		}
	case *ast.BinaryExpr:
		if x.Op == token.LAND || x.Op == token.LOR {
			o1, d1, ok1 := li.condLang(x.X)
			o2, d2, ok2 := li.condLang(x.Y)
			if ok1 && ok2 && o1 == o2 {
				if x.Op == token.LAND {
					return o1, intersectDFA(d1, d2), true
				}
				return o1, unionDFA(d1, d2), true
			}
		}
	case *ast.CallExpr:
		if fn := calleeOf(li.info, x); fn != nil && fn.Pkg() != nil && fn.Pkg().Path() == "strings" && len(x.Args) == 2 {
			if id, ok := ast.Unparen(x.Args[0]).(*ast.Ident); ok {
				if c, ok := constString(li.info, x.Args[1]); ok {
					switch fn.Name() {
					case "Contains":
						return li.info.Uses[id], containsDFA(li.al, c), true
					case "HasPrefix":
						return li.info.Uses[id], concatDFA(dfaFromString(li.al, c), anyDFA(li.al)), true
					case "HasSuffix":
						return li.info.Uses[id], concatDFA(anyDFA(li.al), dfaFromString(li.al, c)), true
					}
				}
			}
		}
	}
	return nil, nil, false
}

func (li *leafInterp) execList(states []*langState, list []ast.Stmt, fd *ast.FuncDecl) []*langState {
	for _, s := range list {
		var next []*langState
		for _, st := range states {
			if st.done {
				next = append(next, st)
				continue
			}
			next = append(next, li.exec(st, s, fd)...)
		}
		states = next
		if len(states) > 64 {
			li.problem("state explosion")
			return nil
		}
	}
	return states
}

func (li *leafInterp) assignStr(st *langState, lhs ast.Expr, d *DFA) {
	if o := identObj(li.info, lhs); o != nil {
		st.strs[o] = d
	}
}

func (li *leafInterp) exec(st *langState, s ast.Stmt, fd *ast.FuncDecl) []*langState {
	switch x := s.(type) {
	case *ast.BlockStmt:
		return li.execList([]*langState{st}, x.List, fd)
	case *ast.DeclStmt, *ast.AssignStmt:
		lhs, rhs, ok := multiDefStmt(x)
		if as, isAs := x.(*ast.AssignStmt); isAs && as.Tok == token.ADD_ASSIGN && len(as.Lhs) == 1 {
			cur, ok1 := li.evalStr(st, as.Lhs[0])
			add, ok2 := li.evalStr(st, as.Rhs[0])
			if ok1 && ok2 {
				li.assignStr(st, as.Lhs[0], concatDFA(cur, add))
			}
			return []*langState{st}
		}
		if !ok {
			// var a, b T  without values, or several values
			if ds, isDecl := x.(*ast.DeclStmt); isDecl {
				for _, sp := range ds.Decl.(*ast.GenDecl).Specs {
					vs := sp.(*ast.ValueSpec)
					for i, nm := range vs.Names {
						if i < len(vs.Values) {
							li.bindValue(st, nm, vs.Values[i])
						} else if t := li.info.Defs[nm]; t != nil && isStringType(t.Type()) {
							st.strs[t] = dfaFromString(li.al, "")
						}
					}
				}
				return []*langState{st}
			}
			if as, isAs := x.(*ast.AssignStmt); isAs && len(as.Lhs) == len(as.Rhs) {
				for i := range as.Lhs {
					li.bindValue(st, as.Lhs[i], as.Rhs[i])
				}
				return []*langState{st}
			}
			li.problem("unsupported assignment at %s", li.c.pos(s.Pos()))
			return []*langState{st}
		}
		// strings.Cut: two states
		if call, isCall := ast.Unparen(rhs).(*ast.CallExpr); isCall && len(lhs) == 3 {
			if fn := calleeOf(li.info, call); fn != nil && fn.Pkg() != nil && fn.Pkg().Path()+"."+fn.Name() == "strings.Cut" && len(call.Args) == 2 {
				base, ok1 := li.evalStr(st, call.Args[0])
				sep, ok2 := constString(li.info, call.Args[1])
				if ok1 && ok2 && len([]rune(sep)) == 1 {
					c := []rune(sep)[0]
					var out []*langState
					if with := base.with(c); !with.isEmpty() {
						a := st.clone()
						li.assignStr(a, lhs[0], with.cutBefore(c))
						li.assignStr(a, lhs[1], with.cutAfter(c))
						if o := identObj(li.info, lhs[2]); o != nil {
							a.bools[o] = true
						}
						out = append(out, a)
					}
					if without := base.without(c); !without.isEmpty() {
						b := st.clone()
						li.assignStr(b, lhs[0], without)
						li.assignStr(b, lhs[1], dfaFromString(li.al, ""))
						if o := identObj(li.info, lhs[2]); o != nil {
							b.bools[o] = false
						}
						out = append(out, b)
					}
					return out
				}
			}
		}
		if len(lhs) == 1 {
			li.bindValue(st, lhs[0], rhs)
			return []*langState{st}
		}
		li.problem("unsupported multi-value definition at %s", li.c.pos(s.Pos()))
		return []*langState{st}
	case *ast.ExprStmt:
		call, ok := x.X.(*ast.CallExpr)
		if !ok {
			return []*langState{st}
		}
		cf := calleeOf(li.info, call)
		if cf != nil && li.appendFn != nil && cf.Origin() == li.appendFn.Origin() && len(call.Args) == 1 {
			d, ok := li.evalStr(st, call.Args[0])
			if ok {
				st.out = concatDFA(st.out, d)
			}
			if st.emitted == nil {
				st.emitted = map[types.Object]bool{}
			}
			ast.Inspect(call.Args[0], func(y ast.Node) bool {
				if id, isId := y.(*ast.Ident); isId {
					if o := li.info.Uses[id]; o != nil {
						st.emitted[o] = true
					}
				}
				return true
			})
			return []*langState{st}
		}
		// the append written out: buffer.WriteString(text) on the formatter's own buffer field
		if rx, mname, _, ok := methodCall(call); ok && mname == "WriteString" && len(call.Args) == 1 && li.bufF != nil && selectorField(li.info, rx) == li.bufF.Origin() {
			if d, ok := li.evalStr(st, call.Args[0]); ok {
				st.out = concatDFA(st.out, d)
			}
			return []*langState{st}
		}
		// a call of another leaf of the formatter: append its summary
		if cf != nil && recvNamed(cf) != nil && recvNamed(cf).Origin() == li.fmtType.Origin() {
			if d := li.c.declOf(cf); d != nil {
				sign := ""
				if len(call.Args) == 1 {
					sign = li.signOf(st, call.Args[0])
				}
				sum := li.summary(d, sign)
				if sum != nil {
					st.out = concatDFA(st.out, sum)
				}
				return []*langState{st}
			}
		}
		li.problem("unsupported call %s at %s", exprStr(call.Fun), li.c.pos(call.Pos()))
		return []*langState{st}
	case *ast.IfStmt:
		if x.Init != nil {
			li.problem("unsupported if-init")
		}
		cond := ast.Unparen(x.Cond)
		// known boolean
		if id, ok := cond.(*ast.Ident); ok {
			if b, known := st.bools[li.info.Uses[id]]; known {
				if b {
					return li.execList([]*langState{st}, x.Body.List, fd)
				}
				if x.Else != nil {
					return li.exec(st, x.Else, fd)
				}
				return []*langState{st}
			}
		}
		if u, ok := cond.(*ast.UnaryExpr); ok && u.Op == token.NOT {
			if id, ok := ast.Unparen(u.X).(*ast.Ident); ok {
				if b, known := st.bools[li.info.Uses[id]]; known {
					if !b {
						return li.execList([]*langState{st}, x.Body.List, fd)
					}
					if x.Else != nil {
						return li.exec(st, x.Else, fd)
					}
					return []*langState{st}
				}
			}
		}
		// string refinement
		if o, lang, ok := li.condLang(cond); ok {
			cur, have := st.strs[o]
			if st.emitted[o] {
				li.imprecise = true // the text tested is already written: the two branches are not told apart in the output
			}
			if have {
				var out []*langState
				if t := intersectDFA(cur, lang); !t.isEmpty() {
					a := st.clone()
					a.strs[o] = t
					out = append(out, li.execList([]*langState{a}, x.Body.List, fd)...)
				}
				if f := minusDFA(cur, lang); !f.isEmpty() {
					b := st.clone()
					b.strs[o] = f
					if x.Else != nil {
						out = append(out, li.exec(b, x.Else, fd)...)
					} else {
						out = append(out, b)
					}
				}
				return out
			}
		}
		// sign refinement:  x >= 0 / x < 0 / 0 <= x / 0 > x
		if be, ok := cond.(*ast.BinaryExpr); ok {
			isZero := func(e ast.Expr) bool {
				tv := li.info.Types[e]
				return tv.Value != nil && (tv.Value.String() == "0" || tv.Value.ExactString() == "0")
			}
			var id *ast.Ident
			op := be.Op
			if x0, ok := ast.Unparen(be.X).(*ast.Ident); ok && isZero(be.Y) {
				id = x0
			} else if y0, ok := ast.Unparen(be.Y).(*ast.Ident); ok && isZero(be.X) {
				id = y0
				switch op { // 0 op x  ==  x op' 0
				case token.LEQ:
					op = token.GEQ
				case token.GEQ:
					op = token.LEQ
				case token.LSS:
					op = token.GTR
				case token.GTR:
					op = token.LSS
				}
			}
			if id != nil {
				o := li.info.Uses[id]
				tSign, fSign := "", ""
				switch op {
				case token.GEQ:
					tSign, fSign = "ge0", "lt0"
				case token.LSS:
					tSign, fSign = "lt0", "ge0"
				}
				if tSign != "" {
					a, b := st.clone(), st.clone()
					a.signs[o], b.signs[o] = tSign, fSign
					out := li.execList([]*langState{a}, x.Body.List, fd)
					if x.Else != nil {
						out = append(out, li.exec(b, x.Else, fd)...)
					} else {
						out = append(out, b)
					}
					return out
				}
				if _, tracked := st.signs[o]; tracked {
					li.imprecise = true // a numeric test the sign abstraction cannot follow (x > 0, x == 0, ...)
				}
			}
		}
		// a condition on numeric locals that is not understood makes the result an over-approximation
		ast.Inspect(cond, func(y ast.Node) bool {
			if id, ok := y.(*ast.Ident); ok {
				if _, tracked := st.signs[li.info.Uses[id]]; tracked {
					li.imprecise = true
				}
			}
			return true
		})
		// unknown condition: both branches
		a, b := st.clone(), st.clone()
		out := li.execList([]*langState{a}, x.Body.List, fd)
		if x.Else != nil {
			out = append(out, li.exec(b, x.Else, fd)...)
		} else {
			out = append(out, b)
		}
		return out
	case *ast.ReturnStmt:
		// a function that hands its text back instead of appending it: the text returned is its output
		rs := s.(*ast.ReturnStmt)
		if len(rs.Results) == 1 && isStringType(li.info.TypeOf(rs.Results[0])) {
			if d, ok := li.evalStr(st, rs.Results[0]); ok {
				st.out = concatDFA(st.out, d)
			}
		}
		st.done = true
		return []*langState{st}
	}
	li.problem("unsupported statement %T at %s", s, li.c.pos(s.Pos()))
	return []*langState{st}
}

func isStringType(t types.Type) bool {
	b, ok := t.Underlying().(*types.Basic)
	return ok && b.Info()&types.IsString != 0
}

// bindValue handles  x := e  for string, numeric and boolean locals.
func (li *leafInterp) bindValue(st *langState, lhs ast.Expr, rhs ast.Expr) {
	o := identObj(li.info, lhs)
	if o == nil {
		return
	}
	if isStringType(o.Type()) {
		if d, ok := li.evalStr(st, rhs); ok {
			st.strs[o] = d
		}
		return
	}
	// numeric: propagate the sign abstraction through conversions and real()/imag()
	st.signs[o] = li.signOf(st, rhs)
}

// summary: the language a leaf appends to the buffer (memoised per sign context).
func (li *leafInterp) summary(fd *ast.FuncDecl, sign string) *DFA {
	key := li.c.fdName(fd) + "/" + sign
	if li.impreciseKeys == nil {
		li.impreciseKeys = map[string]bool{}
	}
	if li.problemKeys == nil {
		li.problemKeys = map[string][]string{}
	}
	if d, ok := li.memo[key]; ok {
		if li.impreciseKeys[key] {
			li.imprecise = true // imprecision is sticky: a caller of an imprecise leaf is imprecise too
		}
		// so are the problems met when the summary was computed: whoever uses it has them too
		li.problems = append(li.problems, li.problemKeys[key]...)
		return d
	}
	li.memo[key] = nil
	savedImp := li.imprecise
	li.imprecise = false
	nProblems := len(li.problems)
	defer func() {
		if li.imprecise {
			li.impreciseKeys[key] = true
		}
		li.imprecise = li.imprecise || savedImp
		if len(li.problems) > nProblems {
			li.problemKeys[key] = append([]string{}, li.problems[nProblems:]...)
		}
	}()
	st := &langState{strs: map[types.Object]*DFA{}, bools: map[types.Object]bool{}, signs: map[types.Object]string{}, out: dfaFromString(li.al, "")}
	params := paramObjs(li.info, fd)
	if len(params) == 1 {
		st.signs[params[0]] = sign
	}
	finals := li.execList([]*langState{st}, fd.Body.List, fd)
	var out *DFA
	for _, f := range finals {
		if out == nil {
			out = f.out
		} else {
			out = unionDFA(out, f.out)
		}
	}
	if out == nil {
		out = minusDFA(anyDFA(li.al), anyDFA(li.al))
	}
	li.memo[key] = out
	return out
}

// ---------------------------------------------------------------- the property

type fmtRoles struct {
	n        *types.Named
	cls      *types.Named
	depthF   *types.Var
	maxF     *types.Var
	bufF     *types.Var
	ms       map[string]*ast.FuncDecl
	appendFD *ast.FuncDecl
	intrFD   *ast.FuncDecl // the intrinsic type switch
	fields   []*types.Var  // the formatter's fields, those of embedded private structs included
}

func bindFormatter(c *Ctx, r *Rec) *fmtRoles {
	n := c.mustImpl(r, "bind", "cdcn", "FormatterLike")
	if n == nil {
		return nil
	}
	info := c.info("cdcn")
	fr := &fmtRoles{n: n, ms: map[string]*ast.FuncDecl{}}
	for name, fd := range c.methodsOf(n) {
		fr.ms[name] = fd
	}
	written := fieldsWrittenInMethods(c, info, n)
	// the state may sit in a private struct that the formatter embeds (its fields and methods are
	// promoted): the fields are looked for there too, and its methods count as the formatter's
	var fields []*types.Var
	var flatten func(st *types.Struct, depth int)
	flatten = func(st *types.Struct, depth int) {
		for i := 0; i < st.NumFields(); i++ {
			f := st.Field(i)
			if en := derefNamed(f.Type()); f.Embedded() && en != nil && en.Obj().Pkg() == n.Obj().Pkg() && structOf(en) != nil && depth < 2 {
				for name, fd := range c.methodsOf(en) {
					if fr.ms[name] == nil {
						fr.ms[name] = fd
					}
				}
				for k, v := range fieldsWrittenInMethods(c, info, en) {
					if v {
						written[k] = true
					}
				}
				flatten(structOf(en), depth+1)
				continue
			}
			fields = append(fields, f)
		}
	}
	if st := structOf(n); st != nil {
		flatten(st, 0)
		fr.fields = fields
		for _, f := range fields {
			if b, ok := f.Type().Underlying().(*types.Basic); ok && b.Kind() == types.Int {
				if written[f] {
					fr.depthF = f
				} else {
					fr.maxF = f
				}
			}
			if isNamedFrom(f.Type(), "strings", "Builder") || isNamedFrom(f.Type(), "bytes", "Buffer") {
				fr.bufF = f
			}
		}
	}
	// append method: the private func(string) that writes to the buffer
	for _, name := range sortedKeys(fr.ms) {
		fd := fr.ms[name]
		sig := c.funcOf(fd).Type().(*types.Signature)
		if sig.Params().Len() == 1 && isStringType(sig.Params().At(0).Type()) && sig.Results().Len() == 0 {
			uses := false
			ast.Inspect(fd.Body, func(x ast.Node) bool {
				if se, ok := x.(*ast.SelectorExpr); ok && fr.bufF != nil && selectorField(info, se) == fr.bufF {
					uses = true
				}
				return true
			})
			if uses {
				fr.appendFD = fd
			}
		}
		// the intrinsic dispatcher: a method whose body is a type switch on its parameter with >= 10 clauses
		ast.Inspect(fd.Body, func(x ast.Node) bool {
			if ts, ok := x.(*ast.TypeSwitchStmt); ok && typeSwitchTypes(ts) >= 10 {
				fr.intrFD = fd
			}
			return true
		})
	}
	if fr.intrFD == nil {
		// the intrinsic dispatcher may be a function of the package instead of a method
		for _, fd := range c.allFuncDecls("cdcn") {
			if fd.Body == nil || fd.Recv != nil {
				continue
			}
			ast.Inspect(fd.Body, func(x ast.Node) bool {
				if ts, ok := x.(*ast.TypeSwitchStmt); ok && typeSwitchTypes(ts) >= 10 && fr.intrFD == nil {
					fr.intrFD = fd
				}
				return true
			})
		}
	}
	if fr.depthF == nil || fr.maxF == nil || fr.bufF == nil || fr.appendFD == nil || fr.intrFD == nil {
		r.skip("bind", "cdcn."+n.Obj().Name(), "", "cannot bind depth/maximum/buffer fields, the append method and the intrinsic type switch of the formatter")
		return nil
	}
	return fr
}

// leafToken maps a leaf method to its intended token type by the static type of
// the case that calls it in the intrinsic type switch.
func leafTokens(c *Ctx, info *types.Info, fr *fmtRoles) map[*ast.FuncDecl]string {
	out := map[*ast.FuncDecl]string{}
	ast.Inspect(fr.intrFD.Body, func(x ast.Node) bool {
		cc, ok := x.(*ast.CaseClause)
		if !ok || len(cc.List) == 0 {
			return true
		}
		var tok string
		t := info.Types[cc.List[0]].Type
		if t == nil {
			tok = "NilToken"
		} else if b, ok := t.Underlying().(*types.Basic); ok {
			switch {
			case b.Kind() == types.UntypedNil:
				tok = "NilToken"
			case b.Info()&types.IsBoolean != 0:
				tok = "BooleanToken"
			case b.Kind() == types.Int32:
				tok = "RuneToken"
			case b.Info()&types.IsUnsigned != 0:
				tok = "HexadecimalToken"
			case b.Info()&types.IsInteger != 0:
				tok = "IntegerToken"
			case b.Info()&types.IsFloat != 0:
				tok = "FloatToken"
			case b.Info()&types.IsComplex != 0:
				tok = "ComplexToken"
			case b.Info()&types.IsString != 0:
				tok = "StringToken"
			}
		}
		if tok == "" {
			return true
		}
		delegated := false
		for _, s := range cc.Body {
			var callX ast.Expr
			if es, ok := s.(*ast.ExprStmt); ok {
				callX = es.X
			}
			if rs, ok := s.(*ast.ReturnStmt); ok && len(rs.Results) == 1 {
				callX = rs.Results[0]
			}
			if callX != nil {
				if call, ok := ast.Unparen(callX).(*ast.CallExpr); ok {
					if cf := calleeOf(info, call); cf != nil {
						if d := c.declOf(cf); d != nil && d != fr.appendFD {
							delegated = true
							if prev, ok := out[d]; ok && prev != tok {
								out[d] = prev + "|" + tok
							} else {
								out[d] = tok
							}
						}
					}
				}
			}
		}
		if !delegated && len(cc.Body) > 0 {
			// the arm produces the text itself (return strconv.Quote(actual)): the arm is the leaf
			producesText := false
			for _, s := range cc.Body {
				if rs, ok := s.(*ast.ReturnStmt); ok && len(rs.Results) == 1 {
					if bt, ok := info.TypeOf(rs.Results[0]).Underlying().(*types.Basic); ok && bt.Info()&types.IsString != 0 {
						producesText = true
					}
				}
				if es, ok := s.(*ast.ExprStmt); ok {
					if call, ok := es.X.(*ast.CallExpr); ok && c.declOf(calleeOf(info, call)) == fr.appendFD && fr.appendFD != nil {
						producesText = true
					}
				}
			}
			if producesText {
				arm := &ast.FuncDecl{
					Name: &ast.Ident{Name: c.fdName(fr.intrFD) + "/arm[" + exprStr(cc.List[0]) + "]", NamePos: cc.Pos()},
					Type: fr.intrFD.Type,
					Body: &ast.BlockStmt{Lbrace: cc.Colon, List: cc.Body, Rbrace: cc.End()},
				}
				out[arm] = tok
			}
		}
		return true
	})
	return out
}

func runC10(c *Ctx, r *Rec) {
	fr := bindFormatter(c, r)
	if fr == nil {
		return
	}
	info := c.info("cdcn")
	shapeLints(c, r, fileFuncs(c, "cdcn", fr.n, fr.cls))
	checkArmsAnswerTheirOwnName(c, r, "D3-context-names-the-kind", fileFuncs(c, "cdcn", fr.n, fr.cls))
	st := c.scanTables()
	if len(st.problems) > 0 || len(st.matchers) == 0 || len(st.order) == 0 {
		r.skip("bind", "cdcn.scanner-tables", "", "cannot extract the scanner's matcher table and scan order: "+strings.Join(st.problems, "; "))
		return
	}
	// ---- alphabet
	al := newAlphabet()
	var sources []string
	for _, src := range st.matchers {
		sources = append(sources, src)
	}
	for _, callee := range []string{"strconv.FormatBool", "strconv.QuoteRune", "strconv.Quote"} {
		m, _ := strconvModel(callee, nil, "")
		sources = append(sources, m)
	}
	for _, sg := range []string{"", "ge0", "lt0"} {
		m, _ := strconvModel("strconv.FormatInt", []string{"?", "10"}, sg)
		sources = append(sources, m)
		m, _ = strconvModel("strconv.FormatFloat", []string{"?", "71", "-1", "64"}, sg)
		sources = append(sources, m)
	}
	m16, _ := strconvModel("strconv.FormatUint", []string{"?", "16"}, "")
	sources = append(sources, m16)
	for _, src := range sources {
		re, err := parseRegex(src)
		if err != nil {
			r.skip("D1-leaf-scannable", "regex", "", fmt.Sprintf("cannot parse %q: %v", src, err))
			return
		}
		al.addRegexp(re)
	}
	for _, fd := range fr.ms {
		ast.Inspect(fd.Body, func(x ast.Node) bool {
			if e, ok := x.(ast.Expr); ok {
				if s, ok := constString(info, e); ok {
					al.addString(s)
				}
			}
			return true
		})
	}
	checkKeyValueSameEntry(c, r, "D2-key-value-same-entry", info, fr.ms)
	follow := []string{",", "\n", "]", ":", ")", " "}
	for _, f := range follow {
		al.addString(f)
	}
	al.freeze()
	tokDFA := map[string]*DFA{}
	tokPM := map[string]*DFA{} // leftmost-first: the words the matcher takes as a whole
	for name, src := range st.matchers {
		re, _ := parseRegex(src)
		d, err := dfaFromRegexp(al, re)
		if err != nil {
			r.skip("D1-leaf-scannable", "cdcn.matcher/"+name, c.pos(st.matcherPos[name]), err.Error())
			return
		}
		tokDFA[name] = d.minimize()
		if pm, err := preferredDFA(al, re); err == nil {
			tokPM[name] = pm.minimize()
		}
	}
	r.count("alphabet classes", al.n())
	r.count("token automata", len(tokDFA))

	li := &leafInterp{c: c, info: info, al: al, appendFn: c.funcOf(fr.appendFD), fmtType: fr.n, memo: map[string]*DFA{}, bufF: fr.bufF}
	leaves := leafTokens(c, info, fr)
	var leafList []*ast.FuncDecl
	for fd := range leaves {
		leafList = append(leafList, fd)
	}
	sort.Slice(leafList, func(i, j int) bool { return leafList[i].Name.Name < leafList[j].Name.Name })
	anyL := anyDFA(al)
	var followU *DFA
	for _, f := range follow {
		d := dfaFromString(al, f)
		if followU == nil {
			followU = d
		} else {
			followU = unionDFA(followU, d)
		}
	}
	for _, fd := range leafList {
		tok := leaves[fd]
		construct := c.fdName(fd) + "->" + tok
		li.problems = nil
		li.imprecise = false
		lang := li.summary(fd, "")
		if len(li.problems) > 0 || lang == nil {
			r.skip("D1-leaf-scannable", construct, c.pos(fd.Pos()), "the leaf is outside the vocabulary of the language interpreter: "+strings.Join(dedup(li.problems), "; "))
			continue
		}
		if strings.Contains(tok, "|") || tokDFA[tok] == nil {
			r.skip("D1-leaf-scannable", construct, c.pos(fd.Pos()), "the leaf serves several token types or an unknown one")
			continue
		}
		if li.imprecise {
			// the language computed is a strict over-approximation: a word outside the token's
			// language proves nothing; inclusion would still be a proof
			if okIn, _ := subsetOf(lang, tokDFA[tok]); !okIn {
				r.skip("D1-leaf-scannable", construct, c.pos(fd.Pos()), "the leaf branches on a numeric test the sign abstraction does not follow: the computed language is an over-approximation and its excess words are not evidence")
				continue
			}
		}
		if w, ok := lang.shortest(); !ok {
			r.fail("D1-leaf-scannable", construct, c.pos(fd.Pos()), "the leaf prints nothing")
			continue
		} else {
			_ = w
		}
		okIn, w := subsetOf(lang, tokDFA[tok])
		if !okIn {
			o := r.fail("D1-leaf-scannable", construct, c.pos(fd.Pos()), fmt.Sprintf("the formatter can print %q, which the scanner's %s pattern /%s/ does not accept: the parser rejects (or splits) the formatter's own output", w, st.names[tok], st.matchers[tok]))
			o.Witness = w
			continue
		}
		// Go's matching prefers earlier alternatives: the printed word must be the match that is selected
		if pm := tokPM[tok]; pm != nil && !li.imprecise {
			if okPM, w := subsetOf(lang, pm); !okPM {
				o := r.fail("D1-leaf-scannable", construct, c.pos(fd.Pos()), fmt.Sprintf("the formatter can print %q, which is in the language of the scanner's %s pattern /%s/, but leftmost-first matching prefers an earlier alternative and stops before the end of the word: the parser splits the formatter's own output", w, st.names[tok], st.matchers[tok]))
				o.Witness = w
				continue
			}
		}
		// earlier-tried types must not match a prefix of word+follow
		shadow := ""
		for _, other := range st.order {
			if other == tok {
				break
			}
			od := tokDFA[other]
			if od == nil {
				continue
			}
			pre := concatDFA(od, anyL)
			target := concatDFA(lang, followU)
			if w, ok := intersectDFA(pre, target).shortest(); ok {
				shadow = fmt.Sprintf("the scanner tries %s before %s and it matches a prefix of the printed text %q", st.names[other], st.names[tok], w)
				break
			}
			if w, ok := intersectDFA(pre, lang).shortest(); ok {
				shadow = fmt.Sprintf("the scanner tries %s before %s and it matches a prefix of the printed text %q", st.names[other], st.names[tok], w)
				break
			}
		}
		if shadow != "" {
			r.fail("D1-leaf-scannable", construct, c.pos(fd.Pos()), shadow)
			continue
		}
		ex, _ := lang.shortest()
		r.ok("D1-leaf-scannable", construct, c.pos(fd.Pos()), fmt.Sprintf("L(leaf) is included in L(%s) and no earlier token type matches a prefix (shortest output %q)", st.names[tok], ex))
	}
	r.floorSoft("D1-leaf-scannable", "cdcn.formatter/leaves", "no leaf formatter could be bound through the arms of the intrinsic type switch")

	checkReceiverWrites(c, r, "D3-receiver-writes-persist", fr.n)
	// what the formatter prints for a large queue or stack is read back: the reader does not fill a bounded collection past its capacity
	for _, fd := range c.allFuncDecls("cdcn") {
		if fd.Body != nil {
			checkBoundedFill(c, r, "D2-any-size-read-back", c.info("cdcn"), fd, "")
		}
	}
	checkConverterPairs(c, r, fr, st)
	checkFormatterPurity(c, r, fr)
	checkGuardedRecursion(c, r, info, fr.n, fr.ms, fr.depthF, fr.maxF, "D4-guarded-recursion")
	for _, name := range sortedKeys(fr.ms) {
		checkLoops(c, r, "D5-loop-progress", fr.ms[name], nil)
	}
	r.floorSoft("D5-loop-progress", "loops", "no loop is left in the methods this rule looks at")
}

// ---------------------------------------------------------------- D2 converter pairs

func checkConverterPairs(c *Ctx, r *Rec, fr *fmtRoles, st *scanTables) {
	info := c.info("cdcn")
	parser, err := c.impl("cdcn", "ParserLike")
	if err != nil {
		r.undecided("D2-converter-pairs", "cdcn.parser", "", err.Error())
		return
	}
	// producers used by the formatter
	type conv struct{ callee, args string }
	collect := func(ms map[string]*ast.FuncDecl) map[string][]conv {
		out := map[string][]conv{}
		for _, name := range sortedKeys(ms) {
			hostFD := ms[name]
			ast.Inspect(ms[name].Body, func(x ast.Node) bool {
				call, ok := x.(*ast.CallExpr)
				if !ok {
					return true
				}
				fn := calleeOf(info, call)
				if fn == nil || fn.Pkg() == nil || (fn.Pkg().Path() != "strconv" && fn.Pkg().Path() != "unicode/utf8") {
					return true
				}
				var args []string
				for i, a := range call.Args {
					if i == 0 {
						// the text/value operand: keep only a slicing offset (followed through locals)
						if se, ok := resolveInit(info, hostFD, a).(*ast.SliceExpr); ok && se.Low != nil {
							args = append(args, "[", exprStr(se.Low), ":]")
						}
						// strings.TrimPrefix(text, "0x") cuts as many characters as the prefix has (the
						// token pattern guarantees that the prefix is there)
						if tc, ok := ast.Unparen(resolveInit(info, hostFD, a)).(*ast.CallExpr); ok && len(tc.Args) == 2 {
							if tf := calleeOf(info, tc); tf != nil && tf.Pkg() != nil && tf.Pkg().Path() == "strings" && tf.Name() == "TrimPrefix" {
								if tv := info.Types[tc.Args[1]]; tv.Value != nil {
									args = append(args, "[", fmt.Sprint(len(strings.Trim(tv.Value.ExactString(), "\""))), ":]")
								}
							}
						}
						continue
					}
					if tv := info.Types[a]; tv.Value != nil {
						args = append(args, tv.Value.ExactString())
					} else {
						args = append(args, "?")
					}
				}
				out[fn.Name()] = append(out[fn.Name()], conv{fn.Pkg().Path() + "." + fn.Name(), strings.Join(args, ",")})
				return true
			})
		}
		return out
	}
	// the writer side: the formatter's methods and the package-level functions they call
	// (leaves may be functions that return their text)
	writer := map[string]*ast.FuncDecl{}
	for k, v := range fr.ms {
		writer[k] = v
	}
	for round := 0; round < 2; round++ {
		for _, fd := range sortedFds(writer) {
			ast.Inspect(fd.Body, func(x ast.Node) bool {
				if call, ok := x.(*ast.CallExpr); ok {
					if cf := calleeOf(info, call); cf != nil && recvNamed(cf) == nil {
						if d := c.declOf(cf); d != nil && d.Body != nil && c.infoFor(d) == info {
							writer["func "+d.Name.Name] = d
						}
					}
				}
				return true
			})
		}
	}
	prod := collect(writer)
	cons := collect(c.methodsOf(parser))
	pairs := []struct {
		p, pargs, q, qargs, what string
	}{
		{"FormatBool", "", "ParseBool", "", "booleans"},
		{"FormatInt", "10", "ParseInt", "10,64", "signed integers: base 10, 64 bits"},
		{"FormatUint", "16", "ParseUint", "[,2,:],16,64", "unsigned integers: 0x prefix skipped, base 16, 64 bits"},
		{"FormatFloat", "71,-1,64", "ParseFloat", "64", "floats: shortest 'G' form of a 64-bit value read back as 64 bits"},
		{"FormatFloat", "71,-1,64", "ParseComplex", "128", "complex numbers: two 64-bit parts read back as complex128"},
		{"QuoteRune", "", "Unquote", "", "runes: Go quoting"},
		{"Quote", "", "Unquote", "", "strings: Go quoting"},
	}
	for _, pr := range pairs {
		construct := "cdcn/" + pr.p + "<->" + pr.q
		bad := ""
		switch {
		case len(prod[pr.p]) == 0:
			bad = "skip: the formatter does not use strconv." + pr.p
		case len(cons[pr.q]) == 0:
			bad = "skip: the parser does not use strconv." + pr.q
		default:
			for _, p := range prod[pr.p] {
				if p.args != pr.pargs {
					bad = fmt.Sprintf("the formatter calls %s with constants (%s), the round trip requires (%s)", pr.p, p.args, pr.pargs)
				}
			}
			found := false
			for _, q := range cons[pr.q] {
				if q.args == pr.qargs {
					found = true
				}
			}
			if !found && bad == "" {
				var have []string
				for _, q := range cons[pr.q] {
					have = append(have, "("+q.args+")")
				}
				bad = fmt.Sprintf("the parser calls %s with %s, the inverse of the formatter's %s(%s) requires (%s)", pr.q, strings.Join(have, " "), pr.p, pr.pargs, pr.qargs)
			}
		}
		r.verdict("D2-converter-pairs", construct, "", pr.what, bad)
	}
	// the 0x prefix
	okPrefix := false
	nFormatUint := 0
	for _, fd := range c.allFuncDecls("cdcn") {
		if fd.Body == nil {
			continue
		}
		ast.Inspect(fd.Body, func(x ast.Node) bool {
			if call, ok := x.(*ast.CallExpr); ok {
				if fn := calleeOf(info, call); fn != nil && fn.Name() == "FormatUint" && fn.Pkg() != nil && fn.Pkg().Path() == "strconv" {
					nFormatUint++
				}
			}
			if be, ok := x.(*ast.BinaryExpr); ok && be.Op == token.ADD {
				if s, ok := constString(info, be.X); ok && s == "0x" {
					if call, ok := ast.Unparen(be.Y).(*ast.CallExpr); ok {
						if fn := calleeOf(info, call); fn != nil && fn.Name() == "FormatUint" {
							okPrefix = true
						}
					}
				}
			}
			return true
		})
	}
	if nFormatUint == 0 {
		r.skip("D2-converter-pairs", "cdcn/hexadecimal-prefix", "", "the notation does not call strconv.FormatUint")
	} else {
		r.check(okPrefix, "D2-converter-pairs", "cdcn/hexadecimal-prefix", "", `"0x" + FormatUint(...,16) on the writer side, [2:] on the reader side`, `the unsigned leaf does not print "0x" immediately before the base-16 digits`)
	}

	// collection type names: emitted, scanned, dispatched
	emitted := map[string]bool{}
	for _, fd := range fr.ms {
		ast.Inspect(fd.Body, func(x ast.Node) bool {
			as, ok := x.(*ast.AssignStmt)
			if !ok || len(as.Lhs) != 1 || len(as.Rhs) != 1 {
				return true
			}
			if o := identObj(info, as.Lhs[0]); o != nil && isStringType(o.Type()) {
				if s, ok := constString(info, as.Rhs[0]); ok && len(s) > 0 && s[0] >= 'A' && s[0] <= 'Z' {
					emitted[s] = true
				}
			}
			return true
		})
	}
	var scanned []string
	if src, ok := st.matchers["TypeToken"]; ok {
		scanned = strings.Split(src, "|")
	}
	dispatched := map[string]bool{}
	for _, fd := range c.methodsOf(parser) {
		ast.Inspect(fd.Body, func(x ast.Node) bool {
			sw, ok := x.(*ast.SwitchStmt)
			if !ok || sw.Tag == nil {
				return true
			}
			for _, cl := range sw.Body.List {
				for _, e := range cl.(*ast.CaseClause).List {
					if s, ok := constString(info, e); ok {
						dispatched[s] = true
					}
				}
			}
			return true
		})
	}
	// names may also be dispatched through a lookup table keyed by the name (a package-level map
	// with string keys that a parser method indexes)
	for _, fd := range c.methodsOf(parser) {
		ast.Inspect(fd.Body, func(x ast.Node) bool {
			ix, ok := x.(*ast.IndexExpr)
			if !ok {
				return true
			}
			tv, ok := info.Uses[identOf(ix.X)].(*types.Var)
			if !ok || tv.Pkg() == nil || tv.Parent() != tv.Pkg().Scope() {
				return true
			}
			lit := c.packageVarLiteral(tv)
			if lit == nil {
				return true
			}
			mt, isMap := tv.Type().Underlying().(*types.Map)
			if !isMap {
				return true
			}
			if _, isFunc := mt.Elem().Underlying().(*types.Signature); !isFunc {
				return true // a table of texts (the grammar), not of things to do
			}
			for _, el := range lit.Elts {
				if kv, ok := el.(*ast.KeyValueExpr); ok {
					if s, ok := constString(info, kv.Key); ok && len(dispatched) > 0 {
						dispatched[s] = true
					}
				}
			}
			return true
		})
	}
	keys := func(m map[string]bool) []string {
		var out []string
		for k := range m {
			out = append(out, k)
		}
		sort.Strings(out)
		return out
	}
	sort.Strings(scanned)
	e, d := keys(emitted), keys(dispatched)
	same := strings.Join(e, ",") == strings.Join(scanned, ",") && strings.Join(scanned, ",") == strings.Join(d, ",")
	if len(e) == 0 || len(d) == 0 || len(scanned) == 0 {
		r.skip("D2-type-names", "cdcn/collection-type-names", "", fmt.Sprintf("the names could not be extracted on every side (emitted %v, scanned %v, dispatched %v): the formatter or the parser does not use a switch over string constants here", e, scanned, d))
		same = true
	} else {
		r.check(same, "D2-type-names", "cdcn/collection-type-names", "", fmt.Sprintf("the formatter emits, the scanner accepts and the parser dispatches on the same %d names", len(scanned)),
			fmt.Sprintf("emitted %v, scanned %v, dispatched %v must be one set: a collection of a kind missing on one side does not survive the round trip", e, scanned, d))
	}
	r.floor("D2-converter-pairs", 7)
	checkUnquotedTextKept(c, r, "D2-unquoted-text-kept", "cdcn")
	checkIntrinsicFamilies(c, r, "D1-intrinsic-families", fr)
}

// ---------------------------------------------------------------- D3 purity

func checkFormatterPurity(c *Ctx, r *Rec, fr *fmtRoles) {
	info := c.info("cdcn")
	entry := fr.ms["FormatValue"]
	if entry == nil {
		r.undecided("D3-pure-function-of-argument", "cdcn."+fr.n.Obj().Name()+".FormatValue", "", "entry point not found")
		return
	}
	// private helpers that only re-initialise fields (v.startOver()): helper name -> fields reset
	resetHelper := map[string]map[*types.Var]bool{}
	for name, hd := range fr.ms {
		if ast.IsExported(name) || hd.Body == nil {
			continue
		}
		set := map[*types.Var]bool{}
		pure := true
		for _, st := range hd.Body.List {
			switch s := st.(type) {
			case *ast.AssignStmt:
				for i, l := range s.Lhs {
					f := selectorField(info, l)
					if f == nil || s.Tok != token.ASSIGN || i >= len(s.Rhs) || info.Types[s.Rhs[i]].Value == nil {
						pure = false
					} else {
						set[f] = true
					}
				}
			case *ast.ExprStmt:
				if rx, mname, _, ok := methodCall(s.X); ok && mname == "Reset" && selectorField(info, rx) != nil {
					set[selectorField(info, rx)] = true
				} else {
					pure = false
				}
			default:
				pure = false
			}
		}
		if pure && len(set) > 0 {
			resetHelper[name] = set
		}
	}
	// fields written anywhere during formatting
	fw := c.fieldWrites()
	for _, f := range fr.fields {
		if len(fw[f.Origin()]) == 0 {
			continue
		}
		construct := "cdcn." + fr.n.Obj().Name() + "." + f.Name()
		// is it reset at entry (before any call) or restored by defer?
		g := newFG(info, entry.Body)
		var resets []ast.Node
		deferred := false
		ast.Inspect(entry.Body, func(x ast.Node) bool {
			switch s := x.(type) {
			case *ast.AssignStmt:
				for _, l := range s.Lhs {
					if selectorField(info, l) == f {
						resets = append(resets, s)
					}
				}
			case *ast.ExprStmt:
				if rx, mname, _, ok := methodCall(s.X); ok && mname == "Reset" && selectorField(info, rx) == f {
					resets = append(resets, s)
				}
				if rx, mname, _, ok := methodCall(s.X); ok && isObj(info, rx, recvObj(info, entry)) && resetHelper[mname][f] {
					resets = append(resets, s)
				}
			case *ast.DeferStmt:
				ast.Inspect(s, func(y ast.Node) bool {
					if se, ok := y.(*ast.SelectorExpr); ok && selectorField(info, se) == f {
						deferred = true
					}
					return true
				})
			}
			return true
		})
		bad := ""
		if !deferred {
			if len(resets) == 0 {
				bad = "FormatValue neither re-initialises this field at its entry nor restores it by defer"
			} else {
				// the reset dominates the first delegate call
				var firstCall ast.Node
				inspectNoLit(entry.Body, func(x ast.Node) bool {
					if call, ok := x.(*ast.CallExpr); ok && firstCall == nil {
						if cf := calleeOf(info, call); cf != nil && c.declOf(cf) != nil && recvNamed(cf) != nil && recvNamed(cf).Origin() == fr.n.Origin() {
							firstCall = call
						}
					}
					return true
				})
				dom := false
				for _, rs := range resets {
					if firstCall != nil && g.nodeDominates(rs, firstCall) {
						dom = true
					}
				}
				if !dom {
					bad = "the re-initialisation does not precede the traversal"
				}
			}
		}
		if bad != "" {
			w := fw[f.Origin()][0]
			bad += fmt.Sprintf(" (it is %s at %s): after a call that panicked, the next FormatValue on the same formatter starts from leftover state and returns text that does not depend on its argument alone", w.How, c.pos(w.Pos))
		}
		r.check(bad == "", "D3-pure-function-of-argument", construct, c.pos(f.Pos()), "re-initialised before the traversal (or restored by defer)", bad)
	}
	r.floor("D3-pure-function-of-argument", 1)
	steppers10 := depthSteppers(c, info, fr.ms, fr.depthF)
	for _, name := range sortedKeys(fr.ms) {
		fd := fr.ms[name]
		touches := false
		ast.Inspect(fd.Body, func(x ast.Node) bool {
			if s, ok := x.(*ast.IncDecStmt); ok && selectorField(info, s.X) == fr.depthF {
				touches = true
			}
			if call, ok := x.(*ast.CallExpr); ok {
				if cf := calleeOf(info, call); cf != nil && steppers10[cf.Origin()] != 0 {
					touches = true
				}
			}
			return true
		})
		if !touches {
			continue
		}
		if _, isStepper := steppers10[c.funcOf(fd).Origin()]; isStepper {
			r.ok("D3-depth-balanced", c.fdName(fd), c.pos(fd.Pos()), "a helper that only steps the counter by a fixed amount: accounted for in its callers")
			continue
		}
		_, bad := depthBalanceWith(c, info, fd, fr.depthF, steppers10, 0)
		r.check(bad == "", "D3-depth-balanced", c.fdName(fd), c.pos(fd.Pos()), "net depth change zero on every normal path", bad)
	}
	r.floor("D3-depth-balanced", 1)
}

// checkKeyValueSameEntry: where the formatter hands a key and a value to one call and the value
// is a reflective map lookup, the key looked up and the key printed come from the same slot of
// the same array of keys.  A key taken from a sorted copy and a value looked up through the
// unsorted array pair the keys with the values of other keys.
func checkKeyValueSameEntry(c *Ctx, r *Rec, rule string, info *types.Info, ms map[string]*ast.FuncDecl) {
	for _, name := range sortedKeys(ms) {
		fd := ms[name]
		if fd.Body == nil {
			continue
		}
		// strips conversions to interface values and follows single definitions
		var deep func(e ast.Expr, n int) ast.Expr
		deep = func(e ast.Expr, n int) ast.Expr {
			e = ast.Unparen(e)
			if n > 6 {
				return e
			}
			if id, ok := e.(*ast.Ident); ok {
				if init := initOf(info, fd, id); init != nil {
					return deep(init, n+1)
				}
				return e
			}
			if rx, mname, call, ok := methodCall(e); ok && mname == "Interface" && len(call.Args) == 0 {
				return deep(rx, n+1)
			}
			return e
		}
		var viol []string
		n := 0
		inspectNoLit(fd.Body, func(x ast.Node) bool {
			call, ok := x.(*ast.CallExpr)
			if !ok || len(call.Args) != 2 {
				return true
			}
			v := deep(call.Args[1], 0)
			_, mname, lk, ok := methodCall(v)
			if !ok || mname != "MapIndex" || len(lk.Args) != 1 {
				return true
			}
			looked, ok1 := deep(lk.Args[0], 0).(*ast.IndexExpr)
			printed, ok2 := deep(call.Args[0], 0).(*ast.IndexExpr)
			if !ok1 || !ok2 {
				return true
			}
			a, b := identObj(info, printed.X), identObj(info, looked.X)
			if a == nil || b == nil {
				return true
			}
			n++
			if a != b {
				viol = append(viol, fmt.Sprintf("at %s the key printed is %s but the value printed is looked up with %s: position %s of two different arrays, so keys are paired with the values of other keys", c.pos(call.Pos()), exprStr(printed), exprStr(looked), exprStr(looked.Index)))
			} else if exprStr(printed.Index) != exprStr(looked.Index) {
				viol = append(viol, fmt.Sprintf("at %s the key printed is %s but the value printed is looked up with %s", c.pos(call.Pos()), exprStr(printed), exprStr(looked)))
			}
			return true
		})
		if n == 0 {
			continue
		}
		r.check(len(viol) == 0, rule, c.fdName(fd), c.pos(fd.Pos()), fmt.Sprintf("%d key/value pairs: the value is looked up with the very key that is printed", n), strings.Join(dedup(viol), " | "))
	}
}

func sortedFds(m map[string]*ast.FuncDecl) []*ast.FuncDecl {
	var out []*ast.FuncDecl
	for _, k := range sortedKeys(m) {
		out = append(out, m[k])
	}
	return out
}

// typeSwitchTypes counts the types a type switch names (clauses may group several).
func typeSwitchTypes(ts *ast.TypeSwitchStmt) int {
	n := 0
	for _, cl := range ts.Body.List {
		if cc, ok := cl.(*ast.CaseClause); ok {
			n += len(cc.List)
		}
	}
	return n
}

// checkIntrinsicFamilies: the intrinsic type switch of the formatter handles the primitive types
// family by family (unsigned integers, signed integers, floats, complex numbers).  A family of
// which some members have an arm and another has none is a member that was lost: a value of that
// type falls into the default arm, so FormatValue is not total on the primitives.
func checkIntrinsicFamilies(c *Ctx, r *Rec, rule string, fr *fmtRoles) {
	info := c.infoFor(fr.intrFD)
	if info == nil {
		return
	}
	have := map[types.BasicKind]bool{}
	ast.Inspect(fr.intrFD.Body, func(x ast.Node) bool {
		ts, ok := x.(*ast.TypeSwitchStmt)
		if !ok || typeSwitchTypes(ts) < 10 {
			return true
		}
		for _, cl := range ts.Body.List {
			for _, e := range cl.(*ast.CaseClause).List {
				if t := info.TypeOf(e); t != nil {
					if b, ok := t.Underlying().(*types.Basic); ok && types.Identical(t, b) || ok && t.String() == "rune" || ok && t.String() == "byte" {
						have[b.Kind()] = true
					}
				}
			}
		}
		return false
	})
	families := []struct {
		name  string
		kinds []types.BasicKind
	}{
		{"unsigned integers", []types.BasicKind{types.Uint, types.Uint8, types.Uint16, types.Uint32, types.Uint64}},
		{"signed integers", []types.BasicKind{types.Int, types.Int8, types.Int16, types.Int32, types.Int64}},
		{"floating point numbers", []types.BasicKind{types.Float32, types.Float64}},
		{"complex numbers", []types.BasicKind{types.Complex64, types.Complex128}},
	}
	for _, fam := range families {
		var present, missing []string
		for _, k := range fam.kinds {
			if have[k] {
				present = append(present, types.Typ[k].Name())
			} else {
				missing = append(missing, types.Typ[k].Name())
			}
		}
		construct := c.fdName(fr.intrFD) + "/" + fam.name
		switch {
		case len(present) == 0:
			r.skip(rule, construct, c.pos(fr.intrFD.Pos()), "no arm for this family in the type switch")
		case len(missing) > 0:
			r.fail(rule, construct, c.pos(fr.intrFD.Pos()), fmt.Sprintf("the type switch has arms for %v but none for %v: a value of that type falls into the default arm (the \"unknown intrinsic\" panic), so the formatter is not total on the %s", present, missing, fam.name))
		default:
			r.ok(rule, construct, c.pos(fr.intrFD.Pos()), fmt.Sprintf("every type of the family has an arm: %v", present))
		}
	}
}
