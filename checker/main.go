package main

import (
	"encoding/json"
	"flag"
	"fmt"
	"os"
	"os/exec"
	"path/filepath"
	"sort"
	"strconv"
	"strings"
	"time"
)

var registry = map[string]*propInfo{}

func register(p *propInfo) { registry[p.ID] = p }

func verifDir() string {
	if d := os.Getenv("VERIF_DIR"); d != "" {
		return d
	}
	exe, err := os.Executable()
	if err == nil {
		d := filepath.Dir(filepath.Dir(exe))
		if _, err := os.Stat(filepath.Join(d, "properties.jsonl")); err == nil {
			return d
		}
	}
	return "/verif"
}

func main() {
	prop := flag.String("property", "", "property id (C01..C20) or 'all'")
	tier := flag.String("tier", "quick", "quick|thorough")
	explain := flag.String("explain", "", "re-evaluate and print the obligations named in a report file")
	repo := flag.String("repo", "", "module directory to analyse (default $VERIF_REPO or /repo/v4)")
	evdir := flag.String("evidence", "", "evidence directory (default <verif>/evidence)")
	verbose := flag.Bool("v", false, "print every obligation")
	describe := flag.Bool("describe", false, "print what every registered check decides (markdown) and exit")
	flag.Parse()
	if *describe {
		var ids []string
		for id := range registry {
			ids = append(ids, id)
		}
		sort.Strings(ids)
		for _, id := range ids {
			p := registry[id]
			fmt.Printf("### %s\n\n*Engines:* %s\n\n*Decided:* %s\n\n*Not decided:* %s\n\n", id, p.Engines, p.Decided+round10Decided[p.ID], p.NotDecided)
		}
		return
	}

	if t := os.Getenv("VERIF_TIER"); t != "" && *tier == "quick" {
		if t == "thorough" {
			*tier = t
		}
	}
	root := *repo
	if root == "" {
		root = os.Getenv("VERIF_REPO")
	}
	if root == "" {
		root = "/repo/v4"
	}
	vdir := verifDir()
	if *evdir == "" {
		*evdir = filepath.Join(vdir, "evidence")
	}
	var seed int64
	if s := os.Getenv("VERIF_SEED"); s != "" {
		seed, _ = strconv.ParseInt(s, 10, 64)
	}

	var ids []string
	if *prop == "all" || (*prop == "" && *explain == "") {
		for id := range registry {
			ids = append(ids, id)
		}
		sort.Strings(ids)
	} else if *prop != "" {
		ids = strings.Split(*prop, ",")
	}
	var explainKeys map[string]bool
	if *explain != "" {
		b, err := os.ReadFile(*explain)
		if err != nil {
			fmt.Println("cannot read report:", err)
			os.Exit(2)
		}
		var doc struct {
			PropertyID  string       `json:"property_id"`
			Obligations []Obligation `json:"obligations"`
		}
		if err := json.Unmarshal(b, &doc); err != nil {
			fmt.Println("cannot parse report:", err)
			os.Exit(2)
		}
		if len(ids) == 0 {
			ids = []string{doc.PropertyID}
		}
		explainKeys = map[string]bool{}
		for _, o := range doc.Obligations {
			explainKeys[o.Key()] = true
		}
		*verbose = false
	}

	start := time.Now()
	ctx, err := loadRepo(root, "", *tier)
	exit := 0
	if err != nil {
		// fail closed: nothing can be decided on a tree that does not load.
		for _, id := range ids {
			p := registry[id]
			if p == nil {
				continue
			}
			r := newRec(id)
			r.undecided("load", "repository", "", err.Error())
			c := &Ctx{Root: root}
			_ = writeEvidence(*evdir, p, r, *tier, seed, time.Since(start).Seconds(), c, nil)
			path, _ := writeReport(*evdir, p, r)
			fmt.Printf("UNDECIDED load: %v\n", err)
			fmt.Printf("VIOLATION property=%s replay=%s\n", id, path)
		}
		os.Exit(1)
	}
	loadS := time.Since(start).Seconds()
	kfs, err := loadKnown(filepath.Join(vdir, "known_findings.json"))
	if err != nil {
		fmt.Println("cannot read known_findings.json:", err)
		os.Exit(2)
	}

	for _, id := range ids {
		p := registry[id]
		if p == nil {
			fmt.Printf("unknown property %q\n", id)
			exit = 2
			continue
		}
		t0 := time.Now()
		r := newRec(id)
		func() {
			defer func() {
				if e := recover(); e != nil {
					r.undecided("internal", "checker-panic", "", fmt.Sprint(e))
				}
			}()
			p.Run(ctx, r)
		}()
		r.applyFloors()
		lines := r.applyKnown(kfs)
		wall := time.Since(t0).Seconds() + loadS
		n, okN, viol, und, vac, known := r.tally()
		if explainKeys != nil {
			for _, o := range r.Obls {
				if explainKeys[o.Key()] {
					fmt.Printf("%-13s %s  %s  %s\n    %s\n", o.Status, o.Pos, o.Rule, o.Construct, o.Detail)
				}
			}
			continue
		}
		var extra map[string]any
		if *tier == "thorough" && explainKeys == nil {
			extra = thoroughExtras(vdir, root, id, p, r, kfs)
			wall = time.Since(t0).Seconds() + loadS
			n, okN, viol, und, vac, known = r.tally()
		}
		if err := writeEvidence(*evdir, p, r, *tier, seed, wall, ctx, extra); err != nil {
			fmt.Println("cannot write evidence:", err)
			os.Exit(2)
		}
		for _, l := range lines {
			fmt.Println(l)
		}
		for _, o := range r.Obls {
			if *verbose || o.Status == stViolated || o.Status == stUndecided || o.Status == stVacuous {
				tag := strings.ToUpper(o.Status)
				fmt.Printf("%s %s %s %s: %s", tag, o.Pos, o.Rule, o.Construct, o.Detail)
				if o.Witness != "" {
					fmt.Printf(" [witness %s]", o.Witness)
				}
				fmt.Println()
			}
		}
		fmt.Printf("%s tier=%s obligations=%d discharged=%d violated=%d undecided=%d vacuous=%d known=%d not-evaluated=%d analysed=%v wall=%.2fs\n",
			id, *tier, n, okN, viol, und, vac, known, r.skipped(), r.Analysed, wall)
		if viol+und+vac > 0 {
			path, _ := writeReport(*evdir, p, r)
			fmt.Printf("VIOLATION property=%s replay=%s\n", id, path)
			exit = 1
		} else {
			os.Remove(filepath.Join(*evdir, id+".report.json"))
		}
	}
	os.Exit(exit)
}

// thoroughExtras: (a) the same rules once more on a load with the build tag
// `verif` (files hidden behind the guard tag are analysed too; any obligation
// that is not discharged there is added to the run), (b) the checker self-test
// for this property (evidence only: it never changes the exit code).
func thoroughExtras(vdir, root, id string, p *propInfo, r *Rec, kfs []KnownFinding) map[string]any {
	extra := map[string]any{}
	if tctx, err := loadRepo(root, "verif", "thorough"); err != nil {
		r.undecided("load", "repository(tags=verif)", "", err.Error())
	} else {
		tr := newRec(id)
		func() {
			defer func() {
				if e := recover(); e != nil {
					tr.undecided("internal", "checker-panic(tags=verif)", "", fmt.Sprint(e))
				}
			}()
			p.Run(tctx, tr)
		}()
		tr.applyFloors()
		tr.applyKnown(kfs) // the same known findings apply to the tagged load
		have := map[string]bool{}
		for _, o := range r.Obls {
			have[o.Key()+o.Status] = true
		}
		added := 0
		for _, o := range tr.Obls {
			if o.Status != stOK && o.Status != stSkipped && o.Status != stKnown && !have[o.Key()+o.Status] {
				o.Construct = "tags=verif/" + o.Construct
				r.Obls = append(r.Obls, o)
				added++
			}
		}
		extra["tagged_load"] = map[string]any{"tags": "verif", "files": tctx.NFiles, "obligations": len(tr.Obls), "additional_findings": added}
	}
	cmd := exec.Command("python3", filepath.Join(vdir, "tools", "selftest.py"), id, "--repo", root)
	out, err := cmd.Output()
	if err != nil {
		extra["selftest"] = map[string]any{"error": err.Error()}
		return extra
	}
	var doc map[string]any
	if err := json.Unmarshal(out, &doc); err != nil {
		extra["selftest"] = map[string]any{"error": err.Error()}
		return extra
	}
	extra["selftest"] = doc
	return extra
}
