package main

// Size tracking for locally built collections inside constructor-like functions
// (used by C13 D1 and C05 D2): the number of values a local collection holds
// at each program point, as a linear form over n = the size of the caller's
// input.

import (
	"fmt"
	"go/ast"
	"go/types"
)

type sizeTracker struct {
	info   *types.Info
	fd     *ast.FuncDecl
	env    *symEnv
	n      *Lin
	params map[types.Object]bool
	fresh  int
}

func sizeKey(o types.Object) string { return "size:" + objKey(o) }

// install wires the tracker into env (resolve, onAssign, onLoop).  extra is
// consulted first by resolve.
func newSizeTracker(info *types.Info, fd *ast.FuncDecl, env *symEnv, extra func(e ast.Expr) (Val, bool)) *sizeTracker {
	t := &sizeTracker{info: info, fd: fd, env: env, n: sym("n"), params: map[types.Object]bool{}}
	for _, p := range paramObjs(info, fd) {
		if isGoContainer(p.Type()) || isSequentialParam(p.Type()) || isCollectionLike(p.Type()) {
			t.params[p] = true
		}
	}
	env.base = append(env.base, t.n.scale(-1))
	env.havocLoops = true
	var sizeOf func(st *symState, x ast.Expr) (*Lin, bool)
	sizeOf = func(st *symState, x ast.Expr) (*Lin, bool) {
		// a snapshot has the size of what it was taken from
		if rx, mname, call, ok := methodCall(ast.Unparen(x)); ok && (mname == "AsArray" || mname == "GetIterator") && len(call.Args) == 0 {
			return sizeOf(st, rx)
		}
		o := identObj(info, x)
		if o == nil {
			return nil, false
		}
		if t.params[o] {
			return t.n, true
		}
		if v, ok := st.vars[sizeKey(o)]; ok && v.Lin != nil {
			return v.Lin, true
		}
		return nil, false
	}
	unknown := func() *Lin {
		t.fresh++
		return linSym(fmt.Sprintf("size?%d", t.fresh))
	}
	env.resolve = func(e ast.Expr) (Val, bool) {
		if extra != nil {
			if v, ok := extra(e); ok {
				return v, true
			}
		}
		call, ok := e.(*ast.CallExpr)
		if !ok {
			return Val{}, false
		}
		st := env.cur
		if isBuiltinCall(info, call, "len") && len(call.Args) == 1 {
			if l, ok := sizeOf(st, call.Args[0]); ok {
				return Val{Lin: l}, true
			}
			return Val{Lin: unknown()}, true
		}
		rx, mname, _, ok := methodCall(call)
		if !ok {
			return Val{}, false
		}
		switch mname {
		case "GetSize":
			if l, ok := sizeOf(st, rx); ok {
				return Val{Lin: l}, true
			}
			return Val{Lin: unknown()}, true
		case "IsEmpty":
			if l, ok := sizeOf(st, rx); ok {
				return Val{B: eq(l, k(0))}, true
			}
		case "AppendValue", "AddValue", "InsertValue", "SetValue":
			if o := identObj(info, rx); o != nil {
				if l, ok := sizeOf(st, rx); ok && !t.params[o] {
					st.vars[sizeKey(o)] = Val{Lin: l.plus(1)}
					return Val{Opaque: "grow"}, true
				}
			}
		case "AppendValues", "AddValues", "InsertValues":
			if o := identObj(info, rx); o != nil && !t.params[o] {
				if l, ok := sizeOf(st, rx); ok && len(call.Args) >= 1 {
					add, okA := sizeOf(st, call.Args[len(call.Args)-1])
					if !okA {
						add = unknown()
					}
					st.vars[sizeKey(o)] = Val{Lin: l.add(add)}
					return Val{Opaque: "grow"}, true
				}
			}
		case "RemoveAll":
			if o := identObj(info, rx); o != nil && !t.params[o] {
				st.vars[sizeKey(o)] = Val{Lin: k(0)}
				return Val{Opaque: "reset"}, true
			}
		}
		return Val{}, false
	}
	env.onInlineBind = func(caller, callee *symState, param types.Object, arg ast.Expr) {
		if l, ok := sizeOf(caller, arg); ok {
			callee.vars[sizeKey(param)] = Val{Lin: l}
		}
	}
	env.onAssign = func(st *symState, lhs ast.Expr, rhs ast.Expr) {
		o := identObj(info, lhs)
		if o == nil {
			return
		}
		if rx, mname, call, ok := methodCall(ast.Unparen(rhs)); ok && mname == "AsArray" && len(call.Args) == 0 {
			if l, ok := sizeOf(st, rx); ok {
				st.vars[sizeKey(o)] = Val{Lin: l}
				return
			}
		}
		_, mname, call, ok := methodCall(ast.Unparen(rhs))
		if !ok {
			if id, isId := ast.Unparen(rhs).(*ast.Ident); isId {
				if l, ok := sizeOf(st, id); ok {
					st.vars[sizeKey(o)] = Val{Lin: l}
				}
			}
			return
		}
		if !isCollectionLike(o.Type()) && !isGoContainer(o.Type()) {
			return
		}
		switch {
		case mname == "Make" && len(call.Args) == 0, mname == "MakeWithCapacity", mname == "MakeWithCollator":
			st.vars[sizeKey(o)] = Val{Lin: k(0)}
		case (mname == "MakeFromSequence" || mname == "MakeFromArray" || mname == "MakeFromMap") && len(call.Args) == 1:
			if l, ok := sizeOf(st, call.Args[0]); ok {
				st.vars[sizeKey(o)] = Val{Lin: l}
			} else {
				st.vars[sizeKey(o)] = Val{Lin: unknown()}
			}
		default:
			st.vars[sizeKey(o)] = Val{Lin: unknown()}
		}
	}
	env.onLoop = func(st *symState, loop ast.Stmt) {
		// collections mutated inside the loop hold an unknown (larger) number of values afterwards
		inspectNoLit(loop, func(x ast.Node) bool {
			if rx, mname, _, ok := methodCall(x); ok && (listMutators[mname] || mname == "AddValue" || mname == "AddValues") {
				if o := identObj(info, rx); o != nil && !t.params[o] {
					st.vars[sizeKey(o)] = Val{Lin: unknown()}
				}
			}
			return true
		})
	}
	return t
}

// sizeAt returns the tracked size of the collection denoted by x in state st.
func (t *sizeTracker) sizeAt(st *symState, x ast.Expr) *Lin {
	o := identObj(t.info, x)
	if o == nil {
		return nil
	}
	if t.params[o] {
		return t.n
	}
	if v, ok := st.vars[sizeKey(o)]; ok {
		return v.Lin
	}
	return nil
}
