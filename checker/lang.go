package main

// LANG engine: regular languages over a finite partition of the Unicode
// alphabet.  Regular expressions (regexp/syntax ASTs) are translated to NFAs by
// Thompson's construction, determinised over alphabet classes, and combined by
// product constructions.  Witnesses are shortest words.

import (
	"fmt"
	"regexp/syntax"
	"sort"
	"strings"
	"unicode"
)

// ---------------------------------------------------------------- alphabet

type Alphabet struct {
	bounds []rune // sorted class start points; class i = [bounds[i], bounds[i+1]-1]
	frozen bool
}

func newAlphabet() *Alphabet { return &Alphabet{bounds: []rune{0}} }

func (a *Alphabet) cut(r rune) {
	if r < 0 || r > unicode.MaxRune+1 {
		return
	}
	a.bounds = append(a.bounds, r)
}
func (a *Alphabet) addRange(lo, hi rune) { a.cut(lo); a.cut(hi + 1) }
func (a *Alphabet) addString(s string) {
	for _, r := range s {
		a.addRange(r, r)
	}
}
func (a *Alphabet) addRegexp(re *syntax.Regexp) {
	switch re.Op {
	case syntax.OpLiteral:
		for _, r := range re.Rune {
			a.addRange(r, r)
			if re.Flags&syntax.FoldCase != 0 {
				for f := unicode.SimpleFold(r); f != r; f = unicode.SimpleFold(f) {
					a.addRange(f, f)
				}
			}
		}
	case syntax.OpCharClass:
		for i := 0; i+1 < len(re.Rune); i += 2 {
			a.addRange(re.Rune[i], re.Rune[i+1])
		}
	case syntax.OpAnyCharNotNL:
		a.addRange('\n', '\n')
	}
	for _, s := range re.Sub {
		a.addRegexp(s)
	}
}
func (a *Alphabet) freeze() {
	sort.Slice(a.bounds, func(i, j int) bool { return a.bounds[i] < a.bounds[j] })
	out := a.bounds[:0]
	var last rune = -1
	for _, b := range a.bounds {
		if b != last && b <= unicode.MaxRune {
			out = append(out, b)
			last = b
		}
	}
	a.bounds = out
	a.frozen = true
}
func (a *Alphabet) n() int { return len(a.bounds) }
func (a *Alphabet) classOf(r rune) int {
	i := sort.Search(len(a.bounds), func(i int) bool { return a.bounds[i] > r })
	return i - 1
}
func (a *Alphabet) hi(i int) rune {
	if i+1 < len(a.bounds) {
		return a.bounds[i+1] - 1
	}
	return unicode.MaxRune
}

// rep returns a printable representative of class i where possible.
func (a *Alphabet) rep(i int) rune {
	lo, hi := a.bounds[i], a.hi(i)
	for _, cand := range []rune{'a', 'A', '5', ' ', '~', 0x4e2d} {
		if cand >= lo && cand <= hi {
			return cand
		}
	}
	for r := lo; r <= hi && r < lo+64; r++ {
		if unicode.IsPrint(r) {
			return r
		}
	}
	return lo
}

// ---------------------------------------------------------------- NFA

type NFA struct {
	al    *Alphabet
	eps   [][]int
	trans []map[int][]int // state -> class -> states
	start int
	acc   map[int]bool
}

func newNFA(al *Alphabet) *NFA { return &NFA{al: al, acc: map[int]bool{}} }
func (n *NFA) newState() int {
	n.eps = append(n.eps, nil)
	n.trans = append(n.trans, map[int][]int{})
	return len(n.eps) - 1
}
func (n *NFA) addEps(a, b int) { n.eps[a] = append(n.eps[a], b) }
func (n *NFA) addRange(a, b int, lo, hi rune) {
	for c := n.al.classOf(lo); c < n.al.n() && n.al.bounds[c] <= hi; c++ {
		if c >= 0 && n.al.bounds[c] >= lo && n.al.hi(c) <= hi {
			n.trans[a][c] = append(n.trans[a][c], b)
		}
	}
}

// frag builds the fragment for re between fresh states (in, out).
func (n *NFA) frag(re *syntax.Regexp) (int, int, error) {
	in, out := n.newState(), n.newState()
	switch re.Op {
	case syntax.OpEmptyMatch, syntax.OpBeginText, syntax.OpBeginLine:
		// anchors at the start are how the scanner uses its patterns
		n.addEps(in, out)
	case syntax.OpEndText:
		n.addEps(in, out)
	case syntax.OpNoMatch:
	case syntax.OpLiteral:
		cur := in
		for i, r := range re.Rune {
			nxt := out
			if i < len(re.Rune)-1 {
				nxt = n.newState()
			}
			n.addRange(cur, nxt, r, r)
			if re.Flags&syntax.FoldCase != 0 {
				for f := unicode.SimpleFold(r); f != r; f = unicode.SimpleFold(f) {
					n.addRange(cur, nxt, f, f)
				}
			}
			cur = nxt
		}
		if len(re.Rune) == 0 {
			n.addEps(in, out)
		}
	case syntax.OpCharClass:
		for i := 0; i+1 < len(re.Rune); i += 2 {
			n.addRange(in, out, re.Rune[i], re.Rune[i+1])
		}
	case syntax.OpAnyChar:
		n.addRange(in, out, 0, unicode.MaxRune)
	case syntax.OpAnyCharNotNL:
		n.addRange(in, out, 0, '\n'-1)
		n.addRange(in, out, '\n'+1, unicode.MaxRune)
	case syntax.OpCapture:
		a, b, err := n.frag(re.Sub[0])
		if err != nil {
			return 0, 0, err
		}
		n.addEps(in, a)
		n.addEps(b, out)
	case syntax.OpConcat:
		cur := in
		for _, s := range re.Sub {
			a, b, err := n.frag(s)
			if err != nil {
				return 0, 0, err
			}
			n.addEps(cur, a)
			cur = b
		}
		n.addEps(cur, out)
	case syntax.OpAlternate:
		for _, s := range re.Sub {
			a, b, err := n.frag(s)
			if err != nil {
				return 0, 0, err
			}
			n.addEps(in, a)
			n.addEps(b, out)
		}
	case syntax.OpStar, syntax.OpPlus, syntax.OpQuest:
		a, b, err := n.frag(re.Sub[0])
		if err != nil {
			return 0, 0, err
		}
		// epsilon edges are added in the order of preference of Go's leftmost-first matching
		// (greedy: repeat before leaving; non-greedy: leave first); the order is irrelevant for
		// the language, it matters for preferredDFA
		greedy := re.Flags&syntax.NonGreedy == 0
		loop := re.Op != syntax.OpQuest
		skip := re.Op != syntax.OpPlus
		if greedy {
			n.addEps(in, a)
			if skip {
				n.addEps(in, out)
			}
			if loop {
				n.addEps(b, a)
			}
			n.addEps(b, out)
		} else {
			if skip {
				n.addEps(in, out)
			}
			n.addEps(in, a)
			n.addEps(b, out)
			if loop {
				n.addEps(b, a)
			}
		}
	case syntax.OpRepeat:
		// expand  x{m,n}
		cur := in
		for i := 0; i < re.Min; i++ {
			a, b, err := n.frag(re.Sub[0])
			if err != nil {
				return 0, 0, err
			}
			n.addEps(cur, a)
			cur = b
		}
		lazy := re.Flags&syntax.NonGreedy != 0
		if re.Max < 0 {
			a, b, err := n.frag(re.Sub[0])
			if err != nil {
				return 0, 0, err
			}
			if lazy {
				n.addEps(cur, out)
				n.addEps(cur, a)
				n.addEps(b, out)
				n.addEps(b, a)
			} else {
				n.addEps(cur, a)
				n.addEps(cur, out)
				n.addEps(b, a)
				n.addEps(b, out)
			}
		} else {
			for i := re.Min; i < re.Max; i++ {
				a, b, err := n.frag(re.Sub[0])
				if err != nil {
					return 0, 0, err
				}
				if lazy {
					n.addEps(cur, out)
					n.addEps(cur, a)
				} else {
					n.addEps(cur, a) // greedy: one more copy is preferred to leaving
					n.addEps(cur, out)
				}
				cur = b
			}
			n.addEps(cur, out)
		}
	default:
		return 0, 0, fmt.Errorf("unsupported regexp operator %v in %s", re.Op, re)
	}
	return in, out, nil
}

func parseRegex(src string) (*syntax.Regexp, error) {
	re, err := syntax.Parse(src, syntax.Perl)
	if err != nil {
		return nil, err
	}
	return re, nil
}

// ---------------------------------------------------------------- DFA

type DFA struct {
	al    *Alphabet
	next  [][]int // state -> class -> state (complete)
	acc   []bool
	start int
}

func (n *NFA) closure(set map[int]bool) {
	var stack []int
	for s := range set {
		stack = append(stack, s)
	}
	for len(stack) > 0 {
		s := stack[len(stack)-1]
		stack = stack[:len(stack)-1]
		for _, t := range n.eps[s] {
			if !set[t] {
				set[t] = true
				stack = append(stack, t)
			}
		}
	}
}

func setKey(set map[int]bool) string {
	var ks []int
	for k := range set {
		ks = append(ks, k)
	}
	sort.Ints(ks)
	var sb strings.Builder
	for _, k := range ks {
		fmt.Fprintf(&sb, "%d,", k)
	}
	return sb.String()
}

// determinize builds a complete DFA; starts lists the NFA start states.
func (n *NFA) determinize(starts ...int) *DFA {
	d := &DFA{al: n.al}
	init := map[int]bool{}
	if len(starts) == 0 {
		starts = []int{n.start}
	}
	for _, s := range starts {
		init[s] = true
	}
	n.closure(init)
	index := map[string]int{}
	var sets []map[int]bool
	add := func(set map[int]bool) int {
		key := setKey(set)
		if i, ok := index[key]; ok {
			return i
		}
		i := len(sets)
		index[key] = i
		sets = append(sets, set)
		d.next = append(d.next, make([]int, n.al.n()))
		accepting := false
		for s := range set {
			if n.acc[s] {
				accepting = true
			}
		}
		d.acc = append(d.acc, accepting)
		return i
	}
	d.start = add(init)
	for i := 0; i < len(sets); i++ {
		for c := 0; c < n.al.n(); c++ {
			nxt := map[int]bool{}
			for s := range sets[i] {
				for _, t := range n.trans[s][c] {
					nxt[t] = true
				}
			}
			n.closure(nxt)
			d.next[i][c] = add(nxt)
		}
	}
	return d
}

func dfaFromRegexp(al *Alphabet, re *syntax.Regexp) (*DFA, error) {
	n := newNFA(al)
	in, out, err := n.frag(re)
	if err != nil {
		return nil, err
	}
	n.start = in
	n.acc[out] = true
	return n.determinize(), nil
}

// preferredDFA builds, for a pattern used anchored at the start of the input, the automaton
// of Go's leftmost-first matching: its states are the priority-ordered thread lists of the
// Thompson simulation, cut behind the first accepting thread (a match of a higher-priority
// thread discards every lower-priority alternative).  A state is accepting when its list
// contains the accepting NFA state, so the language of the result is
//
//	PM = { w : the match the engine selects on an input that starts with w can end at |w| }
//
// and the match finally selected on an input is its longest prefix in PM that the run reaches.
// L(PM) is a subset of the pattern's language; where they differ the order of alternatives
// (or greediness) makes the engine stop earlier than the word.
func preferredDFA(al *Alphabet, re *syntax.Regexp) (*DFA, error) {
	n := newNFA(al)
	in, out, err := n.frag(re)
	if err != nil {
		return nil, err
	}
	// ordered closure: depth-first, epsilon edges in order of preference, first visit wins
	var addClosure func(list *[]int, seen map[int]bool, s int)
	addClosure = func(list *[]int, seen map[int]bool, s int) {
		if seen[s] {
			return
		}
		seen[s] = true
		hasTrans := false
		for range n.trans[s] {
			hasTrans = true
			break
		}
		if hasTrans || s == out {
			*list = append(*list, s) // a thread waiting for input, or the accepting thread
		}
		for _, t := range n.eps[s] {
			addClosure(list, seen, t)
		}
	}
	cut := func(list []int) []int {
		for i, s := range list {
			if s == out {
				return list[:i+1]
			}
		}
		return list
	}
	key := func(list []int) string {
		var sb strings.Builder
		for _, s := range list {
			fmt.Fprintf(&sb, "%d,", s)
		}
		return sb.String()
	}
	d := &DFA{al: al}
	index := map[string]int{}
	var lists [][]int
	add := func(list []int) int {
		k := key(list)
		if i, ok := index[k]; ok {
			return i
		}
		i := len(lists)
		index[k] = i
		lists = append(lists, list)
		d.next = append(d.next, make([]int, al.n()))
		acc := false
		for _, s := range list {
			if s == out {
				acc = true
			}
		}
		d.acc = append(d.acc, acc)
		return i
	}
	var init []int
	addClosure(&init, map[int]bool{}, in)
	d.start = add(cut(init))
	for i := 0; i < len(lists); i++ {
		if len(lists) > 20000 {
			return nil, fmt.Errorf("preferredDFA: state explosion")
		}
		for c := 0; c < al.n(); c++ {
			var nxt []int
			seen := map[int]bool{}
			for _, s := range lists[i] {
				if s == out {
					break // lower-priority threads were cut; the accepting thread itself does not move
				}
				for _, t := range n.trans[s][c] {
					addClosure(&nxt, seen, t)
				}
			}
			d.next[i][c] = add(cut(nxt))
		}
	}
	return d, nil
}

func dfaFromString(al *Alphabet, s string) *DFA {
	re := &syntax.Regexp{Op: syntax.OpLiteral, Rune: []rune(s)}
	if s == "" {
		re = &syntax.Regexp{Op: syntax.OpEmptyMatch}
	}
	d, _ := dfaFromRegexp(al, re)
	return d
}

// toNFA converts a DFA back into an NFA (for concatenation/union).
func (d *DFA) toNFA() *NFA {
	n := newNFA(d.al)
	for range d.next {
		n.newState()
	}
	for s, row := range d.next {
		for c, t := range row {
			n.trans[s][c] = append(n.trans[s][c], t)
		}
		if d.acc[s] {
			n.acc[s] = true
		}
	}
	n.start = d.start
	return n
}

// embed copies other into n; returns the state offset.
func (n *NFA) embed(o *NFA) int {
	off := len(n.eps)
	for range o.eps {
		n.newState()
	}
	for s := range o.eps {
		for _, t := range o.eps[s] {
			n.addEps(off+s, off+t)
		}
		for c, ts := range o.trans[s] {
			for _, t := range ts {
				n.trans[off+s][c] = append(n.trans[off+s][c], off+t)
			}
		}
	}
	return off
}

func concatDFA(a, b *DFA) *DFA {
	n := newNFA(a.al)
	an, bn := a.toNFA(), b.toNFA()
	oa := n.embed(an)
	ob := n.embed(bn)
	for s := range an.acc {
		n.addEps(oa+s, ob+bn.start)
	}
	for s := range bn.acc {
		n.acc[ob+s] = true
	}
	n.start = oa + an.start
	return n.determinize().minimize()
}

func unionDFA(a, b *DFA) *DFA {
	return productDFA(a, b, func(x, y bool) bool { return x || y })
}
func intersectDFA(a, b *DFA) *DFA {
	return productDFA(a, b, func(x, y bool) bool { return x && y })
}
func minusDFA(a, b *DFA) *DFA {
	return productDFA(a, b, func(x, y bool) bool { return x && !y })
}
func (d *DFA) complement() *DFA {
	c := &DFA{al: d.al, next: d.next, start: d.start, acc: make([]bool, len(d.acc))}
	for i, a := range d.acc {
		c.acc[i] = !a
	}
	return c
}

func productDFA(a, b *DFA, f func(x, y bool) bool) *DFA {
	d := &DFA{al: a.al}
	type pair struct{ x, y int }
	index := map[pair]int{}
	var list []pair
	add := func(p pair) int {
		if i, ok := index[p]; ok {
			return i
		}
		i := len(list)
		index[p] = i
		list = append(list, p)
		d.next = append(d.next, make([]int, a.al.n()))
		d.acc = append(d.acc, f(a.acc[p.x], b.acc[p.y]))
		return i
	}
	d.start = add(pair{a.start, b.start})
	for i := 0; i < len(list); i++ {
		p := list[i]
		for c := 0; c < a.al.n(); c++ {
			d.next[i][c] = add(pair{a.next[p.x][c], b.next[p.y][c]})
		}
	}
	return d.minimize()
}

// minimize: Moore partition refinement (also drops unreachable states).
func (d *DFA) minimize() *DFA {
	nstates := len(d.next)
	part := make([]int, nstates)
	for i := range part {
		if d.acc[i] {
			part[i] = 1
		}
	}
	nblocks := 2
	for {
		sig := map[string]int{}
		np := make([]int, nstates)
		for i := 0; i < nstates; i++ {
			var sb strings.Builder
			fmt.Fprintf(&sb, "%d|", part[i])
			for c := range d.next[i] {
				fmt.Fprintf(&sb, "%d,", part[d.next[i][c]])
			}
			k := sb.String()
			if _, ok := sig[k]; !ok {
				sig[k] = len(sig)
			}
			np[i] = sig[k]
		}
		part = np
		if len(sig) == nblocks {
			break
		}
		nblocks = len(sig)
	}
	nparts := 0
	for _, p := range part {
		if p+1 > nparts {
			nparts = p + 1
		}
	}
	m := &DFA{al: d.al, next: make([][]int, nparts), acc: make([]bool, nparts), start: part[d.start]}
	for i := 0; i < nstates; i++ {
		p := part[i]
		if m.next[p] == nil {
			m.next[p] = make([]int, d.al.n())
			for c := range d.next[i] {
				m.next[p][c] = part[d.next[i][c]]
			}
			m.acc[p] = d.acc[i]
		}
	}
	return m
}

// shortest returns a shortest accepted word, or ok=false if the language is empty.
func (d *DFA) shortest() (string, bool) {
	type item struct {
		s    int
		word []rune
	}
	seen := map[int]bool{d.start: true}
	queue := []item{{d.start, nil}}
	for len(queue) > 0 {
		it := queue[0]
		queue = queue[1:]
		if d.acc[it.s] {
			return string(it.word), true
		}
		for c := 0; c < d.al.n(); c++ {
			t := d.next[it.s][c]
			if !seen[t] {
				seen[t] = true
				w := append(append([]rune{}, it.word...), d.al.rep(c))
				queue = append(queue, item{t, w})
			}
		}
	}
	return "", false
}

func (d *DFA) isEmpty() bool      { _, ok := d.shortest(); return !ok }
func (d *DFA) acceptsEmpty() bool { return d.acc[d.start] }
func (d *DFA) accepts(s string) bool {
	cur := d.start
	for _, r := range s {
		c := d.al.classOf(r)
		if c < 0 {
			return false
		}
		cur = d.next[cur][c]
	}
	return d.acc[cur]
}

// subsetOf: L(a) ⊆ L(b); otherwise a shortest counter-example.
func subsetOf(a, b *DFA) (bool, string) {
	w, ok := minusDFA(a, b).shortest()
	return !ok, w
}

// anyDFA: Σ*
func anyDFA(al *Alphabet) *DFA {
	d := &DFA{al: al, next: [][]int{make([]int, al.n())}, acc: []bool{true}}
	return d
}

// containsDFA: Σ* c Σ* for a constant string c.
func containsDFA(al *Alphabet, c string) *DFA {
	return concatDFA(concatDFA(anyDFA(al), dfaFromString(al, c)), anyDFA(al))
}

// live: states from which an accepting state is reachable.
func (d *DFA) live() []bool {
	live := make([]bool, len(d.next))
	changed := true
	for i, a := range d.acc {
		live[i] = a
	}
	for changed {
		changed = false
		for s := range d.next {
			if live[s] {
				continue
			}
			for _, t := range d.next[s] {
				if live[t] {
					live[s] = true
					changed = true
					break
				}
			}
		}
	}
	return live
}

// cutBefore: { u : u has no c, u c w in L for some w }  (c a single rune).
func (d *DFA) cutBefore(c rune) *DFA {
	cc := d.al.classOf(c)
	live := d.live()
	r := &DFA{al: d.al, start: d.start}
	// same automaton, but the c-transition goes to a dead state and a state accepts iff its c-successor is live
	dead := len(d.next)
	for s := range d.next {
		row := append([]int{}, d.next[s]...)
		row[cc] = dead
		r.next = append(r.next, row)
		r.acc = append(r.acc, live[d.next[s][cc]])
	}
	deadRow := make([]int, d.al.n())
	for i := range deadRow {
		deadRow[i] = dead
	}
	r.next = append(r.next, deadRow)
	r.acc = append(r.acc, false)
	return r.minimize()
}

// cutAfter: { w : u c w in L for some c-free u }.
func (d *DFA) cutAfter(c rune) *DFA {
	cc := d.al.classOf(c)
	// states reachable by c-free words
	reach := map[int]bool{d.start: true}
	stack := []int{d.start}
	for len(stack) > 0 {
		s := stack[len(stack)-1]
		stack = stack[:len(stack)-1]
		for cl, t := range d.next[s] {
			if cl != cc && !reach[t] {
				reach[t] = true
				stack = append(stack, t)
			}
		}
	}
	n := d.toNFA()
	var starts []int
	for s := range reach {
		starts = append(starts, d.next[s][cc])
	}
	if len(starts) == 0 {
		return minusDFA(d, d) // empty
	}
	return n.determinize(starts...).minimize()
}

// withoutC: words of L that do not contain the rune c.
func (d *DFA) without(c rune) *DFA {
	return minusDFA(d, containsDFA(d.al, string(c)))
}
func (d *DFA) with(c rune) *DFA {
	return intersectDFA(d, containsDFA(d.al, string(c)))
}

// head: { a : a w in L }, tail: { w : a w in L } for a single leading character.
func (d *DFA) head() *DFA {
	live := d.live()
	n := newNFA(d.al)
	s0, s1 := n.newState(), n.newState()
	n.start = s0
	n.acc[s1] = true
	for c, t := range d.next[d.start] {
		if live[t] {
			n.trans[s0][c] = append(n.trans[s0][c], s1)
		}
	}
	return n.determinize().minimize()
}
func (d *DFA) tail() *DFA {
	n := d.toNFA()
	seen := map[int]bool{}
	var starts []int
	for _, t := range d.next[d.start] {
		if !seen[t] {
			seen[t] = true
			starts = append(starts, t)
		}
	}
	return n.determinize(starts...).minimize()
}

// trimLeft: { w : c^k w in L, w does not start with c }.
func (d *DFA) trimLeft(c rune) *DFA {
	cc := d.al.classOf(c)
	seen := map[int]bool{d.start: true}
	cur := d.start
	var starts []int
	starts = append(starts, cur)
	for {
		cur = d.next[cur][cc]
		if seen[cur] {
			break
		}
		seen[cur] = true
		starts = append(starts, cur)
	}
	all := d.toNFA().determinize(starts...)
	// remove words starting with c
	startsWithC := concatDFA(dfaFromString(d.al, string(c)), anyDFA(d.al))
	return minusDFA(all, startsWithC)
}
