package main

// A buffered channel that its own maker fills.  `ch := make(chan T, E)` followed by a loop that
// sends one value per element of some collection - before anything receives from ch - holds only
// when E is at least the number of elements.  When E is a fixed quantity (a literal, a constant,
// a field of the class) while the number of sends depends on the data, the send blocks for good
// as soon as there are more elements than E: nobody else has the channel yet.

import (
	"fmt"
	"go/ast"
	"go/types"
)

func checkChannelSelfFill(c *Ctx, r *Rec, rule string, fds []*ast.FuncDecl) {
	sites, bad := 0, 0
	for _, fd := range fds {
		info := c.infoFor(fd)
		if info == nil || fd.Body == nil {
			continue
		}
		recv := recvObj(info, fd)
		bodies := []*ast.BlockStmt{fd.Body}
		for _, fl := range funcLitsIn(fd.Body) {
			bodies = append(bodies, fl.Body)
		}
		for _, body := range bodies {
			for i, st := range body.List {
				lhs, rhs, ok := multiDefStmt(st)
				if !ok || len(lhs) != 1 {
					continue
				}
				mk, ok := ast.Unparen(rhs).(*ast.CallExpr)
				if !ok || !isBuiltinCall(info, mk, "make") || len(mk.Args) != 2 {
					continue
				}
				if _, isChan := info.TypeOf(mk).Underlying().(*types.Chan); !isChan {
					continue
				}
				ch := identObj(info, lhs[0])
				if ch == nil {
					if id, ok := lhs[0].(*ast.Ident); ok {
						ch = info.Defs[id]
					}
				}
				if ch == nil {
					continue
				}
				// fixed capacity: literal, constant, or a field of the receiver
				capE := ast.Unparen(mk.Args[1])
				fixed := false
				if tv, ok := info.Types[capE]; ok && tv.Value != nil {
					fixed = true
				}
				if se, ok := capE.(*ast.SelectorExpr); ok && selectorField(info, se) != nil && recv != nil && isObj(info, se.X, recv) {
					fixed = true
				}
				if !fixed {
					continue
				}
				// the next statements up to the first use of ch other than a send in a loop
				for _, nx := range body.List[i+1:] {
					uses := false
					ast.Inspect(nx, func(x ast.Node) bool {
						if id, ok := x.(*ast.Ident); ok && info.Uses[id] == ch {
							uses = true
						}
						return true
					})
					if !uses {
						continue
					}
					loop, isLoop := nx.(*ast.ForStmt)
					var lbody *ast.BlockStmt
					dataDriven := false
					if isLoop && loop.Cond != nil {
						lbody = loop.Body
						if findIterCond(info, loop.Cond, "HasNext") != nil {
							dataDriven = true
						}
					}
					if rs, ok := nx.(*ast.RangeStmt); ok {
						lbody = rs.Body
						if tv, ok := info.Types[rs.X]; ok && tv.Value == nil {
							dataDriven = true
						}
					}
					if lbody == nil || !dataDriven {
						break
					}
					sends, other := false, false
					ast.Inspect(lbody, func(x ast.Node) bool {
						switch s := x.(type) {
						case *ast.SendStmt:
							if isObj(info, s.Chan, ch) {
								sends = true
								return false
							}
						case *ast.Ident:
							if info.Uses[s] == ch {
								other = true
							}
						}
						return true
					})
					if sends && !other {
						sites++
						bad++
						r.fail(rule, c.fdName(fd)+"/"+ch.Name(), c.pos(nx.Pos()), fmt.Sprintf("%s is made with the fixed capacity %s and then filled, before anything receives from it, with one value per element of a collection: with more elements than %s the send blocks for good (nobody else has the channel yet), so the helper never starts its work and nothing downstream is ever closed", ch.Name(), exprStr(capE), exprStr(capE)))
					}
					break
				}
			}
		}
	}
	if bad == 0 {
		r.ok(rule, "channel-self-fill", "", fmt.Sprintf("no channel of fixed capacity is filled by its maker with a data-dependent number of values (%d sites)", sites))
	}
}
