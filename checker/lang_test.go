package main

import (
	"math/rand"
	"regexp"
	"testing"
)

func TestLangAgainstRegexp(t *testing.T) {
	pats := []string{
		`false|true`, `0x[0-9a-f]+`, `0|[+-]?[1-9][0-9]*`,
		`[+-]?(?:(?:0|[1-9][0-9]*)\.[0-9]+)(?:[eE][+-][1-9][0-9]*)?`,
		`'(\\(?:(?:x[0-9a-f]{2}|u[0-9a-f]{4}|U[0-9a-f]{8})|[abfnrtv'"\\])|[^'\n])'`,
		`"(\\(?:(?:x[0-9a-f]{2}|u[0-9a-f]{4}|U[0-9a-f]{8})|[abfnrtv'"\\])|[^"\n])*"`,
		`[ ]+`, `Array|Catalog|List|Map|Queue|Set|Stack`, `a{2,4}b*`, `(?:ab|a)(?:c|bc)?`,
	}
	al := newAlphabet()
	var res []*regexp.Regexp
	for _, p := range pats {
		re, err := parseRegex(p)
		if err != nil {
			t.Fatal(err)
		}
		al.addRegexp(re)
		res = append(res, regexp.MustCompile(`^(?:`+p+`)$`))
	}
	al.addString(".E0")
	al.freeze()
	chars := []rune("01259abfxeE+-.'\"\\ \nuUATrtmQS~é中")
	rng := rand.New(rand.NewSource(1))
	for i, p := range pats {
		re, _ := parseRegex(p)
		d, err := dfaFromRegexp(al, re)
		if err != nil {
			t.Fatal(err)
		}
		d = d.minimize()
		for k := 0; k < 20000; k++ {
			n := rng.Intn(8)
			w := make([]rune, n)
			for j := range w {
				w[j] = chars[rng.Intn(len(chars))]
			}
			s := string(w)
			if d.accepts(s) != res[i].MatchString(s) {
				t.Fatalf("pattern %s word %q: dfa=%v regexp=%v", p, s, d.accepts(s), res[i].MatchString(s))
			}
		}
		if w, ok := d.shortest(); !ok || !res[i].MatchString(w) {
			t.Fatalf("shortest %q of %s not matched", w, p)
		}
	}
	// transductions
	f, _ := parseRegex(`-?(?:(?:0|[1-9][0-9]*)(?:\.[0-9]+)?|[1-9](?:\.[0-9]+)?E[+-](?:0[1-9]|[1-9][0-9]+))`)
	d, _ := dfaFromRegexp(al, f)
	before := d.with('E').cutBefore('E')
	after := d.with('E').cutAfter('E')
	for w, want := range map[string]bool{"1": true, "-1.5": true, "1E": false, "": false, "12": false} {
		if before.accepts(w) != want {
			t.Fatalf("cutBefore(%q)=%v", w, before.accepts(w))
		}
	}
	for w, want := range map[string]bool{"+01": true, "-10": true, "+1": false, "": false, "+00": false} {
		if after.accepts(w) != want {
			t.Fatalf("cutAfter(%q)=%v", w, after.accepts(w))
		}
	}
	tl := after.tail().trimLeft('0')
	for w, want := range map[string]bool{"1": true, "10": true, "01": false, "": false, "21": true} {
		if tl.accepts(w) != want {
			t.Fatalf("trimLeft(%q)=%v", w, tl.accepts(w))
		}
	}
	hd := after.head()
	for w, want := range map[string]bool{"+": true, "-": true, "0": false, "": false} {
		if hd.accepts(w) != want {
			t.Fatalf("head(%q)=%v", w, hd.accepts(w))
		}
	}
}
