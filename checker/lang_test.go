package main

import (
	"math/rand"
	"regexp"
	"testing"
)

func TestLangAgainstRegexp(t *testing.T) {
	pats := []string{
		`false|true`, `0x[0-9a-f]+`, `0|[+-]?[1-9][0-9]*`,
		`[+-]?(?:(?:0|[1-9][0-9]*)\.[0-9]+)(?:[eE][+-][1-9][0-9]*)?`,
		`'(\\(?:(?:x[0-9a-f]{2}|u[0-9a-f]{4}|U[0-9a-f]{8})|[abfnrtv'"\\])|[^'\n])'`,
		`"(\\(?:(?:x[0-9a-f]{2}|u[0-9a-f]{4}|U[0-9a-f]{8})|[abfnrtv'"\\])|[^"\n])*"`,
		`[ ]+`, `Array|Catalog|List|Map|Queue|Set|Stack`, `a{2,4}b*`, `(?:ab|a)(?:c|bc)?`,
	}
	al := newAlphabet()
	var res []*regexp.Regexp
	for _, p := range pats {
		re, err := parseRegex(p)
		if err != nil {
			t.Fatal(err)
		}
		al.addRegexp(re)
		res = append(res, regexp.MustCompile(`^(?:`+p+`)$`))
	}
	al.addString(".E0")
	al.freeze()
	chars := []rune("01259abfxeE+-.'\"\\ \nuUATrtmQS~é中")
	rng := rand.New(rand.NewSource(1))
	for i, p := range pats {
		re, _ := parseRegex(p)
		d, err := dfaFromRegexp(al, re)
		if err != nil {
			t.Fatal(err)
		}
		d = d.minimize()
		for k := 0; k < 20000; k++ {
			n := rng.Intn(8)
			w := make([]rune, n)
			for j := range w {
				w[j] = chars[rng.Intn(len(chars))]
			}
			s := string(w)
			if d.accepts(s) != res[i].MatchString(s) {
				t.Fatalf("pattern %s word %q: dfa=%v regexp=%v", p, s, d.accepts(s), res[i].MatchString(s))
			}
		}
		if w, ok := d.shortest(); !ok || !res[i].MatchString(w) {
			t.Fatalf("shortest %q of %s not matched", w, p)
		}
	}
	// transductions
	f, _ := parseRegex(`-?(?:(?:0|[1-9][0-9]*)(?:\.[0-9]+)?|[1-9](?:\.[0-9]+)?E[+-](?:0[1-9]|[1-9][0-9]+))`)
	d, _ := dfaFromRegexp(al, f)
	before := d.with('E').cutBefore('E')
	after := d.with('E').cutAfter('E')
	for w, want := range map[string]bool{"1": true, "-1.5": true, "1E": false, "": false, "12": false} {
		if before.accepts(w) != want {
			t.Fatalf("cutBefore(%q)=%v", w, before.accepts(w))
		}
	}
	for w, want := range map[string]bool{"+01": true, "-10": true, "+1": false, "": false, "+00": false} {
		if after.accepts(w) != want {
			t.Fatalf("cutAfter(%q)=%v", w, after.accepts(w))
		}
	}
	tl := after.tail().trimLeft('0')
	for w, want := range map[string]bool{"1": true, "10": true, "01": false, "": false, "21": true} {
		if tl.accepts(w) != want {
			t.Fatalf("trimLeft(%q)=%v", w, tl.accepts(w))
		}
	}
	hd := after.head()
	for w, want := range map[string]bool{"+": true, "-": true, "0": false, "": false} {
		if hd.accepts(w) != want {
			t.Fatalf("head(%q)=%v", w, hd.accepts(w))
		}
	}
}

// The leftmost-first automaton against Go's regexp: the length of the match regexp selects
// at the start of the input equals the last accepting position of the run of preferredDFA.
func TestPreferredAgainstRegexp(t *testing.T) {
	pats := []string{
		`a|ab`, `ab|a`, `(?:a|ab)(?:c|bcd)`, `a*?b?`, `a*b?`, `(?:a|b)*?c`, `x{1,3}?x`, `x{1,3}x?y?`,
		`"(\\(?:[abfnrtv'"\\])|[^"\n])*"`, `"([^"\n]|\\(?:[abfnrtv'"\\]))*"`,
		`'(\\(?:[abfnrtv'"\\])|[^'\n])'`, `'([^'\n]|\\(?:[abfnrtv'"\\]))'`,
		`0|[+-]?[1-9][0-9]*`, `[+-]?(?:(?:0|[1-9][0-9]*)\.[0-9]+)(?:[eE][+-][1-9][0-9]*)?`, `(a+)(a*)`, `(?:a+?)(?:a*)b?`,
	}
	al := newAlphabet()
	for _, p := range pats {
		re, err := parseRegex(p)
		if err != nil {
			t.Fatal(err)
		}
		al.addRegexp(re)
	}
	al.freeze()
	chars := []rune("abcdxy\"'\\n019+-.eE\n")
	rng := rand.New(rand.NewSource(7))
	for _, p := range pats {
		re, _ := parseRegex(p)
		d, err := preferredDFA(al, re)
		if err != nil {
			t.Fatal(err)
		}
		gre := regexp.MustCompile(`^(?:` + p + `)`)
		for k := 0; k < 30000; k++ {
			n := rng.Intn(9)
			w := make([]rune, n)
			for j := range w {
				w[j] = chars[rng.Intn(len(chars))]
			}
			s := string(w)
			want := -1
			if loc := gre.FindStringIndex(s); loc != nil {
				want = len([]rune(s[:loc[1]]))
			}
			got := -1
			st := d.start
			if d.acc[st] {
				got = 0
			}
			for i, r := range w {
				st = d.next[st][al.classOf(r)]
				if d.acc[st] {
					got = i + 1
				}
			}
			if got != want {
				t.Fatalf("pattern %s input %q: preferredDFA selects a match of %d runes, regexp of %d", p, s, got, want)
			}
		}
	}
}
