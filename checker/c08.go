package main

// C08 — CompareValues is structural equality and agrees with ranking (structural clauses).

import (
	"fmt"
	"go/ast"
	"go/token"
	"go/types"
	"os"
	"regexp"
	"sort"
	"strings"

	"golang.org/x/tools/go/cfg"
)

func init() {
	register(&propInfo{
		ID:      "C08",
		Engines: "SYM (Boolean ladders, order cells), PATH (dominance, depth deltas), call graph over the collator's methods (guarded-edge removal + SCC), operand-mirror matching",
		Decided: "D1 the compare dispatcher handles the same kinds as the rank dispatcher, its nil ladders answer true/false/false for (undefined,undefined)/(undefined,x)/(x,undefined), the compare leaf is == and every rank leaf returns Equal exactly on the = cell (so both agree on all ordered pairs); on the IEEE-unordered cell they must not contradict each other; " +
			"D2 sequence and map comparison test the sizes before the contents (a mismatch returns false before the element loop, whose bound is the first operand's size) and compare mirror-image parts of first and second (the second map is read under the first map's key); " +
			"D3 after removing the call edges that lie inside a depth bracket of a function that checks depth against the maximum, the collator's call graph is acyclic (otherwise a self-containing value recurses without bound: a fatal stack overflow instead of the documented panic); " +
			"D4 the exported entry points restore the depth counter before delegating, so a depth-limit panic does not poison later calls on the same collator." +
			" Also: the rank side answers Equal only for operands of the same size. Depth accounting is judged per cycle: every recursion cycle contains a call made with the counter stepped up and a call made after a comparison with the maximum.",
		NotDecided: "reflexivity/symmetry/transitivity over the value universe, sensitivity to every single-part mutation, that getters enumerate all parts.",
		Run:        runC08,
	})
}

func runC08(c *Ctx, r *Rec) {
	cr := bindCollator(c, r)
	if cr == nil {
		return
	}
	info := cr.info
	shapeLints(c, r, fileFuncs(c, "agent", cr.n))
	rankD := findDispatcher(c, cr, true)
	cmpD := findDispatcher(c, cr, false)
	if rankD == nil || cmpD == nil {
		// the rules that read the two kind switches cannot be evaluated; those about the leaves,
		// the recursion and the depth counter do not need them
		r.skip("bind", "agent."+cr.n.Obj().Name(), "", "cannot bind the dispatchers (private methods on two reflect.Values switching on Kind): the sibling-agreement, ladder, intrinsic-arm and composite rules are not evaluated")
		checkIntrinsicArms(c, r, cr, nil, "D1-intrinsic-arms")
		checkUnorderedAgreement(c, r, cr)
		checkRankEqualSameSize(c, r, cr)
		checkGuardedRecursion(c, r, info, cr.n, cr.ms, cr.depthF, cr.maxF, "D3-guarded-recursion")
		checkDepthRestored(c, r, cr)
		return
	}
	// ---- D1
	_, rc := kindClauses(info, rankD)
	_, cc := kindClauses(info, cmpD)
	rk, ck := flatten(rc), flatten(cc)
	r.check(strings.Join(rk, ",") == strings.Join(ck, ","), "D1-sibling-agreement", "agent."+cr.n.Obj().Name()+"/kind-sets", c.pos(cmpD.Pos()),
		fmt.Sprintf("both dispatchers handle the same %d kinds", len(ck)), fmt.Sprintf("kinds only ranked: %v; only compared: %v", diff(rk, ck), diff(ck, rk)))
	checkLadders(c, r, cr, cmpD, false, "D1-compare-ladders")
	// the compare leaf: the delegate of the intrinsic clause returns first.Interface() == second.Interface()
	var leaf *ast.FuncDecl
	sw, _ := kindClauses(info, cmpD)
	for _, cl := range sw.Body.List {
		cc := cl.(*ast.CaseClause)
		if len(cc.List) > 4 && len(cc.Body) == 1 {
			if rs, ok := cc.Body[0].(*ast.ReturnStmt); ok && len(rs.Results) == 1 {
				if call, ok := ast.Unparen(rs.Results[0]).(*ast.CallExpr); ok {
					if cf := calleeOf(info, call); cf != nil {
						leaf = c.declOf(cf)
					}
				}
			}
		}
	}
	if leaf == nil {
		r.skip("D1-sibling-agreement", "agent."+cr.n.Obj().Name()+"/compare-leaf", c.pos(cmpD.Pos()), "cannot bind the intrinsic compare leaf")
	} else {
		params := paramObjs(info, leaf)
		mir := newMirror(info, leaf, params[0], params[1])
		// every return of the leaf is `extract(first) == extract(second)` (locals are followed)
		okEq, other := 0, ""
		inspectNoLit(leaf.Body, func(x ast.Node) bool {
			rs, ok := x.(*ast.ReturnStmt)
			if !ok || len(rs.Results) != 1 {
				return true
			}
			res := resolveInit(info, leaf, rs.Results[0])
			if be, ok := res.(*ast.BinaryExpr); ok && be.Op == token.EQL && mir.mirrorEq(be.X, be.Y) && mir.side(be.X) >= 0 && mir.side(be.X) != mir.side(be.Y) {
				okEq++
			} else if be, ok := res.(*ast.BinaryExpr); ok && (be.Op == token.EQL || be.Op == token.NEQ) {
				other = "the intrinsic compare leaf returns " + exprStr(res) + ", not `extract(first) == extract(second)` with the same extraction on both operands"
			} else {
				other = "skip: the intrinsic compare leaf returns " + exprStr(res) + ", a form the rule does not interpret"
			}
			return true
		})
		if other == "" && okEq == 0 {
			other = "skip: no return found in the compare leaf"
		}
		r.verdict("D1-sibling-agreement", c.fdName(leaf), c.pos(leaf.Pos()), "the compare leaf is Go's == on the same extraction of both operands (true exactly on the = cell on which every rank leaf returns Equal, see C07 D1)", other)
	}
	checkIntrinsicArms(c, r, cr, rankD, "D1-intrinsic-arms")
	checkUnorderedAgreement(c, r, cr)

	// ---- D2 size before content + mirror operands in the compare-side composites
	ncomp := 0
	for _, name := range sortedKeys(cr.ms) {
		fd := cr.ms[name]
		if ast.IsExported(name) || fd == cmpD {
			continue
		}
		sig := c.funcOf(fd).Type().(*types.Signature)
		params := paramObjs(info, fd)
		if sig.Results().Len() != 1 || !isBoolType(sig.Results().At(0).Type()) || len(params) != 2 || !isNamedFrom(params[0].Type(), "reflect", "Value") {
			continue
		}
		loops := loopsIn(fd.Body)
		if len(loops) == 0 {
			continue
		}
		mir := newMirror(info, fd, params[0], params[1])
		// recursive compare calls
		var calls []*ast.CallExpr
		inspectNoLit(loops[0], func(x ast.Node) bool {
			if call, ok := x.(*ast.CallExpr); ok && len(call.Args) == 2 {
				if cf := calleeOf(info, call); cf != nil && cf.Origin() == c.funcOf(cmpD).Origin() {
					calls = append(calls, call)
				}
			}
			return true
		})
		if len(calls) == 0 {
			continue
		}
		ncomp++
		construct := c.fdName(fd)
		bad := ""
		for _, call := range calls {
			a0 := resolveInitIn(info, loops[0], call.Args[0])
			a1 := resolveInitIn(info, loops[0], call.Args[1])
			if mir.mirrorEq(a0, a1) && mir.side(a0) == 0 {
				continue
			}
			// map form: first value from the iterator over first, second value = second.MapIndex(key of first)
			if _, mname, mc, ok := methodCall(a1); ok && mname == "MapIndex" && len(mc.Args) == 1 && mir.side(mc.Fun) == 1 && mir.side(a0) != 1 {
				continue
			}
			// a part of an operand that is kept in a local of the loop first (firstMethod :=
			// first.Method(index); … firstMethod.Call(none)[0]): the local stands for its definition
			{
				subst := map[types.Object]ast.Expr{}
				for _, a := range []ast.Expr{a0, a1} {
					ast.Inspect(a, func(y ast.Node) bool {
						if id, ok := y.(*ast.Ident); ok && ast.Expr(id) != ast.Unparen(a) {
							if init := initOfIn(info, loops[0], id); init != nil && (mentionsObj(info, init, params[0]) || mentionsObj(info, init, params[1])) {
								subst[info.Uses[id]] = init
							}
						}
						return true
					})
				}
				if len(subst) > 0 {
					in := &inliner{info: info, subst: subst, pos: call.Pos(), end: call.End() - 1, ok: true}
					b0, b1 := in.expr(a0), in.expr(a1)
					if in.ok && mir.mirrorEq(b0, b1) && mir.side(b0) == 0 {
						continue
					}
				}
			}
			bad = fmt.Sprintf("the recursive comparison %s(%s, %s) at %s does not compare a part of first with the corresponding part of second", exprStr(call.Fun), exprStr(a0), exprStr(a1), c.pos(call.Pos()))
		}
		r.verdict("D2-mirror-operands", construct, c.pos(fd.Pos()), fmt.Sprintf("%d recursive comparison(s) on corresponding parts", len(calls)), bad)
		// a failed element comparison returns false; the loop's end returns true
		envB := &symEnv{info: info}
		envB.resolve = func(e ast.Expr) (Val, bool) {
			for i, call := range calls {
				if e == ast.Expr(call) {
					return Val{B: fLe0(linSym(fmt.Sprintf("eq%d", i)).scale(-1).plus(1))}, true
				}
			}
			return Val{}, false
		}
		var body *ast.BlockStmt
		switch l := loops[0].(type) {
		case *ast.ForStmt:
			body = l.Body
		case *ast.RangeStmt:
			body = l.Body
		}
		var bv []string
		for _, p := range symRun(envB, body) {
			allEq := true
			for i := range calls {
				if s, _ := satF(p.Cube, fLe0(linSym(fmt.Sprintf("eq%d", i)))); s { // eq_i may be false on this path
					if en := entailsCube(p.Cube, fLe0(linSym(fmt.Sprintf("eq%d", i)))); en {
						allEq = false
					}
				}
			}
			if !allEq {
				if p.Kind != "return" || len(p.Rets) != 1 || p.Rets[0].B == nil || satOK(p.Cube, p.Rets[0].B) {
					bv = append(bv, "an unequal part does not make the whole comparison return false")
				}
			} else if p.Kind == "return" {
				bv = append(bv, "the loop returns although all parts seen so far are equal")
			}
		}
		if len(bv) == 0 && len(envB.problems) > 0 {
			r.skip("D2-element-verdict", construct, c.pos(fd.Pos()), strings.Join(dedup(envB.problems), " | "))
		} else {
			r.check(len(bv) == 0, "D2-element-verdict", construct, c.pos(fd.Pos()), "an unequal part returns false, equal parts continue", strings.Join(dedup(bv), " | "))
		}
		// size test before the loop (only for functions that measure sizes with Len)
		var lenCalls []ast.Node
		ast.Inspect(fd.Body, func(x ast.Node) bool {
			if _, mname, call, ok := methodCall(x); ok && mname == "Len" && len(call.Args) == 0 {
				lenCalls = append(lenCalls, call)
			}
			return true
		})
		if len(lenCalls) > 0 {
			g := newFG(info, fd.Body)
			var sizeIf *ast.IfStmt
			for _, s := range fd.Body.List {
				is, ok := s.(*ast.IfStmt)
				if !ok {
					continue
				}
				be, ok := ast.Unparen(is.Cond).(*ast.BinaryExpr)
				if !ok || be.Op != token.NEQ {
					continue
				}
				x, y := resolveInit(info, fd, be.X), resolveInit(info, fd, be.Y)
				if (mir.mirrorEq(x, y) || mir.mirrorEq(y, x)) && strings.Contains(exprStr(x)+exprStr(y), "Len()") && len(is.Body.List) == 1 {
					if rs, ok := is.Body.List[0].(*ast.ReturnStmt); ok && len(rs.Results) == 1 {
						if tv := info.Types[rs.Results[0]]; tv.Value != nil && tv.Value.String() == "false" {
							sizeIf = is
						}
					}
				}
			}
			// the same thing said through the flow graph: the loop is entered only on an edge on
			// which the two sizes are known to be equal (a single-exit form with a result variable,
			// an else branch)
			sizesEqualOnEntry := false
			if pt, ok := g.locate(loopEntryNode(loops[0])); ok {
				var atoms []condAtom
				for _, ec := range g.edgeConds(pt) {
					atomsOf(ec.cond, ec.polarity, &atoms)
				}
				for _, a := range atoms {
					be, ok := a.e.(*ast.BinaryExpr)
					if !ok || !((be.Op == token.NEQ && !a.true) || (be.Op == token.EQL && a.true)) {
						continue
					}
					x, y := resolveInit(info, fd, be.X), resolveInit(info, fd, be.Y)
					if (mir.mirrorEq(x, y) || mir.mirrorEq(y, x)) && strings.Contains(exprStr(x)+exprStr(y), "Len()") {
						sizesEqualOnEntry = true
					}
				}
			}
			bad := ""
			switch {
			case sizeIf == nil && sizesEqualOnEntry:
			case sizeIf == nil:
				bad = "no `if size(first) != size(second) { return false }` before the element loop: a longer second operand whose prefix equals the first compares equal (and a shorter one indexes out of range)"
			case !g.nodeDominates(sizeIf.Cond, loopEntryNode(loops[0])):
				bad = "the size test does not dominate the element loop"
			}
			if bad == "" {
				if fs, ok := loops[0].(*ast.ForStmt); ok && fs.Cond != nil {
					for _, cj := range conjuncts(fs.Cond) {
						be, ok := ast.Unparen(cj).(*ast.BinaryExpr)
						if !ok || (be.Op != token.LSS && be.Op != token.LEQ && be.Op != token.NEQ) {
							continue
						}
						if _, isVar := ast.Unparen(be.X).(*ast.Ident); !isVar {
							continue
						}
						// after the size test either operand's size bounds the loop; anything else
						// computed from a size leaves elements out (or reads past the end)
						bnd := ast.Unparen(resolveInit(info, fd, be.Y))
						isLen := func(e ast.Expr) bool {
							_, mname, call, ok := methodCall(ast.Unparen(e))
							return ok && mname == "Len" && len(call.Args) == 0 && mir.side(e) >= 0
						}
						switch {
						case isLen(bnd) && (be.Op == token.LSS || be.Op == token.NEQ):
						case be.Op == token.LEQ && isLenMinusOne(info, bnd, isLen):
						case strings.Contains(exprStr(bnd), "Len()"):
							bad = fmt.Sprintf("the element loop runs while %s with the bound %s: that is not every position below the operands' size", exprStr(cj), exprStr(bnd))
						}
					}
				}
			}
			r.check(bad == "", "D2-size-before-content", construct, c.pos(fd.Pos()), "sizes compared (mismatch -> false) before the loop over the first operand's elements", bad)
		}
	}
	r.floor("D2-mirror-operands", 1)
	checkRankEqualSameSize(c, r, cr)

	// ---- D3 guarded recursion
	checkGuardedRecursion(c, r, info, cr.n, cr.ms, cr.depthF, cr.maxF, "D3-guarded-recursion")
	checkSwapArmAtEntryDepth(c, r, "D3-exchange-at-entry-depth", cr)
	checkTypeLockPairing(c, r, "D4-lock-released", cr.n)

	checkDepthRestored(c, r, cr)
}

func entailsCube(cube Cube, f *F) bool {
	s, d := satF(cube, fNotOf(f))
	return !s && d
}
func satOK(cube Cube, f *F) bool { s, _ := satF(cube, f); return s }

// entryResetsCounter: an assignment counter = 0 dominates every call made by
// the entry point, or a deferred function restores it.
func entryResetsCounter(c *Ctx, info *types.Info, fd *ast.FuncDecl, counter *types.Var) string {
	var resets []ast.Node
	deferred := false
	ast.Inspect(fd.Body, func(x ast.Node) bool {
		switch s := x.(type) {
		case *ast.AssignStmt:
			for i, l := range s.Lhs {
				if selectorField(info, l) == counter && i < len(s.Rhs) {
					if tv := info.Types[s.Rhs[i]]; tv.Value != nil && tv.Value.String() == "0" {
						resets = append(resets, s)
					}
				}
			}
		case *ast.DeferStmt:
			ast.Inspect(s, func(y ast.Node) bool {
				if as, ok := y.(*ast.AssignStmt); ok {
					for _, l := range as.Lhs {
						if selectorField(info, l) == counter {
							deferred = true
						}
					}
				}
				return true
			})
		}
		return true
	})
	if deferred {
		return ""
	}
	if len(resets) == 0 {
		return "the entry point neither resets the counter nor registers a deferred restore: after a traversal was abandoned by the depth-limit panic the counter stays at its maximum and every later call on this instance that descends panics at once"
	}
	g := newFG(info, fd.Body)
	bad := ""
	inspectNoLit(fd.Body, func(x ast.Node) bool {
		if call, ok := x.(*ast.CallExpr); ok {
			if cf := calleeOf(info, call); cf != nil && c.declOf(cf) != nil && recvNamed(cf) != nil {
				dom := false
				for _, rs := range resets {
					if g.nodeDominates(rs, call) {
						dom = true
					}
				}
				if !dom {
					bad = "the reset does not dominate the delegate call at " + c.pos(call.Pos())
				}
			}
		}
		return true
	})
	return bad
}

// checkGuardedRecursion builds the call graph of the methods of n and reports
// the cycles that remain after removing depth-guarded edges.
func checkGuardedRecursion(c *Ctx, r *Rec, info *types.Info, n *types.Named, ms map[string]*ast.FuncDecl, depthF, maxF *types.Var, rule string) {
	type edge struct {
		from, to string
		guarded  bool
		inc, chk bool // called with the depth counter stepped up / after a limit check
		call     *ast.CallExpr
		host     *ast.FuncDecl
		pos      token.Pos
		how      string
	}
	var edges []edge
	names := sortedKeys(ms)
	// limitIf: an if statement that compares the depth counter with the maximum and panics
	limitIf := func(x ast.Node) ast.Node {
		is, ok := x.(*ast.IfStmt)
		if !ok {
			return nil
		}
		mentionsD, mentionsM := false, false
		ast.Inspect(is.Cond, func(y ast.Node) bool {
			if se, ok := y.(*ast.SelectorExpr); ok {
				if f := selectorField(info, se); f == depthF {
					mentionsD = true
				} else if f == maxF {
					mentionsM = true
				}
			}
			return true
		})
		panics := false
		for _, st := range is.Body.List {
			if es, ok := st.(*ast.ExprStmt); ok {
				if call, ok := es.X.(*ast.CallExpr); ok && noReturnCall(info, call) {
					panics = true
				}
			}
		}
		if mentionsD && mentionsM && panics {
			return is.Cond
		}
		return nil
	}
	// limit helpers: small methods that only compare the depth counter with the maximum and
	// panic (v.checkDepth(), v.guardDepth(), in either polarity)
	_ = limitIf
	limitHelper := map[string]bool{}
	for _, name := range names {
		fd := ms[name]
		if fd.Body == nil || len(loopsIn(fd.Body)) > 0 {
			continue
		}
		compares, panics, calls := false, false, false
		ast.Inspect(fd.Body, func(x ast.Node) bool {
			switch y := x.(type) {
			case *ast.BinaryExpr:
				d, m := false, false
				ast.Inspect(y, func(z ast.Node) bool {
					if se, ok := z.(*ast.SelectorExpr); ok {
						if f := selectorField(info, se); f == depthF {
							d = true
						} else if f == maxF {
							m = true
						}
					}
					return true
				})
				if d && m {
					compares = true
				}
			case *ast.CallExpr:
				if noReturnCall(info, y) {
					panics = true
				} else if cf := calleeOf(info, y); cf != nil && recvNamed(cf) != nil && recvNamed(cf).Origin() == n.Origin() {
					calls = true
				}
			case *ast.IncDecStmt:
				calls = true // a helper that also steps the counter is not a pure check
			}
			return true
		})
		if compares && panics && !calls {
			limitHelper[name] = true
		}
	}
	// a helper that calls a limit helper unconditionally (at the top level of its body) checks
	// the limit too: asArrays(first, second) { ...; v.checkDepth(); return ... }
	for round := 0; round < 2; round++ {
		for _, name := range names {
			if limitHelper[name] || ast.IsExported(name) {
				continue
			}
			for _, st := range ms[name].Body.List {
				if es, ok := st.(*ast.ExprStmt); ok {
					if call, ok := es.X.(*ast.CallExpr); ok {
						if cf := calleeOf(info, call); cf != nil && limitHelper[cf.Name()] && recvNamed(cf) != nil && recvNamed(cf).Origin() == n.Origin() {
							limitHelper[name] = true
						}
					}
				}
			}
		}
	}
	steppers := depthSteppers(c, info, ms, depthF)
	// bracketing helpers: functions that call a function parameter with the counter stepped up
	// (atNextDepth(collator, func() R) R): what runs inside the literal handed to them runs one level down
	bracketers := map[*types.Func]int{}
	bracketPtr := map[*types.Func]int{} // the counter is handed in by address: index of that parameter
	for _, hd := range c.allFuncDecls(c.roleOf(n.Obj().Pkg())) {
		if hd.Body == nil || c.infoFor(hd) != info {
			continue
		}
		hps := paramObjs(info, hd)
		// nested(&v.depth, func() R): *depth++ ; result = f() ; *depth--  at the top level of the helper
		{
			level := map[types.Object]int{}
			for _, st := range hd.Body.List {
				if ids, ok := st.(*ast.IncDecStmt); ok {
					if star, ok := ast.Unparen(ids.X).(*ast.StarExpr); ok {
						if o := identObj(info, star.X); o != nil {
							if ids.Tok == token.INC {
								level[o]++
							} else {
								level[o]--
							}
						}
					}
					continue
				}
				inspectNoLit(st, func(x ast.Node) bool {
					call, ok := x.(*ast.CallExpr)
					if !ok {
						return true
					}
					id, ok := ast.Unparen(call.Fun).(*ast.Ident)
					if !ok {
						return true
					}
					for pi, p := range hps {
						if info.Uses[id] != types.Object(p) {
							continue
						}
						for qi, q := range hps {
							if level[q] >= 1 {
								if fn := c.funcOf(hd); fn != nil {
									bracketers[fn.Origin()] = pi
									bracketPtr[fn.Origin()] = qi
								}
							}
						}
					}
					return true
				})
			}
		}
		hg := newFG(info, hd.Body)
		hdeltas := depthDeltasWith(hg, info, depthF, steppers)
		inspectNoLit(hd.Body, func(x ast.Node) bool {
			call, ok := x.(*ast.CallExpr)
			if !ok {
				return true
			}
			id, ok := ast.Unparen(call.Fun).(*ast.Ident)
			if !ok {
				return true
			}
			for pi, p := range hps {
				if info.Uses[id] == types.Object(p) {
					if d, ok := hdeltas[nodeOf(hg, call)]; ok && d >= 1 {
						if fn := c.funcOf(hd); fn != nil {
							bracketers[fn.Origin()] = pi
						}
					}
				}
			}
			return true
		})
	}
	for _, name := range names {
		fd := ms[name]
		params := paramObjs(info, fd)
		// does the function check depth against the maximum with a panic?
		var maxCheck ast.Node
		var helperChecks []ast.Node // every call of a limit helper (one per dispatcher arm is common)
		ast.Inspect(fd.Body, func(x ast.Node) bool {
			// a call of a limit helper: a statement of its own, or an argument of another call
			// (compareArrays(v.asArrays(first, second)): evaluated before the call it feeds)
			if call, ok := x.(*ast.CallExpr); ok {
				if cf := calleeOf(info, call); cf != nil && recvNamed(cf) != nil && recvNamed(cf).Origin() == n.Origin() && limitHelper[cf.Name()] && cf.Name() != name {
					maxCheck = call
					helperChecks = append(helperChecks, call)
				}
			}
			return true
		})
		ast.Inspect(fd.Body, func(x ast.Node) bool {
			is, ok := x.(*ast.IfStmt)
			if !ok {
				return true
			}
			mentionsD, mentionsM := false, false
			ast.Inspect(is.Cond, func(y ast.Node) bool {
				if se, ok := y.(*ast.SelectorExpr); ok {
					if f := selectorField(info, se); f == depthF {
						mentionsD = true
					} else if f == maxF {
						mentionsM = true
					}
				}
				// a local copy of the field taken in this function (var depth = v.depth_)
				if id, ok := y.(*ast.Ident); ok {
					if init := initOf(info, fd, id); init != nil {
						if f := selectorField(info, init); f != nil && f == depthF {
							mentionsD = true
						} else if f != nil && f == maxF {
							mentionsM = true
						}
					}
				}
				return true
			})
			panics := false
			for _, s := range is.Body.List {
				if es, ok := s.(*ast.ExprStmt); ok {
					if call, ok := es.X.(*ast.CallExpr); ok && noReturnCall(info, call) {
						panics = true
					}
				}
			}
			if mentionsD && mentionsM && panics {
				maxCheck = is.Cond
			}
			return true
		})
		// switch arms that elide instead of panicking also count as a limit check (formatter)
		if maxCheck == nil {
			ast.Inspect(fd.Body, func(x ast.Node) bool {
				cc, ok := x.(*ast.CaseClause)
				if !ok {
					return true
				}
				for _, e := range cc.List {
					d, m := false, false
					ast.Inspect(e, func(y ast.Node) bool {
						if se, ok := y.(*ast.SelectorExpr); ok {
							if f := selectorField(info, se); f == depthF {
								d = true
							} else if f == maxF {
								m = true
							}
						}
						return true
					})
					if d && m {
						maxCheck = e
					}
				}
				return true
			})
		}
		g := newFG(info, fd.Body)
		deltas := depthDeltasWith(g, info, depthF, steppers)
		addEdge := func(node ast.Node, callee *types.Func, how string, swapped bool) {
			if callee == nil || recvNamed(callee) == nil || recvNamed(callee).Origin() != n.Origin() {
				return
			}
			if ms[callee.Name()] == nil {
				return
			}
			if swapped && callee.Name() == name {
				return // swap-and-recurse-once: the swapped call cannot take the swap branch again
			}
			inc, chk := false, false
			if d, ok := deltas[nodeOf(g, node)]; ok && d >= 1 {
				inc = true
			}
			for _, hc := range helperChecks {
				if g.nodeDominates(hc, node) || (hc != node && containsNode(node, hc)) {
					chk = true // before the call, or among its arguments (evaluated first)
				}
			}
			if maxCheck != nil {
				if g.nodeDominates(maxCheck, node) {
					chk = true
				}
				// in a case clause of the limit switch: the clause with the check excludes the others
				if _, isCase := maxCheck.(ast.Expr); isCase && inc {
					chk = true
				}
			}
			cx, _ := node.(*ast.CallExpr)
			edges = append(edges, edge{name, callee.Name(), false, inc, chk, cx, fd, node.Pos(), how})
		}
		// a call inside a function literal happens while the call the literal is handed to runs
		// (visitor helpers): it is placed at that call for the purposes of depth accounting
		litAnchor := map[*ast.FuncLit]ast.Node{}
		ast.Inspect(fd.Body, func(x ast.Node) bool {
			if call, ok := x.(*ast.CallExpr); ok {
				for _, a := range call.Args {
					if lit, ok := ast.Unparen(a).(*ast.FuncLit); ok {
						anchor := ast.Node(call)
						if up, ok := litAnchor[enclosingLit(fd.Body, call)]; ok {
							anchor = up
						}
						litAnchor[lit] = anchor
					}
				}
			}
			return true
		})
		anchorOf := func(n ast.Node) ast.Node {
			if lit := enclosingLit(fd.Body, n); lit != nil {
				if a, ok := litAnchor[lit]; ok {
					return a
				}
			}
			return n
		}
		addEdge0 := addEdge
		addEdge = func(node ast.Node, callee *types.Func, how string, swapped bool) {
			if an := anchorOf(node); an != node {
				n0 := len(edges)
				addEdge0(an, callee, how+" in a function literal", false)
				bracketed := false
				if ac, ok := an.(*ast.CallExpr); ok {
					if cf := calleeOf(info, ac); cf != nil {
						if pi, ok := bracketers[cf.Origin()]; ok && pi < len(ac.Args) {
							if lit, ok := ast.Unparen(ac.Args[pi]).(*ast.FuncLit); ok && lit == enclosingLit(fd.Body, node) {
								bracketed = true
								// a counter handed in by address must be this type's depth counter
								if qi, byPtr := bracketPtr[cf.Origin()]; byPtr {
									bracketed = false
									if qi < len(ac.Args) {
										if u, ok := ast.Unparen(ac.Args[qi]).(*ast.UnaryExpr); ok && u.Op == token.AND && selectorField(info, u.X) == depthF {
											bracketed = true
										}
									}
								}
							}
						}
					}
				}
				for i := n0; i < len(edges); i++ {
					edges[i].pos = node.Pos()
					if cx, ok := node.(*ast.CallExpr); ok {
						edges[i].call = cx
					}
					if bracketed {
						edges[i].inc = true
					}
				}
				return
			}
			addEdge0(node, callee, how, swapped)
		}
		ast.Inspect(fd.Body, func(x ast.Node) bool {
			switch e := x.(type) {
			case *ast.CallExpr:
				cf := calleeOf(info, e)
				swapped := len(e.Args) == 2 && len(params) == 2 && isObj(info, e.Args[0], params[1]) && isObj(info, e.Args[1], params[0])
				addEdge(e, cf, "call", swapped)
				// method values passed as arguments (v.rankValues handed to a sorter)
				for _, a := range e.Args {
					if se, ok := ast.Unparen(a).(*ast.SelectorExpr); ok {
						if sel, ok := info.Selections[se]; ok && sel.Kind() == types.MethodVal {
							if fn, ok := sel.Obj().(*types.Func); ok {
								addEdge(e, fn, "method value handed to "+exprStr(e.Fun), false)
							}
						}
					}
				}
			}
			return true
		})
	}
	r.count("call edges", len(edges))
	// A cycle of calls is accounted for when going round it steps the depth counter up at least
	// once (an inc edge) and compares it with the maximum at least once (a chk edge): the two may
	// sit in different functions (check in the dispatcher, step around the element call).  An
	// edge is unaccounted when it lies on a cycle without any inc edge or on a cycle without any
	// chk edge.
	sccWithin := func(keep func(e edge) bool) map[string]int {
		adj := map[string][]string{}
		for _, e := range edges {
			if keep(e) {
				adj[e.from] = append(adj[e.from], e.to)
			}
		}
		comp := map[string]int{}
		index, low, on := map[string]int{}, map[string]int{}, map[string]bool{}
		var st []string
		idx, ncomp := 0, 0
		var strong func(v string)
		strong = func(v string) {
			idx++
			index[v], low[v] = idx, idx
			st = append(st, v)
			on[v] = true
			for _, w := range adj[v] {
				if index[w] == 0 {
					strong(w)
					if low[w] < low[v] {
						low[v] = low[w]
					}
				} else if on[w] && index[w] < low[v] {
					low[v] = index[w]
				}
			}
			if low[v] == index[v] {
				var members []string
				for {
					w := st[len(st)-1]
					st = st[:len(st)-1]
					on[w] = false
					members = append(members, w)
					if w == v {
						break
					}
				}
				self := false
				for _, w := range adj[v] {
					if w == v {
						self = true
					}
				}
				if len(members) > 1 || self {
					ncomp++
					for _, m := range members {
						comp[m] = ncomp
					}
				}
			}
		}
		for _, v := range names {
			if index[v] == 0 {
				strong(v)
			}
		}
		return comp
	}
	if os.Getenv("VCHECK_DEBUG_EDGES") != "" {
		for _, e := range edges {
			fmt.Fprintf(os.Stderr, "edge %s->%s inc=%v chk=%v %s\n", e.from, e.to, e.inc, e.chk, e.how)
		}
	}
	noInc := sccWithin(func(e edge) bool { return !e.inc })
	noChk := sccWithin(func(e edge) bool { return !e.chk })
	for i := range edges {
		e := &edges[i]
		bad := (!e.inc && noInc[e.from] != 0 && noInc[e.from] == noInc[e.to]) || (!e.chk && noChk[e.from] != 0 && noChk[e.from] == noChk[e.to])
		e.guarded = !bad
	}
	// SCCs of the unaccounted remainder
	adj := map[string][]string{}
	for _, e := range edges {
		if !e.guarded {
			adj[e.from] = append(adj[e.from], e.to)
		}
	}
	index, low, onStack := map[string]int{}, map[string]int{}, map[string]bool{}
	var stack []string
	var sccs [][]string
	idx := 0
	var strong func(v string)
	strong = func(v string) {
		idx++
		index[v], low[v] = idx, idx
		stack = append(stack, v)
		onStack[v] = true
		for _, w := range adj[v] {
			if index[w] == 0 {
				strong(w)
				if low[w] < low[v] {
					low[v] = low[w]
				}
			} else if onStack[w] && index[w] < low[v] {
				low[v] = index[w]
			}
		}
		if low[v] == index[v] {
			var comp []string
			for {
				w := stack[len(stack)-1]
				stack = stack[:len(stack)-1]
				onStack[w] = false
				comp = append(comp, w)
				if w == v {
					break
				}
			}
			self := false
			for _, w := range adj[v] {
				if w == v {
					self = true
				}
			}
			if len(comp) > 1 || self {
				sort.Strings(comp)
				sccs = append(sccs, comp)
			}
		}
	}
	for _, v := range names {
		if index[v] == 0 {
			strong(v)
		}
	}
	role := c.roleOf(n.Obj().Pkg())
	if len(sccs) == 0 {
		r.ok(rule, role+"."+n.Obj().Name()+"/call-graph", c.pos(n.Obj().Pos()), fmt.Sprintf("%d call edges; without the depth-guarded ones the graph is acyclic", len(edges)))
		return
	}
	sort.Slice(sccs, func(i, j int) bool { return strings.Join(sccs[i], ",") < strings.Join(sccs[j], ",") })
	for _, comp := range sccs {
		in := map[string]bool{}
		for _, m := range comp {
			in[m] = true
		}
		real := false
		for _, m := range comp {
			if noInc[m] != 0 || noChk[m] != 0 {
				real = true
			}
		}
		if !real {
			continue
		}
		var un []string
		for _, e := range edges {
			if !e.guarded && in[e.from] && in[e.to] {
				un = append(un, fmt.Sprintf("%s->%s (%s at %s)", e.from, e.to, e.how, c.pos(e.pos)))
			}
		}
		sort.Strings(un)
		// a name for the cycle that survives renaming of private functions: the exported entry
		// points that reach it, and (witness) the dispatcher arms through which it is entered
		all := map[string][]string{}
		for _, e := range edges {
			all[e.from] = append(all[e.from], e.to)
		}
		var entries []string
		for _, nm := range names {
			if !ast.IsExported(nm) {
				continue
			}
			seen := map[string]bool{nm: true}
			reach := false
			for work := []string{nm}; len(work) > 0 && !reach; {
				cur := work[0]
				work = work[1:]
				if in[cur] {
					reach = true
				}
				for _, t := range all[cur] {
					if !seen[t] {
						seen[t] = true
						work = append(work, t)
					}
				}
			}
			if reach {
				entries = append(entries, nm)
			}
		}
		// dispatcher: the member with the most switch clauses
		var disp *ast.FuncDecl
		best := 0
		for _, m := range comp {
			cnt := 0
			ast.Inspect(ms[m].Body, func(x ast.Node) bool {
				if _, ok := x.(*ast.CaseClause); ok {
					cnt++
				}
				return true
			})
			if cnt > best {
				best, disp = cnt, ms[m]
			}
		}
		var arms []string
		if disp != nil {
			clauseLabel := func(cc *ast.CaseClause) string {
				if cc.List == nil {
					return "default"
				}
				var ls []string
				for _, ce := range cc.List {
					ls = append(ls, armLabel(ce))
				}
				return strings.Join(ls, "|")
			}
			for _, e := range edges {
				if e.guarded || e.from != disp.Name.Name || !in[e.to] {
					continue
				}
				var path []string
				ast.Inspect(disp.Body, func(x ast.Node) bool {
					if cc, ok := x.(*ast.CaseClause); ok && cc.Pos() <= e.pos && e.pos <= cc.End() {
						path = append(path, clauseLabel(cc))
					}
					return true
				})
				// the path of enclosing clauses, without the parts that nil ladders contribute
				// (default arms, IsNil tests): those may be restructured freely
				var kept []string
				for _, l := range path {
					if l == "default" || l == "cond:IsNil" || l == "cond:IsValid" {
						continue
					}
					kept = append(kept, l)
				}
				if len(kept) > 0 {
					arms = append(arms, strings.Join(kept, "/"))
				}
			}
		}
		sort.Strings(arms)
		arms = dedup(arms)
		// what the unaccounted calls descend into: the reflect accessors that produce their arguments
		// (Elem, Method/Call, Field, Index, MapIndex, "AsArray", ...).  Independent of how the
		// functions are named or split; a new kind of unaccounted descent changes the set.
		var descents []string
		for _, e := range edges {
			if e.guarded || !in[e.from] || !in[e.to] || e.call == nil {
				continue
			}
			for _, a := range e.call.Args {
				descents = append(descents, accessorNames(c, info, e.host, a, 0)...)
			}
		}
		sort.Strings(descents)
		descents = dedup(descents)
		// the descents made once per element of a traversal (inside a loop) with the counter not
		// stepped up: the cases in which nesting of any width goes uncounted
		var loopDesc []string
		for _, e := range edges {
			if e.guarded || e.inc || !in[e.from] || !in[e.to] || e.call == nil {
				continue
			}
			inLoop := false
			for _, p := range pathTo(e.host.Body, e.call) {
				switch p.(type) {
				case *ast.ForStmt, *ast.RangeStmt:
					inLoop = true
				}
			}
			if inLoop {
				for _, a := range e.call.Args {
					loopDesc = append(loopDesc, accessorNames(c, info, e.host, a, 0)...)
				}
				if len(e.call.Args) == 0 {
					loopDesc = append(loopDesc, "(no argument)")
				}
			}
		}
		// loops over the fields or methods of a type are bounded by the type, not by the data:
		// only descents into data elements (indexing, map lookups, iterator protocol) count here
		structural := map[string]bool{"Field": true, "Method": true, "Call": true, "NumField": true, "NumMethod": true, "Elem": true, "Interface": true, "ValueOf": true, "MethodByName": true, "(no argument)": true}
		var kept []string
		for _, d := range loopDesc {
			if !structural[d] {
				kept = append(kept, d)
			}
		}
		loopDesc = kept
		sort.Strings(loopDesc)
		loopDesc = dedup(loopDesc)
		construct := role + "." + n.Obj().Name() + "/recursion-from{" + strings.Join(entries, ",") + "}"
		if len(entries) == 0 {
			construct = role + "." + n.Obj().Name() + "/cycle{" + strings.Join(comp, ",") + "}"
		}
		o := r.fail(rule, construct, c.pos(ms[comp[0]].Pos()),
			"recursion cycle {"+strings.Join(comp, ",")+"} without depth accounting, entered through the dispatcher arms ["+strings.Join(arms, ", ")+"]: "+strings.Join(dedup(un), "; ")+" - a self-containing value recurses here until the stack overflows (fatal, not the documented recoverable depth-limit panic)")
		_ = arms
		o.Witness = "descends through: " + strings.Join(descents, ",")
		if len(loopDesc) > 0 {
			o.Witness += "; per element of a loop without a step: " + strings.Join(loopDesc, ",")
		}
	}
}

// accessorNames lists the methods of non-repository types (reflect.Value accessors) and the
// string literals that an argument expression is computed with, following single-definition
// locals and the results of unexported helpers.
func accessorNames(c *Ctx, info *types.Info, fd *ast.FuncDecl, e ast.Expr, depth int) []string {
	var out []string
	if depth > 3 || e == nil {
		return out
	}
	ast.Inspect(e, func(x ast.Node) bool {
		switch y := x.(type) {
		case *ast.Ident:
			if v, ok := info.Uses[y].(*types.Var); ok && !v.IsField() {
				if bt, ok := v.Type().Underlying().(*types.Basic); ok && bt.Info()&types.IsNumeric != 0 {
					return true // a position or a count, not a value that is descended into
				}
				init := initOfIn(info, fd.Body, y)
				if init == nil {
					init = initOfDeep(info, fd.Body, y) // a local of a function literal
				}
				if init != nil {
					out = append(out, accessorNames(c, info, fd, init, depth+1)...)
				} else if origins := funcParamResultOrigins(c, info, fd, v); len(origins) > 0 {
					// one of the results of calling a function parameter: what the callers' functions return there
					for _, o := range origins {
						out = append(out, accessorNames(c, info, o.fd, o.e, depth+1)...)
					}
				} else if origins := closureParamOrigins(c, info, fd, v); len(origins) > 0 {
					// a parameter of a function literal handed to a helper: what the helper calls it with
					for _, o := range origins {
						out = append(out, accessorNames(c, info, o.fd, o.e, depth+1)...)
					}
				} else {
					// a range variable over an accessor result: for _, x := range v.MapKeys()
					ast.Inspect(fd.Body, func(z ast.Node) bool {
						if rs, ok := z.(*ast.RangeStmt); ok {
							for _, kv := range []ast.Expr{rs.Key, rs.Value} {
								if kv != nil && identObj(info, kv) == v {
									out = append(out, accessorNames(c, info, fd, rs.X, depth+1)...)
								}
							}
						}
						return true
					})
				}
			}
		case *ast.CallExpr:
			if cf := calleeOf(info, y); cf != nil {
				if d := c.declOf(cf); d != nil {
					if !cf.Exported() && d.Body != nil && c.infoFor(d) == info {
						// a method name handed to a helper that calls it reflectively
						hps := paramObjs(info, d)
						ast.Inspect(d.Body, func(z ast.Node) bool {
							if _, mn, mc, ok := methodCall(z); ok && mn == "MethodByName" && len(mc.Args) == 1 {
								for pi, hp := range hps {
									if isObj(info, mc.Args[0], hp) && pi < len(y.Args) {
										if lit, ok := ast.Unparen(y.Args[pi]).(*ast.BasicLit); ok && lit.Kind == token.STRING && methodNameLit.MatchString(lit.Value) {
											out = append(out, lit.Value)
										}
									}
								}
							}
							return true
						})
						ast.Inspect(d.Body, func(z ast.Node) bool {
							if rs, ok := z.(*ast.ReturnStmt); ok {
								for _, res := range rs.Results {
									out = append(out, accessorNames(c, info, d, res, depth+1)...)
								}
							}
							return true
						})
					}
				} else if se, ok := ast.Unparen(y.Fun).(*ast.SelectorExpr); ok && cf.Pkg() != nil && c.roleOf(cf.Pkg()) == "" && descentAccessors[se.Sel.Name] {
					out = append(out, se.Sel.Name)
					// the name of a method called reflectively ("AsArray", "GetNext")
					if se.Sel.Name == "MethodByName" && len(y.Args) == 1 {
						if lit, ok := ast.Unparen(y.Args[0]).(*ast.BasicLit); ok && lit.Kind == token.STRING && methodNameLit.MatchString(lit.Value) {
							out = append(out, lit.Value)
						}
					}
				}
			}
		}
		return true
	})
	return out
}

var methodNameLit = regexp.MustCompile(`^"[A-Z][A-Za-z0-9]*"$`)

// descentAccessors: the reflect accessors that yield a part of a value (or a way to one).  What
// only measures or tests a value (Len, NumField, Kind, IsNil, Type, CanInterface ...) is no descent.
var descentAccessors = map[string]bool{
	"Elem": true, "Field": true, "FieldByName": true, "Index": true, "Slice": true,
	"MapIndex": true, "MapKeys": true, "MapRange": true, "Key": true, "Value": true,
	"Method": true, "MethodByName": true, "Call": true, "Interface": true, "ValueOf": true,
}

func nodeOf(g *FG, n ast.Node) ast.Node {
	p, ok := g.locate(n)
	if !ok || p.idx >= len(p.b.Nodes) {
		return nil
	}
	return p.b.Nodes[p.idx]
}

// depthDeltas: net ++/-- of the counter before each CFG node (first value seen on any path).
func depthDeltas(g *FG, info *types.Info, counter *types.Var) map[ast.Node]int {
	return depthDeltasWith(g, info, counter, nil)
}

// depthDeltasWith also counts the calls of helpers that only step the counter by a fixed amount.
func depthDeltasWith(g *FG, info *types.Info, counter *types.Var, steppers map[*types.Func]int) map[ast.Node]int {
	out := map[ast.Node]int{}
	in := map[*cfg.Block]int{}
	seen := map[*cfg.Block]bool{}
	if len(g.order) == 0 {
		return out
	}
	seen[g.entry()] = true
	for iter := 0; iter < 10; iter++ {
		changed := false
		for _, b := range g.order {
			if !seen[b] {
				continue
			}
			cur := in[b]
			for _, n := range b.Nodes {
				if _, ok := out[n]; !ok {
					out[n] = cur
				}
				if s, ok := n.(*ast.IncDecStmt); ok && selectorField(info, s.X) == counter {
					if s.Tok == token.INC {
						cur++
					} else {
						cur--
					}
				}
				if es, ok := n.(*ast.ExprStmt); ok && steppers != nil {
					if call, ok := es.X.(*ast.CallExpr); ok {
						if cf := calleeOf(info, call); cf != nil {
							cur += steppers[cf.Origin()]
						}
					}
				}
			}
			for _, s := range b.Succs {
				if !seen[s] {
					seen[s] = true
					in[s] = cur
					changed = true
				}
			}
		}
		if !changed {
			break
		}
	}
	return out
}

// armLabel names a case clause without using local variable names: constants and types by
// their text, boolean conditions by the functions they call and the string literals they use.
func armLabel(e ast.Expr) string {
	e = ast.Unparen(e)
	switch x := e.(type) {
	case *ast.Ident:
		return x.Name
	case *ast.SelectorExpr:
		if _, ok := x.X.(*ast.Ident); ok {
			return exprStr(x)
		}
	case *ast.StarExpr, *ast.ArrayType, *ast.MapType, *ast.InterfaceType:
		return exprStr(e)
	}
	var parts []string
	ast.Inspect(e, func(y ast.Node) bool {
		switch z := y.(type) {
		case *ast.CallExpr:
			if se, ok := ast.Unparen(z.Fun).(*ast.SelectorExpr); ok {
				parts = append(parts, se.Sel.Name)
			} else if id, ok := ast.Unparen(z.Fun).(*ast.Ident); ok {
				parts = append(parts, id.Name)
			}
		case *ast.BasicLit:
			if z.Kind == token.STRING {
				parts = append(parts, z.Value)
			}
		}
		return true
	})
	sort.Strings(parts)
	return "cond:" + strings.Join(dedup(parts), "+")
}

// enclosingLit: the innermost function literal inside root that contains n (nil when none).
func enclosingLit(root ast.Node, n ast.Node) *ast.FuncLit {
	var best *ast.FuncLit
	ast.Inspect(root, func(x ast.Node) bool {
		if x == nil {
			return false
		}
		if x.Pos() > n.Pos() || x.End() < n.End() {
			return false
		}
		if lit, ok := x.(*ast.FuncLit); ok && ast.Node(lit) != n {
			best = lit
		}
		return true
	})
	return best
}

type exprIn struct {
	fd *ast.FuncDecl
	e  ast.Expr
}

// closureParamOrigins: v is parameter j of a function literal that is argument i of a call to a
// declared helper of the same package; the origins are the j-th arguments of the calls the
// helper makes through its parameter i.
func closureParamOrigins(c *Ctx, info *types.Info, fd *ast.FuncDecl, v *types.Var) []exprIn {
	var out []exprIn
	ast.Inspect(fd.Body, func(x ast.Node) bool {
		call, ok := x.(*ast.CallExpr)
		if !ok {
			return true
		}
		for ai, a := range call.Args {
			lit, ok := ast.Unparen(a).(*ast.FuncLit)
			if !ok || lit.Type.Params == nil {
				continue
			}
			j, k := -1, 0
			for _, f := range lit.Type.Params.List {
				for _, nm := range f.Names {
					if info.Defs[nm] == types.Object(v) {
						j = k
					}
					k++
				}
			}
			if j < 0 {
				continue
			}
			cf := calleeOf(info, call)
			if cf == nil {
				continue
			}
			d := c.declOf(cf)
			if d == nil || d.Body == nil || c.infoFor(d) != info {
				continue
			}
			var ps []types.Object
			for _, f := range d.Type.Params.List {
				for _, nm := range f.Names {
					ps = append(ps, info.Defs[nm])
				}
			}
			if ai >= len(ps) || ps[ai] == nil {
				continue
			}
			ast.Inspect(d.Body, func(y ast.Node) bool {
				if hc, ok := y.(*ast.CallExpr); ok {
					if id, ok := ast.Unparen(hc.Fun).(*ast.Ident); ok && info.Uses[id] == ps[ai] && j < len(hc.Args) {
						out = append(out, exprIn{d, hc.Args[j]})
					}
				}
				return true
			})
		}
		return true
	})
	return out
}

// conjuncts splits a condition at its top-level && operators.
func conjuncts(e ast.Expr) []ast.Expr {
	e = ast.Unparen(e)
	if be, ok := e.(*ast.BinaryExpr); ok && be.Op == token.LAND {
		return append(conjuncts(be.X), conjuncts(be.Y)...)
	}
	return []ast.Expr{e}
}

func isLenMinusOne(info *types.Info, e ast.Expr, isLen func(ast.Expr) bool) bool {
	be, ok := ast.Unparen(e).(*ast.BinaryExpr)
	if !ok || be.Op != token.SUB || !isLen(be.X) {
		return false
	}
	tv, ok := info.Types[be.Y]
	return ok && tv.Value != nil && tv.Value.String() == "1"
}

// funcParamResultOrigins: v is the k-th variable of  a, b, c := P(...)  where P is a function-typed
// parameter of fd; the origins are the k-th results returned by the function literals that the
// callers of fd (in the same package) hand in for P.
func funcParamResultOrigins(c *Ctx, info *types.Info, fd *ast.FuncDecl, v *types.Var) []exprIn {
	var out []exprIn
	k, pidx := -1, -1
	ps := paramObjs(info, fd)
	ast.Inspect(fd.Body, func(x ast.Node) bool {
		lhs, rhs, ok := multiDef(x)
		if !ok {
			return true
		}
		call, ok := ast.Unparen(rhs).(*ast.CallExpr)
		if !ok {
			return true
		}
		id, ok := ast.Unparen(call.Fun).(*ast.Ident)
		if !ok {
			return true
		}
		for pi, p := range ps {
			if info.Uses[id] == types.Object(p) {
				for i, l := range lhs {
					if identObj(info, l) == types.Object(v) {
						k, pidx = i, pi
					}
				}
			}
		}
		return true
	})
	if k < 0 {
		return nil
	}
	fn := c.funcOf(fd)
	if fn == nil {
		return nil
	}
	for _, role := range []string{"agent", "collection", "cdcn", "module"} {
		if c.info(role) != info {
			continue
		}
		for _, cfd := range c.allFuncDecls(role) {
			if cfd.Body == nil {
				continue
			}
			ast.Inspect(cfd.Body, func(x ast.Node) bool {
				call, ok := x.(*ast.CallExpr)
				if !ok || pidx >= len(call.Args) {
					return true
				}
				if cf := calleeOf(info, call); cf == nil || cf.Origin() != fn.Origin() {
					return true
				}
				arg := ast.Unparen(call.Args[pidx])
				if id, ok := arg.(*ast.Ident); ok {
					if init := initOf(info, cfd, id); init != nil {
						arg = ast.Unparen(init)
					}
				}
				lit, ok := arg.(*ast.FuncLit)
				if !ok {
					return true
				}
				inspectNoLit(lit.Body, func(y ast.Node) bool {
					if rs, ok := y.(*ast.ReturnStmt); ok && k < len(rs.Results) {
						out = append(out, exprIn{cfd, rs.Results[k]})
					}
					return true
				})
				return true
			})
		}
	}
	return out
}

// initOfDeep: like initOfIn, but also finds the single definition of a variable that is local
// to a function literal inside n.
func initOfDeep(info *types.Info, n ast.Node, id *ast.Ident) ast.Expr {
	obj := info.Uses[id]
	if obj == nil {
		return nil
	}
	var init ast.Expr
	cnt := 0
	ast.Inspect(n, func(x ast.Node) bool {
		switch s := x.(type) {
		case *ast.ValueSpec:
			for i, nm := range s.Names {
				if info.Defs[nm] == obj && i < len(s.Values) {
					init = ast.Unparen(s.Values[i])
					cnt++
				}
			}
		case *ast.AssignStmt:
			for i, l := range s.Lhs {
				if lid, ok := l.(*ast.Ident); ok && (info.Defs[lid] == obj || info.Uses[lid] == obj) && len(s.Lhs) == len(s.Rhs) {
					init = ast.Unparen(s.Rhs[i])
					cnt++
				}
			}
		}
		return true
	})
	if cnt == 1 {
		return init
	}
	return nil
}

// checkUnorderedAgreement: on the IEEE-unordered cell the compare leaf (==) says false; a rank
// leaf over floats or complex numbers must then not say Equal.
func checkUnorderedAgreement(c *Ctx, r *Rec, cr *collRoles) {
	info := cr.info
	// unordered cell: compare says false (==), the rank leaf must then not say Equal
	leaves8 := rankLeaves(c, cr)
	perClass8 := map[string]int{}
	for _, lf := range leaves8 {
		perClass8[lf.class]++
	}
	for _, lf := range leaves8 {
		fd := lf.fd
		if lf.class != "float" && lf.class != "complex" {
			continue
		}
		params := paramObjs(info, fd)
		if len(params) != 2 {
			continue
		}
		envU := &symEnv{info: info, unordered: map[string]bool{}}
		enableInlining(c, envU, fd, nil)
		envU.resolve = func(e ast.Expr) (Val, bool) {
			if call, ok := e.(*ast.CallExpr); ok && len(call.Args) == 1 {
				if fn := calleeOf(info, call); fn != nil && fn.Pkg() != nil && fn.Pkg().Path() == "math/cmplx" {
					for _, p := range params {
						if isObj(info, call.Args[0], p) {
							return Val{Lin: linSym(strings.ToLower(fn.Name()) + ":" + p.Name())}, true
						}
					}
				}
			}
			return Val{}, false
		}
		for _, p := range params {
			envU.unordered[p.Name()], envU.unordered["abs:"+p.Name()], envU.unordered["phase:"+p.Name()] = true, true, true
		}
		saysEqual := false
		for _, p := range symRun(envU, fd.Body) {
			if p.Kind == "return" && len(p.Rets) == 1 && p.Rets[0].Lin != nil && p.Rets[0].Lin.equal(k(cr.E)) {
				saysEqual = true
			}
		}
		construct := "agent.collator/rank-leaf[" + lf.class + "]"
		if perClass8[lf.class] > 1 {
			construct += "/" + fd.Name.Name
		}
		if saysEqual {
			o := r.fail("D1-unordered-agreement", construct, c.pos(fd.Pos()), "for NaN operands the compare leaf (==) answers false while this rank leaf answers Equal: CompareValues and RankValues disagree, and CompareValues(NaN, NaN) is not reflexive")
			o.Witness = "compare=false rank=Equal"
		} else {
			r.ok("D1-unordered-agreement", construct, c.pos(fd.Pos()), "no Equal verdict for unordered operands")
		}
	}
	r.floorSoft("D1-unordered-agreement", "agent.collator/rank-leaves", "no rank leaf over an unordered type could be bound")
}

// checkRankEqualSameSize: the rank side answers Equal only for operands of the same size.
func checkRankEqualSameSize(c *Ctx, r *Rec, cr *collRoles) {
	// the rank side answers Equal only for operands of the same size (CompareValues says false otherwise)
	tmp := newRec(r.Property)
	checkRankComposites(c, tmp, cr)
	for _, o := range tmp.Obls {
		if o.Rule == "D7-pairwise-bounds" || (o.Rule == "D7-lexicographic" && strings.HasSuffix(o.Construct, "/after")) {
			o.Rule = "D1-rank-equal-same-size"
			r.Obls = append(r.Obls, o)
		}
	}
}

// checkDepthRestored: the depth counter is reset at the entry points.
func checkDepthRestored(c *Ctx, r *Rec, cr *collRoles) {
	info := cr.info
	// ---- D4 depth restored at the entry points
	for _, name := range []string{"CompareValues", "RankValues"} {
		fd := cr.ms[name]
		if fd == nil {
			r.undecided("D4-depth-restored", "agent."+cr.n.Obj().Name()+"."+name, "", "entry point not found")
			continue
		}
		bad := entryResetsCounter(c, info, fd, cr.depthF)
		r.check(bad == "", "D4-depth-restored", c.fdName(fd), c.pos(fd.Pos()), "the depth counter is set to 0 (or restored by a deferred action) before the traversal starts", bad)
	}
	r.floor("D4-depth-restored", 2)
}
