package main

// Dynamic equality on values of unknown type: `any(a) == any(b)` compiles for every a and b
// and panics at run time ("comparing uncomparable type") when both hold the same dynamic type
// and that type is a slice, a map, a function or a struct/array containing one.  Element values
// of the collections are of arbitrary type, so the == operator on two empty-interface operands
// that may hold element values is not a shortcut for the collator: it is a crash for the
// element types the collator exists for.

import (
	"fmt"
	"go/ast"
	"go/token"
	"go/types"
)

func checkNoDynamicEquality(c *Ctx, r *Rec, rule string, fds []*ast.FuncDecl) {
	sites := 0
	bad := 0
	isEmptyIface := func(t types.Type) bool {
		if t == nil {
			return false
		}
		if _, isTP := t.(*types.TypeParam); isTP {
			return false
		}
		it, ok := t.Underlying().(*types.Interface)
		return ok && it.NumMethods() == 0 && !it.IsComparable()
	}
	for _, fd := range fds {
		info := c.infoFor(fd)
		if info == nil || fd.Body == nil {
			continue
		}
		// a function that asks reflect whether the type is comparable knows what it is doing
		asksComparable := false
		ast.Inspect(fd.Body, func(n ast.Node) bool {
			if _, mname, _, ok := methodCall(n); ok && mname == "Comparable" {
				asksComparable = true
			}
			return true
		})
		if asksComparable {
			continue
		}
		ast.Inspect(fd.Body, func(n ast.Node) bool {
			be, ok := n.(*ast.BinaryExpr)
			if !ok || (be.Op != token.EQL && be.Op != token.NEQ) {
				return true
			}
			lt, rt := info.TypeOf(be.X), info.TypeOf(be.Y)
			if !isEmptyIface(lt) || !isEmptyIface(rt) {
				return true
			}
			for _, e := range []ast.Expr{be.X, be.Y} {
				if tv, ok := info.Types[e]; ok && (tv.IsNil() || tv.Value != nil) {
					return true
				}
			}
			sites++
			// the operands hold values whose type the function does not know: conversions of
			// type-parameter values, parameters or results of type any
			open := func(e ast.Expr) bool {
				e = ast.Unparen(e)
				if call, ok := e.(*ast.CallExpr); ok && len(call.Args) == 1 {
					if tv, ok := info.Types[call.Fun]; ok && tv.IsType() {
						at := info.TypeOf(call.Args[0])
						if _, isTP := at.(*types.TypeParam); isTP {
							return true
						}
						return isEmptyIface(at)
					}
				}
				return true
			}
			if open(be.X) && open(be.Y) {
				bad++
				r.fail(rule, c.fdName(fd)+"/"+exprStr(be), c.pos(be.Pos()), fmt.Sprintf("%s compares two values of unknown dynamic type with Go's %s: when both hold the same uncomparable type (a Go array of values, a map, a structure with one) the operator panics at run time instead of answering; values of those types are what the collator compares structurally", exprStr(be), be.Op))
			}
			return true
		})
	}
	if bad == 0 {
		r.ok(rule, "dynamic-equality", "", fmt.Sprintf("%d comparisons of two empty-interface operands, none on values of unknown type", sites))
	}
}

// fileFuncs: the function declarations of the files that hold the methods of the given types
// (the classes' methods and the private functions next to them).
func fileFuncs(c *Ctx, role string, ns ...*types.Named) []*ast.FuncDecl {
	files := map[string]bool{}
	for _, n := range ns {
		if n == nil {
			continue
		}
		for _, fd := range c.methodsOf(n) {
			files[c.Fset.Position(fd.Pos()).Filename] = true
		}
	}
	var fds []*ast.FuncDecl
	for _, fd := range c.allFuncDecls(role) {
		if files[c.Fset.Position(fd.Pos()).Filename] {
			fds = append(fds, fd)
		}
	}
	return fds
}
