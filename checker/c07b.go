package main

// Dispatcher rules shared by C07 (rank side) and C08 (compare side):
// nil ladders, kind tables, intrinsic arms.

import (
	"fmt"
	"go/ast"
	"go/constant"
	"go/token"
	"go/types"
	"sort"
	"strings"
)

// kindClauses extracts, from the `switch first.Kind()` of a dispatcher, the
// kind names of every case clause.
func kindClauses(info *types.Info, fd *ast.FuncDecl) (sw *ast.SwitchStmt, clauses [][]string) {
	ast.Inspect(fd.Body, func(x ast.Node) bool {
		s, ok := x.(*ast.SwitchStmt)
		if !ok || s.Tag == nil || sw != nil {
			return true
		}
		tag := ast.Unparen(s.Tag)
		if id, isID := tag.(*ast.Ident); isID {
			if init := initOfIn(info, fd.Body, id); init != nil {
				tag = ast.Unparen(init)
			}
		}
		if _, mname, _, ok := methodCall(tag); ok && mname == "Kind" {
			sw = s
		}
		return true
	})
	if sw == nil {
		return nil, nil
	}
	for _, cl := range sw.Body.List {
		cc := cl.(*ast.CaseClause)
		var names []string
		for _, e := range cc.List {
			if se, ok := ast.Unparen(e).(*ast.SelectorExpr); ok {
				names = append(names, se.Sel.Name)
			} else {
				names = append(names, exprStr(e))
			}
		}
		sort.Strings(names)
		clauses = append(clauses, names)
	}
	return sw, clauses
}

func flatten(cl [][]string) []string {
	var out []string
	for _, c := range cl {
		out = append(out, c...)
	}
	sort.Strings(out)
	return out
}

// dispatchers finds the rank/compare dispatcher (the private method on two
// reflect.Values that switches on Kind) by result type.
func findDispatcher(c *Ctx, cr *collRoles, wantRank bool) *ast.FuncDecl {
	// the dispatcher is what the exported entry point (RankValues / CompareValues) delegates to
	entry := cr.ms["CompareValues"]
	if wantRank {
		entry = cr.ms["RankValues"]
	}
	if entry == nil {
		return nil
	}
	var found *ast.FuncDecl
	ast.Inspect(entry.Body, func(x ast.Node) bool {
		if call, ok := x.(*ast.CallExpr); ok {
			if cf := calleeOf(cr.info, call); cf != nil && recvNamed(cf) != nil && recvNamed(cf).Origin() == cr.n.Origin() {
				if d := c.declOf(cf); d != nil {
					if sw, _ := kindClauses(cr.info, d); sw != nil {
						found = d
					}
				}
			}
		}
		return true
	})
	return found
}

func checkDispatch(c *Ctx, r *Rec, cr *collRoles) {
	info := cr.info
	rankD := findDispatcher(c, cr, true)
	cmpD := findDispatcher(c, cr, false)
	if rankD == nil || cmpD == nil {
		r.skip("D4-dispatch-agreement", "agent."+cr.n.Obj().Name(), "", "cannot bind the rank and compare dispatchers (private methods on two reflect.Values switching on Kind)")
		return
	}
	_, rc := kindClauses(info, rankD)
	_, cc := kindClauses(info, cmpD)
	rk, ck := flatten(rc), flatten(cc)
	r.check(strings.Join(rk, ",") == strings.Join(ck, ","), "D4-dispatch-agreement", "agent."+cr.n.Obj().Name()+"/kind-sets", c.pos(rankD.Pos()),
		fmt.Sprintf("both dispatchers handle the same %d kinds", len(rk)),
		fmt.Sprintf("the rank dispatcher handles kinds %v, the compare dispatcher %v: a value of a kind in only one of them can be compared but not ranked (or the reverse)", diff(rk, ck), diff(ck, rk)))
	checkIntrinsicArms(c, r, cr, rankD, "D4-intrinsic-arms")
	checkLadders(c, r, cr, rankD, true, "D3-nil-ladders")
}

// resolveInitIn follows local single-definition variables declared inside scope.
func resolveInitIn(info *types.Info, scope ast.Node, e ast.Expr) ast.Expr {
	for i := 0; i < 4; i++ {
		id, ok := ast.Unparen(e).(*ast.Ident)
		if !ok {
			break
		}
		init := initOfIn(info, scope, id)
		if init == nil {
			break
		}
		// strip a conversion
		if call, ok := init.(*ast.CallExpr); ok && len(call.Args) == 1 {
			if tv, ok := info.Types[call.Fun]; ok && tv.IsType() {
				init = ast.Unparen(call.Args[0])
			}
		}
		e = init
	}
	return ast.Unparen(e)
}

func diff(a, b []string) []string {
	in := map[string]bool{}
	for _, x := range b {
		in[x] = true
	}
	var out []string
	for _, x := range a {
		if !in[x] {
			out = append(out, x)
		}
	}
	return out
}

// checkLadders interprets a dispatcher with opaque validity/nil predicates and
// checks the undefined-first ladder on every returning path.
func checkLadders(c *Ctx, r *Rec, cr *collRoles, fd *ast.FuncDecl, rank bool, rule string) {
	info := cr.info
	params := paramObjs(info, fd)
	p0, p1 := params[0].Name(), params[1].Name()
	construct := c.fdName(fd)
	env := &symEnv{info: info}
	type callRec struct {
		call *ast.CallExpr
		id   string
	}
	var calls []callRec
	env.resolve = func(e ast.Expr) (Val, bool) {
		call, ok := e.(*ast.CallExpr)
		if !ok {
			return Val{}, false
		}
		if cf := calleeOf(info, call); cf != nil && recvNamed(cf) != nil && recvNamed(cf).Origin() == cr.n.Origin() && len(call.Args) == 2 {
			if pureLadderHelper(c, info, cf) {
				return Val{}, false // interpreted in place (see inlinable below)
			}
			id := fmt.Sprintf("call#%d", len(calls))
			calls = append(calls, callRec{call, id})
			return Val{Opaque: id}, true
		}
		return Val{}, false
	}
	env.recvs = map[types.Object]bool{}
	if ro := recvObj(info, fd); ro != nil {
		env.recvs[ro] = true
	}
	env.inlinable = func(call *ast.CallExpr) *ast.FuncDecl {
		if cf := calleeOf(info, call); cf != nil && pureLadderHelper(c, info, cf) {
			return c.declOf(cf)
		}
		return nil
	}
	paths := symRun(env, fd.Body)
	if len(env.problems) > 0 {
		r.skip(rule, construct, c.pos(fd.Pos()), "SYM cannot interpret the dispatcher: "+strings.Join(dedup(env.problems), "; "))
		return
	}
	r.count("SYM paths", len(paths))
	pred := func(s string) *F { return fLe0(linSym("pred:" + s).scale(-1).plus(1)) }
	validF, validS := pred(p0+".IsValid()"), pred(p1+".IsValid()")
	nilF, nilS := pred(p0+".IsNil()"), pred(p1+".IsNil()")
	mentions := func(cube Cube, f *F, s string) bool {
		for _, a := range cube {
			if _, ok := a.C["pred:"+s]; ok {
				return true
			}
		}
		found := false
		var walk func(f *F)
		walk = func(f *F) {
			if f == nil {
				return
			}
			if f.op == fAtom {
				if _, ok := f.a.C["pred:"+s]; ok {
					found = true
				}
			}
			for _, x := range f.xs {
				walk(x)
			}
		}
		walk(f)
		return found
	}
	entails := func(cube Cube, f *F) bool { // cube |= f
		s, d := satF(cube, fNotOf(f))
		return !s && d
	}
	possible := func(cube Cube, f *F) bool { s, _ := satF(cube, f); return s }
	L, E, G := cr.L, cr.E, cr.G
	var viol []string
	nLadderPaths := 0
	unknownPaths := 0
	for _, p := range paths {
		if p.Kind != "return" || len(p.Rets) != 1 {
			continue
		}
		ret := p.Rets[0]
		usesNil := mentions(p.Cube, ret.B, p0+".IsNil()") || mentions(p.Cube, ret.B, p1+".IsNil()")
		usesValid := mentions(p.Cube, ret.B, p0+".IsValid()") || mentions(p.Cube, ret.B, p1+".IsValid()")
		where := "on {" + p.Cube.String() + "}"
		if rank {
			if ret.Lin != nil && ret.Lin.isConst() {
				cst := ret.Lin.K
				need := func(cond bool, want int64, what string) {
					if cond && cst != want {
						viol = append(viol, fmt.Sprintf("%s %s must rank %s but the path returns %s", where, what, rankName(cr, want), rankName(cr, cst)))
					}
				}
				switch {
				case entails(p.Cube, fNotOf(validF)):
					nLadderPaths++
					need(possible(p.Cube, fNotOf(validS)), E, "(undefined, undefined)")
					need(possible(p.Cube, validS), L, "(undefined, defined)")
				case entails(p.Cube, fNotOf(validS)):
					nLadderPaths++
					need(true, G, "(defined, undefined)")
				case usesNil && entails(p.Cube, nilF):
					nLadderPaths++
					need(possible(p.Cube, nilS), E, "(nil, nil)")
					need(possible(p.Cube, fNotOf(nilS)), L, "(nil, non-nil)")
				case usesNil && entails(p.Cube, nilS):
					nLadderPaths++
					need(true, G, "(non-nil, nil)")
				default:
					foreign := false
					for _, a := range p.Cube {
						for sname := range a.C {
							if strings.HasPrefix(sname, "pred:") && sname != "pred:"+p0+".IsValid()" && sname != "pred:"+p1+".IsValid()" && sname != "pred:"+p0+".IsNil()" && sname != "pred:"+p1+".IsNil()" && (strings.Contains(sname, "IsNil") || strings.Contains(sname, "IsValid")) {
								foreign = true
							}
						}
					}
					if foreign {
						unknownPaths++
					} else {
						viol = append(viol, fmt.Sprintf("%s two defined values are ranked by the constant %s", where, rankName(cr, cst)))
					}
				}
				continue
			}
		} else if ret.B != nil {
			f := ret.B
			chk := func(cond *F, want bool, what string) {
				cube := append(Cube{}, p.Cube...)
				for _, cb := range dnf(cond) {
					full := append(append(Cube{}, cube...), cb...)
					if s, _ := feasible(full); !s {
						continue
					}
					bad := f
					if want {
						bad = fNotOf(f)
					}
					if s, _ := satF(full, bad); s {
						viol = append(viol, fmt.Sprintf("%s %s must compare %v", where, what, want))
					}
				}
			}
			if usesValid {
				nLadderPaths++
				chk(and(fNotOf(validF), fNotOf(validS)), true, "(undefined, undefined)")
				chk(and(fNotOf(validF), validS), false, "(undefined, defined)")
				chk(and(validF, fNotOf(validS)), false, "(defined, undefined)")
			}
			if usesNil {
				nLadderPaths++
				chk(and(nilF, nilS), true, "(nil, nil)")
				chk(and(nilF, fNotOf(nilS)), false, "(nil, non-nil)")
				chk(and(fNotOf(nilF), nilS), false, "(non-nil, nil)")
			}
			continue
		}
		// a path that was taken on the answer of something the interpreter does not follow (a test
		// handed in as a function value: rankMissing(first, second, ref.Value.IsNil)) says nothing
		opaqueTest := false
		for _, a := range p.Cube {
			for sname := range a.C {
				if strings.HasPrefix(sname, "pred:?") || strings.HasPrefix(sname, "val:?") {
					opaqueTest = true
				}
			}
		}
		if opaqueTest {
			unknownPaths++
			continue
		}
		// a delegated result: both operands must be known defined and non-nil where that was tested
		if possible(p.Cube, fNotOf(validF)) || possible(p.Cube, fNotOf(validS)) {
			viol = append(viol, where+" a delegate is called although an operand may be undefined (invalid reflect.Value)")
		}
		if usesNil && (possible(p.Cube, nilF) || possible(p.Cube, nilS)) {
			viol = append(viol, where+" a delegate is called although an operand may be nil")
		}
	}
	// delegates receive (first, second) in order
	mir := newMirrorC(c, info, fd, params[0], params[1], 0)
	for _, cl := range calls {
		a0, a1 := cl.call.Args[0], cl.call.Args[1]
		if mir.side(a0) < 0 || mir.side(a1) < 0 {
			unknownPaths++ // operands computed from names the rule cannot relate to first/second
			continue
		}
		if !mir.mirrorEq(a0, a1) || mir.side(a0) != 0 {
			viol = append(viol, fmt.Sprintf("the delegate call %s(%s, %s) at %s does not pass mirror-image operands as (first, second)", exprStr(cl.call.Fun), exprStr(a0), exprStr(a1), c.pos(cl.call.Pos())))
		}
	}
	if len(viol) > 0 {
		r.fail(rule, construct, c.pos(fd.Pos()), strings.Join(dedup(viol), " | "))
	} else if unknownPaths > 0 {
		r.skip(rule, construct, c.pos(fd.Pos()), fmt.Sprintf("%d paths test validity or nil-ness through names the rule cannot relate to the operands", unknownPaths))
	} else {
		r.ok(rule, construct, c.pos(fd.Pos()), fmt.Sprintf("%d paths (%d through a ladder): undefined/nil first, delegates only for defined non-nil operands passed in order", len(paths), nLadderPaths))
	}
}

func rankName(cr *collRoles, v int64) string {
	switch v {
	case cr.L:
		return "Lesser"
	case cr.E:
		return "Equal"
	case cr.G:
		return "Greater"
	}
	return fmt.Sprint(v)
}

// checkIntrinsicArms: the intrinsic kinds admitted by the rank dispatcher are
// exactly the arms of the intrinsic ranker, and each arm extracts both operands
// by the same accessor, keeps their class of values and passes them in order.
func checkIntrinsicArms(c *Ctx, r *Rec, cr *collRoles, rankD *ast.FuncDecl, rule string) {
	info := cr.info
	if rankD == nil {
		// no dispatcher to read the admitted kinds from (the kinds are dispatched through a table,
		// say): the arms of the intrinsic ranker are still there to be read
		for _, fd := range findIntrinsicRankers(c, cr, nil) {
			checkIntrinsicArmsOf(c, r, cr, fd, rule)
		}
		return
	}
	_, rc := kindClauses(info, rankD)
	// intrinsic kinds admitted == arms of the intrinsic ranker
	var intrinsicFD *ast.FuncDecl
	var admitted []string
	sw, _ := kindClauses(info, rankD)
	for i, cl := range sw.Body.List {
		cc := cl.(*ast.CaseClause)
		if len(cc.Body) == 1 {
			if rs, ok := cc.Body[0].(*ast.ReturnStmt); ok && len(rs.Results) == 1 {
				if call, ok := ast.Unparen(rs.Results[0]).(*ast.CallExpr); ok {
					if cf := calleeOf(info, call); cf != nil {
						if d := c.declOf(cf); d != nil {
							if isw, _ := kindClauses(info, d); isw != nil && d != rankD {
								intrinsicFD = d
								admitted = rc[i]
							} else if tk := kindTable(c, info, d); tk != nil && d != rankD {
								intrinsicFD = d
								admitted = rc[i]
							}
						}
					}
				}
			}
		}
	}
	if intrinsicFD == nil {
		r.skip("D4-dispatch-agreement", "agent."+cr.n.Obj().Name()+"/intrinsic-kinds", c.pos(rankD.Pos()), "cannot bind the intrinsic ranker")
		// admitted by a predicate in front of the switch, say: the arms are judged all the same
		for _, fd := range findIntrinsicRankers(c, cr, rankD) {
			checkIntrinsicArmsOf(c, r, cr, fd, rule)
		}
	} else {
		isw, icl := kindClauses(info, intrinsicFD)
		ik := flatten(icl)
		if isw == nil {
			ik = kindTable(c, info, intrinsicFD) // a lookup table from kinds to leaf rankers
		}
		r.check(strings.Join(ik, ",") == strings.Join(admitted, ","), "D4-dispatch-agreement", "agent."+cr.n.Obj().Name()+"/intrinsic-kinds", c.pos(intrinsicFD.Pos()),
			fmt.Sprintf("the %d intrinsic kinds admitted by the dispatcher are exactly the arms of the intrinsic ranker", len(ik)),
			fmt.Sprintf("admitted but without an arm (falls into the panic default): %v; arm without admission: %v", diff(admitted, ik), diff(ik, admitted)))
		checkIntrinsicArmsOf(c, r, cr, intrinsicFD, rule)
	}
}

// checkIntrinsicArmsOf: the arms of the intrinsic ranker - same accessor on both operands,
// passed in order, no change of the class of values on the way to the leaf.
func checkIntrinsicArmsOf(c *Ctx, r *Rec, cr *collRoles, intrinsicFD *ast.FuncDecl, rule string) {
	info := cr.info
	{
		isw, _ := kindClauses(info, intrinsicFD)
		params := paramObjs(info, intrinsicFD)
		mir := newMirror(info, intrinsicFD, params[0], params[1])
		if isw == nil {
			return // the arms are entries of a table: not followed
		}
		for _, cl := range isw.Body.List {
			cc := cl.(*ast.CaseClause)
			if cc.List == nil {
				continue
			}
			var names []string
			for _, e := range cc.List {
				names = append(names, exprStr(e))
			}
			construct := c.fdName(intrinsicFD) + "/arm[" + strings.Join(names, ",") + "]"
			bad := "skip: the arm does not end in a call of a leaf ranker"
			for _, s := range cc.Body {
				rs, ok := s.(*ast.ReturnStmt)
				if !ok || len(rs.Results) != 1 {
					continue
				}
				call, ok := ast.Unparen(rs.Results[0]).(*ast.CallExpr)
				if !ok || len(call.Args) != 2 {
					continue
				}
				a0 := resolveInitIn(info, cc, call.Args[0])
				a1 := resolveInitIn(info, cc, call.Args[1])
				// the class of values must be preserved from the reflect accessor to the leaf:
				// Int() -> signed, Uint() -> unsigned, Float() -> float, Complex() -> complex, ...
				classOf := func(t types.Type) string {
					b, ok := t.Underlying().(*types.Basic)
					if !ok {
						return "?"
					}
					switch {
					case b.Info()&types.IsBoolean != 0:
						return "boolean"
					case b.Info()&types.IsUnsigned != 0:
						return "unsigned"
					case b.Info()&types.IsInteger != 0:
						return "signed"
					case b.Info()&types.IsFloat != 0:
						return "float"
					case b.Info()&types.IsComplex != 0:
						return "complex"
					case b.Info()&types.IsString != 0:
						return "string"
					}
					return "?"
				}
				lossy := ""
				if src := info.Types[a0].Type; src != nil {
					if dst := info.Types[call.Args[0]].Type; dst != nil && classOf(src) != classOf(dst) {
						lossy = fmt.Sprintf("the operands are extracted as %s values (%s) but handed to the leaf as %s values: the conversion is not exact for all values (integers above 2^53 collapse as float64), so distinct values rank Equal while CompareValues tells them apart", classOf(src), exprStr(a0), classOf(dst))
					}
				}
				// the extraction may be done by an unexported helper: a conversion inside it that
				// changes the class of values is the same loss
				if lossy == "" {
					if hc, ok := ast.Unparen(a0).(*ast.CallExpr); ok {
						if cf := calleeOf(info, hc); cf != nil && !cf.Exported() {
							if hd := c.declOf(cf); hd != nil && hd.Body != nil && c.infoFor(hd) == info {
								inspectNoLit(hd.Body, func(x ast.Node) bool {
									rs, ok := x.(*ast.ReturnStmt)
									if !ok || len(rs.Results) != 1 || lossy != "" {
										return true
									}
									conv, ok := ast.Unparen(rs.Results[0]).(*ast.CallExpr)
									if !ok || len(conv.Args) != 1 {
										return true
									}
									if tv, isT := info.Types[conv.Fun]; !isT || !tv.IsType() {
										return true
									}
									from, to := info.TypeOf(conv.Args[0]), info.TypeOf(conv)
									if from == nil || to == nil {
										return true
									}
									cf, ct := classOf(from), classOf(to)
									if cf != ct && cf != "?" && ct != "?" {
										lossy = fmt.Sprintf("the helper %s converts %s values (%s) into %s values before they are ranked: the conversion is not exact for all values (64-bit integers above 2^53 collapse as float64, unsigned values above 2^63 turn negative), so distinct values rank Equal or in the wrong order while CompareValues tells them apart", hd.Name.Name, cf, exprStr(conv.Args[0]), ct)
									}
									return true
								})
							}
						}
					}
				}
				switch {
				case lossy != "":
					bad = lossy
				case !mir.mirrorEq(a0, a1):
					bad = fmt.Sprintf("the operands are extracted differently: %s vs %s", exprStr(a0), exprStr(a1))
				case mir.side(a0) != 0:
					bad = "the leaf is called with the operands exchanged (or both taken from one side)"
				default:
					bad = ""
				}
			}
			r.verdict(rule, construct, c.pos(cc.Pos()), "both operands extracted by the same accessor and passed as (first, second)", bad)
		}
	}
}

// pureLadderHelper: an unexported method whose body calls nothing but IsNil/IsValid on its
// parameters (a helper that only ranks or compares undefined and nil operands).
func pureLadderHelper(c *Ctx, info *types.Info, fn *types.Func) bool {
	if fn.Exported() {
		return false
	}
	d := c.declOf(fn)
	if d == nil || d.Body == nil || c.infoFor(d) != info {
		return false
	}
	pure := true
	tests := false
	ast.Inspect(d.Body, func(x ast.Node) bool {
		if call, ok := x.(*ast.CallExpr); ok {
			_, mname, _, isM := methodCall(call)
			if !isM || (mname != "IsNil" && mname != "IsValid") {
				pure = false
			} else {
				tests = true
			}
		}
		if _, ok := x.(*ast.ForStmt); ok {
			pure = false
		}
		if _, ok := x.(*ast.RangeStmt); ok {
			pure = false
		}
		return true
	})
	if pure && !tests {
		// a ladder over truth values handed in by the caller: missing(firstIsNil, secondIsNil)
		sig := fn.Type().(*types.Signature)
		allBool := sig.Params().Len() > 0
		for i := 0; i < sig.Params().Len(); i++ {
			if bt, ok := sig.Params().At(i).Type().Underlying().(*types.Basic); !ok || bt.Kind() != types.Bool {
				allBool = false
			}
		}
		return allBool
	}
	return pure && tests
}

// checkPrefixOrder: in a function that classifies a string by a sequence of
// strings.HasPrefix tests (written out or driven by a table), a test whose prefix extends
// the prefix of an earlier test can never fire: the earlier one takes the string first
// (returning, or rewriting it).  The class of the later entry is dead and its members are
// merged into the earlier class.
func checkPrefixOrder(c *Ctx, r *Rec, role, rule string) {
	info := c.info(role)
	for _, fd := range c.allFuncDecls(role) {
		if fd.Body == nil {
			continue
		}
		type ent struct {
			prefix string
			pos    token.Pos
		}
		var ents []ent
		lit := func(e ast.Expr) (string, bool) {
			if tv, ok := info.Types[e]; ok && tv.Value != nil && tv.Value.Kind() == constant.String {
				return constant.StringVal(tv.Value), true
			}
			return "", false
		}
		inspectNoLit(fd.Body, func(x ast.Node) bool {
			call, ok := x.(*ast.CallExpr)
			if !ok || len(call.Args) != 2 {
				return true
			}
			cf := calleeOf(info, call)
			if cf == nil || cf.Pkg() == nil || cf.Pkg().Path() != "strings" || cf.Name() != "HasPrefix" {
				return true
			}
			if s, ok := lit(call.Args[1]); ok {
				ents = append(ents, ent{s, call.Pos()})
				return true
			}
			// table driven: HasPrefix(x, entry.field) with entry ranging over a table of literals
			se, ok := ast.Unparen(call.Args[1]).(*ast.SelectorExpr)
			if !ok {
				return true
			}
			entry := identObj(info, se.X)
			if entry == nil {
				return true
			}
			var table ast.Expr
			ast.Inspect(fd.Body, func(y ast.Node) bool {
				if rs, ok := y.(*ast.RangeStmt); ok && rs.Value != nil && identObj(info, rs.Value) == entry {
					table = rs.X
				}
				return true
			})
			if table == nil {
				return true
			}
			var cl *ast.CompositeLit
			if id, ok := ast.Unparen(table).(*ast.Ident); ok {
				if v, ok := info.Uses[id].(*types.Var); ok {
					// package-level or local variable with a literal initialiser
					for _, f := range c.Pkgs[role].Syntax {
						ast.Inspect(f, func(z ast.Node) bool {
							if vs, ok := z.(*ast.ValueSpec); ok {
								for i, nm := range vs.Names {
									if info.Defs[nm] == v && i < len(vs.Values) {
										if l, ok := ast.Unparen(vs.Values[i]).(*ast.CompositeLit); ok {
											cl = l
										}
									}
								}
							}
							return true
						})
					}
				}
			} else if l, ok := ast.Unparen(table).(*ast.CompositeLit); ok {
				cl = l
			}
			if cl == nil {
				return true
			}
			for _, el := range cl.Elts {
				row, ok := el.(*ast.CompositeLit)
				if !ok {
					continue
				}
				// the field used as prefix: by name (key: value) or by position
				st, _ := info.TypeOf(row).Underlying().(*types.Struct)
				for i, fe := range row.Elts {
					var val ast.Expr
					name := ""
					if kv, ok := fe.(*ast.KeyValueExpr); ok {
						if id, ok := kv.Key.(*ast.Ident); ok {
							name = id.Name
						}
						val = kv.Value
					} else if st != nil && i < st.NumFields() {
						name, val = st.Field(i).Name(), fe
					}
					if name == se.Sel.Name && val != nil {
						if s, ok := lit(val); ok {
							ents = append(ents, ent{s, val.Pos()})
						}
					}
				}
			}
			return true
		})
		if len(ents) < 3 {
			continue
		}
		bad := ""
		for j := range ents {
			for i := 0; i < j; i++ {
				if ents[i].prefix != ents[j].prefix && ents[i].prefix != "" && strings.HasPrefix(ents[j].prefix, ents[i].prefix) {
					bad = fmt.Sprintf("the test for the prefix %q (at %s) comes after the test for %q (at %s), which already takes every string that starts with %q: the later class is never chosen and its members fall into the earlier one", ents[j].prefix, c.pos(ents[j].pos), ents[i].prefix, c.pos(ents[i].pos), ents[j].prefix)
				}
			}
		}
		r.check(bad == "", rule, c.fdName(fd), c.pos(fd.Pos()), fmt.Sprintf("%d prefix tests, none shadowed by an earlier shorter prefix", len(ents)), bad)
	}
}

// ---------------------------------------------------------------- rank leaves by role

// rankLeaf: the function that ranks two values of one class of primitives.
type rankLeaf struct {
	class string // boolean, signed, unsigned, float, complex, string
	fd    *ast.FuncDecl
	info  *types.Info
}

func basicClass(t types.Type) string {
	b, ok := t.Underlying().(*types.Basic)
	if !ok {
		return ""
	}
	switch {
	case b.Info()&types.IsBoolean != 0:
		return "boolean"
	case b.Info()&types.IsUnsigned != 0:
		return "unsigned"
	case b.Info()&types.IsInteger != 0:
		return "signed"
	case b.Info()&types.IsFloat != 0:
		return "float"
	case b.Info()&types.IsComplex != 0:
		return "complex"
	case b.Info()&types.IsString != 0:
		return "string"
	}
	return ""
}

// rankLeaves binds the leaves through the dispatch: every arm of the intrinsic ranker ends in a
// call f(x, y) on two extracted primitives; f (a method or a free, possibly generic, function
// of the repository) is the leaf for the class of x.  Without an intrinsic ranker the
// collator's own two-primitive methods that return a Rank are taken.  Construct names use the
// class, not the private function name.
func rankLeaves(c *Ctx, cr *collRoles) []rankLeaf {
	info := cr.info
	var out []rankLeaf
	seen := map[string]bool{}
	add := func(class string, fd *ast.FuncDecl) {
		if class == "" || fd == nil || fd.Body == nil {
			return
		}
		key := class + "/" + c.fdName(fd)
		if seen[key] {
			return
		}
		seen[key] = true
		out = append(out, rankLeaf{class, fd, c.infoFor(fd)})
	}
	if rankD := findDispatcher(c, cr, true); rankD != nil {
		var visit func(fd *ast.FuncDecl, depth int)
		visit = func(fd *ast.FuncDecl, depth int) {
			ast.Inspect(fd.Body, func(x ast.Node) bool {
				rs, ok := x.(*ast.ReturnStmt)
				if !ok || len(rs.Results) != 1 {
					return true
				}
				call, ok := ast.Unparen(rs.Results[0]).(*ast.CallExpr)
				if !ok || len(call.Args) != 2 {
					return true
				}
				cf := calleeOf(info, call)
				if cf == nil {
					return true
				}
				d := c.declOf(cf.Origin())
				if d == nil {
					d = c.declOf(cf)
				}
				if d == nil || d == fd {
					return true
				}
				t0 := info.TypeOf(call.Args[0])
				// a helper that ranks by presence (IsNil / IsValid of the operands) is a nil ladder, not a leaf
				presence := false
				for _, a := range call.Args {
					ast.Inspect(resolveInit(info, fd, a), func(y ast.Node) bool {
						if _, mname, _, ok := methodCall(y); ok && (mname == "IsNil" || mname == "IsValid") {
							presence = true
						}
						return true
					})
				}
				if presence {
					return true
				}
				if t0 != nil && basicClass(t0) != "" && types.Identical(t0, info.TypeOf(call.Args[1])) {
					add(basicClass(t0), d)
				} else if depth < 1 && isNamedFrom(t0, "reflect", "Value") {
					if sw, _ := kindClauses(info, d); sw != nil {
						visit(d, depth+1) // the intrinsic ranker
					}
				}
				return true
			})
		}
		visit(rankD, 0)
	}
	if len(out) == 0 {
		for _, name := range sortedKeys(cr.ms) {
			fd := cr.ms[name]
			if ast.IsExported(name) || !cr.returnsRank(c, fd) {
				continue
			}
			params := paramObjs(info, fd)
			if len(params) == 2 && types.Identical(params[0].Type(), params[1].Type()) {
				add(basicClass(params[0].Type()), fd)
			}
		}
	}
	sort.Slice(out, func(i, j int) bool {
		if out[i].class != out[j].class {
			return out[i].class < out[j].class
		}
		return out[i].fd.Name.Name < out[j].fd.Name.Name
	})
	return out
}

// kindTable: fd looks the kind of an operand up in a package-level map whose keys are
// reflect.Kind constants (T[first.Kind()]); returns the sorted key names, nil when there is none.
func kindTable(c *Ctx, info *types.Info, fd *ast.FuncDecl) []string {
	var out []string
	ast.Inspect(fd.Body, func(x ast.Node) bool {
		ix, ok := x.(*ast.IndexExpr)
		if !ok || out != nil {
			return true
		}
		idx := ast.Unparen(ix.Index)
		if id, isID := idx.(*ast.Ident); isID {
			if init := initOfIn(info, fd.Body, id); init != nil {
				idx = ast.Unparen(init)
			}
		}
		if _, mname, _, ok := methodCall(idx); !ok || mname != "Kind" {
			return true
		}
		tv, ok := info.Uses[identOf(ix.X)].(*types.Var)
		if !ok || tv.Pkg() == nil || tv.Parent() != tv.Pkg().Scope() {
			return true
		}
		lit := c.packageVarLiteral(tv)
		if lit == nil {
			return true
		}
		for _, el := range lit.Elts {
			kv, ok := el.(*ast.KeyValueExpr)
			if !ok {
				continue
			}
			if se, ok := ast.Unparen(kv.Key).(*ast.SelectorExpr); ok {
				out = append(out, se.Sel.Name)
			} else {
				out = append(out, exprStr(kv.Key))
			}
		}
		sort.Strings(out)
		return true
	})
	return out
}

func identOf(e ast.Expr) *ast.Ident {
	id, _ := ast.Unparen(e).(*ast.Ident)
	return id
}

// findIntrinsicRankers: the private methods (other than the dispatcher) whose kind switch hands
// the primitives extracted from both operands to the leaves.
func findIntrinsicRankers(c *Ctx, cr *collRoles, dispatcher *ast.FuncDecl) []*ast.FuncDecl {
	info := cr.info
	var out []*ast.FuncDecl
	for _, name := range sortedKeys(cr.ms) {
		fd := cr.ms[name]
		if ast.IsExported(name) || fd.Body == nil || fd == dispatcher {
			continue
		}
		fn := c.funcOf(fd)
		if fn == nil {
			continue
		}
		sig := fn.Type().(*types.Signature)
		if sig.Results().Len() != 1 || isBoolType(sig.Results().At(0).Type()) {
			continue
		}
		params := paramObjs(info, fd)
		isw, _ := kindClauses(info, fd)
		if isw == nil || len(params) != 2 {
			continue
		}
		arms := 0
		for _, cl := range isw.Body.List {
			cc := cl.(*ast.CaseClause)
			for _, st := range cc.Body {
				if rs, ok := st.(*ast.ReturnStmt); ok && len(rs.Results) == 1 {
					if call, ok := ast.Unparen(rs.Results[0]).(*ast.CallExpr); ok && len(call.Args) == 2 {
						a0 := resolveInitIn(info, cc, call.Args[0])
						if rx, _, ac, ok := methodCall(a0); ok && len(ac.Args) == 0 && isObj(info, rx, params[0]) {
							if t := info.TypeOf(a0); t != nil {
								if _, isBasic := t.Underlying().(*types.Basic); isBasic {
									arms++
								}
							}
						}
					}
				}
			}
		}
		if arms >= 3 {
			out = append(out, fd)
		}
	}
	return out
}
