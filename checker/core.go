package main

// Core plumbing: obligations, reports, known findings, evidence.

import (
	"encoding/json"
	"fmt"
	"go/token"
	"os"
	"path/filepath"
	"sort"
	"strings"
)

// Status of one obligation.
const (
	stOK        = "discharged"
	stViolated  = "violated"
	stUndecided = "undecided"
	stVacuous   = "vacuous"
	stKnown     = "known-finding"
	// stSkipped: the rule's structural pattern could not be bound on this tree (the code was
	// written differently from what the rule understands).  Nothing is claimed and nothing
	// is reported: a rule may only fail on positive evidence.  Skips are listed in the evidence.
	stSkipped = "not-evaluated"
)

// An Obligation is one instance of a rule on one construct of the repository.
// Key = Rule + "/" + Construct; it never contains a line number.
type Obligation struct {
	Rule      string `json:"rule"`
	Construct string `json:"construct"`
	Pos       string `json:"pos,omitempty"`
	Status    string `json:"status"`
	Detail    string `json:"detail,omitempty"`
	Witness   string `json:"witness,omitempty"`
}

func (o Obligation) Key() string { return o.Rule + "/" + o.Construct }

// Rec collects the obligations of one property run.
type Rec struct {
	Property string
	Obls     []Obligation
	Analysed map[string]int // free-form counters: functions, loops, call sites...
	Notes    []string
	floors   map[string]int
}

func newRec(p string) *Rec {
	return &Rec{Property: p, Analysed: map[string]int{}, floors: map[string]int{}}
}

func (r *Rec) add(rule, construct, pos, status, detail string) *Obligation {
	r.Obls = append(r.Obls, Obligation{Rule: rule, Construct: construct, Pos: pos, Status: status, Detail: detail})
	return &r.Obls[len(r.Obls)-1]
}
func (r *Rec) ok(rule, construct, pos, detail string) {
	r.add(rule, construct, pos, stOK, detail)
}
func (r *Rec) fail(rule, construct, pos, detail string) *Obligation {
	return r.add(rule, construct, pos, stViolated, detail)
}
func (r *Rec) undecided(rule, construct, pos, detail string) {
	r.add(rule, construct, pos, stUndecided, detail)
}

// skip records that a rule could not be evaluated on a construct because the code has a
// shape the rule does not understand.  It does not fail the check.
func (r *Rec) skip(rule, construct, pos, detail string) {
	r.add(rule, construct, pos, stSkipped, detail)
}
func (r *Rec) check(cond bool, rule, construct, pos, okDetail, failDetail string) bool {
	if cond {
		r.ok(rule, construct, pos, okDetail)
	} else {
		r.fail(rule, construct, pos, failDetail)
	}
	return cond
}

// verdict: bad == "" discharges; a complaint that starts with "skip:" records that the rule
// could not be evaluated on this shape of code; anything else is a violation.
func (r *Rec) verdict(rule, construct, pos, okDetail, bad string) bool {
	switch {
	case bad == "":
		r.ok(rule, construct, pos, okDetail)
		return true
	case strings.HasPrefix(bad, "skip:"):
		r.skip(rule, construct, pos, strings.TrimSpace(strings.TrimPrefix(bad, "skip:")))
		return true
	}
	r.fail(rule, construct, pos, bad)
	return false
}
func (r *Rec) count(what string, n int) { r.Analysed[what] += n }
func (r *Rec) note(s string)            { r.Notes = append(r.Notes, s) }

// floor declares that rule must have produced at least n obligations
// (vacuity guard: a rule matching nothing passes forever).
func (r *Rec) floor(rule string, n int) { r.floors[rule] = n }

// floorSoft: a rule over private shapes that bound nothing on this tree says so (not-evaluated)
// instead of failing: its constructs are not derived from the public API.
func (r *Rec) floorSoft(rule, construct, why string) {
	for _, o := range r.Obls {
		if o.Rule == rule {
			return
		}
	}
	r.skip(rule, construct, "", why)
}

func (r *Rec) applyFloors() {
	counts := map[string]int{}
	for _, o := range r.Obls {
		counts[o.Rule]++
	}
	var rules []string
	for k := range r.floors {
		rules = append(rules, k)
	}
	sort.Strings(rules)
	for _, rule := range rules {
		if counts[rule] < r.floors[rule] {
			r.add(rule, "instance-floor", "", stVacuous,
				fmt.Sprintf("rule matched %d constructs, at least %d exist on the reference tree: the rule's anchors could not be bound", counts[rule], r.floors[rule]))
		}
	}
}

// ---------------------------------------------------------------- known findings

type KnownFinding struct {
	Property  string `json:"property"`
	Rule      string `json:"rule"`
	Construct string `json:"construct"`
	Witness   string `json:"witness,omitempty"`
	Status    string `json:"status"` // "known" or "fixed"
	Commit    string `json:"commit,omitempty"`
	What      string `json:"what"`
}

func loadKnown(path string) ([]KnownFinding, error) {
	b, err := os.ReadFile(path)
	if err != nil {
		if os.IsNotExist(err) {
			return nil, nil
		}
		return nil, err
	}
	var doc struct {
		Findings []KnownFinding `json:"findings"`
	}
	if err := json.Unmarshal(b, &doc); err != nil {
		return nil, err
	}
	return doc.Findings, nil
}

// applyKnown turns violated obligations that are listed as "known" into
// known-finding obligations.  The match is on (property, rule, construct) and,
// when the entry carries a witness, on the witness text as well, so a different
// violation of the same rule on the same construct is still reported.
func (r *Rec) applyKnown(kfs []KnownFinding) (lines []string) {
	for i := range r.Obls {
		o := &r.Obls[i]
		if o.Status != stViolated {
			continue
		}
		for _, k := range kfs {
			if k.Status != "known" || k.Property != r.Property || k.Rule != o.Rule || k.Construct != o.Construct {
				continue
			}
			if k.Witness != "" && k.Witness != o.Witness {
				continue
			}
			o.Status = stKnown
			lines = append(lines, fmt.Sprintf("KNOWN-FINDING: property=%s %s [%s %s]", r.Property, k.What, o.Rule, o.Construct))
			break
		}
	}
	return lines
}

// ---------------------------------------------------------------- evidence

type propInfo struct {
	ID          string
	Engines     string
	Decided     string // clauses decided
	NotDecided  string // clauses not decided
	Run         func(c *Ctx, r *Rec)
	Assumptions []string
}

func (r *Rec) skipped() int {
	n := 0
	for _, o := range r.Obls {
		if o.Status == stSkipped {
			n++
		}
	}
	return n
}

func (r *Rec) tally() (n, okN, viol, und, vac, known int) {
	for _, o := range r.Obls {
		n++
		switch o.Status {
		case stOK:
			okN++
		case stViolated:
			viol++
		case stUndecided:
			und++
		case stVacuous:
			vac++
		case stKnown:
			known++
		}
	}
	return
}

func writeEvidence(dir string, p *propInfo, r *Rec, tier string, seed int64, wall float64, c *Ctx, extra map[string]any) error {
	n, okN, viol, und, vac, known := r.tally()
	perRule := map[string]map[string]int{}
	for _, o := range r.Obls {
		m := perRule[o.Rule]
		if m == nil {
			m = map[string]int{}
			perRule[o.Rule] = m
		}
		m["obligations"]++
		m[o.Status]++
	}
	for rule, f := range r.floors {
		if perRule[rule] == nil {
			perRule[rule] = map[string]int{}
		}
		perRule[rule]["floor"] = f
	}
	// samples: first obligation of each rule, plus every non-discharged one.
	var samples []Obligation
	seen := map[string]bool{}
	for _, o := range r.Obls {
		if (o.Status != stOK && o.Status != stSkipped) || !seen[o.Rule] {
			samples = append(samples, o)
			seen[o.Rule] = true
		}
		if len(samples) >= 60 {
			break
		}
	}
	distinct := map[string]bool{}
	for _, o := range r.Obls {
		distinct[o.Key()] = true
	}
	cov := map[string]any{
		"explanation": "Static analysis of /repo's current source (nothing is executed). DECIDED: " + p.Decided + round10Decided[p.ID] +
			" NOT DECIDED (the property as a whole is behavioural; a pass means no rule instance is violated, not that the property holds): " + p.NotDecided,
		"obligations":         n,
		"discharged":          okN,
		"violated":            viol,
		"undecided":           und,
		"vacuous":             vac,
		"known_findings":      known,
		"not_evaluated":       r.skipped(),
		"evaluations":         n,
		"distinct_nontrivial": len(distinct),
		"rule":                "one obligation per (rule, construct) instance bound on the loaded source; distinct = distinct rule/construct keys; every obligation is non-trivial in that it names a construct that exists in the tree",
		"checker_cmd":         fmt.Sprintf("./bin/vcheck -property %s -tier %s", p.ID, tier),
		"trusted_base": []string{
			"go/types, go/ssa, go/cfg, go/packages of golang.org/x/tools v0.29.0 (vendored)",
			"the rule tables and specs written in /verif/checker (see DESIGN.md section 5)",
		},
		"engines":         p.Engines,
		"per_rule":        perRule,
		"analysed":        r.Analysed,
		"samples":         samples,
		"notes":           r.Notes,
		"exhaustive":      true,
		"repo_root":       c.Root,
		"packages":        c.PkgPaths(),
		"files_loaded":    c.NFiles,
		"funcs_loaded":    c.NFuncs,
		"all_obligations": r.Obls,
	}
	for k, v := range extra {
		cov[k] = v
	}
	ev := map[string]any{
		"property_id": p.ID,
		"tier":        tier,
		"seed":        seed,
		"level":       "other",
		"coverage":    cov,
		"assumptions": append([]string{
			"the four packages under /repo/v4 type-check; test files are not analysed",
			"private identifiers are bound by role (types, signatures, call structure), public API names are anchors",
		}, p.Assumptions...),
		"wall_s":     wall,
		"violations": viol + und + vac,
	}
	b, err := json.MarshalIndent(ev, "", " ")
	if err != nil {
		return err
	}
	if err := os.MkdirAll(dir, 0o755); err != nil {
		return err
	}
	return os.WriteFile(filepath.Join(dir, p.ID+".json"), b, 0o644)
}

func writeReport(dir string, p *propInfo, r *Rec) (string, error) {
	var bad []Obligation
	for _, o := range r.Obls {
		if o.Status == stViolated || o.Status == stUndecided || o.Status == stVacuous {
			bad = append(bad, o)
		}
	}
	path := filepath.Join(dir, p.ID+".report.json")
	b, _ := json.MarshalIndent(map[string]any{"property_id": p.ID, "obligations": bad}, "", " ")
	return path, os.WriteFile(path, b, 0o644)
}

// ---------------------------------------------------------------- misc helpers

func posStr(fset *token.FileSet, root string, p token.Pos) string {
	if !p.IsValid() {
		return ""
	}
	pp := fset.Position(p)
	f := pp.Filename
	if rel, err := filepath.Rel(root, f); err == nil && !strings.HasPrefix(rel, "..") {
		f = rel
	}
	return fmt.Sprintf("%s:%d", f, pp.Line)
}

func sortedKeys[V any](m map[string]V) []string {
	var ks []string
	for k := range m {
		ks = append(ks, k)
	}
	sort.Strings(ks)
	return ks
}
