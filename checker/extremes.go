package main

// The largest values of an unsigned quantity.  A slot, an index or a capacity of type uint that
// comes from the caller can be any value up to the largest one.  Two shapes lose that value:
//   - `p + k` computed before anything has been said about p: for the largest p the sum wraps
//     around to a small number and passes the check that follows;
//   - `int(p)` used as an operand of a comparison: for p above the largest int the conversion is
//     negative and the comparison answers the opposite.
// Positive evidence only: the parameter (or the field that holds the caller's value) must reach
// the expression with no condition on it on the way.

import (
	"fmt"
	"go/ast"
	"go/token"
	"go/types"
)

func checkUnsignedExtremes(c *Ctx, r *Rec, rule string, fds []*ast.FuncDecl, capFields map[*types.Var]bool) {
	sites, bad := 0, 0
	for _, fd := range fds {
		info := c.infoFor(fd)
		if info == nil || fd.Body == nil || !ast.IsExported(fd.Name.Name) {
			continue // only what the public API receives is "any value of the type"
		}
		// a parameter that an earlier statement hands to a private function of the package has
		// been looked at there (a validation helper)
		vetted := func(node ast.Node, obj types.Object) bool {
			found := false
			for _, st := range fd.Body.List {
				if st.End() > node.Pos() {
					break
				}
				ast.Inspect(st, func(y ast.Node) bool {
					if call, ok := y.(*ast.CallExpr); ok {
						if cf := calleeOf(info, call); cf != nil && !cf.Exported() && c.declOf(cf) != nil {
							for _, a := range call.Args {
								if isObj(info, a, obj) {
									found = true
								}
							}
						}
					}
					return true
				})
			}
			return found
		}
		uparams := map[types.Object]bool{}
		for _, p := range paramObjs(info, fd) {
			if b, ok := p.Type().Underlying().(*types.Basic); ok && b.Info()&types.IsUnsigned != 0 {
				uparams[p] = true
			}
		}
		isFree := func(e ast.Expr) (string, bool) {
			e = ast.Unparen(e)
			if id, ok := e.(*ast.Ident); ok && uparams[info.Uses[id]] {
				return id.Name, true
			}
			if f := selectorField(info, e); f != nil && capFields[f] {
				return f.Name(), true
			}
			return "", false
		}
		var g *FG
		mentioned := func(node ast.Node, name string) bool {
			if g == nil {
				g = newFG(info, fd.Body)
			}
			pt, ok := g.locate(node)
			if !ok {
				return true // cannot tell: leave alone
			}
			for _, ec := range g.edgeConds(pt) {
				hit := false
				ast.Inspect(ec.cond, func(y ast.Node) bool {
					if id, ok := y.(*ast.Ident); ok && id.Name == name {
						hit = true
					}
					return true
				})
				if hit {
					return true
				}
			}
			return false
		}
		sparams := map[types.Object]bool{}
		for _, p := range paramObjs(info, fd) {
			if b, ok := p.Type().Underlying().(*types.Basic); ok && b.Info()&types.IsInteger != 0 && b.Info()&types.IsUnsigned == 0 {
				sparams[p] = true
			}
		}
		inspectNoLit(fd.Body, func(x ast.Node) bool {
			switch e := x.(type) {
			case *ast.UnaryExpr:
				// -p of a caller-given signed integer: the smallest value has no negative
				if e.Op == token.SUB {
					if id, ok := ast.Unparen(e.X).(*ast.Ident); ok && sparams[info.Uses[id]] {
						sites++
						// a condition on the way must bound the parameter from below
						lower, located := false, false
						if g == nil {
							g = newFG(info, fd.Body)
						}
						if pt, ok := g.locate(e); ok {
							located = true
							var atoms []condAtom
							for _, ec := range g.edgeConds(pt) {
								atomsOf(ec.cond, ec.polarity, &atoms)
							}
							for _, a := range atoms {
								be, ok := a.e.(*ast.BinaryExpr)
								if !ok {
									continue
								}
								op := be.Op
								switch {
								case isObj(info, be.X, info.Uses[id]):
								case isObj(info, be.Y, info.Uses[id]):
									switch op {
									case token.LSS:
										op = token.GTR
									case token.LEQ:
										op = token.GEQ
									case token.GTR:
										op = token.LSS
									case token.GEQ:
										op = token.LEQ
									}
								default:
									continue
								}
								if !a.true {
									switch op {
									case token.LSS:
										op = token.GEQ
									case token.LEQ:
										op = token.GTR
									case token.GTR:
										op = token.LEQ
									case token.GEQ:
										op = token.LSS
									case token.EQL:
										op = token.NEQ
									case token.NEQ:
										op = token.EQL
									}
								}
								if op == token.GTR || op == token.GEQ || op == token.EQL || op == token.NEQ {
									lower = true
								}
							}
						}
						if located && !lower && !vetted(e, info.Uses[id]) {
							bad++
							r.fail(rule, c.fdName(fd)+"/"+exprStr(e), c.pos(e.Pos()), fmt.Sprintf("%s negates the caller's %s before anything has been said about it: the smallest value of the type is its own negative, so a test written for \"far below zero\" does not see it and the value passes unclamped", exprStr(e), id.Name))
						}
					}
				}
			case *ast.BinaryExpr:
				// p + k in unsigned arithmetic
				if e.Op == token.ADD {
					tv, ok := info.Types[e]
					if !ok || tv.Value != nil {
						return true
					}
					if b, ok := tv.Type.Underlying().(*types.Basic); !ok || b.Info()&types.IsUnsigned == 0 {
						return true
					}
					for _, side := range []ast.Expr{e.X, e.Y} {
						if name, ok := isFree(side); ok {
							if _, isParam := ast.Unparen(side).(*ast.Ident); !isParam {
								continue // fields: only the conversion shape below
							}
							sites++
							if !mentioned(e, name) && !vetted(e, identObj(info, side)) {
								bad++
								r.fail(rule, c.fdName(fd)+"/"+exprStr(e), c.pos(e.Pos()), fmt.Sprintf("%s is computed from the caller's %s before anything has been said about %s: for the largest values of the type the sum wraps around to a small number and passes the test that follows, so an argument that is far out of range is accepted", exprStr(e), name, name))
							}
						}
					}
				}
				// int(p) as an operand of a comparison
				switch e.Op {
				case token.LSS, token.LEQ, token.GTR, token.GEQ, token.EQL, token.NEQ:
					for _, side := range []ast.Expr{e.X, e.Y} {
						side = ast.Unparen(side)
						if id, ok := side.(*ast.Ident); ok {
							// a local that holds the converted value
							if init := initOfIn(info, fd, id); init != nil {
								side = ast.Unparen(init)
							}
						}
						cv, ok := side.(*ast.CallExpr)
						if !ok || len(cv.Args) != 1 {
							continue
						}
						tv, ok := info.Types[cv.Fun]
						if !ok || !tv.IsType() {
							continue
						}
						b, ok := tv.Type.Underlying().(*types.Basic)
						if !ok || b.Info()&types.IsInteger == 0 || b.Info()&types.IsUnsigned != 0 {
							continue
						}
						if name, ok := isFree(cv.Args[0]); ok {
							sites++
							if !mentioned(e, name) && !(identObj(info, cv.Args[0]) != nil && vetted(e, identObj(info, cv.Args[0]))) {
								bad++
								r.fail(rule, c.fdName(fd)+"/"+exprStr(e), c.pos(e.Pos()), fmt.Sprintf("%s compares %s after converting it to a signed integer: for values above the largest signed integer the conversion is negative and the comparison answers the opposite (a collection created with the largest capacity is taken for full, or for empty)", exprStr(e), name))
							}
						}
					}
				}
			}
			return true
		})
	}
	if bad == 0 {
		r.ok(rule, "unsigned-extremes", "", fmt.Sprintf("%d sums and signed conversions of caller-given unsigned quantities, each after a condition on the quantity", sites))
	}
}
