package main

// What strconv.Unquote restored is handed on byte for byte.  The formatter writes bytes that are
// not valid UTF-8 as \xNN escapes and Unquote gives exactly those bytes back; a detour of the
// unquoted text through []rune (and back with string(...)) replaces every such byte with U+FFFD.
// The rule follows the operand of a string([]rune) conversion back through locals defined once
// and results of declared functions of the package; it reports when it arrives at a []rune(s)
// conversion whose s is a result of strconv.Unquote.

import (
	"fmt"
	"go/ast"
	"go/types"
)

func checkUnquotedTextKept(c *Ctx, r *Rec, rule, role string) {
	sites := 0
	bad := 0
	isRunes := func(t types.Type) bool {
		if t == nil {
			return false
		}
		sl, ok := t.Underlying().(*types.Slice)
		if !ok {
			return false
		}
		b, ok := sl.Elem().Underlying().(*types.Basic)
		return ok && b.Kind() == types.Int32
	}
	isString := func(t types.Type) bool {
		if t == nil {
			return false
		}
		b, ok := t.Underlying().(*types.Basic)
		return ok && b.Info()&types.IsString != 0
	}
	// fromUnquote: does the string expression e (read in fd) come from strconv.Unquote?
	var fromUnquote func(fd *ast.FuncDecl, e ast.Expr, depth int) bool
	fromUnquote = func(fd *ast.FuncDecl, e ast.Expr, depth int) bool {
		info := c.infoFor(fd)
		if info == nil || depth > 5 {
			return false
		}
		e = ast.Unparen(e)
		switch x := e.(type) {
		case *ast.Ident:
			init, call, idx := tupleDef(info, fd, x)
			if init != nil {
				return fromUnquote(fd, init, depth+1)
			}
			if call != nil && idx == 0 {
				return fromUnquote(fd, call, depth+1)
			}
		case *ast.CallExpr:
			if fn := calleeOf(info, x); fn != nil {
				if fn.Pkg() != nil && fn.Pkg().Path() == "strconv" && (fn.Name() == "Unquote" || fn.Name() == "UnquoteChar") {
					return true
				}
				if d := c.declOf(fn); d != nil && d.Body != nil {
					hit := false
					inspectNoLit(d.Body, func(y ast.Node) bool {
						if rs, ok := y.(*ast.ReturnStmt); ok && len(rs.Results) > 0 && fromUnquote(d, rs.Results[0], depth+1) {
							hit = true
						}
						return true
					})
					return hit
				}
			}
		}
		return false
	}
	// runesFromUnquote: does the []rune expression e come from []rune(<unquoted>)?
	var runesFromUnquote func(fd *ast.FuncDecl, e ast.Expr, depth int) string
	runesFromUnquote = func(fd *ast.FuncDecl, e ast.Expr, depth int) string {
		info := c.infoFor(fd)
		if info == nil || depth > 5 {
			return ""
		}
		e = ast.Unparen(e)
		switch x := e.(type) {
		case *ast.Ident:
			init, call, idx := tupleDef(info, fd, x)
			if init != nil {
				return runesFromUnquote(fd, init, depth+1)
			}
			if call != nil && idx == 0 {
				return runesFromUnquote(fd, call, depth+1)
			}
		case *ast.SliceExpr:
			return runesFromUnquote(fd, x.X, depth+1)
		case *ast.CallExpr:
			if tv, ok := info.Types[x.Fun]; ok && tv.IsType() && len(x.Args) == 1 {
				if isRunes(tv.Type) && isString(info.TypeOf(x.Args[0])) && fromUnquote(fd, x.Args[0], depth+1) {
					return c.pos(x.Pos())
				}
				return ""
			}
			if fn := calleeOf(info, x); fn != nil {
				if d := c.declOf(fn); d != nil && d.Body != nil {
					w := ""
					inspectNoLit(d.Body, func(y ast.Node) bool {
						if rs, ok := y.(*ast.ReturnStmt); ok && len(rs.Results) > 0 && w == "" {
							w = runesFromUnquote(d, rs.Results[0], depth+1)
						}
						return true
					})
					return w
				}
			}
		}
		return ""
	}
	for _, fd := range c.allFuncDecls(role) {
		info := c.infoFor(fd)
		if info == nil {
			continue
		}
		ast.Inspect(fd.Body, func(n ast.Node) bool {
			call, ok := n.(*ast.CallExpr)
			if !ok || len(call.Args) != 1 {
				return true
			}
			tv, ok := info.Types[call.Fun]
			if !ok || !tv.IsType() || !isString(tv.Type) || !isRunes(info.TypeOf(call.Args[0])) {
				return true
			}
			sites++
			if w := runesFromUnquote(fd, call.Args[0], 0); w != "" {
				bad++
				r.fail(rule, c.fdName(fd)+"/"+exprStr(call), c.pos(call.Pos()), fmt.Sprintf("the text that strconv.Unquote restored is converted to []rune at %s and back to a string here: every byte that is not part of a valid UTF-8 encoding (written by the formatter as a \\xNN escape and restored exactly by Unquote) becomes U+FFFD on the way, so a string with such bytes does not read back as itself", w))
			}
			return true
		})
	}
	if bad == 0 {
		r.ok(rule, role+"/string-of-runes", "", fmt.Sprintf("%d conversions of []rune to string, none of text that came out of strconv.Unquote", sites))
	}
}
