package main

// C07 — RankValues is a total preorder on every supported value type (structural clauses).

import (
	"fmt"
	"go/ast"
	"go/token"
	"go/types"
	"sort"
	"strings"

	"golang.org/x/tools/go/cfg"
)

func init() {
	register(&propInfo{
		ID:      "C07",
		Engines: "SYM (order cells <,=,> as octagon regions, IEEE-unordered cell, Boolean predicates), PATH (depth balance, dominance), table comparison, operand-mirror matching",
		Decided: "D1 every rank leaf returns Lesser/Equal/Greater exactly on first<second / = / > (false<true for booleans; complex: equal if identical, else by magnitude, then by phase); on the IEEE-unordered cell a leaf over floating-point operands must not answer with one constant; " +
			"D2 the swap-and-invert arms map Lesser<->Greater and Equal->Equal and recurse with the operands exchanged; " +
			"D3 each nil ladder answers Equal/Lesser/Greater for (undefined,undefined)/(undefined,x)/(x,undefined) and passes (first,second) on in order otherwise; " +
			"D4 the kind sets handled by the rank and compare dispatchers agree, the intrinsic kinds admitted equal the arms of the intrinsic ranker, each arm extracts both operands with the same accessor and passes them in order; " +
			"D5 the depth counter is balanced (++/--) on every normal path of every function that touches it; " +
			"D6 both key arrays of a map ranking are sorted by this collator's own ranker before the pairwise loop; " +
			"D7 pairwise loops return the first non-Equal element rank unchanged and a proper prefix ranks first; " +
			"D8 every recursive rank call in a pairwise loop gets mirror-image operands (same accessor chain on first and on second, in that order)." +
			" Also: no method of the sorter that orders map keys keeps the caller's array between two sorts; the collator writes no field but the depth counter after construction; prefix tests of the type classifier are not shadowed by an earlier shorter prefix; a pairwise loop bounded by one operand's size is preceded by an exit for the case that this operand is the longer one; the string leaf does not decode its operands into runes. Leaves are bound through the dispatch (the function the intrinsic ranker calls for a class of primitives), so generic leaves are covered." +
			" Rounds 8-9: the exchange of the operands is made at entry depth (recursive form) or its flag is honoured at every exit (in-place form); no go statement in the traversal; a mutex of the collator is released on panic paths, panics raised by same-type methods included.",
		NotDecided: "transitivity/antisymmetry of the composed order over nested values and over the type-name ordering of mixed types; values outside the leaf domains; signed zeros in the complex leaf (== implies equal keys is assumed).",
		Run:        runC07,
	})
}

type collRoles struct {
	n       *types.Named
	depthF  *types.Var
	maxF    *types.Var
	ms      map[string]*ast.FuncDecl
	rankT   *types.Named
	L, E, G int64
	info    *types.Info
}

func bindCollator(c *Ctx, r *Rec) *collRoles {
	n := c.mustImpl(r, "bind", "agent", "CollatorLike")
	if n == nil {
		return nil
	}
	cr := &collRoles{n: n, ms: c.methodsOf(n), info: c.info("agent")}
	written := fieldsWrittenInMethods(c, cr.info, n)
	st := structOf(n)
	if st != nil {
		for _, f := range flatFields(n) {
			if b, ok := f.Type().Underlying().(*types.Basic); ok && b.Kind() == types.Int {
				if written[f] {
					cr.depthF = f
				} else {
					cr.maxF = f
				}
			}
		}
	}
	cr.rankT = c.named("agent", "Rank")
	get := func(name string) int64 {
		if o := c.Pkgs["agent"].Types.Scope().Lookup(name); o != nil {
			if cst, ok := o.(*types.Const); ok {
				if v, ok := constInt(cst); ok {
					return v
				}
			}
		}
		return -99
	}
	cr.L, cr.E, cr.G = get("LesserRank"), get("EqualRank"), get("GreaterRank")
	if cr.depthF == nil || cr.maxF == nil || cr.rankT == nil || cr.L == -99 || cr.E == -99 || cr.G == -99 {
		r.skip("bind", "agent."+n.Obj().Name(), "", "cannot bind depth counter (written int field), maximum (frozen int field) and the Rank constants")
		return nil
	}
	return cr
}

func (cr *collRoles) returnsRank(c *Ctx, fd *ast.FuncDecl) bool {
	sig := c.funcOf(fd).Type().(*types.Signature)
	return sig.Results().Len() == 1 && derefNamed(sig.Results().At(0).Type()) != nil && derefNamed(sig.Results().At(0).Type()).Origin() == cr.rankT.Origin()
}

func runC07(c *Ctx, r *Rec) {
	cr := bindCollator(c, r)
	if cr == nil {
		return
	}
	info := cr.info
	L, E, G := k(cr.L), k(cr.E), k(cr.G)
	shapeLints(c, r, fileFuncs(c, "agent", cr.n))

	// ---- D1 leaves
	nleaves := 0
	leaves := rankLeaves(c, cr)
	perClass := map[string]int{}
	for _, lf := range leaves {
		perClass[lf.class]++
	}
	for _, lf := range leaves {
		fd := lf.fd
		params := paramObjs(info, fd)
		if len(params) != 2 {
			continue
		}
		nleaves++
		// the construct names the role (the class of primitives ranked), not the private function
		construct := "agent.collator/rank-leaf[" + lf.class + "]"
		if perClass[lf.class] > 1 {
			construct += "/" + fd.Name.Name
		}
		a, b := sym(params[0].Name()), sym(params[1].Name())
		if lf.class == "string" {
			// strings are ranked byte-wise; decoding them into runes maps every invalid byte to U+FFFD
			lossy := ""
			ast.Inspect(fd.Body, func(x ast.Node) bool {
				if call, ok := x.(*ast.CallExpr); ok && len(call.Args) == 1 {
					if tv, ok := info.Types[call.Fun]; ok && tv.IsType() {
						if sl, ok := tv.Type.Underlying().(*types.Slice); ok {
							if b, ok := sl.Elem().Underlying().(*types.Basic); ok && b.Kind() == types.Int32 && isStringType(info.TypeOf(call.Args[0])) {
								lossy = fmt.Sprintf("the string leaf ranks %s, the operand decoded into runes: every byte that is not valid UTF-8 becomes U+FFFD, so distinct strings rank Equal and the byte-wise order (and prefix-first) is lost", exprStr(call))
							}
						}
					}
				}
				if rs, ok := x.(*ast.RangeStmt); ok && isStringType(info.TypeOf(rs.X)) && rs.Value != nil {
					lossy = "the string leaf ranges over the runes of an operand: every byte that is not valid UTF-8 becomes U+FFFD, so distinct strings rank Equal"
				}
				return true
			})
			if lossy != "" {
				r.fail("D1-leaf-order", construct, c.pos(fd.Pos()), lossy)
				continue
			}
		}
		env := &symEnv{info: info}
		enableInlining(c, env, fd, nil)
		isFloat := lf.class == "float" || lf.class == "complex"
		isComplex := lf.class == "complex"
		isBoolean, isInteger := lf.class == "boolean", lf.class == "signed" || lf.class == "unsigned"
		keyResolve := func(e ast.Expr) (Val, bool) {
			// derived keys of the complex leaf: Abs(x), Phase(x)
			if call, ok := e.(*ast.CallExpr); ok && len(call.Args) == 1 {
				if fn := calleeOf(info, call); fn != nil && fn.Pkg() != nil && fn.Pkg().Path() == "math/cmplx" {
					for _, p := range params {
						if isObj(info, call.Args[0], p) {
							return Val{Lin: linSym(strings.ToLower(fn.Name()) + ":" + p.Name())}, true
						}
					}
				}
			}
			return Val{}, false
		}
		env.resolve = keyResolve
		var spec []specRow
		switch {
		case isBoolean:
			env.base = Cube{a.scale(-1), a.plus(-1), b.scale(-1), b.plus(-1)}
			fallthrough
		case !isComplex:
			spec = []specRow{
				{When: lt(a, b), Kind: "return", Ret: []*Lin{L}, Desc: "first < second -> Lesser"},
				{When: eq(a, b), Kind: "return", Ret: []*Lin{E}, Desc: "first = second -> Equal"},
				{When: gt(a, b), Kind: "return", Ret: []*Lin{G}, Desc: "first > second -> Greater"},
			}
		default:
			abs1, abs2 := sym("abs:"+params[0].Name()), sym("abs:"+params[1].Name())
			ph1, ph2 := sym("phase:"+params[0].Name()), sym("phase:"+params[1].Name())
			spec = []specRow{
				{When: eq(a, b), Kind: "return", Ret: []*Lin{E}, Desc: "identical -> Equal"},
				{When: and(ne(a, b), lt(abs1, abs2)), Kind: "return", Ret: []*Lin{L}, Desc: "smaller magnitude -> Lesser"},
				{When: and(ne(a, b), gt(abs1, abs2)), Kind: "return", Ret: []*Lin{G}, Desc: "greater magnitude -> Greater"},
				{When: and(ne(a, b), eq(abs1, abs2), lt(ph1, ph2)), Kind: "return", Ret: []*Lin{L}, Desc: "equal magnitude, smaller phase -> Lesser"},
				{When: and(ne(a, b), eq(abs1, abs2), gt(ph1, ph2)), Kind: "return", Ret: []*Lin{G}, Desc: "equal magnitude, greater phase -> Greater"},
				{When: and(ne(a, b), eq(abs1, abs2), eq(ph1, ph2)), Kind: "return", Ret: []*Lin{E}, Desc: "equal magnitude and phase -> Equal"},
			}
		}
		paths := symRun(env, fd.Body)
		r.count("SYM paths", len(paths))
		if len(env.problems) > 0 {
			r.skip("D1-leaf-order", construct, c.pos(fd.Pos()), "SYM cannot interpret the leaf: "+strings.Join(dedup(env.problems), "; "))
			continue
		}
		for i := range paths {
			if paths[i].Kind == "fall" {
				paths[i].Kind = "panic"
			}
		}
		viol, undec := conform(env, paths, spec)
		if len(env.wraps) > 0 && isInteger {
			viol = append(viol, fmt.Sprintf("the leaf computes %s in fixed-width arithmetic: for operands further apart than half the type's range the result wraps around and the sign test gives the wrong order (for example MaxInt64 against -1)", strings.Join(dedup(env.wraps), ", ")))
		}
		switch {
		case len(viol) > 0:
			r.fail("D1-leaf-order", construct, c.pos(fd.Pos()), strings.Join(viol, " | "))
		case len(undec) > 0:
			r.skip("D1-leaf-order", construct, c.pos(fd.Pos()), strings.Join(undec, " | "))
		default:
			r.ok("D1-leaf-order", construct, c.pos(fd.Pos()), fmt.Sprintf("%d paths x %d order cells conform", len(paths), len(spec)))
		}
		if isFloat {
			// the IEEE-unordered cell: every comparison of the operands (and of keys derived from them) is false, != is true
			envU := &symEnv{info: info, resolve: keyResolve, unordered: map[string]bool{}}
			enableInlining(c, envU, fd, nil)
			for _, p := range params {
				envU.unordered[p.Name()] = true
				envU.unordered["abs:"+p.Name()] = true
				envU.unordered["phase:"+p.Name()] = true
			}
			up := symRun(envU, fd.Body)
			results := map[string]bool{}
			for _, p := range up {
				if p.Kind == "return" && len(p.Rets) == 1 {
					results[p.Rets[0].String()] = true
				} else {
					results[p.Kind] = true
				}
			}
			var rs []string
			for s := range results {
				rs = append(rs, s)
			}
			sort.Strings(rs)
			if len(rs) <= 1 {
				o := r.fail("D1-unordered-cell", construct, c.pos(fd.Pos()),
					fmt.Sprintf("for operands that compare unordered (NaN) every path answers %v: a comparison-only leaf maps every unordered pair to one constant, so 1 ~ NaN ~ 2 while 1 < 2 (not transitive) - and CompareValues says NaN != NaN while the rank says Equal", rs))
				o.Witness = "unordered->" + strings.Join(rs, ",")
			} else {
				r.ok("D1-unordered-cell", construct, c.pos(fd.Pos()), fmt.Sprintf("the leaf distinguishes unordered operands (answers %v)", rs))
			}
		}
	}
	r.count("rank leaves", nleaves)
	r.floor("D1-leaf-order", 1)
	r.floorSoft("D1-unordered-cell", "agent.collator/rank-leaves", "no rank leaf over an unordered type (floating point, complex) could be bound: the leaves are not reached through a kind switch")

	checkRankComposites(c, r, cr)

	// ---- D3 nil ladders and D4 dispatch
	checkDispatch(c, r, cr)
	checkSwapArmAtEntryDepth(c, r, "D2-exchange-at-entry-depth", cr)
	checkTraversalSingleThreaded(c, r, "D5-single-threaded", cr)
	checkTypeLockPairing(c, r, "D5-lock-released", cr.n)
	checkPrefixOrder(c, r, "agent", "D4-class-prefixes")

	checkReceiverWrites(c, r, "D5-receiver-writes-persist", cr.n)
	// ---- D5 the collator keeps nothing but the depth counter between (and during) rankings
	if st := structOf(cr.n); st != nil {
		fw := c.fieldWrites()
		for i := 0; i < st.NumFields(); i++ {
			f := st.Field(i)
			if f == cr.depthF {
				continue
			}
			construct := "agent." + cr.n.Obj().Name() + "." + f.Name()
			if ws := fw[f.Origin()]; len(ws) > 0 && lazilyMadeImmutable(c, cr.info, f, ws, fw) {
				r.ok("D5-stateless", construct, c.pos(f.Pos()), "made on first use (under a nil test of the field, from nothing but the collator itself) and an object of a type whose fields are never written after construction: nothing a ranking could leave behind")
			} else if len(ws) > 0 {
				r.fail("D5-stateless", construct, c.pos(ws[0].Pos), fmt.Sprintf("the collator field %s is %s in %s after construction: a ranking then depends on what was ranked before (remembered keys, counters, caches), not on its two operands alone", f.Name(), ws[0].How, ws[0].In.Name.Name))
			} else {
				r.ok("D5-stateless", construct, c.pos(f.Pos()), "never written after construction")
			}
		}
	}
	// the sorter that orders map keys keeps nothing between its two uses in one ranking
	if srt, err := c.impl("agent", "SorterLike"); err == nil && srt != nil {
		checkSorterKeepsNothing(c, r, "D5-sorter-keeps-nothing", srt)
	}
	// ---- D5 depth balance
	steppers7 := depthSteppers(c, info, cr.ms, cr.depthF)
	for _, name := range sortedKeys(cr.ms) {
		fd := cr.ms[name]
		touches := len(steppers7) > 0
		ast.Inspect(fd.Body, func(x ast.Node) bool {
			if s, ok := x.(*ast.IncDecStmt); ok && selectorField(info, s.X) == cr.depthF {
				touches = true
			}
			return true
		})
		if !touches {
			continue
		}
		if _, isStepper := steppers7[c.funcOf(fd).Origin()]; isStepper {
			r.ok("D5-depth-balanced", c.fdName(fd), c.pos(fd.Pos()), "a helper that only steps the counter by a fixed amount: accounted for in its callers")
			continue
		}
		_, bad := depthBalanceWith(c, info, fd, cr.depthF, steppers7, 0)
		r.check(bad == "", "D5-depth-balanced", c.fdName(fd), c.pos(fd.Pos()), "every normal exit and every loop back edge is reached with a net depth change of zero", bad)
	}
	r.floorSoft("D5-depth-balanced", "agent.collator/depth-counter", "no method steps the depth counter directly")
}

// ---------------------------------------------------------------- operand mirror

type mirror struct {
	info   *types.Info
	fd     *ast.FuncDecl
	a, b   types.Object
	pairs  map[types.Object]types.Object
	sideOf map[types.Object]int
}

func newMirror(info *types.Info, fd *ast.FuncDecl, a, b types.Object) *mirror {
	return newMirrorC(nil, info, fd, a, b, 0)
}

// newMirrorC also pairs the results of `x, y, ... := helper(first, second)` when the helper
// (an unexported function of the same package) returns mirror images in those positions.
func newMirrorC(c *Ctx, info *types.Info, fd *ast.FuncDecl, a, b types.Object, depth int) *mirror {
	m := &mirror{info: info, fd: fd, a: a, b: b, pairs: map[types.Object]types.Object{a: b, b: a}, sideOf: map[types.Object]int{a: 0, b: 1}}
	// locals whose single initialisers are mirror images of each other become pairs
	type def struct {
		obj  types.Object
		init ast.Expr
	}
	var defs []def
	ast.Inspect(fd.Body, func(x ast.Node) bool {
		if lhs, rhs, ok := multiDef(x); ok && len(lhs) == 1 {
			if o := identObj(info, lhs[0]); o != nil {
				defs = append(defs, def{o, rhs})
			}
		}
		return true
	})
	// the value variable of `for k, v := range X` stands for X[k]
	ast.Inspect(fd.Body, func(x ast.Node) bool {
		if rs, ok := x.(*ast.RangeStmt); ok && rs.Key != nil && rs.Value != nil {
			if o := identObj(info, rs.Value); o != nil {
				defs = append(defs, def{o, &ast.IndexExpr{X: rs.X, Index: rs.Key}})
			}
		}
		return true
	})
	type tdef struct {
		lhs  []ast.Expr
		call *ast.CallExpr
	}
	var tdefs []tdef
	if c != nil && depth < 2 {
		ast.Inspect(fd.Body, func(x ast.Node) bool {
			if lhs, rhs, ok := multiDef(x); ok && len(lhs) >= 2 {
				if call, ok := ast.Unparen(rhs).(*ast.CallExpr); ok && len(call.Args) >= 2 {
					tdefs = append(tdefs, tdef{lhs, call})
				}
			}
			return true
		})
	}
	for iter := 0; iter < 3; iter++ {
		for i := range defs {
			for j := range defs {
				if i == j || m.pairs[defs[i].obj] != nil {
					continue
				}
				if m.mirrorEq(defs[i].init, defs[j].init) && m.side(defs[i].init) == 0 && m.side(defs[j].init) == 1 {
					m.pairs[defs[i].obj], m.pairs[defs[j].obj] = defs[j].obj, defs[i].obj
					m.sideOf[defs[i].obj], m.sideOf[defs[j].obj] = 0, 1
				}
			}
		}
		for _, td := range tdefs {
			cf := calleeOf(info, td.call)
			if cf == nil || cf.Exported() {
				continue
			}
			hd := c.declOf(cf)
			if hd == nil || hd.Body == nil || c.infoFor(hd) != info {
				continue
			}
			var hps []types.Object
			for _, f := range hd.Type.Params.List {
				for _, nm := range f.Names {
					hps = append(hps, info.Defs[nm])
				}
			}
			// the pair of arguments that are mirror images (first-side, second-side)
			for ai := 0; ai < len(td.call.Args) && ai < len(hps); ai++ {
				for aj := 0; aj < len(td.call.Args) && aj < len(hps); aj++ {
					if ai == aj || hps[ai] == nil || hps[aj] == nil {
						continue
					}
					if !m.mirrorEq(td.call.Args[ai], td.call.Args[aj]) || m.side(td.call.Args[ai]) != 0 || m.side(td.call.Args[aj]) != 1 {
						continue
					}
					hm := newMirrorC(c, info, hd, hps[ai], hps[aj], depth+1)
					var rets []*ast.ReturnStmt
					inspectNoLit(hd.Body, func(x ast.Node) bool {
						if rs, ok := x.(*ast.ReturnStmt); ok {
							rets = append(rets, rs)
						}
						return true
					})
					for ri := range td.lhs {
						for rj := range td.lhs {
							oi, oj := identObj(info, td.lhs[ri]), identObj(info, td.lhs[rj])
							if ri == rj || oi == nil || oj == nil || m.pairs[oi] != nil || len(rets) == 0 {
								continue
							}
							all := true
							for _, rs := range rets {
								if len(rs.Results) != len(td.lhs) || !hm.mirrorEq(rs.Results[ri], rs.Results[rj]) || hm.side(rs.Results[ri]) != 0 || hm.side(rs.Results[rj]) != 1 {
									all = false
								}
							}
							if all {
								m.pairs[oi], m.pairs[oj] = oj, oi
								m.sideOf[oi], m.sideOf[oj] = 0, 1
							}
						}
					}
				}
			}
		}
	}
	return m
}

// side: 0 if the expression mentions only first-side operands, 1 only second-side, -1 mixed/none.
func (m *mirror) side(e ast.Expr) int {
	s := -2
	ast.Inspect(e, func(x ast.Node) bool {
		if id, ok := x.(*ast.Ident); ok {
			if sd, ok := m.sideOf[m.info.Uses[id]]; ok {
				if s == -2 {
					s = sd
				} else if s != sd {
					s = -1
				}
			}
		}
		return true
	})
	if s == -2 {
		return -1
	}
	return s
}

// mirrorEq: e2 is e1 with every operand-side identifier replaced by its mirror.
func (m *mirror) mirrorEq(e1, e2 ast.Expr) bool {
	e1, e2 = ast.Unparen(e1), ast.Unparen(e2)
	switch x := e1.(type) {
	case *ast.Ident:
		y, ok := e2.(*ast.Ident)
		if !ok {
			return false
		}
		ox, oy := m.info.Uses[x], m.info.Uses[y]
		if ox == nil {
			ox = m.info.Defs[x]
		}
		if oy == nil {
			oy = m.info.Defs[y]
		}
		if p, ok := m.pairs[ox]; ok {
			return p == oy
		}
		return ox == oy && x.Name == y.Name
	case *ast.SelectorExpr:
		y, ok := e2.(*ast.SelectorExpr)
		return ok && x.Sel.Name == y.Sel.Name && m.mirrorEq(x.X, y.X)
	case *ast.CallExpr:
		y, ok := e2.(*ast.CallExpr)
		if !ok || len(x.Args) != len(y.Args) || !m.mirrorEq(x.Fun, y.Fun) {
			return false
		}
		for i := range x.Args {
			if !m.mirrorEq(x.Args[i], y.Args[i]) {
				return false
			}
		}
		return true
	case *ast.IndexExpr:
		y, ok := e2.(*ast.IndexExpr)
		return ok && m.mirrorEq(x.X, y.X) && m.mirrorEq(x.Index, y.Index)
	case *ast.BasicLit:
		y, ok := e2.(*ast.BasicLit)
		return ok && x.Value == y.Value
	case *ast.CompositeLit:
		y, ok := e2.(*ast.CompositeLit)
		return ok && exprStr(x) == exprStr(y)
	case *ast.BinaryExpr:
		y, ok := e2.(*ast.BinaryExpr)
		return ok && x.Op == y.Op && m.mirrorEq(x.X, y.X) && m.mirrorEq(x.Y, y.Y)
	case *ast.UnaryExpr:
		y, ok := e2.(*ast.UnaryExpr)
		return ok && x.Op == y.Op && m.mirrorEq(x.X, y.X)
	}
	return false
}

// ---------------------------------------------------------------- depth balance

func depthBalance(c *Ctx, info *types.Info, fd *ast.FuncDecl, depthF *types.Var) string {
	_, bad := depthBalanceWith(c, info, fd, depthF, nil, 0)
	return bad
}

// depthSteppers: unexported methods that step the counter by a fixed amount and do nothing else
// with it (openBlock: depth++ ... ; closeBlock: depth-- ...): their callers are analysed with
// the call counted as that step, they themselves are expected to end off-balance.
func depthSteppers(c *Ctx, info *types.Info, ms map[string]*ast.FuncDecl, depthF *types.Var) map[*types.Func]int {
	out := map[*types.Func]int{}
	for name, fd := range ms {
		if ast.IsExported(name) || fd.Body == nil {
			continue
		}
		recursive := false
		ast.Inspect(fd.Body, func(x ast.Node) bool {
			if call, ok := x.(*ast.CallExpr); ok {
				if cf := calleeOf(info, call); cf != nil && ms[cf.Name()] != nil && recvNamed(cf) != nil {
					// calls that can lead back into the traversal disqualify the helper
					if d := ms[cf.Name()]; d != nil && d != fd {
						touches := false
						ast.Inspect(d.Body, func(y ast.Node) bool {
							if s, ok := y.(*ast.IncDecStmt); ok && selectorField(info, s.X) == depthF {
								touches = true
							}
							return true
						})
						if touches {
							recursive = true
						}
					}
				}
			}
			return true
		})
		if recursive {
			continue
		}
		if net, bad := depthBalanceWith(c, info, fd, depthF, nil, 99); bad == "" && net != 0 {
			if fn := c.funcOf(fd); fn != nil {
				out[fn.Origin()] = net
			}
		}
	}
	return out
}

// depthBalanceWith: the net change of the counter at the normal exits (all exits must agree).
// steppers: calls counted as steps.  wantNet 99 means "any consistent value".
func depthBalanceWith(c *Ctx, info *types.Info, fd *ast.FuncDecl, depthF *types.Var, steppers map[*types.Func]int, wantNet int) (int, string) {
	g := newFG(info, fd.Body)
	const unknown = -1000
	in := map[*cfg.Block]int{}
	for _, b := range g.order {
		in[b] = unknown
	}
	in[g.entry()] = 0
	stepOf := func(call *ast.CallExpr) int {
		if cf := calleeOf(info, call); cf != nil {
			return steppers[cf.Origin()]
		}
		return 0
	}
	litDelta := func(lit *ast.FuncLit) int {
		d := 0
		ast.Inspect(lit.Body, func(x ast.Node) bool {
			switch s := x.(type) {
			case *ast.IncDecStmt:
				if selectorField(info, s.X) == depthF {
					if s.Tok == token.INC {
						d++
					} else {
						d--
					}
				}
			case *ast.CallExpr:
				d += stepOf(s)
			}
			return true
		})
		return d
	}
	delta := func(n ast.Node) int {
		if s, ok := n.(*ast.IncDecStmt); ok && selectorField(info, s.X) == depthF {
			if s.Tok == token.INC {
				return 1
			}
			return -1
		}
		// a deferred step runs at every exit that follows: for the balance at the exits it
		// counts where it is registered
		if ds, ok := n.(*ast.DeferStmt); ok {
			switch f := ast.Unparen(ds.Call.Fun).(type) {
			case *ast.FuncLit:
				return litDelta(f)
			case *ast.CallExpr:
				// defer v.descend()(): the inner call runs now, what it returns runs at the exit
				d := stepOf(f)
				if hd := c.declOf(calleeOf(info, f)); hd != nil && hd.Body != nil {
					inspectNoLit(hd.Body, func(x ast.Node) bool {
						if rs, ok := x.(*ast.ReturnStmt); ok && len(rs.Results) == 1 {
							switch rv := ast.Unparen(rs.Results[0]).(type) {
							case *ast.FuncLit:
								d += litDelta(rv)
							case *ast.SelectorExpr:
								if sel, ok := info.Selections[rv]; ok {
									if mfn, ok := sel.Obj().(*types.Func); ok {
										d += steppers[mfn.Origin()]
									}
								}
							}
						}
						return true
					})
				}
				return d
			default:
				return stepOf(ds.Call)
			}
		}
		d := 0
		if len(steppers) > 0 {
			inspectNoLit(n, func(x ast.Node) bool {
				if call, ok := x.(*ast.CallExpr); ok {
					if cf := calleeOf(info, call); cf != nil {
						d += steppers[cf.Origin()]
					}
				}
				return true
			})
		}
		return d
	}
	bad := ""
	net, haveNet := 0, false
	for iter := 0; iter < 20 && bad == ""; iter++ {
		changed := false
		for _, b := range g.order {
			if in[b] == unknown {
				continue
			}
			cur := in[b]
			for _, n := range b.Nodes {
				cur += delta(n)
			}
			if len(b.Succs) == 0 {
				if g.exitKind(b) == exitReturn {
					pos := c.pos(fd.End())
					if len(b.Nodes) > 0 {
						pos = c.pos(b.Nodes[len(b.Nodes)-1].Pos())
					}
					switch {
					case wantNet != 99 && cur != wantNet:
						bad = fmt.Sprintf("the exit at %s is reached with the depth counter changed by %+d: later traversals start off-balance (spurious depth-limit panics or an ineffective limit)", pos, cur)
					case haveNet && cur != net:
						bad = fmt.Sprintf("the exits of the function leave the depth counter changed by different amounts (%+d and %+d)", net, cur)
					}
					net, haveNet = cur, true
				}
				continue
			}
			for _, s := range b.Succs {
				if in[s] == unknown {
					in[s] = cur
					changed = true
				} else if in[s] != cur {
					pos := ""
					if len(s.Nodes) > 0 {
						pos = c.pos(s.Nodes[0].Pos())
					}
					bad = fmt.Sprintf("paths joining at %s carry different net depth changes (%+d vs %+d): a ++ is not matched by a -- on every path", pos, in[s], cur)
				}
			}
		}
		if !changed {
			break
		}
	}
	return net, bad
}

// loopEntryNode returns a CFG-visible node of a loop statement (init, condition or ranged expression).
func loopEntryNode(l ast.Stmt) ast.Node {
	switch s := l.(type) {
	case *ast.ForStmt:
		if s.Init != nil {
			return s.Init
		}
		if s.Cond != nil {
			return s.Cond
		}
		if len(s.Body.List) > 0 {
			return s.Body.List[0]
		}
	case *ast.RangeStmt:
		return s.X
	}
	return l
}

// terminates: every path through the block ends in return or panic (syntactic: the last
// statement is a return, a panic call, or an if/switch all of whose branches terminate).
func terminates(info *types.Info, b *ast.BlockStmt) bool {
	if b == nil || len(b.List) == 0 {
		return false
	}
	return stmtTerminates(info, b.List[len(b.List)-1])
}

func stmtTerminates(info *types.Info, s ast.Stmt) bool {
	switch st := s.(type) {
	case *ast.ReturnStmt:
		return true
	case *ast.ExprStmt:
		if call, ok := st.X.(*ast.CallExpr); ok {
			return noReturnCall(info, call)
		}
	case *ast.BlockStmt:
		return terminates(info, st)
	case *ast.IfStmt:
		if st.Else == nil {
			return false
		}
		return terminates(info, st.Body) && stmtTerminates(info, st.Else)
	case *ast.SwitchStmt:
		hasDefault := false
		for _, cl := range st.Body.List {
			cc := cl.(*ast.CaseClause)
			if cc.List == nil {
				hasDefault = true
			}
			if len(cc.Body) == 0 || !stmtTerminates(info, cc.Body[len(cc.Body)-1]) {
				return false
			}
		}
		return hasDefault
	}
	return false
}

// checkRankComposites: mirrors (D2), pairwise bounds and lexicographic shape (D7), operand
// symmetry (D8) and key sorting (D6) of the composite rank functions.
func checkRankComposites(c *Ctx, r *Rec, cr *collRoles) {
	info := cr.info
	L, E, G := linConst(cr.L), linConst(cr.E), linConst(cr.G)
	_, _, _ = L, E, G
	// ---- composite rankers: mirrors (D2), lexicographic shape (D7), operand symmetry (D8), key sorting (D6)
	for _, name := range sortedKeys(cr.ms) {
		fd := cr.ms[name]
		if ast.IsExported(name) || !cr.returnsRank(c, fd) {
			continue
		}
		params := paramObjs(info, fd)
		if len(params) != 2 || !isNamedFrom(params[0].Type(), "reflect", "Value") {
			continue
		}
		self := c.funcOf(fd)
		mir := newMirror(info, fd, params[0], params[1])
		checkSizesDoNotDecideFirst(c, r, cr, fd)
		// D2: a recursive self call with the operands exchanged; whatever is done with its result up to
		// the return must map Lesser<->Greater and keep Equal (switch, helper, local: all interpreted)
		var fg *FG
		inspectNoLit(fd.Body, func(x ast.Node) bool {
			call, ok := x.(*ast.CallExpr)
			if !ok || len(call.Args) != 2 {
				return true
			}
			cf := calleeOf(info, call)
			if cf == nil || cf.Origin() != self {
				return true
			}
			if !isObj(info, call.Args[0], params[1]) || !isObj(info, call.Args[1], params[0]) {
				return true
			}
			construct := c.fdName(fd) + "/mirror-arm"
			// the statements from the one that contains the call to the end of its block
			var rest []ast.Stmt
			ast.Inspect(fd.Body, func(y ast.Node) bool {
				var list []ast.Stmt
				switch b := y.(type) {
				case *ast.BlockStmt:
					list = b.List
				case *ast.CaseClause:
					list = b.Body
				}
				for i, st := range list {
					if containsNode(st, call) {
						inner := false
						ast.Inspect(st, func(z ast.Node) bool {
							switch bb := z.(type) {
							case *ast.BlockStmt:
								for _, s2 := range bb.List {
									if containsNode(s2, call) {
										inner = true
									}
								}
							case *ast.CaseClause:
								for _, s2 := range bb.Body {
									if containsNode(s2, call) {
										inner = true
									}
								}
							}
							return true
						})
						if !inner {
							rest = list[i:]
						}
					}
				}
				return true
			})
			if rest == nil {
				r.skip("D2-mirror", construct, c.pos(call.Pos()), "the statement that uses the swapped call could not be isolated")
				return true
			}
			env := &symEnv{info: info}
			tag := linSym("tag")
			env.resolve = func(e ast.Expr) (Val, bool) {
				if e == ast.Expr(call) {
					return Val{Lin: tag}, true
				}
				return Val{}, false
			}
			enableInlining(c, env, fd, map[*types.Func]bool{self: true})
			paths := symRun(env, &ast.BlockStmt{List: rest})
			spec := []specRow{
				{When: eq(tag, L), Kind: "return", Ret: []*Lin{G}, Desc: "swapped Lesser -> Greater"},
				{When: eq(tag, G), Kind: "return", Ret: []*Lin{L}, Desc: "swapped Greater -> Lesser"},
				{When: eq(tag, E), Kind: "return", Ret: []*Lin{E}, Desc: "swapped Equal -> Equal"},
			}
			env.base = append(env.base, Cube{}...)
			for i := range paths {
				if paths[i].Kind == "fall" {
					paths[i].Kind = "panic"
				}
			}
			viol, undec := conform(env, paths, spec)
			for _, p := range paths {
				if p.Kind == "return" && (len(p.Rets) != 1 || p.Rets[0].Lin == nil) {
					undec = append(undec, "the result of the swap arm is computed in a way the interpreter does not follow (a lookup table, a call)")
				}
			}
			switch {
			case len(env.problems)+len(undec) > 0:
				r.skip("D2-mirror", construct, c.pos(call.Pos()), strings.Join(dedup(append(env.problems, undec...)), "; "))
			case len(viol) > 0:
				r.fail("D2-mirror", construct, c.pos(call.Pos()), strings.Join(viol, " | "))
			default:
				r.ok("D2-mirror", construct, c.pos(call.Pos()), "recursion on (second, first) with Lesser<->Greater, Equal->Equal")
			}
			// the arm is taken exactly when the first operand is the longer one
			if fg == nil {
				fg = newFG(info, fd.Body)
			}
			if pt, ok := fg.locate(call); ok {
				verdict := 0 // +1 right way round, -1 wrong way round
				for _, ec := range fg.edgeConds(pt) {
					be, ok := ast.Unparen(ec.cond).(*ast.BinaryExpr)
					if !ok || !ec.polarity {
						continue
					}
					x, y := be.X, be.Y
					switch be.Op {
					case token.GTR:
					case token.LSS:
						x, y = y, x
					default:
						continue
					}
					// now the condition says x > y
					if !mir.mirrorEq(x, y) {
						continue
					}
					if mir.side(x) == 0 {
						verdict = 1
					} else if mir.side(x) == 1 && verdict == 0 {
						verdict = -1
					}
				}
				switch verdict {
				case 1:
					r.ok("D2-mirror", construct+"/guard", c.pos(call.Pos()), "taken when the first operand is longer than the second (same measure on both)")
				case -1:
					r.fail("D2-mirror", construct+"/guard", c.pos(call.Pos()), "the swap arm is taken when the SECOND operand is the longer one: for a longer first operand the pairwise loop runs past the end of the second")
				default:
					r.skip("D2-mirror", construct+"/guard", c.pos(call.Pos()), "no guard of the form size(first) > size(second) recognised on the way to the swap arm")
				}
			}
			return true
		})
		// a ranker that exchanges its two operands in place (and remembers that it did) is another
		// design: which of its values is "first" depends on the path, so the rules that read the
		// parameters as first and second do not apply to its loops
		exchangesInPlace := false
		inspectNoLit(fd.Body, func(x ast.Node) bool {
			if as, ok := x.(*ast.AssignStmt); ok && as.Tok == token.ASSIGN && len(as.Lhs) == len(as.Rhs) {
				for i, l := range as.Lhs {
					for k := 0; k < 2; k++ {
						if isObj(info, l, params[k]) && isObj(info, as.Rhs[i], params[1-k]) {
							exchangesInPlace = true
						}
					}
				}
			}
			return true
		})
		if exchangesInPlace {
			r.skip("D8-operand-symmetry", c.fdName(fd)+"/pairwise-loops", c.pos(fd.Pos()), "the operands are exchanged in place before the loop: what is first and what is second depends on the path taken")
			checkExchangeFlagHonoured(c, r, cr, fd, params)
			continue
		}
		// pairwise loops
		for li, loop := range loopsIn(fd.Body) {
			var fs ast.Stmt = loop
			var loopBody *ast.BlockStmt
			var bound ast.Expr // the loop runs over 0..bound-1
			switch l := loop.(type) {
			case *ast.ForStmt:
				loopBody = l.Body
				if be, ok := ast.Unparen(l.Cond).(*ast.BinaryExpr); ok && l.Cond != nil && be.Op == token.LSS {
					bound = be.Y
				}
			case *ast.RangeStmt:
				loopBody = l.Body
				bound = l.X
			}
			if loopBody == nil {
				continue
			}
			// recursive rank calls in the loop
			var calls []*ast.CallExpr
			inspectNoLit(loopBody, func(x ast.Node) bool {
				if call, ok := x.(*ast.CallExpr); ok && len(call.Args) == 2 {
					if cf := calleeOf(info, call); cf != nil && recvNamed(cf) != nil && recvNamed(cf).Origin() == cr.n.Origin() && cr.returnsRank(c, c.declOf(cf)) {
						// a ranker takes two values; a helper that takes a rank (to reverse it, say) is not one
						if sig, ok := cf.Type().(*types.Signature); ok && sig.Params().Len() == 2 && !types.Identical(sig.Params().At(0).Type(), sig.Results().At(0).Type()) && types.Identical(sig.Params().At(0).Type(), sig.Params().At(1).Type()) {
							calls = append(calls, call)
						}
					}
				}
				return true
			})
			if len(calls) == 0 {
				continue
			}
			construct := fmt.Sprintf("%s/pairwise-loop#%d", c.fdName(fd), li+1)
			// D8 operand symmetry
			bad := ""
			for _, call := range calls {
				if !mir.mirrorEq(call.Args[0], call.Args[1]) || mir.side(call.Args[0]) != 0 {
					// a local that is assigned more than once (one variable used for both operands in
					// turn: keys = first.MapKeys(); ...; keys = second.MapKeys()) cannot be followed
					reused := false
					seenLocals := map[types.Object]bool{}
					var follow func(e ast.Expr, depth int)
					follow = func(e ast.Expr, depth int) {
						ast.Inspect(e, func(y ast.Node) bool {
							id, ok := y.(*ast.Ident)
							if !ok {
								return true
							}
							v, isVar := info.Uses[id].(*types.Var)
							if !isVar || v.IsField() || seenLocals[v] || depth > 4 {
								return true
							}
							seenLocals[v] = true
							ndefs := 0
							var inits []ast.Expr
							ast.Inspect(fd.Body, func(z ast.Node) bool {
								switch d := z.(type) {
								case *ast.AssignStmt:
									for i2, l := range d.Lhs {
										if identObj(info, l) == types.Object(v) {
											ndefs++
											if len(d.Lhs) == len(d.Rhs) {
												inits = append(inits, d.Rhs[i2])
											}
										}
									}
								case *ast.ValueSpec:
									for i2, nm := range d.Names {
										if info.Defs[nm] == types.Object(v) {
											ndefs++
											if i2 < len(d.Values) {
												inits = append(inits, d.Values[i2])
											}
										}
									}
								}
								return true
							})
							if ndefs > 1 {
								reused = true
							}
							for _, in := range inits {
								follow(in, depth+1)
							}
							return true
						})
					}
					follow(call.Args[0], 0)
					follow(call.Args[1], 0)
					if reused {
						// which operand a part comes from could not be followed (a local that is used for
						// both operands in turn, say): nothing is known about the pair
						if bad == "" {
							bad = fmt.Sprintf("skip: the operand that %s or %s is a part of could not be followed", exprStr(call.Args[0]), exprStr(call.Args[1]))
						}
						continue
					}
					bad = fmt.Sprintf("the recursive call %s(%s, %s) at %s does not rank mirror-image parts of first and second in that order", exprStr(call.Fun), exprStr(call.Args[0]), exprStr(call.Args[1]), c.pos(call.Pos()))
				}
			}
			r.verdict("D8-operand-symmetry", construct, c.pos(fs.Pos()), fmt.Sprintf("%d recursive call(s), each on the same part of first and of second, in order", len(calls)), bad)
			// D7 bounds: a loop bounded by one operand's size that also indexes the other needs an
			// earlier exit for the case that the bounding operand is the longer one
			typeLevel := false
			if bound != nil {
				// the number of methods or fields is a property of the type, and both operands are
				// of one type here: neither is "the longer one"
				if _, mname, _, ok := methodCall(resolveInit(info, fd, bound)); ok && (mname == "NumMethod" || mname == "NumField") {
					typeLevel = true
				}
			}
			if bound != nil && mir.side(bound) >= 0 && !typeLevel {
				bside := mir.side(bound)
				excluded, compared := false, false
				for _, st := range fd.Body.List {
					if st == ast.Stmt(fs) {
						break
					}
					is, ok := st.(*ast.IfStmt)
					if !ok || len(is.Body.List) == 0 {
						continue
					}
					if !terminates(info, is.Body) {
						continue
					}
					be, ok := ast.Unparen(is.Cond).(*ast.BinaryExpr)
					if !ok {
						continue
					}
					x, y := be.X, be.Y
					if !mir.mirrorEq(x, y) && !mir.mirrorEq(y, x) {
						continue
					}
					switch be.Op {
					case token.NEQ:
						excluded, compared = true, true
					case token.GTR, token.LSS:
						if be.Op == token.LSS {
							x, y = y, x
						}
						compared = true
						if mir.side(x) == bside { // bounding side longer -> leaves
							excluded = true
						}
					}
				}
				switch {
				case excluded:
					r.ok("D7-pairwise-bounds", construct, c.pos(fs.Pos()), "the case that the operand bounding the loop is the longer one leaves the function before the loop")
				case compared:
					r.fail("D7-pairwise-bounds", construct, c.pos(fs.Pos()), "the pairwise loop runs up to the size of one operand and indexes the other, but the early exit before the loop is for the opposite size relation: when the bounding operand is longer the other one is indexed past its end")
				case func() bool {
					// some other treatment of the size relation before the loop (operands exchanged
					// in place, a helper): not this rule's business
					found := false
					for _, st := range fd.Body.List {
						if st == ast.Stmt(fs) {
							break
						}
						ast.Inspect(st, func(x ast.Node) bool {
							if be, ok := x.(*ast.BinaryExpr); ok && (mir.mirrorEq(be.X, be.Y) || mir.mirrorEq(be.Y, be.X)) {
								switch be.Op {
								case token.GTR, token.LSS, token.GEQ, token.LEQ, token.NEQ:
									found = true
								}
							}
							if call, ok := x.(*ast.CallExpr); ok && (isBuiltinCall(info, call, "min") || isBuiltinCall(info, call, "max")) {
								found = true
							}
							return true
						})
					}
					return found
				}():
					r.skip("D7-pairwise-bounds", construct, c.pos(fs.Pos()), "the sizes of the operands are compared before the loop in a way this rule does not follow (no early exit, perhaps an exchange in place)")
				default:
					// is the other operand indexed by the loop at all?
					r.fail("D7-pairwise-bounds", construct, c.pos(fs.Pos()), "the pairwise loop runs up to the size of one operand and ranks the corresponding parts of the other, and nothing before the loop excludes that the bounding operand is the longer one (no swap arm, no size test): the other operand is indexed past its end")
				}
			}
			// D7 first non-Equal rank returned unchanged
			env := &symEnv{info: info}
			ncall := 0
			env.resolve = func(e ast.Expr) (Val, bool) {
				for i, call := range calls {
					if e == ast.Expr(call) {
						ncall++
						return Val{Lin: linSym(fmt.Sprintf("rank%d", i))}, true
					}
				}
				return Val{}, false
			}
			env.loopBody = true
			paths := symRun(env, loopBody)
			var viol []string
			for _, p := range paths {
				full := append(append(Cube{}, env.base...), p.Cube...)
				// the first call whose rank is not Equal on this path decides
				decided := false
				for i := range calls {
					ri := sym(fmt.Sprintf("rank%d", i))
					mentions := false
					for _, a := range p.Cube {
						if _, ok := a.C[fmt.Sprintf("rank%d", i)]; ok {
							mentions = true
						}
					}
					if !mentions {
						continue
					}
					if s, _ := satF(full, eq(ri, E)); !s {
						// rank_i != Equal on this whole path: it must be returned
						decided = true
						if p.Kind == "return" && len(p.Rets) == 1 && p.Rets[0].Lin == nil {
							env.problems = append(env.problems, fmt.Sprintf("the loop returns %v, a value computed in a way the interpreter does not follow (a lookup table, a call)", p.Rets))
						} else if p.Kind != "return" || len(p.Rets) != 1 || p.Rets[0].Lin == nil || !p.Rets[0].Lin.equal(ri) {
							viol = append(viol, fmt.Sprintf("when element rank #%d is not Equal the loop %ss %v instead of returning that rank unchanged", i+1, p.Kind, p.Rets))
						}
						break
					}
				}
				if !decided && p.Kind == "return" {
					viol = append(viol, fmt.Sprintf("the loop returns %v although every element rank on the path is Equal", p.Rets))
				}
			}
			if len(env.problems) > 0 {
				r.skip("D7-lexicographic", construct, c.pos(fs.Pos()), strings.Join(dedup(env.problems), "; "))
			} else {
				r.check(len(viol) == 0, "D7-lexicographic", construct, c.pos(fs.Pos()), fmt.Sprintf("%d body paths: the first non-Equal element rank is returned as is, Equal continues", len(paths)), strings.Join(dedup(viol), " | "))
			}
			// after the loop: shorter first
			var tail []ast.Stmt
			for i, s := range fd.Body.List {
				if s == ast.Stmt(fs) {
					tail = fd.Body.List[i+1:]
				}
			}
			if tail != nil {
				envT := &symEnv{info: info}
				tp := symRun(envT, &ast.BlockStmt{List: tail})
				// the two sizes compared after the loop: a mirror pair
				var fE, sE ast.Expr
				for _, st := range tail {
					ast.Inspect(st, func(x ast.Node) bool {
						if be, ok := x.(*ast.BinaryExpr); ok && fE == nil {
							switch {
							case mir.mirrorEq(be.X, be.Y) && mir.side(be.X) == 0 && mir.side(be.Y) == 1:
								fE, sE = be.X, be.Y
							case mir.mirrorEq(be.Y, be.X) && mir.side(be.Y) == 0 && mir.side(be.X) == 1:
								fE, sE = be.Y, be.X
							}
						}
						return true
					})
				}
				st0 := &symState{vars: map[string]Val{}}
				var tv, tu []string
				if fE == nil {
					// no size test at all: only a constant Equal is acceptable when the sizes are known equal; not decided here
					allConst := true
					for _, p := range tp {
						if p.Kind != "return" || len(p.Rets) != 1 || p.Rets[0].Lin == nil || !p.Rets[0].Lin.isConst() {
							allConst = false
						}
					}
					if allConst && len(tp) == 1 && tp[0].Rets[0].Lin.equal(L) {
						tv = append(tv, "Lesser is returned unconditionally after the loop")
					} else {
						tu = append(tu, "no comparison of the two operand sizes after the loop")
					}
				} else {
					F, S := envT.eval(st0, fE).Lin, envT.eval(st0, sE).Lin
					if F == nil || S == nil {
						tu = append(tu, "the sizes compared after the loop are not integer forms")
					} else {
						envT.base = append(envT.base, dnf(le(F, S))[0]...)
						spec := []specRow{
							{When: lt(F, S), Kind: "return", Ret: []*Lin{L}, Desc: "first is a proper prefix of second -> Lesser"},
							{When: eq(F, S), Kind: "return", Ret: []*Lin{E}, Desc: "same length, all parts Equal -> Equal"},
						}
						for i := range tp {
							if tp[i].Kind == "fall" {
								tp[i].Kind = "panic"
							}
						}
						tv, tu = conform(envT, tp, spec)
					}
				}
				switch {
				case len(tv) > 0:
					r.fail("D7-lexicographic", construct+"/after", c.pos(fs.Pos()), strings.Join(dedup(tv), " | "))
				case len(envT.problems)+len(tu) > 0:
					r.skip("D7-lexicographic", construct+"/after", c.pos(fs.Pos()), strings.Join(dedup(append(envT.problems, tu...)), "; "))
				default:
					r.ok("D7-lexicographic", construct+"/after", c.pos(fs.Pos()), "proper prefix -> Lesser, same length -> Equal (given size(first) <= size(second) here)")
				}
			}
		}
		// D6 key sorting (functions that call MapKeys)
		var keyVars []types.Object
		ast.Inspect(fd.Body, func(x ast.Node) bool {
			if lhs, rhs, ok := multiDef(x); ok && len(lhs) == 1 {
				if _, mname, _, ok := methodCall(ast.Unparen(rhs)); ok && mname == "MapKeys" {
					keyVars = append(keyVars, identObj(info, lhs[0]))
				}
			}
			return true
		})
		if len(keyVars) > 0 {
			construct := c.fdName(fd) + "/key-order"
			g := newFG(info, fd.Body)
			bad := ""
			var firstLoop ast.Stmt
			if ls := loopsIn(fd.Body); len(ls) > 0 {
				firstLoop = ls[0]
			}
			for _, kv := range keyVars {
				var sortCall *ast.CallExpr
				ast.Inspect(fd.Body, func(x ast.Node) bool {
					if _, mname, call, ok := methodCall(x); ok && mname == "SortValues" && len(call.Args) == 1 && isObj(info, call.Args[0], kv) {
						sortCall = call
					}
					return true
				})
				switch {
				case sortCall == nil:
					bad = "the key array " + kv.Name() + " is not sorted: the result depends on Go's random map iteration order"
				case firstLoop != nil && !g.nodeDominates(sortCall, loopEntryNode(firstLoop)):
					bad = "the key array " + kv.Name() + " is not sorted on every path before the pairwise loop"
				default:
					// the sorter uses this collator's own ranking
					rx, _, _, _ := methodCall(sortCall)
					src := resolveInit(info, fd, rx)
					owner := fd
					// the sorter may come out of a private method of the collator that makes it on
					// first use and keeps it in a field: follow the method's result to the field's
					// one assignment
					for hop := 0; hop < 2; hop++ {
						hrx, hname, hcall, ok := methodCall(src)
						if !ok || len(hcall.Args) != 0 || !isObj(info, hrx, recvObj(info, owner)) || cr.ms[hname] == nil || ast.IsExported(hname) {
							break
						}
						hd := cr.ms[hname]
						var ret ast.Expr
						inspectNoLit(hd.Body, func(y ast.Node) bool {
							if rs, ok := y.(*ast.ReturnStmt); ok && len(rs.Results) == 1 {
								ret = ast.Unparen(rs.Results[0])
							}
							return true
						})
						if ret == nil {
							break
						}
						owner = hd
						src = resolveInit(info, hd, ret)
						if f := selectorField(info, src); f != nil {
							var rhs []ast.Expr
							ast.Inspect(hd.Body, func(y ast.Node) bool {
								if as, ok := y.(*ast.AssignStmt); ok && len(as.Lhs) == 1 && len(as.Rhs) == 1 && selectorField(info, as.Lhs[0]) == f {
									rhs = append(rhs, ast.Unparen(as.Rhs[0]))
								}
								return true
							})
							if len(rhs) == 1 {
								src = rhs[0]
							}
						}
					}
					okRanker := false
					resolved := false
					if _, mname, call, ok := methodCall(src); ok && mname == "MakeWithRanker" && len(call.Args) == 1 {
						resolved = true
						if se, ok := ast.Unparen(call.Args[0]).(*ast.SelectorExpr); ok && isObj(info, se.X, recvObj(info, owner)) {
							if m := cr.ms[se.Sel.Name]; m != nil && cr.returnsRank(c, m) {
								okRanker = true
							}
						}
					} else if _, mname, _, ok := methodCall(src); ok && mname == "Make" {
						resolved = true
					}
					if !resolved {
						bad = "skip: where the sorter of the key array comes from is not recognisable (neither made here nor in a private method of the collator)"
					} else if !okRanker {
						bad = "the keys are not sorted with this collator's own ranking function"
					}
				}
			}
			r.verdict("D6-keys-sorted", construct, c.pos(fd.Pos()), fmt.Sprintf("%d key arrays sorted by this collator before the pairwise loop", len(keyVars)), bad)
		}
	}
	r.floor("D8-operand-symmetry", 1)
	r.floor("D7-lexicographic", 1)

}

// checkSizesDoNotDecideFirst: composite values are ranked lexicographically: the sizes of the
// operands decide only after every common position ranked Equal (a proper prefix comes first).
// A return that ranks by a comparison of the two sizes BEFORE any part was ranked - not preceded
// by a ranking call or by the loop over the parts - is the shortlex order: [3] before [1, 2].
func checkSizesDoNotDecideFirst(c *Ctx, r *Rec, cr *collRoles, fd *ast.FuncDecl) {
	info := cr.info
	construct := c.fdName(fd) + "/size-before-parts"
	isRankCall := func(call *ast.CallExpr) bool {
		cf := calleeOf(info, call)
		if cf == nil || recvNamed(cf) == nil || recvNamed(cf).Origin() != cr.n.Origin() {
			return false
		}
		d := cr.ms[cf.Name()]
		if d == nil || !cr.returnsRank(c, d) {
			return false
		}
		ps := paramObjs(info, d)
		return len(ps) == 2 && isNamedFrom(ps[0].Type(), "reflect", "Value")
	}
	var isSize func(e ast.Expr, depth int) bool
	isSize = func(e ast.Expr, depth int) bool {
		e = ast.Unparen(e)
		if depth > 3 {
			return false
		}
		if id, ok := e.(*ast.Ident); ok {
			if init := initOf(info, fd, id); init != nil {
				return isSize(init, depth+1)
			}
			// one of several results of a helper
			found := false
			ast.Inspect(fd.Body, func(x ast.Node) bool {
				if lhs, rhs, ok := multiDef(x); ok && len(lhs) >= 2 {
					for _, l := range lhs {
						if identObj(info, l) == info.Uses[id] && isSize(rhs, depth+1) {
							found = true
						}
					}
				}
				return true
			})
			return found
		}
		if call, ok := e.(*ast.CallExpr); ok {
			if _, mname, _, ok := methodCall(call); ok && (mname == "Len" || mname == "GetSize") {
				return true
			}
			if isBuiltinCall(info, call, "len") {
				return true
			}
			if tv, isT := info.Types[call.Fun]; isT && tv.IsType() && len(call.Args) == 1 {
				return isSize(call.Args[0], depth+1)
			}
			if cf := calleeOf(info, call); cf != nil && !cf.Exported() {
				if hd := c.declOf(cf); hd != nil && hd.Body != nil && c.infoFor(hd) == info {
					sizey := false
					ast.Inspect(hd.Body, func(x ast.Node) bool {
						if _, mname, mc, ok := methodCall(x); ok {
							if mname == "Len" || mname == "GetSize" {
								sizey = true
							}
							if mname == "MethodByName" && len(mc.Args) == 1 {
								if s, ok := constString(info, mc.Args[0]); ok && s == "GetSize" {
									sizey = true
								}
							}
						}
						return true
					})
					return sizey
				}
			}
		}
		return false
	}
	g := newFG(info, fd.Body)
	var firstPart ast.Node // the first loop or ranking call of the function, in source order
	ast.Inspect(fd.Body, func(x ast.Node) bool {
		if firstPart != nil {
			return false
		}
		switch y := x.(type) {
		case *ast.ForStmt, *ast.RangeStmt:
			firstPart = y
		case *ast.CallExpr:
			if isRankCall(y) {
				firstPart = y
			}
		}
		return firstPart == nil
	})
	if firstPart == nil {
		return
	}
	bad := ""
	inspectNoLit(fd.Body, func(x ast.Node) bool {
		rs, ok := x.(*ast.ReturnStmt)
		if !ok || bad != "" || rs.Pos() > firstPart.Pos() || len(rs.Results) != 1 {
			return true
		}
		pt, ok := g.locate(rs)
		if !ok {
			return true
		}
		sizeCond := ""
		for _, ec := range g.edgeConds(pt) {
			ast.Inspect(ec.cond, func(y ast.Node) bool {
				if be, ok := y.(*ast.BinaryExpr); ok {
					switch be.Op {
					case token.NEQ, token.LSS, token.GTR, token.LEQ, token.GEQ:
						if isSize(be.X, 0) && isSize(be.Y, 0) {
							sizeCond = exprStr(be)
						}
					}
				}
				return true
			})
		}
		if sizeCond == "" {
			return true
		}
		// what is returned: a rank other than Equal, or a leaf applied to the sizes
		res := ast.Unparen(rs.Results[0])
		decides := false
		if tv, ok := info.Types[res]; ok && tv.Value != nil {
			if k, ok := constantInt(tv); ok && k != cr.E {
				decides = true
			}
		}
		if call, ok := res.(*ast.CallExpr); ok && len(call.Args) == 2 && isSize(call.Args[0], 0) && isSize(call.Args[1], 0) {
			decides = true
		}
		if decides {
			bad = fmt.Sprintf("the return at %s ranks the operands by their sizes (%s) before any of their parts has been ranked: a shorter sequence comes before every longer one ([3] before [1, 2]), which is not the lexicographic order in which a proper prefix comes first and otherwise the first differing part decides", c.pos(rs.Pos()), sizeCond)
		}
		return true
	})
	if bad != "" {
		r.fail("D7-lexicographic", construct, c.pos(fd.Pos()), bad)
	}
}

// lazilyMadeImmutable: every write of the field is `recv.f = <call>` under the condition
// `recv.f == nil`, the call mentions no parameter of the method it stands in, and the object it
// makes is of a module type none of whose fields is ever written after construction.  Such a
// field holds no history: it is a constant of the object that is computed late.
func lazilyMadeImmutable(c *Ctx, info *types.Info, f *types.Var, ws []fieldWrite, fw map[*types.Var][]fieldWrite) bool {
	for _, w := range ws {
		if w.In == nil || w.In.Body == nil || !strings.HasPrefix(w.How, "assigned") {
			return false
		}
		winfo := c.infoFor(w.In)
		if winfo == nil {
			return false
		}
		recv := recvObj(winfo, w.In)
		var as *ast.AssignStmt
		ast.Inspect(w.In.Body, func(x ast.Node) bool {
			if a, ok := x.(*ast.AssignStmt); ok && a.Pos() <= w.Pos && w.Pos < a.End() && len(a.Lhs) == 1 && len(a.Rhs) == 1 && selectorField(winfo, a.Lhs[0]) == f.Origin() {
				as = a
			}
			return true
		})
		if as == nil || recv == nil {
			return false
		}
		call, ok := ast.Unparen(as.Rhs[0]).(*ast.CallExpr)
		if !ok {
			return false
		}
		// nothing but the receiver goes into the call
		for _, p := range paramObjs(winfo, w.In) {
			mentioned := false
			ast.Inspect(call, func(y ast.Node) bool {
				if id, ok := y.(*ast.Ident); ok && winfo.Uses[id] == types.Object(p) {
					mentioned = true
				}
				return true
			})
			if mentioned {
				return false
			}
		}
		// under `recv.f == nil`
		g := newFG(winfo, w.In.Body)
		pt, ok := g.locate(as)
		if !ok {
			return false
		}
		guarded := false
		for _, ec := range g.edgeConds(pt) {
			be, ok := ast.Unparen(ec.cond).(*ast.BinaryExpr)
			if !ok {
				continue
			}
			isNil := func(e ast.Expr) bool { id, ok := ast.Unparen(e).(*ast.Ident); return ok && id.Name == "nil" }
			isF := func(e ast.Expr) bool { return selectorField(winfo, e) == f.Origin() }
			if ((isF(be.X) && isNil(be.Y)) || (isF(be.Y) && isNil(be.X))) && ((be.Op == token.EQL && ec.polarity) || (be.Op == token.NEQ && !ec.polarity)) {
				guarded = true
			}
		}
		if !guarded {
			return false
		}
		// what is made: a module type whose fields are never written after construction
		t := winfo.TypeOf(call)
		var impl *types.Named
		if n := derefNamed(t); n != nil {
			if _, isIface := n.Underlying().(*types.Interface); isIface {
				ims := c.implementers(n)
				var fit []*types.Named
				for _, im := range ims {
					if implementsInst(im, n) {
						fit = append(fit, im)
					}
				}
				if len(fit) == 1 {
					impl = fit[0]
				}
			} else {
				impl = n
			}
		}
		st := structOf(impl)
		if st == nil {
			return false
		}
		for i := 0; i < st.NumFields(); i++ {
			if len(fw[st.Field(i).Origin()]) > 0 {
				return false
			}
		}
	}
	return true
}

// checkExchangeFlagHonoured: a ranker that exchanges its operands in place remembers that in a
// flag and has to reverse every answer that is not Equal when the flag is set.  When one exit of
// the method passes its answer through the flag (a helper that takes it, a condition on it) and
// another exit behind the exchange returns a rank that is not Equal without looking at the flag,
// that other exit answers for (second, first): the order is not antisymmetric for the inputs that
// reach it (a proper prefix as the second operand).
func checkExchangeFlagHonoured(c *Ctx, r *Rec, cr *collRoles, fd *ast.FuncDecl, params []*types.Var) {
	info := cr.info
	construct := c.fdName(fd) + "/exchange-flag"
	// the exchange statement and the flags: boolean locals in the condition that selects it, or
	// assigned next to it
	var swap *ast.AssignStmt
	inspectNoLit(fd.Body, func(x ast.Node) bool {
		if as, ok := x.(*ast.AssignStmt); ok && as.Tok == token.ASSIGN && len(as.Lhs) == len(as.Rhs) && swap == nil {
			for i, l := range as.Lhs {
				for k := 0; k < 2; k++ {
					if isObj(info, l, params[k]) && isObj(info, as.Rhs[i], params[1-k]) {
						swap = as
					}
				}
			}
		}
		return true
	})
	if swap == nil {
		return
	}
	flags := map[types.Object]bool{}
	g := newFG(info, fd.Body)
	isBoolLocal := func(o types.Object) bool {
		v, ok := o.(*types.Var)
		if !ok || v.IsField() {
			return false
		}
		b, ok := v.Type().Underlying().(*types.Basic)
		return ok && b.Info()&types.IsBoolean != 0
	}
	if pt, ok := g.locate(swap); ok {
		for _, ec := range g.edgeConds(pt) {
			ast.Inspect(ec.cond, func(y ast.Node) bool {
				if id, ok := y.(*ast.Ident); ok && info.Uses[id] != nil && isBoolLocal(info.Uses[id]) {
					flags[info.Uses[id]] = true
				}
				return true
			})
		}
	}
	// a flag set in the same block as the exchange
	ast.Inspect(fd.Body, func(x ast.Node) bool {
		blk, ok := x.(*ast.BlockStmt)
		if !ok {
			return true
		}
		has := false
		for _, st := range blk.List {
			if st == ast.Stmt(swap) {
				has = true
			}
		}
		if has {
			for _, st := range blk.List {
				if as, ok := st.(*ast.AssignStmt); ok && len(as.Lhs) == 1 {
					if o := identObj(info, as.Lhs[0]); o != nil && isBoolLocal(o) {
						flags[o] = true
					}
				}
			}
		}
		return true
	})
	if len(flags) == 0 {
		r.skip("D2-mirror", construct, c.pos(swap.Pos()), "the operands are exchanged in place but no boolean flag that remembers it was found")
		return
	}
	mentionsFlag := func(n ast.Node) bool {
		hit := false
		ast.Inspect(n, func(y ast.Node) bool {
			if id, ok := y.(*ast.Ident); ok && flags[info.Uses[id]] {
				hit = true
			}
			return true
		})
		return hit
	}
	var oriented, plain []*ast.ReturnStmt
	inspectNoLit(fd.Body, func(x ast.Node) bool {
		rs, ok := x.(*ast.ReturnStmt)
		if !ok || len(rs.Results) != 1 || rs.Pos() < swap.End() {
			return true
		}
		// Equal needs no orientation
		if tv, ok := info.Types[rs.Results[0]]; ok && tv.Value != nil {
			if v, exact := constantInt(tv); exact && v == cr.E {
				return true
			}
		}
		under := false
		if pt, ok := g.locate(rs); ok {
			for _, ec := range g.edgeConds(pt) {
				if mentionsFlag(ec.cond) {
					under = true
				}
			}
		}
		// the returned variable was reversed under the flag just before:  if flag { rank = reverse(rank) }
		if o := identObj(info, rs.Results[0]); o != nil && !under {
			inspectNoLit(fd.Body, func(y ast.Node) bool {
				as, ok := y.(*ast.AssignStmt)
				if !ok || as.Pos() > rs.Pos() || as.Pos() < swap.End() {
					return true
				}
				for _, l := range as.Lhs {
					if isObj(info, l, o) {
						if pt, ok := g.locate(as); ok {
							for _, ec := range g.edgeConds(pt) {
								if mentionsFlag(ec.cond) {
									under = true
								}
							}
						}
					}
				}
				return true
			})
		}
		if mentionsFlag(rs.Results[0]) || under {
			oriented = append(oriented, rs)
		} else {
			plain = append(plain, rs)
		}
		return true
	})
	switch {
	case len(oriented) == 0:
		r.skip("D2-mirror", construct, c.pos(swap.Pos()), "no exit behind the exchange looks at the flag: the design is not the flag-and-reverse one this rule knows")
	case len(plain) > 0:
		r.fail("D2-mirror", construct, c.pos(plain[0].Pos()), fmt.Sprintf("after the operands were exchanged in place the exit at %s passes its answer through the flag, but the exit at %s returns %s without looking at it: for the inputs that reach that exit after an exchange (the second operand a proper prefix of the first) the answer is the one for (second, first), so RankValues(a, b) and RankValues(b, a) say the same", c.pos(oriented[0].Pos()), c.pos(plain[0].Pos()), exprStr(plain[0].Results[0])))
	default:
		r.ok("D2-mirror", construct, c.pos(swap.Pos()), fmt.Sprintf("all %d exits behind the exchange that can answer something else than Equal look at the flag", len(oriented)))
	}
}
