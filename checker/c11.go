package main

// C11 — Every sentence of the CDCN grammar is accepted with its intended meaning (structural clauses).

import (
	"fmt"
	"go/ast"
	"go/token"
	"go/types"
	"sort"
	"strings"
)

func init() {
	register(&propInfo{
		ID:      "C11",
		Engines: "LANG (language equality grammar vs. scanner, prefix-shadow products over the scan order), table comparison (grammar rules, intrinsic alternatives, type contexts), FLOW-style error-consumption rule, EFFECT (scanner/parser state separation)",
		Decided: "D1 for every token definition of Syntax.cdsn that is expressed with literals and ranges only, the grammar's language equals the scanner's matcher language; " +
			"D2 for every ordered pair of token types (Ti tried before Tj) no word of Tj has a prefix in Ti, so the fixed scan order cannot steal a token; " +
			"D3 the parser's embedded rule texts equal the grammar's rule definitions, its intrinsic alternatives are exactly the grammar's, its context switch has exactly the type alternatives and the arm labelled X builds through the collection class accessor X; " +
			"D4 every conversion of token text whose callee returns an error has that error consumed by a nil test (directly or in a repository helper) whose failing edge ends differently from the good one: accepted text is never silently replaced by another value; " +
			"D5 the scanner goroutine and the parser share no mutable state other than the token queue: scanner fields are touched only by scanner methods, the parser calls no scanner instance method, tokens are immutable after construction." +
			" Also: scanner pattern and grammar definition select the same matches under leftmost-first matching; the matcher sees the whole rest of the input; every parser field that carries state is re-created by ParseSource; no bounded collection is filled past its capacity in any type context.",
		NotDecided: "that the recursive-descent control flow accepts exactly the grammar's rule language and builds the documented value (needs a semantics of the parser); sufficiency of the push-back stack; set/catalog semantics of the result.",
		Run:        runC11,
	})
}

func normWS(s string) string { return strings.Join(strings.Fields(s), " ") }

func runC11(c *Ctx, r *Rec) {
	info := c.info("cdcn")
	st := c.scanTables()
	if len(st.problems) > 0 || len(st.matchers) == 0 || len(st.order) == 0 {
		r.skip("bind", "cdcn.scanner-tables", "", "cannot extract the scanner tables: "+strings.Join(st.problems, "; "))
		return
	}
	defs, skipped, rules, err := parseCDSN(cdsnPath(c))
	if err != nil {
		r.undecided("bind", "cdcn/Syntax.cdsn", "", err.Error())
		return
	}
	// ---- alphabet
	al := newAlphabet()
	parsed := map[string]bool{}
	addSrc := func(src string) bool {
		re, err := parseRegex(src)
		if err != nil {
			return false
		}
		al.addRegexp(re)
		parsed[src] = true
		return true
	}
	for _, src := range st.matchers {
		addSrc(src)
	}
	for _, src := range defs {
		addSrc(src)
	}
	al.freeze()
	mk := func(src string) *DFA {
		re, err := parseRegex(src)
		if err != nil {
			return nil
		}
		d, err := dfaFromRegexp(al, re)
		if err != nil {
			return nil
		}
		return d.minimize()
	}
	tok := map[string]*DFA{}
	for name, src := range st.matchers {
		tok[name] = mk(src)
	}
	// ---- D1
	var tnames []string
	for n := range st.matchers {
		tnames = append(tnames, n)
	}
	sort.Strings(tnames)
	for _, tn := range tnames {
		gname := st.names[tn]
		construct := "cdcn/token:" + gname
		src, ok := defs[gname]
		if !ok {
			why := skipped[gname]
			if why == "" {
				why = "no expression definition of that name in Syntax.cdsn"
			}
			r.note(fmt.Sprintf("D1 skips %s: %s", gname, why))
			continue
		}
		g := mk(src)
		if g == nil || tok[tn] == nil {
			r.skip("D1-grammar-equals-scanner", construct, c.pos(st.matcherPos[tn]), "cannot build the automata")
			continue
		}
		if ok, w := subsetOf(g, tok[tn]); !ok {
			o := r.fail("D1-grammar-equals-scanner", construct, c.pos(st.matcherPos[tn]), fmt.Sprintf("the grammar derives the %s %q but the scanner's pattern /%s/ does not accept it", gname, w, st.matchers[tn]))
			o.Witness = w
			continue
		}
		if ok, w := subsetOf(tok[tn], g); !ok {
			o := r.fail("D1-grammar-equals-scanner", construct, c.pos(st.matcherPos[tn]), fmt.Sprintf("the scanner accepts %q as %s, which the grammar's definition does not derive", w, gname))
			o.Witness = w
			continue
		}
		r.ok("D1-grammar-equals-scanner", construct, c.pos(st.matcherPos[tn]), "L(grammar) = L(matcher)")
	}
	r.floor("D1-grammar-equals-scanner", 8)
	// ---- D1b preference: Go's matching is leftmost-first, not longest.  Where a token's language is
	// ambiguous (a backslash is also a plain string character) the order of the alternatives decides
	// where the scanner stops.  The grammar lists its alternatives in the order the scanner has to
	// try them (ESCAPE before the plain character); the rule compares the words each side takes as a
	// whole under leftmost-first matching.  ASSUMPTION: the order of alternatives in Syntax.cdsn is
	// meaningful; an edit that reorders overlapping alternatives in the grammar file alone is reported.
	for _, tn := range tnames {
		gname := st.names[tn]
		gsrc, ok := defs[gname]
		if !ok || tok[tn] == nil {
			continue
		}
		construct := "cdcn/token:" + gname
		sre, err1 := parseRegex(st.matchers[tn])
		gre, err2 := parseRegex(gsrc)
		if err1 != nil || err2 != nil {
			continue
		}
		spm, err1 := preferredDFA(al, sre)
		gpm, err2 := preferredDFA(al, gre)
		if err1 != nil || err2 != nil {
			r.skip("D1-preference-agrees", construct, c.pos(st.matcherPos[tn]), "cannot build the leftmost-first automata")
			continue
		}
		spm, gpm = spm.minimize(), gpm.minimize()
		if ok, w := subsetOf(gpm, spm); !ok {
			o := r.fail("D1-preference-agrees", construct, c.pos(st.matcherPos[tn]), fmt.Sprintf("with the grammar's order of alternatives %q is taken as one %s, but the scanner's pattern /%s/ prefers another alternative first and stops before its end: the scanner cuts a token of the grammar in two", w, gname, st.matchers[tn]))
			o.Witness = w
			continue
		}
		if ok, w := subsetOf(spm, gpm); !ok {
			o := r.fail("D1-preference-agrees", construct, c.pos(st.matcherPos[tn]), fmt.Sprintf("the scanner's pattern /%s/ takes %q as one %s where the grammar's order of alternatives stops earlier", st.matchers[tn], w, gname))
			o.Witness = w
			continue
		}
		r.ok("D1-preference-agrees", construct, c.pos(st.matcherPos[tn]), "scanner pattern and grammar definition select the same whole-word matches under leftmost-first matching")
	}
	// a sequence of any size is accepted in every type context: no bounded collection is filled past the capacity it was created with
	for _, fd := range c.allFuncDecls("cdcn") {
		if fd.Body != nil {
			checkBoundedFill(c, r, "D3-context-any-size", c.info("cdcn"), fd, "")
		}
	}
	checkWholeRemainder(c, r, "D1-whole-remainder", st)
	if parser, _ := c.impl("cdcn", "ParserLike"); parser != nil {
		checkFreshParseState(c, r, "D5-fresh-parse-state", parser)
		checkReentrantMethodsKeepLocals(c, r, "D5-re-entrant-methods-keep-locals", parser)
		checkRuneErrorWithWidth(c, r, "D4-rune-error-with-width", "cdcn")
		shapeLints(c, r, c.allFuncDecls("cdcn"))
	}

	// ---- D2
	anyL := anyDFA(al)
	npairs := 0
	for i, ti := range st.order {
		for _, tj := range st.order[i+1:] {
			if tok[ti] == nil || tok[tj] == nil {
				continue
			}
			npairs++
			construct := fmt.Sprintf("cdcn/scan-order:%s<%s", st.names[ti], st.names[tj])
			if w, ok := intersectDFA(concatDFA(tok[ti], anyL), tok[tj]).shortest(); ok {
				o := r.fail("D2-no-shadowing", construct, c.pos(st.scanLoop.Pos()), fmt.Sprintf("%s is tried before %s and matches a prefix of the %s %q: that text can never be scanned as one %s", st.names[ti], st.names[tj], st.names[tj], w, st.names[tj]))
				o.Witness = w
			} else {
				r.ok("D2-no-shadowing", construct, c.pos(st.scanLoop.Pos()), "no word of the later type has a prefix in the earlier type")
			}
		}
	}
	r.count("ordered token pairs", npairs)
	r.floor("D2-no-shadowing", 66)
	// every matcher is tried
	for _, tn := range tnames {
		tried := false
		for _, o := range st.order {
			if o == tn {
				tried = true
			}
		}
		r.check(tried, "D2-all-types-tried", "cdcn/token:"+st.names[tn], c.pos(st.scanLoop.Pos()), "the scan loop tries this token type", "the scanner has a matcher for "+st.names[tn]+" but its scan loop never tries it")
	}

	// ---- D3 documentation tables
	parser, err := c.impl("cdcn", "ParserLike")
	if err != nil {
		r.undecided("D3-rule-table", "cdcn.parser", "", err.Error())
		return
	}
	pms := c.methodsOf(parser)
	// the embedded syntax map: a package-level map[string]string whose keys are rule names
	var embedded map[string]string
	for _, f := range c.Pkgs["cdcn"].Syntax {
		for _, d := range f.Decls {
			gd, ok := d.(*ast.GenDecl)
			if !ok || gd.Tok != token.VAR {
				continue
			}
			for _, sp := range gd.Specs {
				vs := sp.(*ast.ValueSpec)
				for _, v := range vs.Values {
					cl, ok := v.(*ast.CompositeLit)
					if !ok {
						continue
					}
					mt, ok := info.Types[cl].Type.Underlying().(*types.Map)
					if !ok || !isStringType(mt.Key()) || !isStringType(mt.Elem()) {
						continue
					}
					m := map[string]string{}
					for _, el := range cl.Elts {
						if kv, ok := el.(*ast.KeyValueExpr); ok {
							k, ok1 := constString(info, kv.Key)
							val, ok2 := constString(info, kv.Value)
							if ok1 && ok2 {
								m[k] = val
							}
						}
					}
					if _, has := m["Collection"]; has {
						embedded = m
					}
				}
			}
		}
	}
	if embedded == nil {
		// the same table written as a function: switch name { case "Collection": return "..." }
		for _, fd := range c.allFuncDecls("cdcn") {
			if fd.Body == nil || embedded != nil {
				continue
			}
			ast.Inspect(fd.Body, func(x ast.Node) bool {
				sw, ok := x.(*ast.SwitchStmt)
				if !ok || sw.Tag == nil || !isStringType(info.TypeOf(sw.Tag)) {
					return true
				}
				m := map[string]string{}
				for _, cl := range sw.Body.List {
					cc := cl.(*ast.CaseClause)
					if len(cc.Body) != 1 {
						continue
					}
					rs, ok := cc.Body[0].(*ast.ReturnStmt)
					if !ok || len(rs.Results) != 1 {
						continue
					}
					val, ok := constString(info, rs.Results[0])
					if !ok {
						continue
					}
					for _, ke := range cc.List {
						if k, ok := constString(info, ke); ok {
							m[k] = val
						}
					}
				}
				if _, has := m["Collection"]; has {
					embedded = m
				}
				return true
			})
		}
	}
	if embedded == nil {
		r.skip("D3-rule-table", "cdcn/embedded-syntax", "", "no embedded rule table (a map or a switch from rule names to rule texts) found in the parser")
	} else {
		var rn []string
		for n := range rules {
			rn = append(rn, n)
		}
		sort.Strings(rn)
		for _, n := range rn {
			got, ok := embedded[n]
			construct := "cdcn/rule:" + n
			switch {
			case !ok:
				r.fail("D3-rule-table", construct, "", "the grammar rule is missing from the parser's embedded table")
			case normWS(got) != normWS(rules[n]):
				r.fail("D3-rule-table", construct, "", fmt.Sprintf("the parser documents %q, the grammar says %q", normWS(got), normWS(rules[n])))
			default:
				r.ok("D3-rule-table", construct, "", "embedded text equals the grammar rule")
			}
		}
		for n := range embedded {
			if _, ok := rules[n]; !ok {
				r.fail("D3-rule-table", "cdcn/rule:"+n, "", "the parser documents a rule the grammar does not have")
			}
		}
		r.floor("D3-rule-table", 1)
	}
	// intrinsic alternatives
	var intrFD *ast.FuncDecl
	tokenTypeT := c.named("cdcn", "TokenType")
	for _, name := range sortedKeys(pms) {
		fd := pms[name]
		n := 0
		seen := map[string]bool{}
		ast.Inspect(fd.Body, func(x ast.Node) bool {
			if call, ok := x.(*ast.CallExpr); ok && len(call.Args) == 2 {
				if t := info.Types[call.Args[0]].Type; t != nil && tokenTypeT != nil && derefNamed(t) != nil && derefNamed(t).Origin() == tokenTypeT.Origin() {
					if tv := info.Types[call.Args[0]]; tv.Value != nil && !seen[exprStr(call.Args[0])] {
						seen[exprStr(call.Args[0])] = true
						n++
					}
				}
			}
			return true
		})
		if n >= 6 {
			intrFD = fd
		}
	}
	if intrFD == nil {
		r.skip("D3-intrinsic-alternatives", "cdcn.parser/intrinsics", "", "cannot bind the intrinsic parser")
	} else {
		var alts []string
		ast.Inspect(intrFD.Body, func(x ast.Node) bool {
			if call, ok := x.(*ast.CallExpr); ok && len(call.Args) == 2 {
				if tv := info.Types[call.Args[0]]; tv.Value != nil {
					if t := derefNamed(tv.Type); t != nil && t.Origin() == tokenTypeT.Origin() {
						nm := st.names[exprStr(call.Args[0])]
						dup := false
						for _, a := range alts {
							if a == nm {
								dup = true
							}
						}
						if !dup {
							alts = append(alts, nm)
						}
					}
				}
			}
			return true
		})
		want := strings.Fields(rules["Intrinsic"])
		a, b := append([]string{}, alts...), append([]string{}, want...)
		sort.Strings(a)
		sort.Strings(b)
		r.check(strings.Join(a, ",") == strings.Join(b, ","), "D3-intrinsic-alternatives", c.fdName(intrFD), c.pos(intrFD.Pos()),
			fmt.Sprintf("the parser tries exactly the grammar's %d intrinsic alternatives", len(b)),
			fmt.Sprintf("the parser tries %v, the grammar's Intrinsic rule lists %v", alts, want))
	}
	// context switch
	for _, name := range sortedKeys(pms) {
		fd := pms[name]
		ast.Inspect(fd.Body, func(x ast.Node) bool {
			sw, ok := x.(*ast.SwitchStmt)
			if !ok || sw.Tag == nil {
				return true
			}
			var labels []string
			for _, cl := range sw.Body.List {
				cc := cl.(*ast.CaseClause)
				for _, e := range cc.List {
					if s, ok := constString(info, e); ok {
						labels = append(labels, s)
						// the arm builds through col.<label>[...]
						built := false
						for _, bs := range cc.Body {
							ast.Inspect(bs, func(y ast.Node) bool {
								if call, ok := y.(*ast.CallExpr); ok {
									if cf := calleeOf(info, call); cf != nil && c.roleOf(cf.Pkg()) == "collection" && cf.Name() == s {
										built = true
									}
								}
								return true
							})
						}
						r.check(built, "D3-context-arms", c.fdName(fd)+"/case:"+s, c.pos(cc.Pos()), "the arm builds its result through the class accessor collection."+s,
							fmt.Sprintf("the arm for the context %q does not build a %s (it never calls collection.%s): the text denotes a collection of another kind than stated", s, s, s))
					}
				}
			}
			if len(labels) >= 5 {
				var want []string
				if src, ok := st.matchers["TypeToken"]; ok {
					want = strings.Split(src, "|")
				}
				a, b := append([]string{}, labels...), append([]string{}, want...)
				sort.Strings(a)
				sort.Strings(b)
				r.check(strings.Join(a, ",") == strings.Join(b, ","), "D3-context-arms", c.fdName(fd)+"/labels", c.pos(sw.Pos()), "one arm per type alternative",
					fmt.Sprintf("the context switch has arms %v, the type token allows %v", a, b))
			}
			return true
		})
	}

	// ---- D4 conversions
	checkConversionErrors(c, r, info, pms)

	// ---- D4b conversion widths: literals are evaluated at full width
	widths := map[string]string{"ParseInt": "10,64", "ParseUint": "16,64", "ParseFloat": "64", "ParseComplex": "128", "ParseBool": ""}
	for _, name := range sortedKeys(pms) {
		fd := pms[name]
		seq := 0
		ast.Inspect(fd.Body, func(x ast.Node) bool {
			call, ok := x.(*ast.CallExpr)
			if !ok {
				return true
			}
			fn := calleeOf(info, call)
			if fn == nil || fn.Pkg() == nil || fn.Pkg().Path() != "strconv" {
				return true
			}
			want, known := widths[fn.Name()]
			if !known {
				return true
			}
			seq++
			var args []string
			for _, a := range call.Args[1:] {
				if tv := info.Types[a]; tv.Value != nil {
					args = append(args, tv.Value.ExactString())
				} else {
					args = append(args, "?")
				}
			}
			got := strings.Join(args, ",")
			r.check(got == want, "D4-conversion-width", fmt.Sprintf("%s/%s#%d", c.fdName(fd), fn.Name(), seq), c.pos(call.Pos()), "strconv."+fn.Name()+"(text, "+want+")",
				fmt.Sprintf("strconv.%s is called with (%s), the literal's exact value requires (%s): a narrower width silently rounds or rejects representable literals ((0.1+0.2i) becomes (0.10000000149011612+0.20000000298023224i))", fn.Name(), got, want))
			return true
		})
	}

	// ---- D5 separation
	goStmts := ""
	for _, name := range sortedKeys(pms) {
		ast.Inspect(pms[name].Body, func(x ast.Node) bool {
			if g, ok := x.(*ast.GoStmt); ok {
				goStmts = fmt.Sprintf("%s starts a goroutine at %s", c.fdName(pms[name]), c.pos(g.Pos()))
			}
			return true
		})
	}
	r.check(goStmts == "", "D5-scheduling-independence", "cdcn.parser/goroutines", c.pos(parser.Obj().Pos()), "the parser itself starts no goroutine (the only concurrent party is the scanner started by its class)",
		goStmts+": it runs on after ParseSource has returned and shares the parser's fields (a later parse on the same parser is disturbed, depending on the schedule)")
	scanFields := map[*types.Var]bool{}
	if sst := structOf(st.scanner); sst != nil {
		for i := 0; i < sst.NumFields(); i++ {
			scanFields[sst.Field(i)] = true
		}
	}
	badAccess := ""
	for _, fd := range c.allFuncDecls("cdcn") {
		fn := c.funcOf(fd)
		rn := recvNamed(fn)
		if rn != nil && rn.Origin() == st.scanner.Origin() {
			continue
		}
		ast.Inspect(fd.Body, func(x ast.Node) bool {
			if se, ok := x.(*ast.SelectorExpr); ok {
				if f := selectorField(info, se); f != nil && scanFields[f] {
					badAccess = fmt.Sprintf("%s touches the scanner's field %s at %s", c.fdName(fd), f.Name(), c.pos(se.Pos()))
				}
			}
			return true
		})
	}
	r.check(badAccess == "", "D5-scheduling-independence", "cdcn.scanner/fields", c.pos(st.scanner.Obj().Pos()), "scanner state is touched only by scanner methods (which run in the scanner goroutine)", badAccess+": shared with the scanner goroutine without synchronisation")
	badCall := ""
	for _, name := range sortedKeys(pms) {
		fd := pms[name]
		ast.Inspect(fd.Body, func(x ast.Node) bool {
			if call, ok := x.(*ast.CallExpr); ok {
				if cf := calleeOf(info, call); cf != nil && recvNamed(cf) != nil && recvNamed(cf).Origin() == st.scanner.Origin() {
					badCall = fmt.Sprintf("%s calls the scanner's %s at %s", c.fdName(fd), cf.Name(), c.pos(call.Pos()))
				}
			}
			return true
		})
	}
	r.check(badCall == "", "D5-scheduling-independence", "cdcn.parser/scanner-calls", c.pos(parser.Obj().Pos()), "the parser calls no method of the running scanner", badCall+": it runs concurrently with the scanner goroutine on the same state")
	if tokT, err := c.impl("cdcn", "TokenLike"); err == nil {
		mf := c.mutableFields(tokT)
		var names []string
		for _, f := range mf {
			names = append(names, f.Name())
		}
		r.check(len(mf) == 0, "D5-scheduling-independence", "cdcn.token/immutable", c.pos(tokT.Obj().Pos()), "tokens are never written after construction", "token fields "+strings.Join(names, ",")+" are written after construction: a token is shared between the scanner and parser goroutines")
	}
	r.floor("D5-scheduling-independence", 1)
}

// checkConversionErrors: every call in the parser whose callee is outside the
// repository and returns an error must have that error consumed.
func checkConversionErrors(c *Ctx, r *Rec, info *types.Info, pms map[string]*ast.FuncDecl) {
	errT := types.Universe.Lookup("error").Type()
	// repository helpers that test an error parameter against nil
	helpers := map[*types.Func]int{}
	for _, fd := range c.allFuncDecls("cdcn") {
		for i, p := range paramObjs(info, fd) {
			if !types.Identical(p.Type(), errT) {
				continue
			}
			tests := false
			// in any form: a nil test of the parameter whose failing edge ends differently from
			// the good one, in a function that raises a panic (if p == nil { return }; panic(...))
			{
				var hg *FG
				panics := false
				ast.Inspect(fd.Body, func(x ast.Node) bool {
					if call, ok := x.(*ast.CallExpr); ok && noReturnCall(info, call) {
						panics = true
					}
					return true
				})
				ast.Inspect(fd.Body, func(x ast.Node) bool {
					be, ok := x.(*ast.BinaryExpr)
					if !ok || !panics || (be.Op != token.NEQ && be.Op != token.EQL) || !(isObj(info, be.X, p) || isObj(info, be.Y, p)) {
						return true
					}
					if hg == nil {
						hg = newFG(info, fd.Body)
					}
					if _, isBranch := hg.locate(be); isBranch && hg.errorEdgeDiverges(be) {
						tests = true
					}
					return true
				})
			}
			ast.Inspect(fd.Body, func(x ast.Node) bool {
				// if p != nil { ... panic(...) ... }   (the condition is exactly the nil test)
				is, ok := x.(*ast.IfStmt)
				if !ok {
					return true
				}
				be, ok := ast.Unparen(is.Cond).(*ast.BinaryExpr)
				if !ok || be.Op != token.NEQ || !(isObj(info, be.X, p) || isObj(info, be.Y, p)) {
					return true
				}
				for _, bs := range is.Body.List {
					if es, ok := bs.(*ast.ExprStmt); ok {
						if call, ok := es.X.(*ast.CallExpr); ok && noReturnCall(info, call) {
							tests = true
						}
					}
				}
				return true
			})
			if tests {
				helpers[c.funcOf(fd)] = i
			}
		}
	}
	n := 0
	for _, name := range sortedKeys(pms) {
		fd := pms[name]
		seq := 0
		ast.Inspect(fd.Body, func(x ast.Node) bool {
			lhs, rhs, ok := multiDef(x)
			if !ok {
				return true
			}
			call, ok := ast.Unparen(rhs).(*ast.CallExpr)
			if !ok {
				return true
			}
			cf := calleeOf(info, call)
			if cf == nil || c.roleOf(cf.Pkg()) != "" {
				return true
			}
			sig := cf.Type().(*types.Signature)
			ei := -1
			for i := 0; i < sig.Results().Len(); i++ {
				if types.Identical(sig.Results().At(i).Type(), errT) {
					ei = i
				}
			}
			if ei < 0 || ei >= len(lhs) {
				return true
			}
			n++
			seq++
			construct := fmt.Sprintf("%s/%s#%d", c.fdName(fd), cf.Name(), seq)
			eobj := identObj(info, lhs[ei])
			if id, isId := ast.Unparen(lhs[ei]).(*ast.Ident); isId && id.Name == "_" {
				eobj = nil
			}
			if eobj == nil {
				r.fail("D4-conversion-errors", construct, c.pos(call.Pos()), fmt.Sprintf("the error of %s.%s is discarded: text the conversion cannot represent (an out-of-range number, an ill-formed escape) is silently replaced by another value", cf.Pkg().Name(), cf.Name()))
				return true
			}
			// consumed: compared with nil, or handed to a helper that does, after this definition
			g := newFG(info, fd.Body)
			pt, okp := g.after(x)
			if st, isStmt := x.(*ast.ValueSpec); isStmt {
				pt, okp = g.after(st)
			}
			consumed := false
			if okp {
				consumed, _ = g.exists(pathQuery{from: pt, goalNode: func(nd ast.Node) bool {
					found := false
					inspectNoLit(nd, func(y ast.Node) bool {
						switch e := y.(type) {
						case *ast.BinaryExpr:
							if (e.Op == token.NEQ || e.Op == token.EQL) && (isObj(info, e.X, eobj) || isObj(info, e.Y, eobj)) && g.errorEdgeDiverges(e) {
								found = true
							}
						case *ast.CallExpr:
							if hf := calleeOf(info, e); hf != nil {
								if pi, ok := helpers[hf.Origin()]; ok && pi < len(e.Args) && isObj(info, e.Args[pi], eobj) {
									found = true
								}
							}
						}
						return true
					})
					return found
				}, stop: func(nd ast.Node) bool {
					// the error variable is overwritten before being looked at
					if nd == x {
						return false
					}
					return assignedIn(info, nd, objKey(eobj), &symEnv{info: info}) && !containsNode(nd, x)
				}})
				// must be consumed on EVERY path: no path to a return that avoids a consumer
				if consumed {
					leak, _ := g.exists(pathQuery{from: pt,
						stop: func(nd ast.Node) bool {
							f := false
							inspectNoLit(nd, func(y ast.Node) bool {
								switch e := y.(type) {
								case *ast.BinaryExpr:
									if (e.Op == token.NEQ || e.Op == token.EQL) && (isObj(info, e.X, eobj) || isObj(info, e.Y, eobj)) && g.errorEdgeDiverges(e) {
										f = true
									}
								case *ast.CallExpr:
									if hf := calleeOf(info, e); hf != nil {
										if pi, ok := helpers[hf.Origin()]; ok && pi < len(e.Args) && isObj(info, e.Args[pi], eobj) {
											f = true
										}
									}
								}
								return true
							})
							return f
						},
						// only the failing case needs a consumer: behind a test of the error the path on
						// which it is nil is not followed
						edgeOK: func(cond ast.Expr, pol bool) bool {
							if be, ok := ast.Unparen(cond).(*ast.BinaryExpr); ok && (be.Op == token.NEQ || be.Op == token.EQL) {
								var other ast.Expr
								switch {
								case isObj(info, be.X, eobj):
									other = be.Y
								case isObj(info, be.Y, eobj):
									other = be.X
								}
								if other != nil {
									if tv, ok := info.Types[other]; ok && tv.IsNil() {
										return (be.Op == token.NEQ) == pol
									}
								}
							}
							return true
						},
						goalNode: func(nd ast.Node) bool { _, isRet := nd.(*ast.ReturnStmt); return isRet }})
					if leak {
						consumed = false
					}
				}
			}
			r.check(consumed, "D4-conversion-errors", construct, c.pos(call.Pos()), "the error is tested against nil (directly or in a repository helper) before the value is returned, and the failing case ends differently from the good one",
				fmt.Sprintf("the error of %s.%s is stored but a path returns the converted value without a test of it that makes the failing case end differently (a panic or another return): unrepresentable text is silently replaced by another value", cf.Pkg().Name(), cf.Name()))
			return true
		})
	}
	r.count("conversion call sites", n)
}
