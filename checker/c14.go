package main

// C14 — Map behaves exactly like a Go map and its views stay coherent.

import (
	"fmt"
	"go/ast"
	"go/constant"
	"go/token"
	"go/types"
	"sort"
	"strings"
)

func init() {
	register(&propInfo{
		ID:      "C14",
		Engines: "EFFECT (effect signatures on the receiver's Go map), FLOW (freshness of constructor results), PATH (loop forms), provenance tables",
		Decided: "D1 each Associative/Sequential method of the map type has exactly the documented effect on the underlying Go map: GetValue read[key]; SetValue write[key:=value]; RemoveValue read[key]+delete[key] and returns the value read; RemoveValues only through RemoveValue; RemoveAll only deletes; all views no effect; GetSize/IsEmpty are len; " +
			"D2 constructors build a map made in the call and store, per visited association, exactly its key and value; " +
			"D3 views are materialised from the ranged key and value of the same entry; " +
			"D4 the loops of the map type and its class are in terminating forms." +
			" Also: a loop that deletes entries is not bounded by the map's live size; the views take each value from the visited entry, never from a second lookup of its key (NaN keys)." +
			" Round 7: no nil literal reaches a result of collection interface type; a ranged Go map is not read back by key.",
		NotDecided: "equivalence with a Go map over histories is the language's own semantics once the methods are the direct wrappers D1 shows them to be; iteration order of views is unspecified by design.",
		Run:        runC14,
	})
}

type mapEffects struct {
	reads, writes, deletes []string // rendered key (and value) expressions
	clears                 int
	calls                  []string // methods called on the receiver
	inlined                []string // unexported helpers whose effects are included
}

func runC14(c *Ctx, r *Rec) {
	mp := c.mustImpl(r, "bind", "collection", "MapLike")
	cls := c.mustImpl(r, "bind", "collection", "MapClassLike")
	if mp == nil || cls == nil {
		return
	}
	if _, ok := mp.Origin().Underlying().(*types.Map); !ok {
		r.skip("bind", "collection."+mp.Obj().Name(), "", "the map type is no longer a named Go map: the effect-signature rule must be re-bound")
		return
	}
	info := c.info("collection")
	ms := c.methodsOf(mp)
	shapeLints(c, r, append(fileFuncs(c, "collection", mp, cls), moduleFuncsReturning(c, "MapLike")...))
	checkCloneKeepsNil(c, r, "D2-clone-keeps-nil", fileFuncs(c, "collection", mp, cls))
	checkNoDynamicEquality(c, r, "D1-no-dynamic-equality", fileFuncs(c, "collection", mp, cls))

	// effects of a method on the receiver's Go map.  Unexported helper methods called on the
	// receiver are stepped into, specialised on the constant truth values they are called with
	// (lookup(key, false) never takes the branch guarded by its second parameter).
	type bindT struct {
		str map[types.Object]string
		val map[types.Object]bool
	}
	var effectsIn func(fd *ast.FuncDecl, bd bindT, depth int) mapEffects
	effectsIn = func(fd *ast.FuncDecl, bd bindT, depth int) mapEffects {
		var e mapEffects
		recv := recvObj(info, fd)
		lhsIndex := map[*ast.IndexExpr]bool{}
		render := func(x ast.Expr) string {
			if o := identObj(info, x); o != nil {
				if s, ok := bd.str[o]; ok {
					return s
				}
			}
			return exprStr(x)
		}
		var constOf func(x ast.Expr) (bool, bool)
		constOf = func(x ast.Expr) (bool, bool) {
			x = ast.Unparen(x)
			if tv, ok := info.Types[x]; ok && tv.Value != nil && tv.Value.Kind() == constant.Bool {
				return constant.BoolVal(tv.Value), true
			}
			switch y := x.(type) {
			case *ast.Ident:
				if v, ok := bd.val[info.Uses[y]]; ok {
					return v, true
				}
			case *ast.UnaryExpr:
				if y.Op == token.NOT {
					if v, ok := constOf(y.X); ok {
						return !v, true
					}
				}
			case *ast.BinaryExpr:
				lv, lk := constOf(y.X)
				rv, rk := constOf(y.Y)
				switch y.Op {
				case token.LAND:
					if (lk && !lv) || (rk && !rv) {
						return false, true
					}
					if lk && rk {
						return true, true
					}
				case token.LOR:
					if (lk && lv) || (rk && rv) {
						return true, true
					}
					if lk && rk {
						return false, true
					}
				}
			}
			return false, false
		}
		var walk func(n ast.Node)
		visit := func(x ast.Node) bool {
			switch s := x.(type) {
			case *ast.IfStmt:
				if v, known := constOf(s.Cond); known {
					if s.Init != nil {
						walk(s.Init)
					}
					if v {
						walk(s.Body)
					} else if s.Else != nil {
						walk(s.Else)
					}
					return false
				}
			case *ast.AssignStmt:
				for i, l := range s.Lhs {
					if ix, ok := ast.Unparen(l).(*ast.IndexExpr); ok && isObj(info, ix.X, recv) {
						lhsIndex[ix] = true
						val := "?"
						if len(s.Lhs) == len(s.Rhs) {
							val = render(s.Rhs[i])
						}
						e.writes = append(e.writes, render(ix.Index)+":="+val)
					}
				}
			case *ast.IncDecStmt:
				if ix, ok := ast.Unparen(s.X).(*ast.IndexExpr); ok && isObj(info, ix.X, recv) {
					lhsIndex[ix] = true
					e.writes = append(e.writes, render(ix.Index)+"++")
				}
			case *ast.IndexExpr:
				if isObj(info, s.X, recv) && !lhsIndex[s] {
					e.reads = append(e.reads, render(s.Index))
				}
			case *ast.CallExpr:
				if isBuiltinCall(info, s, "delete") && len(s.Args) == 2 && isObj(info, s.Args[0], recv) {
					e.deletes = append(e.deletes, render(s.Args[1]))
				}
				if isBuiltinCall(info, s, "clear") && len(s.Args) == 1 && isObj(info, s.Args[0], recv) {
					e.clears++
				}
				if rx, mname, _, ok := methodCall(s); ok && isObj(info, rx, recv) {
					hd := ms[mname]
					if hd != nil && !ast.IsExported(mname) && hd.Body != nil && depth < 3 {
						nb := bindT{map[types.Object]string{}, map[types.Object]bool{}}
						ps := paramObjs(info, hd)
						for i, a := range s.Args {
							if i < len(ps) {
								nb.str[ps[i]] = render(a)
								if v, ok := constOf(a); ok {
									nb.val[ps[i]] = v
								}
							}
						}
						he := effectsIn(hd, nb, depth+1)
						e.reads = append(e.reads, he.reads...)
						e.writes = append(e.writes, he.writes...)
						e.deletes = append(e.deletes, he.deletes...)
						e.clears += he.clears
						e.calls = append(e.calls, he.calls...)
						e.inlined = append(e.inlined, mname)
					} else {
						e.calls = append(e.calls, mname)
					}
				}
			}
			return true
		}
		walk = func(n ast.Node) { ast.Inspect(n, visit) }
		walk(fd.Body)
		return e
	}
	effectsOf := func(fd *ast.FuncDecl) mapEffects {
		return effectsIn(fd, bindT{map[types.Object]string{}, map[types.Object]bool{}}, 0)
	}
	checkReceiverWrites(c, r, "D1-receiver-writes-persist", mp)
	// transitive "mutating" closure over receiver calls
	mutating := map[string]bool{}
	for iter := 0; iter < 5; iter++ {
		for name, fd := range ms {
			e := effectsOf(fd)
			if len(e.writes)+len(e.deletes)+e.clears > 0 {
				mutating[name] = true
			}
			for _, cl := range e.calls {
				if mutating[cl] {
					mutating[name] = true
				}
			}
		}
	}
	pname := func(fd *ast.FuncDecl, i int) string {
		ps := paramObjs(info, fd)
		if i < len(ps) {
			return ps[i].Name()
		}
		return "?"
	}
	type want struct {
		check func(fd *ast.FuncDecl, e mapEffects) string
	}
	eqs := func(a []string, b ...string) bool {
		if len(a) != len(b) {
			return false
		}
		x := append([]string{}, a...)
		y := append([]string{}, b...)
		sort.Strings(x)
		sort.Strings(y)
		for i := range x {
			if x[i] != y[i] {
				return false
			}
		}
		return true
	}
	noMutCalls := func(e mapEffects) string {
		for _, cl := range e.calls {
			if mutating[cl] {
				return "calls the mutating method " + cl + " on the receiver"
			}
		}
		return ""
	}
	pure := func(fd *ast.FuncDecl, e mapEffects) string {
		if len(e.writes)+len(e.deletes)+e.clears > 0 {
			return fmt.Sprintf("a view/reader changes the map (writes %v deletes %v clears %d)", e.writes, e.deletes, e.clears)
		}
		return noMutCalls(e)
	}
	table := map[string]func(fd *ast.FuncDecl, e mapEffects) string{
		"GetValue": func(fd *ast.FuncDecl, e mapEffects) string {
			if s := pure(fd, e); s != "" {
				return s
			}
			if !eqs(e.reads, pname(fd, 0)) {
				return fmt.Sprintf("reads %v, required exactly [%s]", e.reads, pname(fd, 0))
			}
			if len(e.inlined) > 0 {
				return fmt.Sprintf("skip: the read is made in the helper %v; the effects are as required, the provenance of the value returned is not followed through it", e.inlined)
			}
			return returnsReadOf(info, fd, pname(fd, 0))
		},
		"SetValue": func(fd *ast.FuncDecl, e mapEffects) string {
			if len(e.deletes)+e.clears > 0 || noMutCalls(e) != "" {
				return "SetValue deletes or delegates mutation"
			}
			if !eqs(e.writes, pname(fd, 0)+":="+pname(fd, 1)) {
				return fmt.Sprintf("writes %v, required exactly [%s:=%s]", e.writes, pname(fd, 0), pname(fd, 1))
			}
			return ""
		},
		"RemoveValue": func(fd *ast.FuncDecl, e mapEffects) string {
			if len(e.writes)+e.clears > 0 || noMutCalls(e) != "" {
				return "RemoveValue writes or clears"
			}
			if !eqs(e.deletes, pname(fd, 0)) {
				return fmt.Sprintf("deletes %v, required exactly [%s]", e.deletes, pname(fd, 0))
			}
			if !eqs(e.reads, pname(fd, 0)) {
				return fmt.Sprintf("reads %v, required exactly [%s] (the value returned)", e.reads, pname(fd, 0))
			}
			if len(e.inlined) > 0 {
				return fmt.Sprintf("skip: the read and the delete are made in the helper %v; the effects are as required, the guard of the delete and the provenance of the value returned are not followed through it", e.inlined)
			}
			// the delete must not be on the not-found edge only: it may be guarded by `exists` (true edge) or unguarded
			if s := deleteGuardOK(c, info, fd); s != "" {
				return s
			}
			return returnsReadOf(info, fd, pname(fd, 0))
		},
		"RemoveValues": func(fd *ast.FuncDecl, e mapEffects) string {
			if len(e.writes)+e.clears > 0 {
				return "RemoveValues writes or clears the map: it is to remove the listed keys, nothing else"
			}
			if len(e.deletes) > 0 {
				// the single removal written out in the key loop (a lookup and a delete of the same
				// key, one after the other, per key) is the same effect; values that are read by a
				// different operation of the map (before any key is deleted) are not what
				// RemoveValue returns when a key is listed twice
				written := len(e.deletes) == 1 && len(e.reads) == 1 && e.reads[0] == e.deletes[0]
				for _, cl := range e.calls {
					if cl != "GetClass" {
						written = false
					}
				}
				if !written {
					return "RemoveValues deletes from the map directly, and the values it returns are not read by a lookup of the same key next to the delete: for a key that is listed twice the second value must be the zero value, as with RemoveValue"
				}
				return "skip: RemoveValues deletes from the map itself (the body of RemoveValue written out): the delegation rule is not bound to it"
			}
			n := 0
			for _, cl := range e.calls {
				if cl == "RemoveValue" {
					n++
				} else if mutating[cl] {
					return "calls the mutating method " + cl
				}
			}
			if n == 0 {
				return "skip: no direct call of RemoveValue (it may be handed to a helper as a method value)"
			}
			if n != 1 {
				return fmt.Sprintf("%d call sites of RemoveValue, required one (inside the key loop)", n)
			}
			return ""
		},
		"RemoveAll": func(fd *ast.FuncDecl, e mapEffects) string {
			if len(e.writes) > 0 {
				return "RemoveAll writes entries"
			}
			// a counting loop that deletes entries must not be bounded by the live size of the map
			recv := recvObj(info, fd)
			shrinking := ""
			for _, l := range loopsIn(fd.Body) {
				fs, ok := l.(*ast.ForStmt)
				if !ok || fs.Cond == nil {
					continue
				}
				deletes := false
				inspectNoLit(fs.Body, func(x ast.Node) bool {
					if call, ok := x.(*ast.CallExpr); ok {
						if isBuiltinCall(info, call, "delete") && len(call.Args) == 2 && isObj(info, call.Args[0], recv) {
							deletes = true
						}
						if rx, mname, _, ok := methodCall(call); ok && isObj(info, rx, recv) && (mname == "RemoveValue" || mname == "RemoveValues") {
							deletes = true
						}
					}
					return true
				})
				live := false
				ast.Inspect(fs.Cond, func(x ast.Node) bool {
					if call, ok := x.(*ast.CallExpr); ok {
						if isBuiltinCall(info, call, "len") && len(call.Args) == 1 && isObj(info, call.Args[0], recv) {
							live = true
						}
						if rx, mname, _, ok := methodCall(call); ok && isObj(info, rx, recv) && mname == "GetSize" {
							live = true
						}
					}
					return true
				})
				if deletes && live {
					shrinking = "the loop that deletes the entries is bounded by the map's current size, which shrinks with every delete: it stops half way and about half of the associations survive RemoveAll"
				}
			}
			if shrinking != "" {
				return shrinking
			}
			if e.clears == 0 && len(e.deletes) == 0 {
				for _, cl := range e.calls {
					if cl == "RemoveValues" || cl == "RemoveValue" {
						return ""
					}
				}
				return "RemoveAll neither clears nor deletes"
			}
			return ""
		},
	}
	for _, n := range []string{"GetKeys", "GetValues", "AsArray", "GetIterator", "IsEmpty", "GetSize", "GetClass", "String"} {
		table[n] = pure
	}
	for _, name := range sortedKeys(table) {
		fd := ms[name]
		construct := "collection." + mp.Obj().Name() + "." + name
		if fd == nil {
			if name == "String" || name == "GetClass" {
				continue
			}
			r.undecided("D1-effect-signature", construct, "", "method not found")
			continue
		}
		e := effectsOf(fd)
		bad := table[name](fd, e)
		r.verdict("D1-effect-signature", construct, c.pos(fd.Pos()),
			fmt.Sprintf("effects: reads %v writes %v deletes %v clears %d calls %v", e.reads, e.writes, e.deletes, e.clears, e.calls), bad)
	}
	// methods outside the table must not mutate
	for _, name := range sortedKeys(ms) {
		if _, ok := table[name]; ok {
			continue
		}
		if !ast.IsExported(name) {
			continue // unexported helpers are accounted for, specialised, where they are called
		}
		fd := ms[name]
		e := effectsOf(fd)
		bad := pure(fd, e)
		r.check(bad == "", "D1-effect-signature", "collection."+mp.Obj().Name()+"."+name, c.pos(fd.Pos()), "no effect on the map", bad)
	}
	// len
	for _, nm := range []string{"GetSize", "IsEmpty"} {
		fd := ms[nm]
		if fd == nil {
			continue
		}
		recv := recvObj(info, fd)
		env := &symEnv{info: info}
		env.recvs = map[types.Object]bool{recv: true}
		env.resolve = func(e ast.Expr) (Val, bool) {
			if call, ok := e.(*ast.CallExpr); ok && isBuiltinCall(info, call, "len") && len(call.Args) == 1 {
				if o := identObj(info, call.Args[0]); o != nil && env.recvs[o] {
					return Val{Lin: linSym("len")}, true
				}
			}
			return Val{}, false
		}
		// sibling methods called on the receiver (IsEmpty through GetSize) are stepped into
		env.inlinable = func(call *ast.CallExpr) *ast.FuncDecl {
			if rx, mname, _, ok := methodCall(call); ok {
				if o := identObj(info, rx); o != nil && env.recvs[o] {
					return ms[mname]
				}
			}
			return nil
		}
		env.base = Cube{linSym("len").scale(-1)}
		paths := symRun(env, fd.Body)
		spec := []specRow{{When: FTrue, Kind: "return", Ret: []*Lin{sym("len")}, Desc: "GetSize = len(map)"}}
		if nm == "IsEmpty" {
			spec = []specRow{{When: FTrue, Kind: "return", RetB: []*F{eq(sym("len"), k(0))}, Desc: "IsEmpty <=> len(map) = 0"}}
		}
		viol, undec := conform(env, paths, spec)
		switch {
		case len(env.problems) == 0 && onlyForeign(undec):
			r.skip("D1-len", c.fdName(fd), c.pos(fd.Pos()), strings.Join(undec, "; "))
		case len(env.problems)+len(undec) > 0:
			r.skip("D1-len", c.fdName(fd), c.pos(fd.Pos()), "outside the vocabulary of the interpreter: "+strings.Join(append(env.problems, undec...), "; "))
		case len(viol) > 0:
			r.fail("D1-len", c.fdName(fd), c.pos(fd.Pos()), strings.Join(viol, " | "))
		default:
			r.ok("D1-len", c.fdName(fd), c.pos(fd.Pos()), spec[0].Desc)
		}
	}
	r.floor("D1-effect-signature", 11)
	r.floor("D1-len", 2)

	for _, b := range [][2]string{{"GetValues", "GetValue"}, {"RemoveValues", "RemoveValue"}} {
		if fd := ms[b[0]]; fd != nil {
			bad := bulkFold(c, info, fd, b[1], true)
			r.verdict("D1-bulk-fold", c.fdName(fd), c.pos(fd.Pos()), "applies "+b[1]+" to every requested key, in order, and records each result", bad)
		}
	}
	r.floor("D1-bulk-fold", 2)

	// ---- D2 constructors
	fa := c.flow()
	cms := c.methodsOf(cls)
	for _, name := range sortedKeys(cms) {
		fd := cms[name]
		if !strings.HasPrefix(name, "Make") {
			continue
		}
		construct := c.fdName(fd)
		sf := fa.byFD[fd]
		if sf == nil {
			r.skip("D2-constructor-copies", construct, c.pos(fd.Pos()), "no SSA summary")
			continue
		}
		sum := fa.sum[sf]
		bad := ""
		if len(sum.freshRet) == 1 && !sum.freshRet[0] {
			bad = "the new map is not made in the call: " + sum.whyRet[0]
		}
		for pi := 1; pi < len(sum.aliasRet); pi++ {
			if sum.aliasRet[pi] {
				bad = "the new map shares storage with an argument"
			}
		}
		// per-entry stores
		loops := loopsIn(fd.Body)
		if len(paramObjs(info, fd)) > 0 {
			if bad != "" {
			} else if len(loops) != 1 {
				bad = fmt.Sprintf("skip: %d loops; the per-entry rule is bound to one loop over the source", len(loops))
			} else if s := entryStoreOK(info, fd, loops[0]); s != "" {
				bad = s
			} else if fs, isFor := loops[0].(*ast.ForStmt); isFor && fs.Post == nil {
				if _, s := coveringLoop(c, info, loops[0]); s != "" {
					bad = s
				}
			} else if _, isRange := loops[0].(*ast.RangeStmt); isRange {
				if _, s := coveringLoop(c, info, loops[0]); s != "" {
					bad = s
				}
			}
		}
		r.verdict("D2-constructor-copies", construct, c.pos(fd.Pos()), "made in the call; each iteration stores the visited entry's key and value", bad)
	}
	r.floor("D2-constructor-copies", 4)

	// ---- D3 views
	if fd := ms["AsArray"]; fd != nil {
		bad := ""
		loops := loopsIn(fd.Body)
		if len(loops) != 1 {
			bad = "skip: AsArray is not one range loop over the map"
		} else if rs, ok := loops[0].(*ast.RangeStmt); !ok || !isObj(info, rs.X, recvObj(info, fd)) {
			bad = "skip: AsArray does not range over the receiver"
		} else {
			kObj, vObj := identObj(info, rs.Key), identObj(info, rs.Value)
			okMake := false
			inspectNoLit(rs.Body, func(x ast.Node) bool {
				if _, mname, call, ok := methodCall(x); ok && mname == "Make" && len(call.Args) == 2 && kObj != nil && vObj != nil &&
					isObj(info, call.Args[0], kObj) && isObj(info, call.Args[1], vObj) {
					okMake = true
				}
				return true
			})
			if !okMake {
				// a private helper that receives the ranged key and value builds the association
				inspectNoLit(rs.Body, func(x ast.Node) bool {
					if call, ok := x.(*ast.CallExpr); ok && len(call.Args) == 2 && kObj != nil && vObj != nil &&
						isObj(info, call.Args[0], kObj) && isObj(info, call.Args[1], vObj) {
						if cf := calleeOf(info, call); cf != nil && !cf.Exported() && c.declOf(cf) != nil {
							okMake = true
						}
					}
					return true
				})
			}
			if !okMake {
				// evidence: an association is made from something else than (ranged key, ranged value)
				wrong := false
				inspectNoLit(rs.Body, func(x ast.Node) bool {
					if _, mname, call, ok := methodCall(x); ok && mname == "Make" && len(call.Args) == 2 {
						wrong = true
					}
					return true
				})
				if wrong {
					bad = "the association placed in the view is not built from the ranged key and value of the same entry"
				} else {
					bad = "skip: no Association.Make(key, value) found in the loop over the map"
				}
			}
		}
		r.verdict("D3-views", c.fdName(fd), c.pos(fd.Pos()), "each element is Association.Make(key, value) of the ranged entry", bad)
	}
	for _, nm := range []string{"GetKeys", "GetValues"} {
		fd := ms[nm]
		if fd == nil {
			continue
		}
		loops := loopsIn(fd.Body)
		bad := ""
		if len(loops) != 1 {
			bad = "skip: not a single loop"
		} else {
			// the stored element: SetValue(index, X) / AppendValue(X) / X[i] = e / append(X, e)
			var stored ast.Expr
			inspectNoLit(loops[0], func(x ast.Node) bool {
				if _, mname, call, ok := methodCall(x); ok {
					if mname == "SetValue" && len(call.Args) == 2 {
						stored = call.Args[1]
					}
					if mname == "AppendValue" && len(call.Args) == 1 {
						stored = call.Args[0]
					}
				}
				if call, ok := x.(*ast.CallExpr); ok && isBuiltinCall(info, call, "append") && len(call.Args) == 2 {
					stored = call.Args[1]
				}
				if as, ok := x.(*ast.AssignStmt); ok && len(as.Lhs) == 1 && len(as.Rhs) == 1 {
					if _, isIx := ast.Unparen(as.Lhs[0]).(*ast.IndexExpr); isIx {
						stored = as.Rhs[0]
					}
				}
				return true
			})
			if stored == nil {
				bad = "skip: no element store recognised in the loop"
			} else {
				src := resolveInit(info, fd, stored)
				_, mname, call, ok := methodCall(src)
				ix, isIx := src.(*ast.IndexExpr)
				recvRead := isIx && isObj(info, ix.X, recvObj(info, fd))
				switch nm {
				case "GetKeys":
					switch {
					case ok && mname == "GetKey":
					case ok && mname == "GetValue", recvRead:
						bad = "the stored element is " + exprStr(src) + ", required the visited association's GetKey()"
					default:
						bad = "skip: the stored element " + exprStr(src) + " is not an accessor call"
					}
				case "GetValues":
					switch {
					case ok && mname == "GetValue" && len(call.Args) == 1, recvRead:
					case ok && (mname == "GetKey" || mname == "GetValue"):
						bad = "the stored element is " + exprStr(src) + ", required GetValue(key) of the visited key"
					default:
						if _, isID := src.(*ast.Ident); isID {
							bad = "the stored element is " + exprStr(src) + ", required GetValue(key) of the visited key"
						} else {
							bad = "skip: the stored element " + exprStr(src) + " is not a lookup"
						}
					}
				}
			}
		}
		r.verdict("D3-views", c.fdName(fd), c.pos(fd.Pos()), "one element per visited entry, taken from that entry", bad)
	}
	r.floor("D3-views", 3)
	checkNoSecondLookup(c, r, "D3-view-values-from-entries")
	checkResetCompleteness(c, r, "D1-reset-complete", mp)
	checkResultsAreCollections(c, r, "D1-result-is-a-collection", mp)
	checkCommaOkIntoCollected(c, r, "D2-assertion-keeps-collected", c.allFuncDecls("module"))
	checkNoReadBackOfRangedMap(c, r, "D2-values-from-the-ranged-pairs", fileFuncs(c, "collection", mp))
	checkTypeLockPairing(c, r, "D1-lock-released", mp)

	// ---- D4 loops
	for _, n := range []*types.Named{mp, cls} {
		m := c.methodsOf(n)
		for _, name := range sortedKeys(m) {
			checkLoops(c, r, "D4-loop-progress", m[name], nil)
		}
	}
	r.floorSoft("D4-loop-progress", "loops", "no loop is left in the methods this rule looks at")
}

// resolveInit follows single-definition local variables to their initialisers.
func resolveInit(info *types.Info, fd *ast.FuncDecl, e ast.Expr) ast.Expr {
	for i := 0; i < 5; i++ {
		id, ok := ast.Unparen(e).(*ast.Ident)
		if !ok {
			return ast.Unparen(e)
		}
		init := initOf(info, fd, id)
		if init == nil {
			return id
		}
		e = init
	}
	return ast.Unparen(e)
}

// returnsReadOf: every return of fd returns a value that was read from recv[key].
func returnsReadOf(info *types.Info, fd *ast.FuncDecl, key string) string {
	recv := recvObj(info, fd)
	isRead := func(e ast.Expr) bool {
		ix, ok := ast.Unparen(e).(*ast.IndexExpr)
		return ok && isObj(info, ix.X, recv) && exprStr(ix.Index) == key
	}
	// variables that hold the value read from recv[key], directly or through plain copies
	readVars := map[types.Object]bool{}
	otherDefs := map[types.Object]bool{} // variables that (also) receive something else
	for changed := true; changed; {
		changed = false
		ast.Inspect(fd.Body, func(y ast.Node) bool {
			var lhs []ast.Expr
			var rhs []ast.Expr
			switch d := y.(type) {
			case *ast.AssignStmt:
				lhs, rhs = d.Lhs, d.Rhs
			case *ast.ValueSpec:
				for _, nm := range d.Names {
					lhs = append(lhs, nm)
				}
				rhs = d.Values
			default:
				return true
			}
			if len(rhs) == 0 {
				return true
			}
			for i, l := range lhs {
				o := identObj(info, l)
				if o == nil {
					continue
				}
				var src ast.Expr
				switch {
				case len(rhs) == len(lhs):
					src = rhs[i]
				case len(rhs) == 1 && i == 0:
					src = rhs[0] // v, ok := m[k]
				default:
					continue
				}
				so := identObj(info, ast.Unparen(src))
				switch {
				case isRead(src), so != nil && readVars[so]:
					if !readVars[o] {
						readVars[o] = true
						changed = true
					}
				default:
					otherDefs[o] = true
				}
			}
			return true
		})
	}
	bad := ""
	inspectNoLit(fd.Body, func(x ast.Node) bool {
		rs, ok := x.(*ast.ReturnStmt)
		if !ok || len(rs.Results) != 1 {
			return true
		}
		src := ast.Unparen(rs.Results[0])
		if isRead(src) {
			return true
		}
		if o := identObj(info, src); o != nil {
			switch {
			case readVars[o] && !otherDefs[o]:
			case readVars[o]:
				bad = "skip: the variable returned receives the value read from the map under " + key + " and something else"
			case !otherDefs[o]:
				// only ever the zero value: fine on the not-found path, wrong if it is the only return
				if len(readVars) == 0 {
					bad = "the value returned is not the one read from the map under " + key
				}
			default:
				bad = "the value returned is not the one read from the map under " + key
			}
			return true
		}
		bad = "skip: the value returned is an expression this rule does not follow"
		return true
	})
	return bad
}

// deleteGuardOK: the delete is unconditional or on the true edge of the comma-ok of the read.
func deleteGuardOK(c *Ctx, info *types.Info, fd *ast.FuncDecl) string {
	recv := recvObj(info, fd)
	var del *ast.CallExpr
	var okObj types.Object
	ast.Inspect(fd.Body, func(x ast.Node) bool {
		if call, ok := x.(*ast.CallExpr); ok && isBuiltinCall(info, call, "delete") && isObj(info, call.Args[0], recv) {
			del = call
		}
		if lhs, rhs, ok := multiDef(x); ok && len(lhs) == 2 {
			if ix, ok := ast.Unparen(rhs).(*ast.IndexExpr); ok && isObj(info, ix.X, recv) {
				okObj = identObj(info, lhs[1])
			}
		}
		return true
	})
	if del == nil {
		return "no delete"
	}
	g := newFG(info, fd.Body)
	pt, ok := g.locate(del)
	if !ok {
		return "delete not in the CFG"
	}
	for _, ec := range g.edgeConds(pt) {
		cond := ast.Unparen(ec.cond)
		pol := ec.polarity
		if u, ok := cond.(*ast.UnaryExpr); ok && u.Op == token.NOT {
			cond, pol = ast.Unparen(u.X), !pol
		}
		if id, ok := cond.(*ast.Ident); ok && okObj != nil && info.Uses[id] == okObj {
			if !pol {
				return "the delete runs only when the key is absent"
			}
			continue
		}
		return "the delete is conditional on " + exprStr(ec.cond) + ": a present key may survive RemoveValue"
	}
	// every normal path passes the delete or lies on the not-exists edge
	return ""
}

// entryStoreOK: inside the constructor loop,  m[K] = V  with K and V taken from
// the same visited entry.
func entryStoreOK(info *types.Info, fd *ast.FuncDecl, loop ast.Stmt) string {
	var store ast.Node
	var keyE, valE ast.Expr
	inspectNoLit(loop, func(x ast.Node) bool {
		if as, ok := x.(*ast.AssignStmt); ok && len(as.Lhs) == 1 && len(as.Rhs) == 1 {
			if ix, ok := ast.Unparen(as.Lhs[0]).(*ast.IndexExpr); ok {
				if _, isMap := info.Types[ix.X].Type.Underlying().(*types.Map); isMap {
					store, keyE, valE = as, ix.Index, as.Rhs[0]
				}
			}
		}
		// the map type's own single-entry store, called on the map being built
		if rx, mname, call, ok := methodCall(x); ok && mname == "SetValue" && len(call.Args) == 2 {
			if t := info.Types[rx].Type; t != nil {
				if _, isMap := t.Underlying().(*types.Map); isMap {
					store, keyE, valE = call, call.Args[0], call.Args[1]
				}
			}
		}
		return true
	})
	if store == nil {
		return "skip: no map store recognised in the loop"
	}
	for _, n := range pathTo(loop, store) {
		switch n.(type) {
		case *ast.IfStmt, *ast.SwitchStmt, *ast.TypeSwitchStmt, *ast.SelectStmt:
			return "the per-entry store is conditional: for a repeated key the last entry must win, so every visited entry has to be stored"
		}
	}
	kSrc, vSrc := resolveInit(info, fd, keyE), resolveInit(info, fd, valE)
	if rs, ok := loop.(*ast.RangeStmt); ok {
		if _, isMap := info.Types[rs.X].Type.Underlying().(*types.Map); isMap {
			if identObj(info, rs.Key) != nil && isObj(info, kSrc, identObj(info, rs.Key)) && isObj(info, vSrc, identObj(info, rs.Value)) {
				return ""
			}
			return "the store is not [ranged key] = ranged value"
		}
	}
	// association source: key = A.GetKey(), value = A.GetValue() with the same A
	krx, kname, _, ok1 := methodCall(kSrc)
	vrx, vname, _, ok2 := methodCall(vSrc)
	if !ok1 || !ok2 || kname != "GetKey" || vname != "GetValue" {
		return fmt.Sprintf("the store is [%s] = %s, required [assoc.GetKey()] = assoc.GetValue()", exprStr(kSrc), exprStr(vSrc))
	}
	ka, va := identObj(info, krx), identObj(info, vrx)
	if ka == nil || ka != va {
		return "key and value are taken from different associations"
	}
	return ""
}

// checkNoSecondLookup: the snapshot views of the map type (AsArray, GetIterator) take each value
// from the entry they visit.  A value fetched by looking the visited key up again (recv[key],
// recv.GetValue(key)) is not that entry's value for keys that do not equal themselves (a NaN
// float, or a struct/array/interface key holding one): the lookup finds nothing and the view
// shows the zero value instead of what is in the map.
func checkNoSecondLookup(c *Ctx, r *Rec, rule string) {
	mp, err := c.impl("collection", "MapLike")
	if err != nil || mp == nil {
		return
	}
	info := c.info("collection")
	ms := c.methodsOf(mp)
	for _, nm := range []string{"AsArray", "GetIterator"} {
		fd := ms[nm]
		if fd == nil || fd.Body == nil {
			continue
		}
		recv := recvObj(info, fd)
		construct := c.fdName(fd)
		bad := ""
		n := 0
		for _, l := range loopsIn(fd.Body) {
			inspectNoLit(l, func(x ast.Node) bool {
				_, mname, call, ok := methodCall(x)
				if !ok || mname != "Make" || len(call.Args) != 2 {
					return true
				}
				n++
				src := resolveInit(info, fd, call.Args[1])
				if ix, ok := src.(*ast.IndexExpr); ok && isObj(info, ix.X, recv) {
					bad = fmt.Sprintf("the value of the association made at %s is read with a second lookup %s", c.pos(call.Pos()), exprStr(src))
				}
				if rx, mn, _, ok := methodCall(src); ok && mn == "GetValue" && isObj(info, rx, recv) {
					bad = fmt.Sprintf("the value of the association made at %s is read with a second lookup %s", c.pos(call.Pos()), exprStr(src))
				}
				return true
			})
		}
		switch {
		case bad != "":
			r.fail(rule, construct, c.pos(fd.Pos()), bad+": for a key that does not equal itself (NaN) the lookup finds nothing and the view shows the zero value instead of the entry that is in the map")
		case n == 0:
			r.skip(rule, construct, c.pos(fd.Pos()), "no association is made in a loop of this method")
		default:
			r.ok(rule, construct, c.pos(fd.Pos()), "no association's value comes from a second lookup of the key")
		}
	}
}

// checkNoReadBackOfRangedMap: a function that visits the entries of a Go map parameter with
// range and also reads the same map by key inside a loop takes the values through a second
// lookup.  The lookup compares with ==, and a key that does not equal itself (a float NaN,
// possible for every comparable type parameter) is never found: the entry range did visit is
// turned into the zero value.  The value belongs to the pair range hands out.
func checkNoReadBackOfRangedMap(c *Ctx, r *Rec, rule string, fds []*ast.FuncDecl) {
	for _, fd := range fds {
		info := c.infoFor(fd)
		if info == nil || fd.Body == nil {
			continue
		}
		// the Go maps that the function ranges over: parameters and locals alike
		var cands []*types.Var
		seenC := map[*types.Var]bool{}
		ast.Inspect(fd.Body, func(x ast.Node) bool {
			if rs, ok := x.(*ast.RangeStmt); ok {
				if v, ok := identObj(info, rs.X).(*types.Var); ok && !seenC[v] {
					if _, isMap := v.Type().Underlying().(*types.Map); isMap && !v.IsField() {
						seenC[v] = true
						cands = append(cands, v)
					}
				}
			}
			return true
		})
		for _, p := range cands {
			mt, ok := p.Type().Underlying().(*types.Map)
			if !ok {
				continue
			}
			// keys that can be unequal to themselves: type parameters, floats, complex, interfaces, structs/arrays
			switch kt := mt.Key().Underlying().(type) {
			case *types.Basic:
				if kt.Info()&(types.IsFloat|types.IsComplex) == 0 {
					continue
				}
			}
			ranged := false
			ast.Inspect(fd.Body, func(x ast.Node) bool {
				if rs, ok := x.(*ast.RangeStmt); ok && isObj(info, rs.X, p) {
					ranged = true
				}
				return true
			})
			if !ranged {
				continue
			}
			bad := ""
			for _, l := range loopsIn(fd.Body) {
				ast.Inspect(l, func(x ast.Node) bool {
					switch s := x.(type) {
					case *ast.AssignStmt:
						// m[k] = v is a write
						for _, rh := range s.Rhs {
							ast.Inspect(rh, func(y ast.Node) bool {
								if ix, ok := y.(*ast.IndexExpr); ok && isObj(info, ix.X, p) && bad == "" {
									bad = fmt.Sprintf("%s at %s", exprStr(ix), c.pos(ix.Pos()))
								}
								return true
							})
						}
						return false
					case *ast.IndexExpr:
						if isObj(info, s.X, p) && bad == "" {
							bad = fmt.Sprintf("%s at %s", exprStr(s), c.pos(s.Pos()))
						}
					}
					return true
				})
			}
			construct := c.fdName(fd) + "/" + p.Name()
			if bad != "" {
				r.fail(rule, construct, c.pos(fd.Pos()), fmt.Sprintf("the entries of the Go map %s are visited with range, but a value is taken with a second lookup %s: for a key that does not equal itself (NaN) the lookup finds nothing and the entry that range visited is replaced by the zero value", p.Name(), bad))
			} else {
				r.ok(rule, construct, c.pos(fd.Pos()), "the values come from the pairs that range hands out")
			}
		}
	}
}
