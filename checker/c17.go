package main

// C17 — Iterators are bidirectional cursors over an immutable snapshot.

import (
	"fmt"
	"go/ast"
	"go/types"
	"strings"
)

func init() {
	register(&propInfo{
		ID:      "C17",
		Engines: "SYM (octagon tables over (slot, size)), EFFECT (frozen fields), FLOW (fresh snapshot handed to the iterator)",
		Decided: "D1 every iterator method equals its cursor specification on all integers under the invariant 0<=slot<=size, which every method preserves; every element access is within 0..size-1; " +
			"D2 the iterator's array and size fields are never written after construction, the iterator never stores into its array, and every GetIterator of the collection package hands the constructor a snapshot that is fresh in that call (or delegates to another GetIterator); " +
			"D3 no iterator state is reachable from a class or package-level variable." +
			" Also: the snapshot of a Map takes each value from the visited entry, not from a second lookup of its key." +
			" Round 7: for every collection with a mutex and GetIterator: no re-entry into a locking method inside a lock region (read locks and bracket helpers included)." +
			" Rounds 8-9: a caller-given signed slot is not negated before a lower bound on it.",
		NotDecided: "that the snapshot handed over has the right content and order (that is C01-C03/C14), behaviour of moves over histories beyond the per-method transition relation (which, being deterministic and total, composes).",
		Run:        runC17,
	})
}

func runC17(c *Ctx, r *Rec) {
	it := c.mustImpl(r, "bind", "agent", "IteratorLike")
	if it == nil {
		return
	}
	info := c.info("agent")
	checkNoReentryAnywhere(c, r, "D2-no-reentry-under-lock", "collection", "GetIterator")
	checkUnsignedExtremes(c, r, "D1-extreme-arguments", fileFuncs(c, "agent", it), nil)
	{
		fds := fileFuncs(c, "agent", it)
		if icls, err := c.impl("agent", "IteratorClassLike"); err == nil && icls != nil {
			fds = append(fds, fileFuncs(c, "agent", icls)...)
		}
		shapeLints(c, r, fds)
	}
	st := structOf(it)
	if st == nil {
		r.skip("bind", "agent.iterator", "", "iterator type is not a struct")
		return
	}
	// bind fields by role: the slice field is the snapshot; among int fields the one
	// assigned outside the constructor literal is the slot, the other the size.
	var valuesF, sizeF, slotF *types.Var
	nSlices := 0 // slice fields beyond the first: which of them is the snapshot is not known
	written := fieldsWrittenInMethods(c, info, it)
	for i := 0; i < st.NumFields(); i++ {
		f := st.Field(i)
		switch u := f.Type().Underlying().(type) {
		case *types.Slice:
			if valuesF != nil {
				nSlices++
			}
			valuesF = f
		case *types.Basic:
			if u.Kind() == types.Int {
				if written[f] {
					slotF = f
				} else {
					sizeF = f
				}
			}
		}
	}
	ms := c.methodsOf(it)
	cursorRules := func() {
		// the size: a frozen int field, or the length of the snapshot itself
		sizeName := "len(snapshot)"
		if sizeF != nil {
			sizeName = objKey(sizeF)
		}
		slot, size := sym(objKey(slotF)), sym(sizeName)
		inv := and(ge(slot, k(0)), le(slot, size))
		base := Cube{}
		for _, cb := range dnf(inv) {
			base = append(base, cb...)
		}

		type mspec struct {
			rows   []specRow
			access func(p symPath) *Lin // required access index (nil = none) given the path
		}
		arg := func(fd *ast.FuncDecl) *Lin {
			ps := paramObjs(info, fd)
			if len(ps) == 1 {
				return sym(ps[0].Name())
			}
			return sym("?")
		}
		specs := map[string]func(fd *ast.FuncDecl) []specRow{
			"HasNext": func(fd *ast.FuncDecl) []specRow {
				return []specRow{{When: FTrue, Kind: "return", RetB: []*F{lt(slot, size)}, State: map[string]*Lin{objKey(slotF): slot}, Desc: "HasNext <=> slot < size"}}
			},
			"HasPrevious": func(fd *ast.FuncDecl) []specRow {
				return []specRow{{When: FTrue, Kind: "return", RetB: []*F{gt(slot, k(0))}, State: map[string]*Lin{objKey(slotF): slot}, Desc: "HasPrevious <=> slot > 0"}}
			},
			"GetSlot": func(fd *ast.FuncDecl) []specRow {
				return []specRow{{When: FTrue, Kind: "return", Ret: []*Lin{slot}, State: map[string]*Lin{objKey(slotF): slot}, Desc: "GetSlot = slot"}}
			},
			"GetSize": func(fd *ast.FuncDecl) []specRow {
				return []specRow{{When: FTrue, Kind: "return", Ret: []*Lin{size}, State: map[string]*Lin{objKey(slotF): slot}, Desc: "GetSize = size"}}
			},
			"IsEmpty": func(fd *ast.FuncDecl) []specRow {
				return []specRow{{When: FTrue, Kind: "return", RetB: []*F{eq(size, k(0))}, State: map[string]*Lin{objKey(slotF): slot}, Desc: "IsEmpty <=> size = 0"}}
			},
			"ToStart": func(fd *ast.FuncDecl) []specRow {
				return []specRow{{When: FTrue, Kind: "return", State: map[string]*Lin{objKey(slotF): k(0)}, Desc: "ToStart -> slot 0"}}
			},
			"ToEnd": func(fd *ast.FuncDecl) []specRow {
				return []specRow{{When: FTrue, Kind: "return", State: map[string]*Lin{objKey(slotF): size}, Desc: "ToEnd -> slot size"}}
			},
			"GetNext": func(fd *ast.FuncDecl) []specRow {
				return []specRow{
					{When: lt(slot, size), Kind: "return", State: map[string]*Lin{objKey(slotF): slot.plus(1)}, Desc: "GetNext before the end moves one slot forward"},
					{When: ge(slot, size), Kind: "return", State: map[string]*Lin{objKey(slotF): slot}, Desc: "GetNext at the end stays put"},
				}
			},
			"GetPrevious": func(fd *ast.FuncDecl) []specRow {
				return []specRow{
					{When: gt(slot, k(0)), Kind: "return", State: map[string]*Lin{objKey(slotF): slot.plus(-1)}, Desc: "GetPrevious after the start moves one slot back"},
					{When: le(slot, k(0)), Kind: "return", State: map[string]*Lin{objKey(slotF): slot}, Desc: "GetPrevious at the start stays put"},
				}
			},
			"ToSlot": func(fd *ast.FuncDecl) []specRow {
				a := arg(fd)
				return []specRow{
					{When: and(ge(a, k(0)), le(a, size)), Kind: "return", State: map[string]*Lin{objKey(slotF): a}, Desc: "ToSlot(k) for 0<=k<=size -> k"},
					{When: gt(a, size), Kind: "return", State: map[string]*Lin{objKey(slotF): size}, Desc: "ToSlot(k) for k>size clamps to size"},
					{When: and(le(a, k(-1)), ge(a, size.scale(-1))), Kind: "return", State: map[string]*Lin{objKey(slotF): a.add(size).plus(1)}, Desc: "ToSlot(k) for -size<=k<=-1 -> k+size+1"},
					{When: lt(a, size.scale(-1)), Kind: "any", Desc: "ToSlot(k) for k<-size clamps (exact slot not documented; range checked separately)"},
				}
			},
		}
		// required element access per method: index expression relative to the pre-state slot
		wantAccess := map[string]*Lin{"GetNext": slot, "GetPrevious": slot.plus(-1)}

		for _, name := range sortedKeys(specs) {
			fd := ms[name]
			construct := "agent." + it.Obj().Name() + "." + name
			if fd == nil {
				r.undecided("D1-cursor", construct, "", "method of the public iterator interface not found")
				continue
			}
			env := &symEnv{info: info, base: base}
			env.resolve = func(e ast.Expr) (Val, bool) {
				if call, ok := e.(*ast.CallExpr); ok && isBuiltinCall(info, call, "len") && len(call.Args) == 1 && (selectorField(info, call.Args[0]) == valuesF || strings.HasSuffix(env.baseStr(call.Args[0]), "."+valuesF.Name())) {
					return Val{Lin: size}, true // the snapshot is frozen: its length is the size
				}
				return Val{}, false
			}
			// sibling methods called on the receiver (HasNext, HasPrevious, private helpers) are interpreted in place
			env.recvs = map[types.Object]bool{}
			if ro := recvObj(info, fd); ro != nil {
				env.recvs[ro] = true
			}
			self := fd
			enableInlining(c, env, fd, nil) // private functions and methods
			generic := env.inlinable
			env.inlinable = func(call *ast.CallExpr) *ast.FuncDecl {
				if d := generic(call); d != nil {
					return d
				}
				rx, mname, _, ok := methodCall(call)
				if !ok {
					return nil
				}
				id, isID := ast.Unparen(rx).(*ast.Ident)
				if !isID || !env.recvs[info.Uses[id]] {
					return nil
				}
				d := ms[mname]
				if d == nil || d == self || d.Body == nil || len(loopsIn(d.Body)) > 0 {
					return nil
				}
				return d
			}
			paths := symRun(env, fd.Body)
			if len(env.problems) > 0 {
				r.skip("D1-cursor", construct, c.pos(fd.Pos()), "SYM cannot interpret the body: "+strings.Join(dedup(env.problems), "; "))
				continue
			}
			for i := range paths {
				if paths[i].Kind == "fall" {
					paths[i].Kind = "return"
				}
			}
			viol, undec := conform(env, paths, specs[name](fd))
			for _, p := range paths {
				if p.Kind == "panic" {
					viol = append(viol, "the method can panic on {"+p.Cube.String()+"}")
					continue
				}
				// invariant preserved
				got, ok := p.State[objKey(slotF)]
				if !ok {
					got = Val{Lin: slot}
				}
				if got.Lin == nil {
					viol = append(viol, "slot becomes a non-integer form")
				} else if h, d := holdsOn(env, p.Cube, and(ge(got.Lin, k(0)), le(got.Lin, size))); !h {
					if !d {
						undec = append(undec, "cannot decide the slot invariant on {"+p.Cube.String()+"}")
					} else {
						viol = append(viol, fmt.Sprintf("on {%s} the slot becomes %s, outside 0..size", p.Cube, got.Lin))
					}
				}
				// accesses in bounds, and the documented element
				nacc := 0
				for _, a := range p.Accesses {
					if a.Kind != "index" || !strings.HasSuffix(a.Base, "."+valuesF.Name()) {
						continue
					}
					nacc++
					if a.Index == nil {
						viol = append(viol, "element access with a non-linear index at "+c.pos(a.Pos))
						continue
					}
					if h, d := holdsOn(env, a.Cube, and(ge(a.Index, k(0)), lt(a.Index, size))); !h {
						if !d {
							undec = append(undec, "cannot decide bounds of access at "+c.pos(a.Pos))
						} else {
							viol = append(viol, fmt.Sprintf("element access [%s] at %s can be outside 0..size-1 on {%s}", a.Index, c.pos(a.Pos), a.Cube))
						}
					}
					if w := wantAccess[name]; w != nil {
						if h, _ := holdsOn(env, a.Cube, eq(a.Index, w)); !h {
							viol = append(viol, fmt.Sprintf("%s reads element [%s], the cursor specification requires [%s] (zero-based, relative to the slot before the call)", name, a.Index, w))
						}
					}
				}
				if w := wantAccess[name]; w != nil {
					moved := got.Lin != nil && !got.Lin.equal(slot)
					if moved && nacc != 1 {
						viol = append(viol, fmt.Sprintf("a path that moves the cursor reads %d elements, required exactly one", nacc))
					}
					if moved && (len(p.Rets) != 1 || !strings.Contains(p.Rets[0].Opaque, "."+valuesF.Name()+"[")) {
						viol = append(viol, fmt.Sprintf("a path that moves the cursor returns %v, not the element it passed", p.Rets))
					}
					if !moved && (len(p.Rets) != 1 || p.Rets[0].Opaque != "zero") {
						viol = append(viol, fmt.Sprintf("a path that stays put returns %v, required the zero value", p.Rets))
					}
				} else if nacc > 0 {
					viol = append(viol, name+" reads elements")
				}
			}
			r.count("SYM paths", len(paths))
			switch {
			case len(viol) > 0:
				r.fail("D1-cursor", construct, c.pos(fd.Pos()), strings.Join(dedup(viol), " | "))
			case onlyForeign(undec):
				r.skip("D1-cursor", construct, c.pos(fd.Pos()), strings.Join(dedup(undec), " | "))
			case len(undec) > 0:
				r.skip("D1-cursor", construct, c.pos(fd.Pos()), strings.Join(dedup(undec), " | "))
			default:
				r.ok("D1-cursor", construct, c.pos(fd.Pos()), fmt.Sprintf("%d paths conform to the cursor specification on all integers with 0<=slot<=size; invariant preserved; accesses in bounds", len(paths)))
			}
		}
		r.floor("D1-cursor", 10)
	}
	if nSlices > 0 {
		// several slice fields (the snapshot and windows into it, say): among the ones that are
		// never written, the snapshot; a design of its own otherwise
		var frozen []*types.Var
		for i := 0; i < st.NumFields(); i++ {
			if _, isSlice := st.Field(i).Type().Underlying().(*types.Slice); isSlice && !written[st.Field(i)] {
				frozen = append(frozen, st.Field(i))
			}
		}
		valuesF = nil
		if len(frozen) == 1 {
			valuesF = frozen[0]
		}
		slotF = nil
	}
	if valuesF == nil || slotF == nil {
		// the fields are private: the cursor rules are bound to the array-and-slot design; the
		// snapshot rules below do not depend on it
		r.skip("D1-cursor", "agent."+it.Obj().Name()+"/cursor", "", fmt.Sprintf("cannot bind the snapshot and slot fields by role (values=%v slot=%v): the cursor rules are bound to the array-and-slot design", valuesF, slotF))
	} else {
		cursorRules()
	}

	checkReceiverWrites(c, r, "D1-receiver-writes-persist", it)
	// ---- D2 frozen fields
	for _, f := range []*types.Var{valuesF, sizeF} {
		if f == nil {
			continue
		}
		construct := "agent." + it.Obj().Name() + "." + f.Name()
		r.check(!written[f], "D2-frozen", construct, c.pos(f.Pos()), "never written after construction", "the field is written by a method: the snapshot is not immutable")
	}
	// the iterator never stores into its array
	if valuesF != nil {
		stores := elementStores(c, info, it, valuesF)
		r.check(len(stores) == 0, "D2-frozen", "agent."+it.Obj().Name()+"/element-stores", c.pos(it.Obj().Pos()),
			"no method stores into the snapshot array", "a method stores into the snapshot array at "+strings.Join(stores, ", "))
	}
	r.floorSoft("D2-frozen", "agent."+it.Obj().Name()+"/snapshot-field", "no slice field holds the snapshot")

	checkIteratorSnapshots(c, r)
	checkIteratorNotShared(c, r, it)
	checkNoSecondLookup(c, r, "D2-snapshot-holds-the-entries")
	checkAssociationKeyFrozen(c, r, "D2-snapshot-cells-keep-their-key")
}

// fieldsWrittenInMethods: struct fields assigned (or inc/dec'd, or address-taken) in any method of n.
func fieldsWrittenInMethods(c *Ctx, info *types.Info, n *types.Named) map[*types.Var]bool {
	out := map[*types.Var]bool{}
	for _, fd := range c.methodsOf(n) {
		ast.Inspect(fd.Body, func(x ast.Node) bool {
			mark := func(e ast.Expr) {
				if f := selectorField(info, e); f != nil {
					out[f] = true
				}
			}
			switch s := x.(type) {
			case *ast.AssignStmt:
				for _, l := range s.Lhs {
					mark(l)
				}
			case *ast.IncDecStmt:
				mark(s.X)
			case *ast.UnaryExpr:
				if s.Op.String() == "&" {
					mark(s.X)
				}
			}
			return true
		})
	}
	return out
}

// elementStores lists positions where a method of n stores into field f's elements.
func elementStores(c *Ctx, info *types.Info, n *types.Named, f *types.Var) []string {
	var out []string
	for _, fd := range c.methodsOf(n) {
		ast.Inspect(fd.Body, func(x ast.Node) bool {
			switch s := x.(type) {
			case *ast.AssignStmt:
				for _, l := range s.Lhs {
					if ix, ok := ast.Unparen(l).(*ast.IndexExpr); ok && selectorField(info, ix.X) == f {
						out = append(out, c.pos(s.Pos()))
					}
				}
			case *ast.CallExpr:
				if isBuiltinCall(info, s, "copy") && len(s.Args) == 2 {
					root := ast.Unparen(s.Args[0])
					if se, ok := root.(*ast.SliceExpr); ok {
						root = se.X
					}
					if selectorField(info, root) == f {
						out = append(out, c.pos(s.Pos()))
					}
				}
			}
			return true
		})
	}
	return out
}

// checkIteratorSnapshots (D2): every GetIterator of the collection package returns
// an iterator whose snapshot is fresh in that call.
func checkIteratorSnapshots(c *Ctx, r *Rec) {
	fa := c.flow()
	n := 0
	for _, fd := range c.allFuncDecls("collection") {
		if fd.Name.Name != "GetIterator" || fd.Recv == nil {
			continue
		}
		sf := fa.byFD[fd]
		construct := c.fdName(fd)
		if sf == nil || len(fa.sum[sf].freshRet) != 1 {
			r.skip("D2-snapshot", construct, c.pos(fd.Pos()), "no SSA summary for this method")
			continue
		}
		n++
		s := fa.sum[sf]
		switch {
		case !s.freshRet[0]:
			r.fail("D2-snapshot", construct, c.pos(fd.Pos()), "the iterator shares storage with the collection: it is "+s.whyRet[0])
		case len(s.aliasRet) > 0 && s.aliasRet[0]:
			r.fail("D2-snapshot", construct, c.pos(fd.Pos()), "the iterator is built over the receiver's own storage instead of a copy made in this call")
		default:
			r.ok("D2-snapshot", construct, c.pos(fd.Pos()), "the iterator (and the array inside it) is allocated in this call, or by a delegate's GetIterator")
		}
	}
	r.floor("D2-snapshot", 7)
	// the iterator constructor adopts its argument (that is what makes the rule above necessary)
	r.count("GetIterator implementations", n)
}

// checkIteratorNotShared (D3): no iterator is reachable from a class struct or a package-level variable.
func checkIteratorNotShared(c *Ctx, r *Rec, it *types.Named) {
	for _, root := range c.sharedRoots() {
		path, _ := c.searchFrom(root.T, root.Name, nil, it)
		r.check(path == "", "D3-not-shared", root.Name, c.pos(root.Pos), "no iterator reachable", "an iterator is reachable from shared state: "+path)
	}
	r.floor("D3-not-shared", 10)
}
