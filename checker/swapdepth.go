package main

// The exchange of the operands is not a level of nesting.  The composite rankers handle "the
// first operand is the longer one" by calling themselves with the operands exchanged and
// reversing the answer.  That call ranks the same two values, so it has to be made at the depth
// the method was entered with: when the depth counter has already been raised (an increment at
// the top of the method, `defer v.descend()()`, an enterLevel() helper) the exchange is charged
// as a level of its own, and at the maximum depth RankValues(longer, shorter) panics where
// RankValues(shorter, longer) answers - the mirror law fails at the limit.
//
// Also here: the traversal is single-threaded (no go statement in the collator's methods), and
// a mutex of the collator is released on the panic paths of the traversal.

import (
	"fmt"
	"go/ast"
	"go/token"
	"go/types"

	"golang.org/x/tools/go/cfg"
)

func checkSwapArmAtEntryDepth(c *Ctx, r *Rec, rule string, cr *collRoles) {
	info := cr.info
	if cr.depthF == nil {
		return
	}
	// net change of the depth counter made by a call of a private helper at the time of the call
	helperDelta := map[*types.Func]int{}
	for name, hd := range cr.ms {
		if ast.IsExported(name) || hd.Body == nil {
			continue
		}
		callsTraversal := false
		d := 0
		inspectNoLit(hd.Body, func(x ast.Node) bool {
			switch s := x.(type) {
			case *ast.DeferStmt:
				return false
			case *ast.IncDecStmt:
				if selectorField(info, s.X) == cr.depthF {
					if s.Tok == token.INC {
						d++
					} else {
						d--
					}
				}
			case *ast.CallExpr:
				if cf := calleeOf(info, s); cf != nil && recvNamed(cf) != nil && recvNamed(cf).Origin() == cr.n.Origin() {
					if sig, ok := cf.Type().(*types.Signature); ok && sig.Params().Len() == 2 {
						callsTraversal = true
					}
				}
			}
			return true
		})
		if fn := c.funcOf(hd); fn != nil && d != 0 && !callsTraversal {
			helperDelta[fn.Origin()] = d
		}
	}
	for _, name := range sortedKeys(cr.ms) {
		fd := cr.ms[name]
		if ast.IsExported(name) || fd.Body == nil {
			continue
		}
		params := paramObjs(info, fd)
		fn := c.funcOf(fd)
		if len(params) != 2 || fn == nil {
			continue
		}
		var swaps []*ast.CallExpr
		inspectNoLit(fd.Body, func(x ast.Node) bool {
			if call, ok := x.(*ast.CallExpr); ok && len(call.Args) == 2 {
				if cf := calleeOf(info, call); cf != nil && cf.Origin() == fn.Origin() && isObj(info, call.Args[0], params[1]) && isObj(info, call.Args[1], params[0]) {
					swaps = append(swaps, call)
				}
			}
			return true
		})
		if len(swaps) == 0 {
			continue
		}
		g := newFG(info, fd.Body)
		delta := func(n ast.Node) int {
			d := 0
			switch s := n.(type) {
			case *ast.IncDecStmt:
				if selectorField(info, s.X) == cr.depthF {
					if s.Tok == token.INC {
						return 1
					}
					return -1
				}
				return 0
			case *ast.DeferStmt:
				// defer v.descend()(): the inner call runs now
				if inner, ok := ast.Unparen(s.Call.Fun).(*ast.CallExpr); ok {
					if cf := calleeOf(info, inner); cf != nil {
						d += helperDelta[cf.Origin()]
					}
				}
				return d
			}
			inspectNoLit(n, func(x ast.Node) bool {
				if call, ok := x.(*ast.CallExpr); ok {
					if cf := calleeOf(info, call); cf != nil {
						d += helperDelta[cf.Origin()]
					}
				}
				return true
			})
			return d
		}
		const unknown = -1000
		in := map[*cfg.Block]int{}
		for _, b := range g.order {
			in[b] = unknown
		}
		in[g.entry()] = 0
		conflict := false
		for iter := 0; iter < 20; iter++ {
			changed := false
			for _, b := range g.order {
				if in[b] == unknown {
					continue
				}
				cur := in[b]
				for _, n := range b.Nodes {
					cur += delta(n)
				}
				for _, s := range b.Succs {
					if in[s] == unknown {
						in[s] = cur
						changed = true
					} else if in[s] != cur {
						conflict = true
					}
				}
			}
			if !changed {
				break
			}
		}
		for _, call := range swaps {
			construct := c.fdName(fd) + "/exchange"
			pt, ok := g.locate(call)
			if !ok || conflict || in[pt.b] == unknown {
				r.skip(rule, construct, c.pos(call.Pos()), "the depth at the exchange call could not be established")
				continue
			}
			cur := in[pt.b]
			for i := 0; i < pt.idx && i < len(pt.b.Nodes); i++ {
				cur += delta(pt.b.Nodes[i])
			}
			if cur > 0 {
				r.fail(rule, construct, c.pos(call.Pos()), fmt.Sprintf("%s calls itself with the operands exchanged after the depth counter has been raised by %d in this activation: the exchange is charged as a level of nesting, so at the deepest allowed level RankValues(longer, shorter) ends with the depth-limit panic while RankValues(shorter, longer) answers (and values that alternate which side is longer run out of depth at half the limit)", fd.Name.Name, cur))
			} else {
				r.ok(rule, construct, c.pos(call.Pos()), "the exchange call is made at the depth the method was entered with")
			}
		}
	}
}

// checkTraversalSingleThreaded: no method of the collator starts a goroutine.  The traversal
// shares the depth counter (and nothing guards it): a second goroutine that ranks through the
// same collator loses increments and decrements.
func checkTraversalSingleThreaded(c *Ctx, r *Rec, rule string, cr *collRoles) {
	bad := ""
	n := 0
	for _, name := range sortedKeys(cr.ms) {
		fd := cr.ms[name]
		if fd.Body == nil {
			continue
		}
		n++
		// the method and the declared functions of the package it calls directly
		bodies := []*ast.FuncDecl{fd}
		ast.Inspect(fd.Body, func(x ast.Node) bool {
			if call, ok := x.(*ast.CallExpr); ok {
				if cf := calleeOf(cr.info, call); cf != nil && !cf.Exported() {
					if hd := c.declOf(cf); hd != nil && hd.Body != nil && c.infoFor(hd) == cr.info && recvNamed(cf) == nil {
						bodies = append(bodies, hd)
					}
				}
			}
			return true
		})
		for _, b := range bodies {
			ast.Inspect(b.Body, func(x ast.Node) bool {
				if g, ok := x.(*ast.GoStmt); ok && bad == "" {
					bad = fmt.Sprintf("%s starts a goroutine at %s: the traversal's depth counter is shared and unguarded, so rankings that run through the same collator in two goroutines lose increments and decrements (wrong depth, spurious or missing limit panics, results that vary from run to run)", b.Name.Name, c.pos(g.Pos()))
				}
				return true
			})
		}
	}
	r.check(bad == "", rule, "agent."+cr.n.Obj().Name()+"/goroutines", c.pos(cr.n.Obj().Pos()), fmt.Sprintf("no go statement in the %d methods of the collator or the private functions they call", n), bad)
}
