package main

// Role binding: private types, fields and helpers are found through the public
// interfaces they implement and through their shapes, never by spelling.

import (
	"fmt"
	"go/ast"
	"go/token"
	"go/types"
	"sort"
	"strings"
)

// impl returns the unique repository type implementing the public interface
// role.iface (e.g. collection.ListLike).
func (c *Ctx) impl(role, iface string) (*types.Named, error) {
	key := "impl:" + role + "." + iface
	if v, ok := c.cache[key]; ok {
		if n, ok := v.(*types.Named); ok {
			return n, nil
		}
		return nil, v.(error)
	}
	it := c.named(role, iface)
	var err error
	var res *types.Named
	if it == nil {
		err = fmt.Errorf("public interface %s.%s not found", role, iface)
	} else {
		var ims []*types.Named
		for _, n := range c.implementers(it) {
			if implementsInst(n, it) {
				ims = append(ims, n)
			}
		}
		if len(ims) != 1 {
			var names []string
			for _, n := range ims {
				names = append(names, n.Obj().Name())
			}
			err = fmt.Errorf("expected exactly one implementation of %s.%s, found %v", role, iface, names)
		} else {
			res = ims[0]
		}
	}
	if err != nil {
		c.cache[key] = err
		return nil, err
	}
	c.cache[key] = res
	return res, nil
}

// mustImpl is impl that records an undecided obligation on failure.
func (c *Ctx) mustImpl(r *Rec, rule, role, iface string) *types.Named {
	n, err := c.impl(role, iface)
	if err != nil {
		r.undecided(rule, role+"."+iface, "", "anchor cannot be bound: "+err.Error())
		return nil
	}
	return n
}

// fieldsOfIface returns the fields of struct type n whose type is the named
// interface role.iface.
func (c *Ctx) fieldOfIface(n *types.Named, role, iface string) *types.Var {
	st := structOf(n)
	if st == nil {
		return nil
	}
	for _, f := range flatFields(n) {
		if nn := derefNamed(f.Type()); nn != nil && nn.Obj().Name() == iface && c.roleOf(nn.Obj().Pkg()) == role {
			return f
		}
	}
	return nil
}

// recvIdent returns the receiver identifier object of a method declaration.
func recvObj(info *types.Info, fd *ast.FuncDecl) types.Object {
	if fd.Recv == nil || len(fd.Recv.List) == 0 || len(fd.Recv.List[0].Names) == 0 {
		return nil
	}
	return info.Defs[fd.Recv.List[0].Names[0]]
}

// paramObjs returns the parameter objects of a declaration, flattened.
func paramObjs(info *types.Info, fd *ast.FuncDecl) []*types.Var {
	var out []*types.Var
	if fd.Type.Params == nil {
		return nil
	}
	for _, f := range fd.Type.Params.List {
		for _, n := range f.Names {
			if v, ok := info.Defs[n].(*types.Var); ok {
				out = append(out, v)
			}
		}
	}
	return out
}

// isRecv reports whether e is the receiver identifier.
func isObj(info *types.Info, e ast.Expr, obj types.Object) bool {
	id, ok := ast.Unparen(e).(*ast.Ident)
	return ok && obj != nil && info.Uses[id] == obj
}

// isRecvOrStorage: e is the receiver, or receiver.field (any field).
func recvRooted(info *types.Info, e ast.Expr, recv types.Object) bool {
	e = ast.Unparen(e)
	if isObj(info, e, recv) {
		return true
	}
	if se, ok := e.(*ast.SelectorExpr); ok {
		if selectorField(info, se) != nil && isObj(info, se.X, recv) {
			return true
		}
	}
	return false
}

// methodCall decomposes  recvExpr.name(args)  calls.
func methodCall(e ast.Node) (recv ast.Expr, name string, call *ast.CallExpr, ok bool) {
	call, ok = e.(*ast.CallExpr)
	if !ok {
		return
	}
	sel, ok2 := ast.Unparen(call.Fun).(*ast.SelectorExpr)
	if !ok2 {
		return nil, "", nil, false
	}
	return sel.X, sel.Sel.Name, call, true
}

// unexportedIntToInt lists the private func(int) int methods of a type.
func (c *Ctx) unexportedIntToInt(n *types.Named) []*ast.FuncDecl {
	var out []*ast.FuncDecl
	for _, name := range sortedKeys(c.methodsOf(n)) {
		fd := c.methodsOf(n)[name]
		if ast.IsExported(name) {
			continue
		}
		fn := c.funcOf(fd)
		sig := fn.Type().(*types.Signature)
		if sig.Params().Len() == 1 && sig.Results().Len() == 1 && isIntegerType(sig.Params().At(0).Type()) && isIntegerType(sig.Results().At(0).Type()) {
			out = append(out, fd)
		}
	}
	return out
}

// instInt instantiates a generic named type with int for every type parameter.
func instInt(n *types.Named) types.Type {
	n = n.Origin()
	tp := n.TypeParams()
	if tp == nil || tp.Len() == 0 {
		return n
	}
	args := make([]types.Type, tp.Len())
	for i := range args {
		args[i] = types.Typ[types.Int]
	}
	t, err := types.Instantiate(nil, n, args, false)
	if err != nil {
		return nil
	}
	return t
}

// implementsInst: does n (or *n), instantiated at int, implement iface instantiated at int?
func implementsInst(n, iface *types.Named) bool {
	tn, ti := instInt(n), instInt(iface)
	if tn == nil || ti == nil {
		return false
	}
	it, ok := ti.Underlying().(*types.Interface)
	if !ok {
		return false
	}
	return types.Implements(tn, it) || types.Implements(types.NewPointer(tn), it)
}

// multiDef decomposes `a, b := f()` / `a, b = f()` / `var a, b = f()` nodes.
func multiDef(x ast.Node) (lhs []ast.Expr, rhs ast.Expr, ok bool) {
	switch s := x.(type) {
	case *ast.AssignStmt:
		if len(s.Rhs) == 1 && len(s.Lhs) >= 1 {
			return s.Lhs, s.Rhs[0], true
		}
	case *ast.ValueSpec:
		if len(s.Values) == 1 && len(s.Names) >= 1 {
			for _, n := range s.Names {
				lhs = append(lhs, n)
			}
			return lhs, s.Values[0], true
		}
	}
	return nil, nil, false
}

// identObj resolves an identifier expression to its object (definition or use).
func identObj(info *types.Info, e ast.Expr) types.Object {
	id, ok := ast.Unparen(e).(*ast.Ident)
	if !ok {
		return nil
	}
	if o := info.Defs[id]; o != nil {
		return o
	}
	return info.Uses[id]
}

// checkReceiverWrites: a method declared on a value receiver that assigns a
// field of its receiver (or the receiver itself) changes a copy: the write is
// lost.  One obligation per named type.
func checkReceiverWrites(c *Ctx, r *Rec, rule string, n *types.Named) {
	role := c.roleOf(n.Obj().Pkg())
	info := c.info(role)
	ms := c.methodsOf(n)
	bad := ""
	for _, name := range sortedKeys(ms) {
		fd := ms[name]
		fn := c.funcOf(fd)
		sig := fn.Type().(*types.Signature)
		if _, isPtr := sig.Recv().Type().(*types.Pointer); isPtr {
			continue
		}
		recv := recvObj(info, fd)
		if recv == nil {
			continue
		}
		ast.Inspect(fd.Body, func(x ast.Node) bool {
			mark := func(e ast.Expr, pos token.Pos) {
				e = ast.Unparen(e)
				if isObj(info, e, recv) {
					bad = fmt.Sprintf("%s has a value receiver and assigns the receiver itself at %s: the caller's collection is unchanged", name, c.pos(pos))
				}
				if se, ok := e.(*ast.SelectorExpr); ok && selectorField(info, se) != nil && isObj(info, se.X, recv) {
					bad = fmt.Sprintf("%s has a value receiver and writes the field %s at %s: the write lands on a copy and is lost", name, se.Sel.Name, c.pos(pos))
				}
			}
			switch s := x.(type) {
			case *ast.AssignStmt:
				for _, l := range s.Lhs {
					mark(l, s.Pos())
				}
			case *ast.IncDecStmt:
				mark(s.X, s.Pos())
			}
			return true
		})
	}
	r.check(bad == "", rule, role+"."+n.Obj().Name()+"/receivers", c.pos(n.Obj().Pos()), "every method that writes the receiver's state has a pointer receiver", bad)
}

// coveringLoop: the loop visits every element of its source: its condition is
// exactly X.HasNext() and nothing in the body leaves or skips an iteration
// (break, return, goto, continue).  Returns "" or a complaint.
func coveringLoop(c *Ctx, info *types.Info, loop ast.Stmt) (types.Object, string) {
	switch l := loop.(type) {
	case *ast.RangeStmt:
		bad := ""
		inspectNoLit(l.Body, func(x ast.Node) bool {
			switch s := x.(type) {
			case *ast.BranchStmt:
				bad = fmt.Sprintf("a %s at %s ends or skips an iteration", s.Tok, c.pos(s.Pos()))
			case *ast.ReturnStmt:
				bad = fmt.Sprintf("a return at %s leaves the loop early", c.pos(s.Pos()))
			}
			return true
		})
		return nil, bad
	case *ast.ForStmt:
		if l.Cond == nil {
			return nil, "skip: the loop has no condition"
		}
		it := findIterCond(info, l.Cond, "HasNext")
		if it == nil {
			// a counting loop from zero up to a length, stepped by one: it visits every position
			// (for index := 0; index < len(snapshot); index++); other conditions are forms this
			// rule does not read
			counting := false
			if as, ok := l.Init.(*ast.AssignStmt); ok && len(as.Lhs) == 1 && len(as.Rhs) == 1 {
				if tv, ok := info.Types[as.Rhs[0]]; ok && tv.Value != nil && tv.Value.ExactString() == "0" {
					if be, ok := ast.Unparen(l.Cond).(*ast.BinaryExpr); ok && be.Op == token.LSS && identObj(info, be.X) != nil && identObj(info, be.X) == identObj(info, as.Lhs[0]) {
						if inc, ok := l.Post.(*ast.IncDecStmt); ok && inc.Tok == token.INC && identObj(info, inc.X) == identObj(info, as.Lhs[0]) {
							counting = true
						}
					}
				}
			}
			if !counting {
				return nil, "skip: the loop condition is not `iterator.HasNext()`"
			}
			bad := ""
			inspectNoLit(l.Body, func(x ast.Node) bool {
				switch s := x.(type) {
				case *ast.BranchStmt:
					bad = fmt.Sprintf("a %s at %s ends or skips an iteration: not every element is processed", s.Tok, c.pos(s.Pos()))
				case *ast.ReturnStmt:
					bad = fmt.Sprintf("a return at %s leaves the loop early: not every element is processed", c.pos(s.Pos()))
				}
				return true
			})
			return nil, bad
		}
		if _, isCall := ast.Unparen(l.Cond).(*ast.CallExpr); !isCall {
			return it, "the loop condition is " + exprStr(l.Cond) + ", not just `iterator.HasNext()`: the traversal can stop before the last element"
		}
		bad := ""
		inspectNoLit(l.Body, func(x ast.Node) bool {
			switch s := x.(type) {
			case *ast.BranchStmt:
				bad = fmt.Sprintf("a %s at %s ends or skips an iteration: not every element of the operand is processed", s.Tok, c.pos(s.Pos()))
			case *ast.ReturnStmt:
				bad = fmt.Sprintf("a return at %s leaves the loop early: not every element of the operand is processed", c.pos(s.Pos()))
			}
			return true
		})
		return it, bad
	}
	return nil, "not a loop"
}

// bulkFold checks that fd is a fold of a single-element method over its
// operand: either one covering loop over the operand whose body unconditionally
// calls a method named in accept with the visited element, or (no loop at all) a
// delegation that hands the operand parameter to a method named in delegates.
func bulkFold(c *Ctx, info *types.Info, fd *ast.FuncDecl, single string, onRecvOrLocal bool) string {
	return bulkFoldSet(c, info, fd, map[string]bool{single: true}, nil)
}

func bulkFoldSet(c *Ctx, info *types.Info, fd *ast.FuncDecl, accept map[string]bool, delegates map[string]bool) string {
	var operands []types.Object
	for _, p := range paramObjs(info, fd) {
		operands = append(operands, p)
	}
	return foldOver(c, info, fd, operands, accept, delegates, 0)
}

// foldOver: see bulkFold.  operands are the parameters of fd that carry the operand.  A method
// without a loop may hand the operand to a private helper of the repository: the helper is
// checked in its place (up to three levels).  Complaints that start with "skip:" mean that
// the method has a shape this rule does not understand (nothing is claimed about it).
func foldOver(c *Ctx, info *types.Info, fd *ast.FuncDecl, operands []types.Object, accept, delegates map[string]bool, depth int) string {
	isOperand := func(e ast.Expr) bool {
		for _, p := range operands {
			if isObj(info, e, p) {
				return true
			}
		}
		return false
	}
	loops := loopsIn(fd.Body)
	if len(loops) == 0 {
		ok := false
		res := "skip: the operand is neither enumerated in the method nor handed to a method or helper that enumerates it"
		ast.Inspect(fd.Body, func(x ast.Node) bool {
			call, isCall := x.(*ast.CallExpr)
			if !isCall {
				return true
			}
			for ai, a := range call.Args {
				if !isOperand(a) {
					continue
				}
				if _, mname, _, isM := methodCall(call); isM && delegates[mname] {
					ok = true
					continue
				}
				cf := calleeOf(info, call)
				if cf == nil || depth >= 3 {
					continue
				}
				hd := c.declOf(cf.Origin())
				if hd == nil || hd.Body == nil || hd == fd {
					continue
				}
				hinfo := c.infoFor(hd)
				hp := paramObjs(hinfo, hd)
				if ai >= len(hp) {
					continue
				}
				// a visiting helper: for each element of the operand call the function it is handed, stop
				// when that function says false.  Then the function literal at the call site is the loop body.
				if v := visitorFold(c, info, hinfo, hd, hp[ai], call, accept); v != "n/a" {
					if v == "" {
						ok = true
					} else if !strings.HasPrefix(v, "skip:") {
						res = v
					}
					continue
				}
				sub := foldOver(c, hinfo, hd, []types.Object{hp[ai]}, accept, delegates, depth+1)
				if sub == "" {
					ok = true
				} else if !strings.HasPrefix(sub, "skip:") {
					res = "in the helper " + cf.Name() + ": " + sub
				}
			}
			return true
		})
		if ok {
			return ""
		}
		return res
	}
	if len(loops) != 1 {
		return fmt.Sprintf("skip: %d loops; the fold rule is bound to one loop over the operand", len(loops))
	}
	it, bad := coveringLoop(c, info, loops[0])
	if bad != "" {
		return bad
	}
	if w := conditionalStepNeverRead(c, info, fd, loops[0]); w != "" {
		return w
	}
	// the iterator enumerates a parameter
	srcOK := false
	ast.Inspect(fd.Body, func(x ast.Node) bool {
		if lhs, rhs, ok := multiDef(x); ok && len(lhs) == 1 && it != nil && identObj(info, lhs[0]) == it {
			if rx, mname, _, ok := methodCall(ast.Unparen(rhs)); ok && mname == "GetIterator" {
				if isOperand(rx) {
					srcOK = true
				}
			}
		}
		return true
	})
	if rs, ok := loops[0].(*ast.RangeStmt); ok {
		src := ast.Unparen(rs.X)
		if id, isID := src.(*ast.Ident); isID && !isOperand(id) {
			src = ast.Unparen(resolveInitIn(info, fd.Body, id))
		}
		if isOperand(src) {
			srcOK = true
		}
		if rx, mname, _, ok := methodCall(src); ok && mname == "AsArray" && isOperand(rx) {
			srcOK = true
		}
	}
	if !srcOK {
		return "skip: the loop does not enumerate the operand directly"
	}
	var body *ast.BlockStmt
	var elem types.Object
	switch l := loops[0].(type) {
	case *ast.ForStmt:
		body = l.Body
	case *ast.RangeStmt:
		body = l.Body
		elem = identObj(info, l.Value)
	}
	usesElem := func(call *ast.CallExpr) bool {
		uses := false
		for _, a := range call.Args {
			ast.Inspect(a, func(y ast.Node) bool {
				if id, ok := y.(*ast.Ident); ok && elem != nil && info.Uses[id] == elem {
					uses = true
				}
				return true
			})
			src := resolveInitIn(info, body, a)
			if methodCallOn(info, src, it, "GetNext") {
				uses = true
			}
			ast.Inspect(src, func(y ast.Node) bool {
				if id, ok := y.(*ast.Ident); ok && elem != nil && info.Uses[id] == elem {
					uses = true
				}
				return true
			})
			if methodCallOn(info, ast.Unparen(a), it, "GetNext") {
				uses = true
			}
		}
		return uses
	}
	found, conditional := false, false
	for _, s := range body.List {
		if lhs, rhs, ok := multiDefStmt(s); ok && len(lhs) == 1 && it != nil && methodCallOn(info, ast.Unparen(rhs), it, "GetNext") {
			elem = identObj(info, lhs[0])
			continue
		}
		nested := false
		switch s.(type) {
		case *ast.IfStmt, *ast.SwitchStmt, *ast.ForStmt, *ast.RangeStmt, *ast.TypeSwitchStmt:
			nested = true
		}
		ast.Inspect(s, func(x ast.Node) bool {
			if _, mname, call, ok := methodCall(x); ok && accept[mname] && len(call.Args) >= 1 && usesElem(call) {
				if nested {
					conditional = true
				} else {
					found = true
				}
			}
			return true
		})
	}
	if !found {
		var names []string
		for n := range accept {
			names = append(names, n)
		}
		sort.Strings(names)
		if conditional {
			return "the loop body applies " + strings.Join(names, "/") + " to the element it visits only under a condition: not every element of the operand is processed"
		}
		return "skip: the loop body does not call " + strings.Join(names, "/") + " with the element it visits"
	}
	return ""
}

// sameTypeCallGraph: method name -> names of methods of the same named type it calls on its receiver.
func (c *Ctx) sameTypeCallGraph(n *types.Named) map[string]map[string]bool {
	role := c.roleOf(n.Obj().Pkg())
	info := c.info(role)
	g := map[string]map[string]bool{}
	for name, fd := range c.methodsOf(n) {
		g[name] = map[string]bool{}
		recv := recvObj(info, fd)
		ast.Inspect(fd.Body, func(x ast.Node) bool {
			if call, ok := x.(*ast.CallExpr); ok {
				if cf := calleeOf(info, call); cf != nil && recvNamed(cf) != nil && recvNamed(cf).Origin() == n.Origin() {
					if rx, _, _, ok := methodCall(call); ok && isObj(info, rx, recv) {
						g[name][cf.Name()] = true
					}
				}
			}
			// a method value of the receiver handed on (visit(values, v.ContainsValue))
			if se, ok := x.(*ast.SelectorExpr); ok && isObj(info, se.X, recv) {
				if sel, ok := info.Selections[se]; ok && sel.Kind() == types.MethodVal {
					if fn, ok := sel.Obj().(*types.Func); ok && recvNamed(fn) != nil && recvNamed(fn).Origin() == n.Origin() {
						g[name][fn.Name()] = true
					}
				}
			}
			return true
		})
	}
	return g
}

// reachers: the methods from which a method satisfying pred is reachable (reflexive).
func reachers(g map[string]map[string]bool, pred func(name string) bool) map[string]bool {
	out := map[string]bool{}
	for n := range g {
		if pred(n) {
			out[n] = true
		}
	}
	for changed := true; changed; {
		changed = false
		for n, cs := range g {
			if out[n] {
				continue
			}
			for cal := range cs {
				if out[cal] {
					out[n] = true
					changed = true
				}
			}
		}
	}
	return out
}

// checkRemoveWhileIndexing: a counting loop that reads X at its counter (X.GetValue(i), X[i])
// and removes from the same X in its body must not advance the counter on the removing path:
// the element that slides into the vacated position is otherwise never examined.
func checkRemoveWhileIndexing(c *Ctx, r *Rec, rule string, info *types.Info, fds []*ast.FuncDecl) int {
	n := 0
	for _, fd := range fds {
		if fd.Body == nil {
			continue
		}
		for li, loop := range loopsIn(fd.Body) {
			fs, ok := loop.(*ast.ForStmt)
			if !ok || fs.Post == nil {
				continue
			}
			inc, ok := fs.Post.(*ast.IncDecStmt)
			if !ok || inc.Tok != token.INC {
				continue
			}
			counter := identObj(info, inc.X)
			if counter == nil {
				continue
			}
			// the collection read at the counter
			var coll types.Object
			inspectNoLit(fs.Body, func(x ast.Node) bool {
				if rx, mname, call, ok := methodCall(x); ok && mname == "GetValue" && len(call.Args) == 1 && isObj(info, call.Args[0], counter) {
					coll = identObj(info, rx)
				}
				if ix, ok := x.(*ast.IndexExpr); ok && isObj(info, ix.Index, counter) {
					if o := identObj(info, ix.X); o != nil {
						coll = o
					}
				}
				return true
			})
			if coll == nil {
				continue
			}
			// removals from that collection, and whether the same block steps the counter back
			inspectNoLit(fs.Body, func(x ast.Node) bool {
				blk, ok := x.(*ast.BlockStmt)
				if !ok {
					return true
				}
				var removal ast.Node
				back := false
				for _, st := range blk.List {
					if es, ok := st.(*ast.ExprStmt); ok {
						if rx, mname, _, ok := methodCall(es.X); ok && isObj(info, rx, coll) && (mname == "RemoveValue" || mname == "RemoveValues") {
							removal = es
						}
					}
					if as, ok := st.(*ast.AssignStmt); ok {
						for _, rhs := range as.Rhs {
							if rx, mname, _, ok := methodCall(ast.Unparen(rhs)); ok && isObj(info, rx, coll) && (mname == "RemoveValue" || mname == "RemoveValues") {
								removal = as
							}
						}
					}
					if d, ok := st.(*ast.IncDecStmt); ok && d.Tok == token.DEC && identObj(info, d.X) == counter {
						back = true
					}
					if as, ok := st.(*ast.AssignStmt); ok && as.Tok == token.SUB_ASSIGN && len(as.Lhs) == 1 && identObj(info, as.Lhs[0]) == counter {
						back = true
					}
					if b, ok := st.(*ast.BranchStmt); ok && b.Tok == token.BREAK {
						back = true // the loop ends after the removal
					}
					if _, ok := st.(*ast.ReturnStmt); ok {
						back = true
					}
				}
				if removal != nil {
					n++
					construct := fmt.Sprintf("%s/loop#%d", c.fdName(fd), li+1)
					r.check(back, rule, construct, c.pos(removal.Pos()), "after a removal the counter is stepped back (or the loop ends)",
						fmt.Sprintf("the loop reads %s at the counter %s and removes from %s in its body, but still advances the counter after a removal: the element that moves into the vacated position is skipped", coll.Name(), counter.Name(), coll.Name()))
				}
				return true
			})
		}
	}
	return n
}

// visitorFold: hd enumerates its parameter `operand` and calls a function-typed parameter with
// each element, leaving its loop only when that function returns false; the call site passes a
// function literal.  Returns "n/a" when hd is not such a helper; "" when the literal applies an
// accepted operation to every element and never asks to stop; a complaint otherwise.
func visitorFold(c *Ctx, info, hinfo *types.Info, hd *ast.FuncDecl, operand types.Object, call *ast.CallExpr, accept map[string]bool) string {
	hp := paramObjs(hinfo, hd)
	var visitor types.Object
	vi := -1
	for i, p := range hp {
		if _, isSig := p.Type().Underlying().(*types.Signature); isSig {
			visitor, vi = p, i
		}
	}
	loops := loopsIn(hd.Body)
	if visitor == nil || len(loops) != 1 || vi >= len(call.Args) {
		return "n/a"
	}
	lit, ok := ast.Unparen(call.Args[vi]).(*ast.FuncLit)
	if !ok {
		return "n/a"
	}
	// the helper's loop: covering over the operand, except for exits guarded by the visitor's answer
	var body *ast.BlockStmt
	switch l := loops[0].(type) {
	case *ast.ForStmt:
		if l.Cond == nil || findIterCond(hinfo, l.Cond, "HasNext") == nil {
			return "n/a"
		}
		if _, isCall := ast.Unparen(l.Cond).(*ast.CallExpr); !isCall {
			return "n/a"
		}
		body = l.Body
	case *ast.RangeStmt:
		body = l.Body
	}
	calls := 0
	exitsOK := true
	ast.Inspect(body, func(x ast.Node) bool {
		if cl, ok := x.(*ast.CallExpr); ok && isObj(hinfo, cl.Fun, visitor) {
			calls++
		}
		switch st := x.(type) {
		case *ast.ReturnStmt, *ast.BranchStmt:
			// must sit in an if whose condition is the (negated) visitor call
			guarded := false
			for _, p := range pathTo(body, st.(ast.Node)) {
				if is, ok := p.(*ast.IfStmt); ok {
					found := false
					ast.Inspect(is.Cond, func(y ast.Node) bool {
						if cl, ok := y.(*ast.CallExpr); ok && isObj(hinfo, cl.Fun, visitor) {
							found = true
						}
						return true
					})
					if found {
						guarded = true
					}
				}
			}
			if !guarded {
				exitsOK = false
			}
		}
		return true
	})
	if calls != 1 {
		return "n/a"
	}
	if !exitsOK {
		return "in the helper " + hd.Name.Name + ": the traversal can stop for a reason other than the visitor's answer: not every element of the operand is processed"
	}
	// the literal: applies an accepted operation to its parameter and always answers true
	lp := lit.Type.Params
	if lp == nil || len(lp.List) == 0 {
		return "skip: the visitor takes no element"
	}
	var elems []types.Object
	for _, f := range lp.List {
		for _, nm := range f.Names {
			elems = append(elems, info.Defs[nm])
		}
	}
	stops := false
	ast.Inspect(lit.Body, func(x ast.Node) bool {
		if rs, ok := x.(*ast.ReturnStmt); ok && len(rs.Results) == 1 {
			if tv := info.Types[rs.Results[0]]; tv.Value == nil || tv.Value.String() != "true" {
				stops = true
			}
		}
		return true
	})
	applied, conditional := false, false
	for _, st := range lit.Body.List {
		nested := false
		switch st.(type) {
		case *ast.IfStmt, *ast.SwitchStmt, *ast.ForStmt, *ast.RangeStmt:
			nested = true
		}
		ast.Inspect(st, func(x ast.Node) bool {
			if _, mname, cl, ok := methodCall(x); ok && accept[mname] {
				uses := false
				for _, a := range cl.Args {
					ast.Inspect(a, func(y ast.Node) bool {
						if id, ok := y.(*ast.Ident); ok {
							for _, e := range elems {
								if e != nil && info.Uses[id] == e {
									uses = true
								}
							}
							if init := initOfIn(info, lit.Body, id); init != nil {
								ast.Inspect(init, func(z ast.Node) bool {
									if id2, ok := z.(*ast.Ident); ok {
										for _, e := range elems {
											if e != nil && info.Uses[id2] == e {
												uses = true
											}
										}
									}
									return true
								})
							}
						}
						return true
					})
				}
				if uses {
					if nested {
						conditional = true
					} else {
						applied = true
					}
				}
			}
			return true
		})
	}
	switch {
	case stops:
		return "the function handed to " + hd.Name.Name + " can answer false, which stops the traversal: not every element of the operand is processed"
	case applied:
		return ""
	case conditional:
		return "the function handed to " + hd.Name.Name + " applies the operation to the element it visits only under a condition: not every element of the operand is processed"
	}
	return "skip: the function handed to " + hd.Name.Name + " does not apply the expected operation to the element it visits"
}

// checkResetCompleteness: RemoveAll takes a collection back to its state at birth.  Every field
// that some other method assigns (a counter, a flag, a cache, a replaced container) is part of
// that state; a field of this kind that RemoveAll - directly or through an unexported method it
// calls - does not assign keeps its old value into the collection's next life.
func checkResetCompleteness(c *Ctx, r *Rec, rule string, n *types.Named) {
	if n == nil {
		return
	}
	checkResetOnEveryPath(c, r, rule, n)
	role := c.roleOf(n.Obj().Pkg())
	ms := c.methodsOf(n)
	reset := ms["RemoveAll"]
	st := structOf(n)
	if reset == nil || reset.Body == nil || st == nil {
		return
	}
	// RemoveAll and the unexported methods it reaches
	cg := c.sameTypeCallGraph(n)
	inReset := map[string]bool{"RemoveAll": true}
	for work := []string{"RemoveAll"}; len(work) > 0; {
		cur := work[0]
		work = work[1:]
		for callee := range cg[cur] {
			if !inReset[callee] && !ast.IsExported(callee) {
				inReset[callee] = true
				work = append(work, callee)
			}
		}
	}
	fw := c.fieldWrites()
	for i := 0; i < st.NumFields(); i++ {
		f := st.Field(i)
		var elsewhere *fieldWrite
		resetHere := false
		for wi := range fw[f.Origin()] {
			w := fw[f.Origin()][wi]
			if w.In == nil || w.In.Recv == nil || !(strings.HasPrefix(w.How, "assigned") || strings.HasPrefix(w.How, "stepped")) {
				continue
			}
			if rn := recvNamedOfDecl(c, w.In); rn == nil || rn.Origin() != n.Origin() {
				continue
			}
			if inReset[w.In.Name.Name] {
				resetHere = true
			} else if elsewhere == nil {
				elsewhere = &fw[f.Origin()][wi]
			}
		}
		if elsewhere == nil {
			continue
		}
		// a remembered payload (a value of the element type) is harmless once the counter or
		// flag that validates it is reset: only counters, flags and containers are state proper
		switch u := f.Type().Underlying().(type) {
		case *types.Basic:
			if u.Info()&(types.IsNumeric|types.IsBoolean) == 0 {
				continue
			}
		case *types.Slice, *types.Map, *types.Chan, *types.Pointer:
		default:
			if !isCollectionLike(f.Type()) {
				continue
			}
		}
		construct := role + "." + n.Obj().Name() + "." + f.Name()
		if resetHere {
			r.ok(rule, construct, c.pos(f.Pos()), "assigned by other methods and assigned again by RemoveAll")
		} else {
			r.fail(rule, construct, c.pos(elsewhere.Pos), fmt.Sprintf("the field is %s in %s but RemoveAll does not assign it: after RemoveAll the collection starts its next life with the old %s", elsewhere.How, elsewhere.In.Name.Name, f.Name()))
		}
	}
}

func recvNamedOfDecl(c *Ctx, fd *ast.FuncDecl) *types.Named {
	if fn := c.funcOf(fd); fn != nil {
		return recvNamed(fn)
	}
	return nil
}

// conditionalStepNeverRead: a position counter declared outside the loop that is stepped only on
// some paths through the loop body (under an if, or behind a guard that skips the rest of the
// round) and never read after the loop.  A counter that compacts (count the hits, then cut the
// result to the count) is read afterwards; one that is not read afterwards was meant to run in
// step with the loop, and every round that skips the step stores the following elements one
// position early and leaves the last positions unfilled.
func conditionalStepNeverRead(c *Ctx, info *types.Info, fd *ast.FuncDecl, loop ast.Stmt) string {
	var body *ast.BlockStmt
	switch l := loop.(type) {
	case *ast.ForStmt:
		body = l.Body
	case *ast.RangeStmt:
		body = l.Body
	}
	if body == nil {
		return ""
	}
	res := ""
	for _, st := range body.List {
		is, ok := st.(*ast.IfStmt)
		if !ok {
			continue
		}
		ast.Inspect(is, func(x ast.Node) bool {
			inc, ok := x.(*ast.IncDecStmt)
			if !ok || res != "" {
				return true
			}
			o := identObj(info, inc.X)
			if o == nil || (o.Pos() >= loop.Pos() && o.Pos() < loop.End()) {
				return true
			}
			// used as a position inside the loop body?
			positional := false
			ast.Inspect(body, func(y ast.Node) bool {
				switch e := y.(type) {
				case *ast.IndexExpr:
					ast.Inspect(e.Index, func(z ast.Node) bool {
						if id, ok := z.(*ast.Ident); ok && info.Uses[id] == o {
							positional = true
						}
						return true
					})
				case *ast.CallExpr:
					if _, mname, call, ok := methodCall(e); ok && (mname == "SetValue" || mname == "InsertValue") && len(call.Args) >= 1 {
						ast.Inspect(call.Args[0], func(z ast.Node) bool {
							if id, ok := z.(*ast.Ident); ok && info.Uses[id] == o {
								positional = true
							}
							return true
						})
					}
				}
				return true
			})
			if !positional {
				return true
			}
			readAfter := false
			ast.Inspect(fd.Body, func(y ast.Node) bool {
				if id, ok := y.(*ast.Ident); ok && info.Uses[id] == o && id.Pos() > loop.End() {
					readAfter = true
				}
				return true
			})
			if !readAfter {
				res = fmt.Sprintf("the position %s is stepped at %s only on some paths through the loop body and is never read after the loop: a round that skips the step stores the elements that follow one position early, and the last positions keep their zero values", o.Name(), c.pos(inc.Pos()))
			}
			return true
		})
	}
	return res
}
