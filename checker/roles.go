package main

// Role binding: private types, fields and helpers are found through the public
// interfaces they implement and through their shapes, never by spelling.

import (
	"fmt"
	"go/ast"
	"go/types"
)

// impl returns the unique repository type implementing the public interface
// role.iface (e.g. collection.ListLike).
func (c *Ctx) impl(role, iface string) (*types.Named, error) {
	key := "impl:" + role + "." + iface
	if v, ok := c.cache[key]; ok {
		if n, ok := v.(*types.Named); ok {
			return n, nil
		}
		return nil, v.(error)
	}
	it := c.named(role, iface)
	var err error
	var res *types.Named
	if it == nil {
		err = fmt.Errorf("public interface %s.%s not found", role, iface)
	} else {
		var ims []*types.Named
		for _, n := range c.implementers(it) {
			if implementsInst(n, it) {
				ims = append(ims, n)
			}
		}
		if len(ims) != 1 {
			var names []string
			for _, n := range ims {
				names = append(names, n.Obj().Name())
			}
			err = fmt.Errorf("expected exactly one implementation of %s.%s, found %v", role, iface, names)
		} else {
			res = ims[0]
		}
	}
	if err != nil {
		c.cache[key] = err
		return nil, err
	}
	c.cache[key] = res
	return res, nil
}

// mustImpl is impl that records an undecided obligation on failure.
func (c *Ctx) mustImpl(r *Rec, rule, role, iface string) *types.Named {
	n, err := c.impl(role, iface)
	if err != nil {
		r.undecided(rule, role+"."+iface, "", "anchor cannot be bound: "+err.Error())
		return nil
	}
	return n
}

// fieldsOfIface returns the fields of struct type n whose type is the named
// interface role.iface.
func (c *Ctx) fieldOfIface(n *types.Named, role, iface string) *types.Var {
	st := structOf(n)
	if st == nil {
		return nil
	}
	for i := 0; i < st.NumFields(); i++ {
		f := st.Field(i)
		if nn := derefNamed(f.Type()); nn != nil && nn.Obj().Name() == iface && c.roleOf(nn.Obj().Pkg()) == role {
			return f
		}
	}
	return nil
}

// recvIdent returns the receiver identifier object of a method declaration.
func recvObj(info *types.Info, fd *ast.FuncDecl) types.Object {
	if fd.Recv == nil || len(fd.Recv.List) == 0 || len(fd.Recv.List[0].Names) == 0 {
		return nil
	}
	return info.Defs[fd.Recv.List[0].Names[0]]
}

// paramObjs returns the parameter objects of a declaration, flattened.
func paramObjs(info *types.Info, fd *ast.FuncDecl) []*types.Var {
	var out []*types.Var
	if fd.Type.Params == nil {
		return nil
	}
	for _, f := range fd.Type.Params.List {
		for _, n := range f.Names {
			if v, ok := info.Defs[n].(*types.Var); ok {
				out = append(out, v)
			}
		}
	}
	return out
}

// isRecv reports whether e is the receiver identifier.
func isObj(info *types.Info, e ast.Expr, obj types.Object) bool {
	id, ok := ast.Unparen(e).(*ast.Ident)
	return ok && obj != nil && info.Uses[id] == obj
}

// isRecvOrStorage: e is the receiver, or receiver.field (any field).
func recvRooted(info *types.Info, e ast.Expr, recv types.Object) bool {
	e = ast.Unparen(e)
	if isObj(info, e, recv) {
		return true
	}
	if se, ok := e.(*ast.SelectorExpr); ok {
		if selectorField(info, se) != nil && isObj(info, se.X, recv) {
			return true
		}
	}
	return false
}

// methodCall decomposes  recvExpr.name(args)  calls.
func methodCall(e ast.Node) (recv ast.Expr, name string, call *ast.CallExpr, ok bool) {
	call, ok = e.(*ast.CallExpr)
	if !ok {
		return
	}
	sel, ok2 := ast.Unparen(call.Fun).(*ast.SelectorExpr)
	if !ok2 {
		return nil, "", nil, false
	}
	return sel.X, sel.Sel.Name, call, true
}

// unexportedIntToInt lists the private func(int) int methods of a type.
func (c *Ctx) unexportedIntToInt(n *types.Named) []*ast.FuncDecl {
	var out []*ast.FuncDecl
	for _, name := range sortedKeys(c.methodsOf(n)) {
		fd := c.methodsOf(n)[name]
		if ast.IsExported(name) {
			continue
		}
		fn := c.funcOf(fd)
		sig := fn.Type().(*types.Signature)
		if sig.Params().Len() == 1 && sig.Results().Len() == 1 && isIntegerType(sig.Params().At(0).Type()) && isIntegerType(sig.Results().At(0).Type()) {
			out = append(out, fd)
		}
	}
	return out
}

// instInt instantiates a generic named type with int for every type parameter.
func instInt(n *types.Named) types.Type {
	n = n.Origin()
	tp := n.TypeParams()
	if tp == nil || tp.Len() == 0 {
		return n
	}
	args := make([]types.Type, tp.Len())
	for i := range args {
		args[i] = types.Typ[types.Int]
	}
	t, err := types.Instantiate(nil, n, args, false)
	if err != nil {
		return nil
	}
	return t
}

// implementsInst: does n (or *n), instantiated at int, implement iface instantiated at int?
func implementsInst(n, iface *types.Named) bool {
	tn, ti := instInt(n), instInt(iface)
	if tn == nil || ti == nil {
		return false
	}
	it, ok := ti.Underlying().(*types.Interface)
	if !ok {
		return false
	}
	return types.Implements(tn, it) || types.Implements(types.NewPointer(tn), it)
}

// multiDef decomposes `a, b := f()` / `a, b = f()` / `var a, b = f()` nodes.
func multiDef(x ast.Node) (lhs []ast.Expr, rhs ast.Expr, ok bool) {
	switch s := x.(type) {
	case *ast.AssignStmt:
		if len(s.Rhs) == 1 && len(s.Lhs) >= 1 {
			return s.Lhs, s.Rhs[0], true
		}
	case *ast.ValueSpec:
		if len(s.Values) == 1 && len(s.Names) >= 1 {
			for _, n := range s.Names {
				lhs = append(lhs, n)
			}
			return lhs, s.Values[0], true
		}
	}
	return nil, nil, false
}

// identObj resolves an identifier expression to its object (definition or use).
func identObj(info *types.Info, e ast.Expr) types.Object {
	id, ok := ast.Unparen(e).(*ast.Ident)
	if !ok {
		return nil
	}
	if o := info.Defs[id]; o != nil {
		return o
	}
	return info.Uses[id]
}
