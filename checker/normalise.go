package main

// Normal forms.  Several spellings of one statement mean the same thing to Go and must mean the
// same thing to the rules that read the syntax tree.  After the program has been type-checked and
// its SSA form built, the trees are brought into one spelling (the one the pinned tree uses), so
// that no rule has to know the others:
//
//	for { if !c { break }; body }        ->  for c { body }
//	x = x + 1, x += 1, x = x - 1, x -= 1 ->  x++, x--
//	if c { continue }; rest (in a loop)  ->  if !c { rest }
//	v, ok := read(); for ok { body; v, ok = read() }        ->  for { v, ok := read(); if !ok { break }; body }
//	done := false; for !done { head; if c { done = true } else { rest } }  ->  for { head; if c { break }; rest }
//
// Only forms that are exactly equivalent are touched (no init or post statement on the loop, an
// `if` without init and else whose body is a single unlabelled break).  The flow graphs are built
// from the normalised trees; the SSA form is built before and is not affected.

import (
	"go/ast"
	"go/token"
	"go/types"

	"golang.org/x/tools/go/ast/astutil"
)

// plainBooleans: `b == true`, `b != false` -> b ; `b == false`, `b != true` -> !b  (the operand is
// of type bool; the comparison adds nothing).
func plainBooleans(c *Ctx) int {
	total := 0
	for _, p := range c.All {
		info := p.TypesInfo
		constBool := func(e ast.Expr) (bool, bool) {
			tv, ok := info.Types[e]
			if !ok || tv.Value == nil || tv.Type == nil || !isBoolType(tv.Type) {
				return false, false
			}
			return tv.Value.ExactString() == "true", true
		}
		for _, f := range p.Syntax {
			astutil.Apply(f, nil, func(cur *astutil.Cursor) bool {
				be, ok := cur.Node().(*ast.BinaryExpr)
				if !ok || (be.Op != token.EQL && be.Op != token.NEQ) {
					return true
				}
				var operand ast.Expr
				var k bool
				if v, isC := constBool(be.Y); isC {
					operand, k = be.X, v
				} else if v, isC := constBool(be.X); isC {
					operand, k = be.Y, v
				} else {
					return true
				}
				if t := info.TypeOf(operand); t == nil || !isBoolType(t) {
					return true
				}
				if _, isC := constBool(operand); isC {
					return true
				}
				positive := (be.Op == token.EQL) == k
				var repl ast.Expr = &ast.ParenExpr{Lparen: be.Pos(), X: operand, Rparen: be.End() - 1}
				if !positive {
					repl = &ast.UnaryExpr{OpPos: be.Pos(), Op: token.NOT, X: operand}
				}
				info.Types[repl] = types.TypeAndValue{Type: types.Typ[types.Bool]}
				cur.Replace(repl)
				total++
				return true
			})
		}
	}
	return total
}

func normaliseAST(c *Ctx) int {
	n := 0
	// twice: a private getter written in the same style (`result = v.f; return result`) is an
	// accessor only after its own body has been brought to the normal form
	for round := 0; round < 2; round++ {
		m := plainBooleans(c)
		m += inlineEmbeddedHelpers(c)
		m += rangeDefines(c)
		m += dropZeroDeclarations(c)
		m += inlineFieldCopies(c)
		m += inlineLocalCopies(c)
		m += threeStepExchanges(c)
		n += m
		if m == 0 {
			break
		}
	}
	c.NInlined = n
	for _, p := range c.All {
		info := p.TypesInfo
		negate := func(cond ast.Expr) ast.Expr {
			cond = ast.Unparen(cond)
			if u, ok := cond.(*ast.UnaryExpr); ok && u.Op == token.NOT {
				return u.X
			}
			if b, ok := cond.(*ast.BinaryExpr); ok {
				flip := map[token.Token]token.Token{token.LSS: token.GEQ, token.GEQ: token.LSS, token.GTR: token.LEQ, token.LEQ: token.GTR, token.EQL: token.NEQ, token.NEQ: token.EQL}
				if op, ok := flip[b.Op]; ok {
					// not for floating point operands: !(a < b) is not a >= b when one is NaN
					if t := info.TypeOf(b.X); t != nil {
						if bt, ok := t.Underlying().(*types.Basic); ok && bt.Info()&(types.IsFloat|types.IsComplex) != 0 {
							goto plain
						}
					}
					nb := &ast.BinaryExpr{X: b.X, OpPos: b.OpPos, Op: op, Y: b.Y}
					info.Types[nb] = types.TypeAndValue{Type: types.Typ[types.Bool]}
					return nb
				}
			}
		plain:
			nu := &ast.UnaryExpr{OpPos: cond.Pos(), Op: token.NOT, X: cond}
			info.Types[nu] = types.TypeAndValue{Type: types.Typ[types.Bool]}
			return nu
		}
		step := func(s ast.Stmt) ast.Stmt {
			as, ok := s.(*ast.AssignStmt)
			if !ok || len(as.Lhs) != 1 || len(as.Rhs) != 1 {
				return s
			}
			isOne := func(e ast.Expr) bool {
				tv, ok := info.Types[e]
				return ok && tv.Value != nil && tv.Value.ExactString() == "1"
			}
			if t := info.TypeOf(as.Lhs[0]); t != nil {
				if bt, ok := t.Underlying().(*types.Basic); !ok || bt.Info()&types.IsInteger == 0 {
					return s
				}
			}
			lhs := types.ExprString(as.Lhs[0])
			switch as.Tok {
			case token.ADD_ASSIGN, token.SUB_ASSIGN:
				if isOne(as.Rhs[0]) {
					n++
					tok := token.INC
					if as.Tok == token.SUB_ASSIGN {
						tok = token.DEC
					}
					return &ast.IncDecStmt{X: as.Lhs[0], TokPos: as.TokPos, Tok: tok}
				}
			case token.ASSIGN:
				if be, ok := ast.Unparen(as.Rhs[0]).(*ast.BinaryExpr); ok && (be.Op == token.ADD || be.Op == token.SUB) {
					if types.ExprString(be.X) == lhs && isOne(be.Y) {
						n++
						tok := token.INC
						if be.Op == token.SUB {
							tok = token.DEC
						}
						return &ast.IncDecStmt{X: as.Lhs[0], TokPos: as.TokPos, Tok: tok}
					}
				}
			}
			return s
		}
		fixList := func(list []ast.Stmt) {
			for i, s := range list {
				list[i] = step(s)
			}
		}
		// a guard that skips the rest of a round:  if c { continue }; rest  ->  if !c { rest }
		var unguard func(list []ast.Stmt) []ast.Stmt
		unguard = func(list []ast.Stmt) []ast.Stmt {
			for i, st := range list {
				is, ok := st.(*ast.IfStmt)
				if !ok || is.Init != nil || is.Else != nil || len(is.Body.List) != 1 {
					continue
				}
				br, ok := is.Body.List[0].(*ast.BranchStmt)
				if !ok || br.Tok != token.CONTINUE || br.Label != nil {
					continue
				}
				rest := unguard(append([]ast.Stmt{}, list[i+1:]...))
				n++
				if len(rest) == 0 {
					c.NoopGuards = append(c.NoopGuards, is)
					return list[:i]
				}
				// a declaration in the rest that is used after... there is no "after": the rest runs
				// to the end of the round, so moving it into a block changes no scope that matters
				ni := &ast.IfStmt{If: is.If, Cond: negate(is.Cond), Body: &ast.BlockStmt{Lbrace: is.Body.Lbrace, List: rest, Rbrace: is.Body.Rbrace}}
				return append(append([]ast.Stmt{}, list[:i]...), ni)
			}
			return list
		}
		usedIn := func(nodes []ast.Stmt, objs ...types.Object) bool {
			hit := false
			for _, nd := range nodes {
				ast.Inspect(nd, func(y ast.Node) bool {
					if id, ok := y.(*ast.Ident); ok {
						for _, o := range objs {
							if o != nil && (info.Uses[id] == o) {
								hit = true
							}
						}
					}
					return true
				})
			}
			return hit
		}
		hasOwnContinue := func(body *ast.BlockStmt) bool {
			found := false
			var walk func(n ast.Node)
			walk = func(n ast.Node) {
				ast.Inspect(n, func(y ast.Node) bool {
					switch b := y.(type) {
					case *ast.ForStmt, *ast.RangeStmt, *ast.FuncLit:
						if y != ast.Node(body) {
							return false
						}
					case *ast.BranchStmt:
						if b.Tok == token.CONTINUE {
							found = true
						}
					}
					return true
				})
			}
			walk(body)
			return found
		}
		defObjs := func(st ast.Stmt) ([]types.Object, ast.Expr) {
			// var a, b = CALL   or   a, b := CALL
			switch d := st.(type) {
			case *ast.DeclStmt:
				if gd, ok := d.Decl.(*ast.GenDecl); ok && len(gd.Specs) == 1 {
					if vs, ok := gd.Specs[0].(*ast.ValueSpec); ok && len(vs.Values) == 1 {
						var out []types.Object
						for _, nm := range vs.Names {
							out = append(out, info.Defs[nm])
						}
						return out, vs.Values[0]
					}
				}
			case *ast.AssignStmt:
				if d.Tok == token.DEFINE && len(d.Rhs) == 1 {
					var out []types.Object
					for _, l := range d.Lhs {
						if id, ok := l.(*ast.Ident); ok {
							out = append(out, info.Defs[id])
						} else {
							return nil, nil
						}
					}
					return out, d.Rhs[0]
				}
			}
			return nil, nil
		}
		// primed and flag-controlled loops, judged where the loop stands in its block
		reloop := func(list []ast.Stmt) []ast.Stmt {
			for i := 1; i < len(list); i++ {
				fs, ok := list[i].(*ast.ForStmt)
				if !ok || fs.Init != nil || fs.Post != nil || fs.Cond == nil || len(fs.Body.List) == 0 {
					continue
				}
				objs, call := defObjs(list[i-1])
				// ---- primed:  v, ok := read(); for ok { body; v, ok = read() }
				if cid, isID := ast.Unparen(fs.Cond).(*ast.Ident); isID && len(objs) == 2 && call != nil && info.Uses[cid] == objs[1] {
					last, isAs := fs.Body.List[len(fs.Body.List)-1].(*ast.AssignStmt)
					if isAs && last.Tok == token.ASSIGN && len(last.Lhs) == 2 && len(last.Rhs) == 1 &&
						identObj(info, last.Lhs[0]) == objs[0] && identObj(info, last.Lhs[1]) == objs[1] &&
						types.ExprString(last.Rhs[0]) == types.ExprString(call) &&
						!usedIn(list[i+1:], objs...) && !hasOwnContinue(fs.Body) {
						guardCond := &ast.UnaryExpr{OpPos: fs.Cond.Pos(), Op: token.NOT, X: fs.Cond}
						info.Types[guardCond] = types.TypeAndValue{Type: types.Typ[types.Bool]}
						guard := &ast.IfStmt{If: fs.For, Cond: guardCond, Body: &ast.BlockStmt{List: []ast.Stmt{&ast.BranchStmt{TokPos: fs.For, Tok: token.BREAK}}}}
						body := append([]ast.Stmt{list[i-1], guard}, fs.Body.List[:len(fs.Body.List)-1]...)
						fs.Cond = nil
						fs.Body.List = body
						n++
						out := append([]ast.Stmt{}, list[:i-1]...)
						out = append(out, list[i:]...)
						return out
					}
				}
				// ---- primed by two statements:  q = it.GetNext(); v, ok = q.Read(); for ok { body; q = it.GetNext(); v, ok = q.Read() }
				if cid, isID := ast.Unparen(fs.Cond).(*ast.Ident); isID && i >= 2 && len(fs.Body.List) >= 3 && !hasOwnContinue(fs.Body) {
					sameAssign := func(a, b ast.Stmt) ([]types.Object, bool, bool) {
						x, ok1 := a.(*ast.AssignStmt)
						y, ok2 := b.(*ast.AssignStmt)
						if !ok1 || !ok2 || y.Tok != token.ASSIGN || (x.Tok != token.ASSIGN && x.Tok != token.DEFINE) || len(x.Lhs) != len(y.Lhs) || len(x.Rhs) != len(y.Rhs) {
							return nil, false, false
						}
						var os []types.Object
						for k := range x.Lhs {
							o := identObj(info, x.Lhs[k])
							if o == nil || identObj(info, y.Lhs[k]) != o {
								return nil, false, false
							}
							os = append(os, o)
						}
						for k := range x.Rhs {
							if types.ExprString(x.Rhs[k]) != types.ExprString(y.Rhs[k]) {
								return nil, false, false
							}
						}
						return os, x.Tok == token.DEFINE, true
					}
					nb := len(fs.Body.List)
					o1, d1, ok1 := sameAssign(list[i-2], fs.Body.List[nb-2])
					o2, d2, ok2 := sameAssign(list[i-1], fs.Body.List[nb-1])
					isCond := false
					for _, o := range o2 {
						if info.Uses[cid] == o {
							isCond = true
						}
					}
					if ok1 && ok2 && isCond && !((d1 || d2) && usedIn(list[i+1:], append(o1, o2...)...)) {
						guardCond := &ast.UnaryExpr{OpPos: fs.Cond.Pos(), Op: token.NOT, X: fs.Cond}
						info.Types[guardCond] = types.TypeAndValue{Type: types.Typ[types.Bool]}
						guard := &ast.IfStmt{If: fs.For, Cond: guardCond, Body: &ast.BlockStmt{List: []ast.Stmt{&ast.BranchStmt{TokPos: fs.For, Tok: token.BREAK}}}}
						body := append([]ast.Stmt{list[i-2], list[i-1], guard}, fs.Body.List[:nb-2]...)
						fs.Cond = nil
						fs.Body.List = body
						n++
						out := append([]ast.Stmt{}, list[:i-2]...)
						out = append(out, list[i:]...)
						return out
					}
				}
				// ---- flag:  var done bool; for !done { head; if c { done = true } else { rest } }
				if u, isNot := ast.Unparen(fs.Cond).(*ast.UnaryExpr); isNot && u.Op == token.NOT {
					fid, isID := ast.Unparen(u.X).(*ast.Ident)
					if !isID {
						continue
					}
					flag := info.Uses[fid]
					// declared just before, false
					declared := false
					if ds, ok := list[i-1].(*ast.DeclStmt); ok {
						if gd, ok := ds.Decl.(*ast.GenDecl); ok && len(gd.Specs) == 1 {
							if vs, ok := gd.Specs[0].(*ast.ValueSpec); ok && len(vs.Names) == 1 && info.Defs[vs.Names[0]] == flag {
								if len(vs.Values) == 0 {
									declared = true
								} else if tv, ok := info.Types[vs.Values[0]]; ok && tv.Value != nil && tv.Value.ExactString() == "false" {
									declared = true
								}
							}
						}
					}
					if as, ok := list[i-1].(*ast.AssignStmt); ok && as.Tok == token.DEFINE && len(as.Lhs) == 1 && len(as.Rhs) == 1 {
						if id, ok := as.Lhs[0].(*ast.Ident); ok && info.Defs[id] == flag {
							if tv, ok := info.Types[as.Rhs[0]]; ok && tv.Value != nil && tv.Value.ExactString() == "false" {
								declared = true
							}
						}
					}
					if !declared || flag == nil || usedIn(list[i+1:], flag) {
						continue
					}
					// the last statement of the body: if c { done = true } [else { rest }]
					lastIf, ok := fs.Body.List[len(fs.Body.List)-1].(*ast.IfStmt)
					if !ok || lastIf.Init != nil || len(lastIf.Body.List) != 1 {
						continue
					}
					set, ok := lastIf.Body.List[0].(*ast.AssignStmt)
					if !ok || set.Tok != token.ASSIGN || len(set.Lhs) != 1 || len(set.Rhs) != 1 || identObj(info, set.Lhs[0]) != flag {
						continue
					}
					if tv, ok := info.Types[set.Rhs[0]]; !ok || tv.Value == nil || tv.Value.ExactString() != "true" {
						continue
					}
					// no other use of the flag inside the body
					other := false
					for _, st := range fs.Body.List[:len(fs.Body.List)-1] {
						if usedIn([]ast.Stmt{st}, flag) {
							other = true
						}
					}
					if lastIf.Else != nil && usedIn([]ast.Stmt{lastIf.Else}, flag) {
						other = true
					}
					if other || hasOwnContinue(fs.Body) {
						continue
					}
					lastIf.Body.List = []ast.Stmt{&ast.BranchStmt{TokPos: set.Pos(), Tok: token.BREAK}}
					body := append([]ast.Stmt{}, fs.Body.List...)
					if eb, ok := lastIf.Else.(*ast.BlockStmt); ok {
						lastIf.Else = nil
						body = append(body, eb.List...)
					} else if lastIf.Else != nil {
						el := lastIf.Else
						lastIf.Else = nil
						body = append(body, el)
					}
					fs.Cond = nil
					fs.Body.List = body
					n++
					out := append([]ast.Stmt{}, list[:i-1]...)
					out = append(out, list[i:]...)
					return out
				}
			}
			return list
		}
		// a while loop whose last statement steps the variable of its condition is a three-clause
		// loop; the declaration of that variable just before it is its init statement
		lift := func(list []ast.Stmt) []ast.Stmt {
			for i, st := range list {
				fs, ok := st.(*ast.ForStmt)
				if !ok || fs.Cond == nil || fs.Post != nil || len(fs.Body.List) == 0 || hasOwnContinue(fs.Body) {
					continue
				}
				be, ok := ast.Unparen(fs.Cond).(*ast.BinaryExpr)
				if !ok {
					continue
				}
				ctl := identObj(info, be.X)
				if ctl == nil {
					continue
				}
				last := fs.Body.List[len(fs.Body.List)-1]
				var target ast.Expr
				switch l := last.(type) {
				case *ast.IncDecStmt:
					target = l.X
				case *ast.AssignStmt:
					if len(l.Lhs) == 1 && l.Tok != token.DEFINE {
						target = l.Lhs[0]
					}
				}
				if target == nil || identObj(info, target) != ctl {
					continue
				}
				// the step must not be under a label or read something the body declares
				declaredInBody := false
				ast.Inspect(last, func(y ast.Node) bool {
					if id, ok := y.(*ast.Ident); ok {
						if o := info.Uses[id]; o != nil && o.Pos() >= fs.Body.Pos() && o.Pos() < fs.Body.End() {
							declaredInBody = true
						}
					}
					return true
				})
				if declaredInBody {
					continue
				}
				fs.Post = last
				fs.Body.List = fs.Body.List[:len(fs.Body.List)-1]
				n++
				// init: the declaration of the control variable right before the loop
				if fs.Init == nil && i > 0 {
					objs, val := defObjs(list[i-1])
					if len(objs) == 1 && objs[0] == ctl && val != nil && !usedIn(list[i+1:], ctl) {
						if _, isCall := ast.Unparen(val).(*ast.CallExpr); !isCall {
							lhs := &ast.Ident{Name: ctl.Name(), NamePos: list[i-1].Pos()}
							info.Defs[lhs] = ctl
							fs.Init = &ast.AssignStmt{Lhs: []ast.Expr{lhs}, TokPos: list[i-1].Pos(), Tok: token.DEFINE, Rhs: []ast.Expr{val}}
							out := append([]ast.Stmt{}, list[:i-1]...)
							return append(out, list[i:]...)
						}
					}
				}
			}
			return list
		}
		for _, f := range p.Syntax {
			ast.Inspect(f, func(x ast.Node) bool {
				switch s := x.(type) {
				case *ast.BlockStmt:
					for k := 0; k < 4; k++ {
						s.List = reloop(s.List)
					}
					_ = lift // not applied: the pinned tree itself writes both forms, and the rules that read a loop body expect the step where the tree has it
					fixList(s.List)
				case *ast.CaseClause:
					fixList(s.Body)
				case *ast.CommClause:
					fixList(s.Body)
				case *ast.RangeStmt:
					s.Body.List = unguard(s.Body.List)
				case *ast.ForStmt:
					s.Body.List = unguard(s.Body.List)
					if s.Post != nil {
						s.Post = step(s.Post)
					}
					if s.Cond == nil && s.Init == nil && s.Post == nil && len(s.Body.List) > 0 {
						if is, ok := s.Body.List[0].(*ast.IfStmt); ok && is.Init == nil && is.Else == nil && len(is.Body.List) == 1 {
							if br, ok := is.Body.List[0].(*ast.BranchStmt); ok && br.Tok == token.BREAK && br.Label == nil {
								s.Cond = negate(is.Cond)
								s.Body.List = s.Body.List[1:]
								n++
							}
						}
					}
				}
				return true
			})
		}
	}
	return n
}
