package main

// Shared extraction for the CDCN properties (C10, C11, C12): scanner tables,
// scan order, grammar expressions, strconv language models.

import (
	"fmt"
	"go/ast"
	"go/constant"
	"go/token"
	"go/types"
	"os"
	"path/filepath"
	"regexp/syntax"
	"sort"
	"strings"
)

type scanTables struct {
	cls         *types.Named
	scanner     *types.Named
	matchers    map[string]string // TokenType constant name -> regex source (anchoring stripped)
	matcherPos  map[string]token.Pos
	names       map[string]string // TokenType constant name -> grammar name
	order       []string          // scan order (TokenType constant names)
	scanLoop    *ast.ForStmt
	scanFD      *ast.FuncDecl
	foundFD     *ast.FuncDecl  // the per-type matching method used in the case arms
	tableLoop   *ast.RangeStmt // data-driven scan: the loop over the table of token types
	tableHelper *ast.FuncDecl  // the unexported method that holds the table loop (nil: the scan loop itself)
	orChain     ast.Expr       // scan written as found(A) || found(B) || ...
	problems    []string
}

func constString(info *types.Info, e ast.Expr) (string, bool) {
	tv, ok := info.Types[e]
	if !ok || tv.Value == nil || tv.Value.Kind() != constant.String {
		return "", false
	}
	return constant.StringVal(tv.Value), true
}

func stripAnchor(src string) string {
	if strings.HasPrefix(src, "^(?:") && strings.HasSuffix(src, ")") {
		return src[4 : len(src)-1]
	}
	return strings.TrimPrefix(src, "^")
}

func (c *Ctx) scanTables() *scanTables {
	if v, ok := c.cache["scanTables"]; ok {
		return v.(*scanTables)
	}
	st := &scanTables{matchers: map[string]string{}, names: map[string]string{}, matcherPos: map[string]token.Pos{}}
	c.cache["scanTables"] = st
	info := c.info("cdcn")
	var err error
	if st.cls, err = c.impl("cdcn", "ScannerClassLike"); err != nil {
		st.problems = append(st.problems, err.Error())
		return st
	}
	if st.scanner, err = c.impl("cdcn", "ScannerLike"); err != nil {
		st.problems = append(st.problems, err.Error())
		return st
	}
	// the composite literal of the scanner class
	for _, f := range c.Pkgs["cdcn"].Syntax {
		ast.Inspect(f, func(x ast.Node) bool {
			cl, ok := x.(*ast.CompositeLit)
			if !ok {
				return true
			}
			if n := derefNamed(info.Types[cl].Type); n == nil || n.Origin() != st.cls.Origin() {
				return true
			}
			for _, el := range cl.Elts {
				kv, ok := el.(*ast.KeyValueExpr)
				if !ok {
					continue
				}
				inner, ok := kv.Value.(*ast.CompositeLit)
				if !ok {
					continue
				}
				mt, ok := info.Types[inner].Type.Underlying().(*types.Map)
				if !ok {
					continue
				}
				for _, iel := range inner.Elts {
					ikv, ok := iel.(*ast.KeyValueExpr)
					if !ok {
						continue
					}
					key := exprStr(ikv.Key)
					if isNamedFrom(mt.Elem(), "regexp", "Regexp") {
						call, ok := ast.Unparen(ikv.Value).(*ast.CallExpr)
						if !ok || len(call.Args) != 1 {
							st.problems = append(st.problems, "matcher for "+key+" is not regexp.MustCompile(<constant>)")
							continue
						}
						src, ok := constString(info, call.Args[0])
						if !ok {
							st.problems = append(st.problems, "matcher for "+key+" is not a compile-time constant")
							continue
						}
						st.matchers[key] = stripAnchor(src)
						st.matcherPos[key] = ikv.Pos()
					} else if s, ok := constString(info, ikv.Value); ok {
						st.names[key] = s
					}
				}
			}
			return true
		})
	}
	// the scan loop: the method started by `go` in the class's constructor
	var started *types.Func
	for _, fd := range c.methodsOf(st.cls) {
		ast.Inspect(fd.Body, func(x ast.Node) bool {
			if g, ok := x.(*ast.GoStmt); ok {
				if cf := calleeOf(info, g.Call); cf != nil {
					started = cf
				}
			}
			return true
		})
	}
	if started == nil {
		st.problems = append(st.problems, "no goroutine is started by the scanner's constructor")
		return st
	}
	st.scanFD = c.declOf(started)
	if st.scanFD == nil {
		st.problems = append(st.problems, "the scanner goroutine's body is not a declared method")
		return st
	}
	for _, l := range loopsIn(st.scanFD.Body) {
		if fs, ok := l.(*ast.ForStmt); ok && st.scanLoop == nil {
			st.scanLoop = fs
		}
	}
	if st.scanLoop == nil {
		st.problems = append(st.problems, "no scan loop found")
		return st
	}
	ast.Inspect(st.scanLoop.Body, func(x ast.Node) bool {
		cc, ok := x.(*ast.CaseClause)
		if !ok {
			return true
		}
		for _, e := range cc.List {
			call, ok := ast.Unparen(e).(*ast.CallExpr)
			var targ ast.Expr
			if ok {
				targ = tokenTypeArg(info, call)
			}
			if !ok || targ == nil {
				st.problems = append(st.problems, "a scan case is not a call of the matching method with a token type: "+exprStr(e))
				continue
			}
			if cf := calleeOf(info, call); cf != nil {
				if d := c.declOf(cf); d != nil {
					st.foundFD = d
				}
			}
			st.order = append(st.order, exprStr(targ))
		}
		return true
	})
	if len(st.order) == 0 {
		// or-chain form: found(A) || found(B) || ...  in the scan loop or in an unexported method it calls
		var scan func(body ast.Node, depth int)
		scan = func(body ast.Node, depth int) {
			ast.Inspect(body, func(x ast.Node) bool {
				if len(st.order) > 0 {
					return false
				}
				be, ok := x.(*ast.BinaryExpr)
				if !ok || be.Op != token.LOR {
					if call, ok := x.(*ast.CallExpr); ok && depth < 2 {
						if cf := calleeOf(info, call); cf != nil && !cf.Exported() {
							if d := c.declOf(cf); d != nil && d.Body != nil && d != st.scanFD && c.infoFor(d) == info {
								scan(d.Body, depth+1)
							}
						}
					}
					return true
				}
				var terms []ast.Expr
				var flat func(e ast.Expr)
				flat = func(e ast.Expr) {
					if b, ok := ast.Unparen(e).(*ast.BinaryExpr); ok && b.Op == token.LOR {
						flat(b.X)
						flat(b.Y)
						return
					}
					terms = append(terms, ast.Unparen(e))
				}
				flat(be)
				var order []string
				var found *ast.FuncDecl
				for _, t := range terms {
					call, ok := t.(*ast.CallExpr)
					if !ok {
						return true
					}
					targ := tokenTypeArg(info, call)
					if targ == nil {
						return true
					}
					d := c.declOf(calleeOf(info, call))
					if d == nil || (found != nil && d != found) {
						return true
					}
					found = d
					order = append(order, exprStr(targ))
				}
				if len(order) >= 3 {
					st.order, st.foundFD, st.orChain = order, found, be
				}
				return false
			})
		}
		scan(st.scanLoop, 0)
	}
	if len(st.order) == 0 {
		// data-driven form: for _, t := range <table of token types> { if v.found(t) { continue scanning } }
		var bodies []ast.Node
		bodies = append(bodies, st.scanLoop.Body)
		var helpers func(body ast.Node, depth int)
		helpers = func(body ast.Node, depth int) {
			ast.Inspect(body, func(x ast.Node) bool {
				if call, ok := x.(*ast.CallExpr); ok && depth < 2 {
					if cf := calleeOf(info, call); cf != nil && !cf.Exported() {
						if d := c.declOf(cf); d != nil && d.Body != nil && d != st.scanFD && c.infoFor(d) == info {
							bodies = append(bodies, d.Body)
							st.tableHelper = d
							helpers(d.Body, depth+1)
						}
					}
				}
				return true
			})
		}
		helpers(st.scanLoop, 0)
		tableHelperOf := map[ast.Node]*ast.FuncDecl{}
		for _, f := range c.Pkgs["cdcn"].Syntax {
			for _, d := range f.Decls {
				if fd, ok := d.(*ast.FuncDecl); ok && fd.Body != nil {
					tableHelperOf[fd.Body] = fd
				}
			}
		}
		st.tableHelper = nil
		for _, body := range bodies {
			body := body
			ast.Inspect(body, func(x ast.Node) bool {
				rs, ok := x.(*ast.RangeStmt)
				if !ok || rs.Value == nil || len(st.order) > 0 {
					return true
				}
				if body != ast.Node(st.scanLoop.Body) {
					st.tableHelper = tableHelperOf[body]
				}
				elem := identObj(info, rs.Value)
				var found *ast.FuncDecl
				ast.Inspect(rs.Body, func(y ast.Node) bool {
					if call, ok := y.(*ast.CallExpr); ok && len(call.Args) >= 1 && elem != nil && argIs(info, call, elem) {
						cf := calleeOf(info, call)
						if id, isId := ast.Unparen(call.Fun).(*ast.Ident); isId && cf == nil {
							// a method value bound once to a local:  found := v.foundToken
							if owner := tableHelperOf[body]; owner != nil || body == ast.Node(st.scanLoop.Body) {
								var scope ast.Node = st.scanFD
								if owner != nil {
									scope = owner
								}
								if sel, ok := initOfDeep(info, scope, id).(*ast.SelectorExpr); ok {
									if s, ok := info.Selections[sel]; ok && s.Kind() == types.MethodVal {
										cf, _ = s.Obj().(*types.Func)
									}
								}
							}
						}
						if cf != nil {
							if d := c.declOf(cf); d != nil {
								found = d
							}
						}
					}
					return true
				})
				if found == nil {
					return true
				}
				var lit *ast.CompositeLit
				switch t := ast.Unparen(rs.X).(type) {
				case *ast.CompositeLit:
					lit = t
				case *ast.Ident:
					if v, ok := info.Uses[t].(*types.Var); ok {
						for _, f := range c.Pkgs["cdcn"].Syntax {
							ast.Inspect(f, func(z ast.Node) bool {
								if vs, ok := z.(*ast.ValueSpec); ok {
									for i, nm := range vs.Names {
										if info.Defs[nm] == v && i < len(vs.Values) {
											if l, ok := ast.Unparen(vs.Values[i]).(*ast.CompositeLit); ok {
												lit = l
											}
										}
									}
								}
								return true
							})
						}
					}
				}
				if lit == nil {
					return true
				}
				st.foundFD = found
				st.tableLoop = rs
				for _, el := range lit.Elts {
					st.order = append(st.order, exprStr(el))
				}
				return true
			})
		}
		if len(st.order) == 0 {
			st.tableHelper = nil
		}
	}
	return st
}

// ---------------------------------------------------------------- CDSN expression definitions

// parseCDSN reads the expression definitions of Syntax.cdsn and renders each
// as a Go regular expression (references expanded).  Definitions that use the
// CDSN intrinsics (CONTROL, ESCAPE, LOWER, UPPER, EOL, EOF, ANY) are reported in skipped.
func parseCDSN(path string) (defs map[string]string, skipped map[string]string, rules map[string]string, err error) {
	b, err := os.ReadFile(path)
	if err != nil {
		return nil, nil, nil, err
	}
	text := string(b)
	// strip comments  !> ... <!
	var sb strings.Builder
	for {
		i := strings.Index(text, "!>")
		if i < 0 {
			sb.WriteString(text)
			break
		}
		sb.WriteString(text[:i])
		j := strings.Index(text[i:], "<!")
		if j < 0 {
			break
		}
		text = text[i+j+2:]
	}
	lines := strings.Split(sb.String(), "\n")
	raw := map[string]string{}
	rules = map[string]string{}
	var cur string
	var isRule bool
	flush := func(name, body string, rule bool) {
		if name == "" {
			return
		}
		if rule {
			rules[name] = strings.TrimRight(body, "\n ")
		} else {
			raw[name] = strings.TrimSpace(body)
		}
	}
	var body strings.Builder
	for _, ln := range lines {
		trimmed := strings.TrimSpace(ln)
		if !strings.HasPrefix(ln, " ") && !strings.HasPrefix(ln, "\t") && strings.Contains(trimmed, ":") && trimmed != "" {
			name := trimmed[:strings.Index(trimmed, ":")]
			if isIdent(name) {
				flush(cur, body.String(), isRule)
				cur = name
				isRule = name[0] >= 'A' && name[0] <= 'Z'
				body.Reset()
				rest := trimmed[strings.Index(trimmed, ":")+1:]
				if isRule {
					body.WriteString(strings.TrimPrefix(rest, " "))
				} else {
					body.WriteString(rest)
				}
				continue
			}
		}
		if cur != "" && trimmed != "" {
			if isRule {
				body.WriteString("\n" + strings.TrimRight(ln, " "))
			} else {
				body.WriteString(" " + trimmed)
			}
		}
	}
	flush(cur, body.String(), isRule)
	defs, skipped = map[string]string{}, map[string]string{}
	var expand func(name string, depth int) (string, error)
	expand = func(name string, depth int) (string, error) {
		if depth > 20 {
			return "", fmt.Errorf("recursive definition %s", name)
		}
		src, ok := raw[name]
		if !ok {
			return "", fmt.Errorf("undefined reference %s", name)
		}
		// strip trailing comment "! ..."
		if i := strings.Index(src, " !"); i >= 0 {
			src = src[:i]
		}
		p := &cdsnParser{s: src, expand: func(ref string) (string, error) { return expand(ref, depth+1) }}
		out, err := p.alt()
		if err != nil {
			return "", err
		}
		p.skipWS()
		if p.i < len(p.s) {
			return "", fmt.Errorf("trailing input in definition of %s: %q", name, p.s[p.i:])
		}
		return out, nil
	}
	var names []string
	for n := range raw {
		names = append(names, n)
	}
	sort.Strings(names)
	for _, n := range names {
		re, err := expand(n, 0)
		if err != nil {
			skipped[n] = err.Error()
			continue
		}
		defs[n] = re
	}
	return defs, skipped, rules, nil
}

func isIdent(s string) bool {
	if s == "" {
		return false
	}
	for i, r := range s {
		if !(r == '_' || (r >= 'a' && r <= 'z') || (r >= 'A' && r <= 'Z') || (i > 0 && r >= '0' && r <= '9')) {
			return false
		}
	}
	return true
}

type cdsnParser struct {
	s      string
	i      int
	expand func(string) (string, error)
}

func (p *cdsnParser) skipWS() {
	for p.i < len(p.s) && (p.s[p.i] == ' ' || p.s[p.i] == '\t' || p.s[p.i] == '\n') {
		p.i++
	}
}

func (p *cdsnParser) alt() (string, error) {
	var parts []string
	for {
		seq, err := p.seq()
		if err != nil {
			return "", err
		}
		parts = append(parts, seq)
		p.skipWS()
		if p.i < len(p.s) && p.s[p.i] == '|' {
			p.i++
			continue
		}
		break
	}
	if len(parts) == 1 {
		return parts[0], nil
	}
	return "(?:" + strings.Join(parts, "|") + ")", nil
}

func (p *cdsnParser) seq() (string, error) {
	var sb strings.Builder
	for {
		p.skipWS()
		if p.i >= len(p.s) || p.s[p.i] == '|' || p.s[p.i] == ')' {
			break
		}
		f, err := p.factor()
		if err != nil {
			return "", err
		}
		sb.WriteString(f)
	}
	return sb.String(), nil
}

func (p *cdsnParser) quoted(q byte) (string, error) {
	// p.s[p.i] == q
	j := p.i + 1
	var out []byte
	for j < len(p.s) && p.s[j] != q {
		if p.s[j] == '\\' && j+1 < len(p.s) {
			j++
		}
		out = append(out, p.s[j])
		j++
	}
	if j >= len(p.s) {
		return "", fmt.Errorf("unterminated literal")
	}
	// a quote character quoted by itself: '"' or "'"
	p.i = j + 1
	return string(out), nil
}

func (p *cdsnParser) factor() (string, error) {
	p.skipWS()
	var atom string
	switch ch := p.s[p.i]; {
	case ch == '(':
		p.i++
		a, err := p.alt()
		if err != nil {
			return "", err
		}
		p.skipWS()
		if p.i >= len(p.s) || p.s[p.i] != ')' {
			return "", fmt.Errorf("missing )")
		}
		p.i++
		atom = "(?:" + a + ")"
	case ch == '"':
		lit, err := p.quoted('"')
		if err != nil {
			return "", err
		}
		atom = "(?:" + regexpQuote(lit) + ")"
	case ch == '\'':
		// special case: '"' and ''' style single characters
		var lit string
		if p.i+2 < len(p.s) && p.s[p.i+2] == '\'' {
			lit = string(p.s[p.i+1])
			p.i += 3
		} else {
			var err error
			if lit, err = p.quoted('\''); err != nil {
				return "", err
			}
		}
		p.skipWS()
		if strings.HasPrefix(p.s[p.i:], "..") {
			p.i += 2
			p.skipWS()
			if p.i+2 >= len(p.s) || p.s[p.i] != '\'' {
				return "", fmt.Errorf("bad range")
			}
			hi := string(p.s[p.i+1])
			p.i += 3
			atom = "[" + regexpQuote(lit) + "-" + regexpQuote(hi) + "]"
		} else {
			atom = "(?:" + regexpQuote(lit) + ")"
		}
	case ch == '~':
		return "", fmt.Errorf("uses a negated class with CDSN intrinsics")
	default:
		j := p.i
		for j < len(p.s) && (p.s[j] == '_' || (p.s[j] >= 'a' && p.s[j] <= 'z') || (p.s[j] >= 'A' && p.s[j] <= 'Z') || (p.s[j] >= '0' && p.s[j] <= '9')) {
			j++
		}
		if j == p.i {
			return "", fmt.Errorf("unexpected %q", p.s[p.i:])
		}
		name := p.s[p.i:j]
		p.i = j
		if strings.ToUpper(name) == name {
			return "", fmt.Errorf("uses the CDSN intrinsic %s whose meaning is not defined in this repository", name)
		}
		sub, err := p.expand(name)
		if err != nil {
			return "", err
		}
		atom = "(?:" + sub + ")"
	}
	// postfix
	for p.i < len(p.s) {
		switch p.s[p.i] {
		case '?', '*', '+':
			atom = "(?:" + atom + string(p.s[p.i]) + ")"
			p.i++
			continue
		case '{':
			j := strings.IndexByte(p.s[p.i:], '}')
			if j < 0 {
				return "", fmt.Errorf("unterminated {")
			}
			atom = "(?:" + atom + strings.ReplaceAll(p.s[p.i:p.i+j+1], "..", ",") + ")"
			p.i += j + 1
			continue
		}
		break
	}
	return atom, nil
}

func regexpQuote(s string) string {
	var sb strings.Builder
	for _, r := range s {
		if strings.ContainsRune(`\.+*?()|[]{}^$-`, r) {
			sb.WriteByte('\\')
		}
		sb.WriteRune(r)
	}
	return sb.String()
}

func cdsnPath(c *Ctx) string { return filepath.Join(c.Root, "cdcn", "Syntax.cdsn") }

// ---------------------------------------------------------------- strconv models (trusted base)

// strconvModel returns the regular language (regex source) of what a strconv
// producer can print, keyed by callee and constant arguments.  sign restricts
// float/int arguments: "" any, "ge0" (x >= 0 held: includes -0), "lt0".
func strconvModel(callee string, args []string, sign string) (string, bool) {
	digits := `(?:0|[1-9][0-9]*)`
	switch callee {
	case "strconv.FormatBool":
		return `true|false`, true
	case "strconv.FormatInt":
		if len(args) == 2 && args[1] == "10" {
			switch sign {
			case "ge0":
				return digits, true
			case "lt0":
				return `-[1-9][0-9]*`, true
			}
			return `0|-?[1-9][0-9]*`, true
		}
	case "strconv.FormatUint":
		if len(args) == 2 && args[1] == "16" {
			return `0|[1-9a-f][0-9a-f]*`, true
		}
		if len(args) == 2 && args[1] == "10" {
			return digits, true
		}
	case "strconv.FormatFloat":
		// 'G' (71), shortest (-1), 64 bits, finite values only
		if len(args) == 4 && (args[1] == "71" || args[1] == "'G'") && args[2] == "-1" && args[3] == "64" {
			body := `(?:(?:0|[1-9][0-9]*)(?:\.[0-9]+)?|[1-9](?:\.[0-9]+)?E[+-](?:0[1-9]|[1-9][0-9]+))`
			switch sign {
			case "ge0":
				return `(?:-0|` + body + `)`, true // -0.0 >= 0.0 holds and prints "-0"
			case "lt0":
				return `-` + body, true
			}
			return `-?` + body, true
		}
	case "strconv.QuoteRune":
		return `'(?:\\(?:x[0-9a-f]{2}|u[0-9a-f]{4}|U[0-9a-f]{8}|[abfnrtv\\'])|[^'\\\x00-\x1f\x7f])'`, true
	case "strconv.Quote":
		return `"(?:\\(?:x[0-9a-f]{2}|u[0-9a-f]{4}|U[0-9a-f]{8}|[abfnrtv\\"])|[^"\\\x00-\x1f\x7f])*"`, true
	}
	return "", false
}

var _ = syntax.Perl

// tokenTypeArg: the single constant argument of the call (a token type constant); nil when the
// call has no or several constant arguments.
func tokenTypeArg(info *types.Info, call *ast.CallExpr) ast.Expr {
	var out ast.Expr
	for _, a := range call.Args {
		tv, ok := info.Types[a]
		if !ok || tv.Value == nil {
			continue
		}
		if _, named := tv.Type.(*types.Named); !named {
			continue // an untyped or basic constant is not a token type
		}
		if out != nil {
			return nil
		}
		out = a
	}
	return out
}

func argIs(info *types.Info, call *ast.CallExpr, o types.Object) bool {
	for _, a := range call.Args {
		if isObj(info, a, o) {
			return true
		}
	}
	return false
}
