package main

// A comma-ok assertion into a variable that lives longer than one round.  Inside a loop over
// arguments, `x, ok = argument.(T)` with x declared outside the loop stores the zero value of T
// whenever the argument is of another type: what an earlier round put into x is wiped by every
// later argument that walks past this statement without a failure.  (Asserting into a temporary
// and copying it under `if ok` is the form that keeps x.)

import (
	"fmt"
	"go/ast"
	"go/token"
	"go/types"

	"golang.org/x/tools/go/cfg"
)

func checkCommaOkIntoCollected(c *Ctx, r *Rec, rule string, fds []*ast.FuncDecl) {
	sites, bad := 0, 0
	for _, fd := range fds {
		info := c.infoFor(fd)
		if info == nil || fd.Body == nil {
			continue
		}
		for _, loop := range loopsIn(fd.Body) {
			var lbody *ast.BlockStmt
			var elem types.Object
			switch l := loop.(type) {
			case *ast.RangeStmt:
				lbody = l.Body
				if l.Value != nil {
					elem = identObj(info, l.Value)
				}
			case *ast.ForStmt:
				lbody = l.Body
			}
			if lbody == nil {
				continue
			}
			var lg *FG
			ast.Inspect(lbody, func(y ast.Node) bool {
				as, ok := y.(*ast.AssignStmt)
				if !ok || as.Tok != token.ASSIGN || len(as.Lhs) != 2 || len(as.Rhs) != 1 {
					return true
				}
				ta, isTA := ast.Unparen(as.Rhs[0]).(*ast.TypeAssertExpr)
				if !isTA || ta.Type == nil {
					return true
				}
				// the asserted value is the loop's element (or a local of the body made from it)
				if elem != nil {
					src := identObj(info, ta.X)
					if src == nil || (src != elem && !(src.Pos() >= lbody.Pos() && src.Pos() < lbody.End())) {
						return true
					}
				}
				lo := identObj(info, as.Lhs[0])
				okObj := identObj(info, as.Lhs[1])
				if lo == nil || okObj == nil || (lo.Pos() >= loop.Pos() && lo.Pos() < loop.End()) {
					return true
				}
				if _, isVar := lo.(*types.Var); !isVar {
					return true
				}
				sites++
				if lg == nil {
					lg = newFG(info, lbody)
				}
				pt, ok := lg.after(as)
				if !ok {
					return true
				}
				goesOn, _ := lg.exists(pathQuery{from: pt,
					edgeOK: func(cond ast.Expr, polarity bool) bool {
						if id, ok := ast.Unparen(cond).(*ast.Ident); ok && info.Uses[id] == okObj {
							return !polarity
						}
						return true
					},
					goalExit: func(kind int, b *cfg.Block) bool { return kind != exitPanic }})
				if goesOn {
					bad++
					r.fail(rule, c.fdName(fd)+"/"+lo.Name(), c.pos(as.Pos()), fmt.Sprintf("the comma-ok assertion at %s assigns straight into %s, which is declared outside the loop and collects a value over all its rounds: for an argument of another type it stores the zero value, so what an earlier argument put there is wiped by every later argument that walks past this statement", c.pos(as.Pos()), lo.Name()))
				}
				return true
			})
		}
	}
	if bad == 0 {
		r.ok(rule, "comma-ok-in-loops", "", fmt.Sprintf("%d comma-ok assertions inside loops assign to variables of an outer scope; each ends the round with a failure when it does not hold", sites))
	}
}
