package main

// A queue keeps its content twice: the list of the values and the channel that holds one token
// per value.  An operation that throws one of the two away throws the other away with it, and a
// channel that replaces the first one has the buffer the queue was made with.

import (
	"fmt"
	"go/ast"
	"go/token"
	"go/types"
	"sort"
	"strings"
)

// checkQueueResets: (coupled) a public operation that installs a fresh value list - or empties the
// list - also installs a fresh channel or receives from it, and the other way round; (capacity) a
// channel installed after construction is made with the capacity field of the same queue.
func checkQueueResets(c *Ctx, r *Rec, ruleCoupled, ruleCap string, qr *queueRoles) {
	info := c.info("collection")
	ms := c.methodsOf(qr.q)
	cg := c.sameTypeCallGraph(qr.q)
	type acts struct {
		list, ch  ast.Node
		recvTaken bool
	}
	own := map[string]*acts{}
	for _, name := range sortedKeys(ms) {
		fd := ms[name]
		a := &acts{}
		own[name] = a
		recv := recvObj(info, fd)
		if recv == nil || fd.Body == nil {
			continue
		}
		ast.Inspect(fd.Body, func(x ast.Node) bool {
			switch s := x.(type) {
			case *ast.AssignStmt:
				for i, l := range s.Lhs {
					se, ok := ast.Unparen(l).(*ast.SelectorExpr)
					if !ok || !isObj(info, se.X, recv) {
						continue
					}
					switch f := selectorField(info, l); {
					case f == nil:
					case f.Origin() == qr.listF.Origin():
						a.list = s
					case f.Origin() == qr.chanF.Origin():
						a.ch = s
						if ruleCap != "" && len(s.Lhs) == len(s.Rhs) {
							checkReplacementCapacity(c, r, ruleCap, info, fd, s, s.Rhs[i], recv, qr)
						}
					}
				}
			case *ast.CallExpr:
				if rx, mname, _, ok := methodCall(s); ok && mname == "RemoveAll" {
					if f := selectorField(info, rx); f != nil && f.Origin() == qr.listF.Origin() {
						a.list = s
					}
				}
			case *ast.UnaryExpr:
				if s.Op == token.ARROW {
					if f := selectorField(info, s.X); f != nil && f.Origin() == qr.chanF.Origin() {
						a.recvTaken = true
					}
				}
			}
			return true
		})
	}
	n := 0
	for _, name := range sortedKeys(ms) {
		if !ast.IsExported(name) {
			continue
		}
		// what the operation reaches through private workers of the same object
		seen := map[string]bool{name: true}
		for work := []string{name}; len(work) > 0; {
			cur := work[0]
			work = work[1:]
			var callees []string
			for callee := range cg[cur] {
				callees = append(callees, callee)
			}
			sort.Strings(callees)
			for _, callee := range callees {
				if !seen[callee] && !ast.IsExported(callee) {
					seen[callee] = true
					work = append(work, callee)
				}
			}
		}
		var list, ch ast.Node
		recvTaken := false
		for _, m := range sortedKeys(seen) {
			if a := own[m]; a != nil {
				if a.list != nil {
					list = a.list
				}
				if a.ch != nil {
					ch = a.ch
				}
				recvTaken = recvTaken || a.recvTaken
			}
		}
		if list == nil && ch == nil {
			continue
		}
		n++
		construct := c.fdName(ms[name]) + "/list-and-tokens"
		switch {
		case list != nil && ch == nil && !recvTaken:
			r.fail(ruleCoupled, construct, c.pos(list.Pos()), fmt.Sprintf("%s throws the values away (at %s) and keeps their tokens: the channel still holds one token per discarded value, so a queue that was full stays full for AddValue although it is empty, and the next RemoveHead takes a token for which the list has no value", name, c.pos(list.Pos())))
		case ch != nil && list == nil:
			r.fail(ruleCoupled, construct, c.pos(ch.Pos()), fmt.Sprintf("%s installs a fresh token channel (at %s) and keeps the list of the values: the old values stay at the head of the list without tokens, and every later token hands out a stale value while the newest values are never delivered", name, c.pos(ch.Pos())))
		case list != nil && ch == nil:
			r.skip(ruleCoupled, construct, c.pos(list.Pos()), "the values are discarded and tokens are received in the same operation: the counts are not compared")
		default:
			r.ok(ruleCoupled, construct, c.pos(list.Pos()), "the list of the values and the token channel are replaced together")
		}
	}
	r.count("operations that discard the content of a queue", n)
}

// checkReplacementCapacity: v.channel = make(chan T, n) in an instance method: n is the capacity
// field of the same queue.  make(chan T) (a rendez-vous channel) and a constant are positive
// evidence of a different bound; anything else is not compared.
func checkReplacementCapacity(c *Ctx, r *Rec, rule string, info *types.Info, fd *ast.FuncDecl, at ast.Node, rhs ast.Expr, recv types.Object, qr *queueRoles) {
	construct := c.fdName(fd) + "/replacement-channel"
	e := ast.Unparen(rhs)
	if id, ok := e.(*ast.Ident); ok {
		if init := initOf(info, fd, id); init != nil {
			e = ast.Unparen(init)
		}
	}
	call, ok := e.(*ast.CallExpr)
	if !ok || !isBuiltinCall(info, call, "make") {
		r.skip(rule, construct, c.pos(at.Pos()), "the new channel is not made here")
		return
	}
	if len(call.Args) == 1 {
		r.fail(rule, construct, c.pos(at.Pos()), "the channel that replaces the token channel is made without a buffer: after this operation AddValue blocks until a consumer is already waiting, the queue holds no value at all, and GetCapacity still reports the capacity it was made with")
		return
	}
	size := ast.Unparen(call.Args[1])
	if id, ok := size.(*ast.Ident); ok {
		if init := initOf(info, fd, id); init != nil {
			size = ast.Unparen(init)
		}
	}
	if conv, ok := size.(*ast.CallExpr); ok && len(conv.Args) == 1 && info.Types[conv.Fun].IsType() {
		size = ast.Unparen(conv.Args[0])
	}
	if f := selectorField(info, size); f != nil && f.Origin() == qr.capF.Origin() {
		if se, ok := size.(*ast.SelectorExpr); ok && isObj(info, se.X, recv) {
			r.ok(rule, construct, c.pos(at.Pos()), "the replacement channel is made with the capacity field of the same queue")
			return
		}
	}
	if call, ok := size.(*ast.CallExpr); ok {
		if rx, mname, _, ok := methodCall(call); ok && mname == "GetCapacity" && isObj(info, rx, recv) {
			r.ok(rule, construct, c.pos(at.Pos()), "the replacement channel is made with the capacity of the same queue")
			return
		}
		if isBuiltinCall(info, call, "cap") && len(call.Args) == 1 {
			if f := selectorField(info, call.Args[0]); f != nil && f.Origin() == qr.chanF.Origin() {
				r.ok(rule, construct, c.pos(at.Pos()), "the replacement channel is made with the buffer size of the channel it replaces")
				return
			}
		}
	}
	if tv := info.Types[call.Args[1]]; tv.Value != nil {
		r.fail(rule, construct, c.pos(at.Pos()), fmt.Sprintf("the channel that replaces the token channel is made with the constant buffer %s, not with the capacity of the queue: after this operation the real bound and GetCapacity disagree", strings.TrimSpace(tv.Value.ExactString())))
		return
	}
	r.skip(rule, construct, c.pos(at.Pos()), "the buffer size of the new channel is not a recognised form: not compared")
}
