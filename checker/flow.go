package main

// FLOW engine: value-flow summaries on go/ssa.
//   retains(p)  - the storage of parameter p may outlive the call inside an
//                 object the function (transitively) writes to
//   aliasRet(p) - a result may share storage with parameter p
//   fresh(ret)  - every value returned as result #i was allocated in this
//                 activation (or by a callee whose result is fresh)

import (
	"fmt"
	"go/ast"
	"go/token"
	"go/types"
	"sort"
	"strings"

	"golang.org/x/tools/go/ssa"
)

type fsum struct {
	retains  []bool
	aliasRet []bool
	freshRet []bool
	whyRet   []string // why a result is not fresh
	whyKeep  []string // why a parameter is retained
	fnRet    []bool   // function-typed parameters whose call result flows into a result
}

type flowAn struct {
	deps   map[int]bool // parameters whose storage flows into the result being analysed
	fnDeps map[int]bool // function-typed parameters whose call result flows into it
	curF   *ssa.Function
	c      *Ctx
	fns    []*ssa.Function
	sum    map[*ssa.Function]*fsum
	byFD   map[*ast.FuncDecl]*ssa.Function
}

func (c *Ctx) flow() *flowAn {
	if v, ok := c.cache["flow"]; ok {
		return v.(*flowAn)
	}
	fa := &flowAn{c: c, sum: map[*ssa.Function]*fsum{}, byFD: map[*ast.FuncDecl]*ssa.Function{}}
	seen := map[*ssa.Function]bool{}
	var add func(f *ssa.Function)
	add = func(f *ssa.Function) {
		if f == nil || seen[f] {
			return
		}
		seen[f] = true
		fa.fns = append(fa.fns, f)
		for _, a := range f.AnonFuncs {
			add(a)
		}
	}
	var fds []*ast.FuncDecl
	for _, role := range []string{"agent", "collection", "cdcn", "module"} {
		fds = append(fds, c.allFuncDecls(role)...)
	}
	for _, fd := range fds {
		fn := c.funcOf(fd)
		if fn == nil {
			continue
		}
		sf := c.Prog.FuncValue(fn)
		if sf != nil {
			fa.byFD[fd] = sf
			add(sf)
		}
	}
	for _, f := range fa.fns {
		np := len(f.Params)
		nr := 0
		if f.Signature != nil {
			nr = f.Signature.Results().Len()
		}
		s := &fsum{retains: make([]bool, np), aliasRet: make([]bool, np), freshRet: make([]bool, nr), whyRet: make([]string, nr), whyKeep: make([]string, np), fnRet: make([]bool, np)}
		for i := range s.freshRet {
			s.freshRet[i] = true
		}
		fa.sum[f] = s
	}
	// fixpoint
	for iter := 0; iter < 50; iter++ {
		changed := false
		for _, f := range fa.fns {
			if fa.update(f) {
				changed = true
			}
		}
		if !changed {
			break
		}
	}
	c.cache["flow"] = fa
	return fa
}

// callees resolves a call to repository functions (nil = unknown / external).
func (fa *flowAn) callees(call *ssa.CallCommon) (fns []*ssa.Function, external bool) {
	if call.IsInvoke() {
		recvT := call.Value.Type()
		for _, n := range fa.c.implementers(recvT) {
			for i := 0; i < n.NumMethods(); i++ {
				if m := n.Method(i); m.Name() == call.Method.Name() {
					if sf := fa.c.Prog.FuncValue(m); sf != nil {
						fns = append(fns, sf)
					}
				}
			}
		}
		if len(fns) == 0 {
			return nil, true
		}
		return fns, false
	}
	if sc := call.StaticCallee(); sc != nil {
		if o := sc.Origin(); o != nil {
			sc = o
		}
		if _, ok := fa.sum[sc]; ok {
			return []*ssa.Function{sc}, false
		}
		// method of an instantiated generic type: map through the object
		if obj, ok := sc.Object().(*types.Func); ok {
			if sf := fa.c.Prog.FuncValue(obj.Origin()); sf != nil {
				if _, ok := fa.sum[sf]; ok {
					return []*ssa.Function{sf}, false
				}
			}
		}
		return nil, true
	}
	return nil, false // dynamic function value
}

func isAliasOp(i ssa.Instruction) (ssa.Value, bool) {
	switch x := i.(type) {
	case *ssa.ChangeType:
		return x, true
	case *ssa.Convert:
		return x, true
	case *ssa.MakeInterface:
		return x, true
	case *ssa.ChangeInterface:
		return x, true
	case *ssa.TypeAssert:
		return x, true
	case *ssa.Slice:
		return x, true
	case *ssa.Phi:
		return x, true
	case *ssa.SliceToArrayPointer:
		return x, true
	}
	return nil, false
}

// carriesStorage: can a value of this type carry Go slice/map/pointer storage?
func carriesStorage(t types.Type) bool {
	switch u := t.Underlying().(type) {
	case *types.Slice, *types.Map, *types.Pointer, *types.Interface, *types.Chan, *types.Signature:
		return true
	case *types.Struct:
		for i := 0; i < u.NumFields(); i++ {
			if carriesStorage(u.Field(i).Type()) {
				return true
			}
		}
	case *types.Tuple:
		return true
	}
	if _, ok := t.(*types.TypeParam); ok {
		return true
	}
	return false
}

// update recomputes the summary of f; reports a change.
func (fa *flowAn) update(f *ssa.Function) bool {
	s := fa.sum[f]
	changed := false
	if len(f.Blocks) == 0 {
		return false
	}
	// ---- parameters
	for pi, p := range f.Params {
		if !carriesStorage(p.Type()) {
			continue
		}
		ret, alias, why := fa.paramFlow(f, p)
		if ret && !s.retains[pi] {
			s.retains[pi] = true
			s.whyKeep[pi] = why
			changed = true
		}
		if alias && !s.aliasRet[pi] {
			s.aliasRet[pi] = true
			changed = true
		}
	}
	// ---- results
	for _, b := range f.Blocks {
		for _, ins := range b.Instrs {
			rt, ok := ins.(*ssa.Return)
			if !ok {
				continue
			}
			for ri, v := range rt.Results {
				if ri >= len(s.freshRet) || !s.freshRet[ri] {
					continue
				}
				if !carriesStorage(v.Type()) {
					continue
				}
				fa.deps, fa.fnDeps, fa.curF = map[int]bool{}, map[int]bool{}, f
				ok, why := fa.isFresh(v, map[ssa.Value]bool{})
				for pi := range fa.fnDeps {
					if pi < len(s.fnRet) && !s.fnRet[pi] {
						s.fnRet[pi] = true
						changed = true
					}
				}
				fa.fnDeps = nil
				for pi := range fa.deps {
					if pi < len(s.aliasRet) && !s.aliasRet[pi] {
						s.aliasRet[pi] = true
						changed = true
					}
				}
				fa.deps = nil
				if !ok {
					s.freshRet[ri] = false
					s.whyRet[ri] = why
					changed = true
				}
			}
		}
	}
	return changed
}

func (fa *flowAn) pos(p token.Pos) string { return fa.c.pos(p) }

// paramFlow follows the storage of value p forward.
func (fa *flowAn) paramFlow(f *ssa.Function, p ssa.Value) (retained, aliasRet bool, why string) {
	seen := map[ssa.Value]bool{}
	work := []ssa.Value{p}
	for len(work) > 0 {
		v := work[len(work)-1]
		work = work[:len(work)-1]
		if seen[v] {
			continue
		}
		seen[v] = true
		refs := v.Referrers()
		if refs == nil {
			continue
		}
		for _, ins := range *refs {
			if av, ok := isAliasOp(ins); ok {
				work = append(work, av)
				continue
			}
			switch x := ins.(type) {
			case *ssa.Store:
				if x.Val != v {
					continue // v is the address: storing *into* p's object is mutation, not retention
				}
				if al, ok := x.Addr.(*ssa.Alloc); ok && !al.Heap {
					// local variable: loads of it alias
					if rs := al.Referrers(); rs != nil {
						for _, r := range *rs {
							if u, ok := r.(*ssa.UnOp); ok && u.Op == token.MUL {
								work = append(work, u)
							}
						}
					}
					continue
				}
				if al, ok := x.Addr.(*ssa.Alloc); ok && al.Heap {
					// a heap-allocated local (captured or escaping variable): conservatively an alias through loads
					if rs := al.Referrers(); rs != nil {
						for _, r := range *rs {
							if u, ok := r.(*ssa.UnOp); ok && u.Op == token.MUL {
								work = append(work, u)
							}
							if mc, ok := r.(*ssa.MakeClosure); ok {
								if esc, how := fa.closureEscapes(mc, 0); esc {
									retained, why = true, "captured by a closure at "+fa.pos(r.Pos())+" that "+how
								}
							}
						}
					}
					continue
				}
				// an element or field of a local aggregate (var pair = [2][]V{a, b}): what is
				// loaded from the aggregate again aliases
				if root := localAggregate(x.Addr); root != nil {
					var follow func(v ssa.Value)
					follow = func(v ssa.Value) {
						if rs := v.Referrers(); rs != nil {
							for _, r := range *rs {
								switch y := r.(type) {
								case *ssa.IndexAddr:
									follow(y)
								case *ssa.FieldAddr:
									follow(y)
								case *ssa.UnOp:
									if y.Op == token.MUL {
										work = append(work, y)
									}
								case *ssa.Slice:
									work = append(work, y)
								}
							}
						}
					}
					follow(root)
					continue
				}
				retained, why = true, "stored into "+x.Addr.String()+" at "+fa.pos(x.Pos())
			case *ssa.MapUpdate:
				if x.Value == v || x.Key == v {
					retained, why = true, "stored into a map at "+fa.pos(x.Pos())
				}
			case *ssa.Send:
				if x.X == v {
					retained, why = true, "sent on a channel at "+fa.pos(x.Pos())
				}
			case *ssa.MakeClosure:
				if esc, how := fa.closureEscapes(x, 0); esc {
					retained, why = true, "captured by a closure at "+fa.pos(x.Pos())+" that "+how
				}
			case *ssa.Return:
				aliasRet = true
			case ssa.CallInstruction:
				cc := x.Common()
				if b, ok := cc.Value.(*ssa.Builtin); ok {
					if b.Name() == "append" && len(cc.Args) > 0 && cc.Args[0] == v {
						if val := x.Value(); val != nil {
							work = append(work, val)
						}
					}
					continue
				}
				// argument positions (receiver of an invoke is position 0 of the callee's params)
				var idxs []int
				off := 0
				if cc.IsInvoke() {
					off = 1
					if cc.Value == v {
						idxs = append(idxs, 0)
					}
				}
				for ai, a := range cc.Args {
					if a == v {
						idxs = append(idxs, ai+off)
					}
				}
				if len(idxs) == 0 {
					continue
				}
				callees, external := fa.callees(cc)
				if external || callees == nil {
					// standard library / dynamic function value: assumed not to retain
					// (fmt, reflect, strconv, sort ...); dynamic function values are
					// the caller-supplied rankers, which receive elements only.
					continue
				}
				for _, cal := range callees {
					cs := fa.sum[cal]
					for _, i := range idxs {
						if i < len(cs.retains) && cs.retains[i] {
							retained, why = true, "passed to "+cal.String()+" which retains it ("+cs.whyKeep[i]+")"
						}
						if i < len(cs.aliasRet) && cs.aliasRet[i] {
							if val := x.Value(); val != nil {
								work = append(work, val)
								// tuple results
								if rs := val.Referrers(); rs != nil {
									for _, r := range *rs {
										if ex, ok := r.(*ssa.Extract); ok {
											work = append(work, ex)
										}
									}
								}
							}
						}
					}
				}
			case *ssa.Extract:
				work = append(work, x)
			}
		}
	}
	return
}

// isFresh: is v allocated in this activation?
func (fa *flowAn) isFresh(v ssa.Value, seen map[ssa.Value]bool) (bool, string) {
	if seen[v] {
		return true, ""
	}
	seen[v] = true
	switch x := v.(type) {
	case *ssa.MakeSlice, *ssa.MakeMap, *ssa.MakeChan, *ssa.Const, *ssa.Function, *ssa.MakeClosure:
		return true, ""
	case *ssa.Alloc:
		// a new object; its collection-typed fields must not adopt foreign storage
		if rs := x.Referrers(); rs != nil {
			for _, r := range *rs {
				fa_, ok := r.(*ssa.FieldAddr)
				if !ok {
					continue
				}
				ft := fa_.Type().(*types.Pointer).Elem()
				if !isCollectionLike(ft) {
					continue
				}
				if frs := fa_.Referrers(); frs != nil {
					for _, fr := range *frs {
						if st, ok := fr.(*ssa.Store); ok && st.Addr == fa_ {
							if ok, why := fa.isFresh(st.Val, seen); !ok {
								return false, "a new object whose storage field is " + why
							}
						}
					}
				}
			}
		}
		return true, ""
	case *ssa.ChangeType:
		return fa.isFresh(x.X, seen)
	case *ssa.Convert:
		return fa.isFresh(x.X, seen)
	case *ssa.MakeInterface:
		return fa.isFresh(x.X, seen)
	case *ssa.ChangeInterface:
		return fa.isFresh(x.X, seen)
	case *ssa.TypeAssert:
		return fa.isFresh(x.X, seen)
	case *ssa.Slice:
		return fa.isFresh(x.X, seen)
	case *ssa.Phi:
		for _, e := range x.Edges {
			if ok, why := fa.isFresh(e, seen); !ok {
				return false, why
			}
		}
		return true, ""
	case *ssa.Extract:
		if call, ok := x.Tuple.(*ssa.Call); ok {
			return fa.callFresh(call, x.Index, seen)
		}
		if ta, ok := x.Tuple.(*ssa.TypeAssert); ok && x.Index == 0 {
			return fa.isFresh(ta.X, seen)
		}
		return false, "value extracted from " + x.Tuple.String()
	case *ssa.Call:
		return fa.callFresh(x, 0, seen)
	case *ssa.UnOp:
		if x.Op == token.MUL {
			if al, ok := x.X.(*ssa.Alloc); ok {
				// local variable: every store into it must be fresh
				if rs := al.Referrers(); rs != nil {
					for _, r := range *rs {
						if st, ok := r.(*ssa.Store); ok && st.Addr == al {
							if ok, why := fa.isFresh(st.Val, seen); !ok {
								return false, why
							}
						}
					}
				}
				return true, ""
			}
			// a field of an object that was itself made in this activation (a helper struct
			// returned by a callee whose result is fresh): what the field holds was put there while
			// the object was built, and the callee's summary vouches for it
			if fld, ok := x.X.(*ssa.FieldAddr); ok {
				if _, isParam := fld.X.(*ssa.Parameter); !isParam {
					if okObj, _ := fa.isFresh(fld.X, seen); okObj {
						if _, isCall := fld.X.(*ssa.Call); isCall {
							return true, ""
						}
					}
				}
			}
			// moved out: the old value of a field of the receiver that is replaced, in the same
			// block after the load, by a value made in this activation.  The receiver does not
			// refer to it any more; that nothing else does is the storage-owned rule's business.
			if fld, ok := x.X.(*ssa.FieldAddr); ok {
				if _, isParam := fld.X.(*ssa.Parameter); isParam && x.Block() != nil {
					after := false
					for _, ins := range x.Block().Instrs {
						if ins == ssa.Instruction(x) {
							after = true
							continue
						}
						st, ok := ins.(*ssa.Store)
						if !after || !ok {
							continue
						}
						if sf, ok := st.Addr.(*ssa.FieldAddr); ok && sf.X == fld.X && sf.Field == fld.Field {
							if okNew, _ := fa.isFresh(st.Val, seen); okNew {
								return true, ""
							}
						}
					}
				}
			}
			return false, "loaded from " + x.X.String() + " (" + x.X.Type().String() + ") at " + fa.pos(x.Pos())
		}
		return false, "unary " + x.String()
	case *ssa.Parameter:
		if fa.deps != nil && fa.curF != nil {
			for pi, p := range fa.curF.Params {
				if p == x {
					fa.deps[pi] = true // fresh iff the caller's argument is
					return true, ""
				}
			}
		}
		return false, "the parameter " + x.Name() + " itself"
	case *ssa.FreeVar:
		return false, "the captured variable " + x.Name()
	case *ssa.Global:
		return false, "the package-level variable " + x.Name()
	}
	return false, "value " + v.String() + " of unknown origin"
}

func (fa *flowAn) callFresh(call *ssa.Call, idx int, seen map[ssa.Value]bool) (bool, string) {
	cc := call.Common()
	if b, ok := cc.Value.(*ssa.Builtin); ok {
		if b.Name() == "append" && len(cc.Args) > 0 {
			return fa.isFresh(cc.Args[0], seen)
		}
		return true, ""
	}
	callees, external := fa.callees(cc)
	if external {
		// the helpers of package slices that work in place hand back (a window of) the array they
		// were given: Clip only trims the capacity, Grow returns its argument when there is room,
		// Delete, Insert, Compact and Replace move elements inside the backing array
		sc := cc.StaticCallee()
		if sc != nil && sc.Origin() != nil {
			sc = sc.Origin() // an instance of a generic function has no package of its own
		}
		if sc != nil && sc.Pkg != nil && sc.Pkg.Pkg.Path() == "slices" && len(cc.Args) > 0 {
			name := sc.Name()
			if i := strings.Index(name, "["); i > 0 {
				name = name[:i]
			}
			switch name {
			case "Clip", "Grow", "Delete", "DeleteFunc", "Insert", "Compact", "CompactFunc", "Replace":
				return fa.isFresh(cc.Args[0], seen)
			}
		}
		return true, "" // results of other standard-library calls do not alias repository collections
	}
	if callees == nil {
		// the result of calling a function handed in as a parameter is as fresh as what the
		// caller's function returns: decided at the call sites of this function
		if p, ok := cc.Value.(*ssa.Parameter); ok && !cc.IsInvoke() && fa.fnDeps != nil && fa.curF != nil {
			for pi, q := range fa.curF.Params {
				if q == p {
					fa.fnDeps[pi] = true
					return true, ""
				}
			}
		}
		return false, "result of a dynamic call " + call.String()
	}
	for _, cal := range callees {
		cs := fa.sum[cal]
		if idx < len(cs.freshRet) && !cs.freshRet[idx] {
			return false, "result of " + cal.String() + ", which returns " + cs.whyRet[idx]
		}
		// a callee may return one of its arguments
		off := 0
		if cc.IsInvoke() {
			off = 1
			if len(cs.aliasRet) > 0 && cs.aliasRet[0] {
				if ok, why := fa.isFresh(cc.Value, seen); !ok {
					return false, why
				}
			}
		}
		for ai, a := range cc.Args {
			if ai+off < len(cs.aliasRet) && cs.aliasRet[ai+off] {
				if ok, why := fa.isFresh(a, seen); !ok {
					return false, why
				}
			}
			if ai+off < len(cs.fnRet) && cs.fnRet[ai+off] {
				if ok, why := fa.fnResultFresh(a); !ok {
					return false, why
				}
			}
		}
	}
	return true, ""
}

// fnResultFresh: the results of the function value a (a closure, a function, or a function-typed
// parameter of the function being summarised) are fresh.
func (fa *flowAn) fnResultFresh(a ssa.Value) (bool, string) {
	for {
		switch x := a.(type) {
		case *ssa.ChangeType:
			a = x.X
			continue
		case *ssa.MakeClosure:
			a = x.Fn
			continue
		}
		break
	}
	switch x := a.(type) {
	case *ssa.Function:
		g := x
		if o := g.Origin(); o != nil {
			g = o
		}
		gs, ok := fa.sum[g]
		if !ok {
			if g.Pkg == nil || !strings.HasPrefix(g.Pkg.Pkg.Path(), modPath) {
				return true, ""
			}
			return false, "result of the function value " + g.String() + ", which is not summarised"
		}
		for ri, fr := range gs.freshRet {
			if !fr {
				return false, "result of " + g.String() + ", which returns " + gs.whyRet[ri]
			}
		}
		return true, ""
	case *ssa.Parameter:
		if fa.fnDeps != nil && fa.curF != nil {
			for pi, q := range fa.curF.Params {
				if q == x {
					fa.fnDeps[pi] = true
					return true, ""
				}
			}
		}
	}
	return false, "result of a dynamic call through " + a.String()
}

// describe lists the summaries (debugging aid and evidence).
func (fa *flowAn) describe() []string {
	var out []string
	for _, f := range fa.fns {
		s := fa.sum[f]
		line := f.String() + ":"
		for i, r := range s.retains {
			if r {
				line += " retains#" + string(rune('0'+i))
			}
		}
		for i, r := range s.aliasRet {
			if r {
				line += " returns-alias-of#" + string(rune('0'+i))
			}
		}
		for i, r := range s.freshRet {
			if !r {
				line += " result#" + string(rune('0'+i)) + "-not-fresh(" + s.whyRet[i] + ")"
			}
		}
		out = append(out, line)
	}
	sort.Strings(out)
	return out
}

// isCollectionLike: Go slice/map, or an interface/type offering AsArray (a Sequential collection).
func isCollectionLike(t types.Type) bool {
	switch t.Underlying().(type) {
	case *types.Slice, *types.Map:
		return true
	}
	ms := types.NewMethodSet(t)
	for i := 0; i < ms.Len(); i++ {
		if ms.At(i).Obj().Name() == "AsArray" {
			return true
		}
	}
	if _, ok := t.(*types.Pointer); !ok {
		ms = types.NewMethodSet(types.NewPointer(t))
		for i := 0; i < ms.Len(); i++ {
			if ms.At(i).Obj().Name() == "AsArray" {
				return true
			}
		}
	}
	return false
}

// ---------------------------------------------------------------- result and receiver share one allocation

// allocRoots: the allocation sites (make, new, composite literal, call result) a value is carved
// out of, looking through slicing, conversions, interface wrapping and phis.
func allocRoots(v ssa.Value, seen map[ssa.Value]bool, out map[ssa.Value]bool) {
	if v == nil || seen[v] {
		return
	}
	seen[v] = true
	switch x := v.(type) {
	case *ssa.Slice:
		allocRoots(x.X, seen, out)
	case *ssa.ChangeType:
		allocRoots(x.X, seen, out)
	case *ssa.Convert:
		allocRoots(x.X, seen, out)
	case *ssa.MakeInterface:
		allocRoots(x.X, seen, out)
	case *ssa.ChangeInterface:
		allocRoots(x.X, seen, out)
	case *ssa.TypeAssert:
		allocRoots(x.X, seen, out)
	case *ssa.Extract:
		// the results of one call are allocations of their own (inside, outside := split(...))
		if _, isCall := x.Tuple.(*ssa.Call); isCall {
			out[x] = true
		} else {
			allocRoots(x.Tuple, seen, out)
		}
	case *ssa.Phi:
		for _, e := range x.Edges {
			allocRoots(e, seen, out)
		}
	case *ssa.UnOp:
		if x.Op == token.MUL {
			// a load: of a local slot follow the stores into it, otherwise the load is opaque
			if a, ok := x.X.(*ssa.Alloc); ok && !a.Heap {
				for _, ref := range *a.Referrers() {
					if st, ok := ref.(*ssa.Store); ok && st.Addr == a {
						allocRoots(st.Val, seen, out)
					}
				}
			} else {
				// what a pointer points to belongs to the pointer's allocation (*scratch)
				allocRoots(x.X, seen, out)
			}
		}
	case *ssa.MakeSlice, *ssa.MakeMap, *ssa.Alloc:
		out[x] = true
	case *ssa.Call:
		out[x] = true
	}
}

// resultSharesWithReceiver: f returns a Go container (or a collection wrapping one) that is
// carved out of the same allocation as something f stores into a field of its receiver.
func resultSharesWithReceiver(fa *flowAn, f *ssa.Function) string {
	if f == nil || len(f.Params) == 0 || f.Signature.Recv() == nil {
		return ""
	}
	recv := f.Params[0]
	stored := map[ssa.Value]bool{}
	var storePos token.Pos
	for _, b := range f.Blocks {
		for _, ins := range b.Instrs {
			st, ok := ins.(*ssa.Store)
			if !ok {
				continue
			}
			fa2, ok := st.Addr.(*ssa.FieldAddr)
			if !ok || fa2.X != recv || !carriesStorage(st.Val.Type()) {
				continue
			}
			before := len(stored)
			allocRoots(st.Val, map[ssa.Value]bool{}, stored)
			if len(stored) > before {
				storePos = st.Pos()
			}
		}
	}
	if len(stored) == 0 {
		return ""
	}
	for _, b := range f.Blocks {
		for _, ins := range b.Instrs {
			ret, ok := ins.(*ssa.Return)
			if !ok {
				continue
			}
			for _, rv := range ret.Results {
				if !carriesStorage(rv.Type()) {
					continue
				}
				roots := map[ssa.Value]bool{}
				allocRoots(rv, map[ssa.Value]bool{}, roots)
				for root := range roots {
					if stored[root] {
						return fmt.Sprintf("the result and the value stored into the receiver at %s are carved out of one allocation (%s at %s): the sequence handed to the caller and the collection's own storage share a backing array, so a later change of one shows in the other", fa.pos(storePos), root.Name(), fa.pos(root.Pos()))
					}
				}
			}
		}
	}
	return ""
}

// localAggregate: addr is an element or field address inside a non-escaping local variable
// (array or struct); returns that variable's Alloc.
func localAggregate(addr ssa.Value) *ssa.Alloc {
	for i := 0; i < 4; i++ {
		switch x := addr.(type) {
		case *ssa.IndexAddr:
			addr = x.X
		case *ssa.FieldAddr:
			addr = x.X
		case *ssa.Alloc:
			if !x.Heap {
				switch x.Type().(*types.Pointer).Elem().Underlying().(type) {
				case *types.Array, *types.Struct:
					return x
				}
			}
			return nil
		default:
			return nil
		}
	}
	return nil
}

// closureEscapes: can the function value v (a closure, or a load of a local holding one) still
// be called after the activation that made it has returned?  Calling it, deferring it, and
// handing it to a callee that does not retain that parameter keep it inside the activation.
func (fa *flowAn) closureEscapes(v ssa.Value, depth int) (bool, string) {
	if depth > 4 {
		return true, "is passed around too deeply to follow"
	}
	rs := v.Referrers()
	if rs == nil {
		return false, ""
	}
	for _, r := range *rs {
		switch x := r.(type) {
		case *ssa.Go:
			return true, "runs in a goroutine started at " + fa.pos(x.Pos())
		case *ssa.Defer:
			continue
		case *ssa.Call:
			cc := x.Common()
			if cc.Value == v {
				continue // called here
			}
			callees, external := fa.callees(cc)
			if external || callees == nil {
				continue // standard library (sort.Slice, ...) or a dynamic callee: assumed not to keep it
			}
			off := 0
			if cc.IsInvoke() {
				off = 1
			}
			for ai, a := range cc.Args {
				if a != v {
					continue
				}
				for _, cal := range callees {
					cs := fa.sum[cal]
					if ai+off < len(cs.retains) && cs.retains[ai+off] {
						return true, "is kept by " + cal.String()
					}
				}
			}
		case *ssa.Store:
			if x.Val != v {
				continue
			}
			al, ok := x.Addr.(*ssa.Alloc)
			if !ok {
				return true, "is stored at " + fa.pos(x.Pos())
			}
			if ars := al.Referrers(); ars != nil {
				for _, ar := range *ars {
					switch y := ar.(type) {
					case *ssa.UnOp:
						if y.Op == token.MUL {
							if esc, how := fa.closureEscapes(y, depth+1); esc {
								return true, how
							}
						}
					case *ssa.MakeClosure:
						if esc, how := fa.closureEscapes(y, depth+1); esc {
							return true, how
						}
					}
				}
			}
		case *ssa.ChangeType:
			if esc, how := fa.closureEscapes(x, depth+1); esc {
				return true, how
			}
		case *ssa.DebugRef:
			continue
		default:
			return true, "is used at " + fa.pos(r.Pos()) + " in a way that is not followed"
		}
	}
	return false, ""
}
